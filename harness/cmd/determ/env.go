package main

// Builds a real istio environment (config store, ServiceEntry + memory registries, EndpointIndex,
// PushContext) from a world, in a given insertion order, and runs the real xDS generators for a
// proxy. The observable is what the generators hand to the transport: the ordered list of
// discovery.Resource{Name, Resource: Any{TypeUrl, Value}} per type.

import (
	"crypto/sha256"
	"encoding/hex"
	"math/rand"
	"sort"
	"strings"

	cluster "github.com/envoyproxy/go-control-plane/envoy/config/cluster/v3"
	corev3 "github.com/envoyproxy/go-control-plane/envoy/config/core/v3"
	listener "github.com/envoyproxy/go-control-plane/envoy/config/listener/v3"
	hcm "github.com/envoyproxy/go-control-plane/envoy/extensions/filters/network/http_connection_manager/v3"
	"google.golang.org/protobuf/proto"

	"istio.io/istio/pilot/pkg/config/memory"
	"istio.io/istio/pilot/pkg/model"
	"istio.io/istio/pilot/pkg/networking/core"
	"istio.io/istio/pilot/pkg/xds"
	v3 "istio.io/istio/pilot/pkg/xds/v3"
	clusterid "istio.io/istio/pkg/cluster"
	"istio.io/istio/pkg/config"
	"istio.io/istio/pkg/network"
	"istio.io/istio/pkg/util/sets"

	"verifharness/internal/vh"
)

// typeOrder is the order in which types are generated and compared.
var typeOrder = []string{"CDS", "EDS", "LDS", "RDS", "ECDS", "NDS"}

var typeURLs = map[string]string{
	"CDS": v3.ClusterType, "EDS": v3.EndpointType, "LDS": v3.ListenerType, "RDS": v3.RouteType,
	"ECDS": v3.ExtensionConfigurationType, "NDS": v3.NameTableType,
}

// res is one generated resource exactly as the generator returned it.
type res struct {
	Name    string
	TypeURL string
	Value   []byte
}

func (r res) digest() string {
	h := sha256.Sum256(r.Value)
	return hex.EncodeToString(h[:])
}

// genOut holds the ordered resources per type for one (state, proxy) generation.
type genOut map[string][]res

// listDigest is one SHA-256 over the ordered (name, sha256(bytes)) list of a type.
func listDigest(rs []res) string {
	h := sha256.New()
	for _, r := range rs {
		h.Write([]byte(r.Name))
		h.Write([]byte{0})
		h.Write([]byte(r.TypeURL))
		h.Write([]byte{0})
		d := sha256.Sum256(r.Value)
		h.Write(d[:])
	}
	return hex.EncodeToString(h.Sum(nil))
}

type envH struct {
	f    *vh.F
	cg   *core.ConfigGenTest
	env  *model.Environment
	gens map[string]model.XdsResourceGenerator
	npc  int
}

// buildEnv creates the environment. perm == nil keeps the canonical (generation) order; otherwise
// the creation order of config objects, the order of registry services and the order of endpoint
// shard reports are permuted. Names, namespaces, creation timestamps and resource versions are
// part of the state and never change.
func buildEnv(w *world, perm *rand.Rand) *envH {
	cfgs := append([]config.Config{}, w.Configs...)
	svcs := append([]*model.Service{}, w.Services...)
	reps := append([]epReport{}, w.Reports...)
	if perm != nil {
		perm.Shuffle(len(cfgs), func(i, j int) { cfgs[i], cfgs[j] = cfgs[j], cfgs[i] })
		perm.Shuffle(len(svcs), func(i, j int) { svcs[i], svcs[j] = svcs[j], svcs[i] })
		perm.Shuffle(len(reps), func(i, j int) { reps[i], reps[j] = reps[j], reps[i] })
	}
	f := vh.NewF()
	// objects without creationTimestamp (synthesized ones) cannot go through Create, which stamps the wall clock
	var dated, undated []config.Config
	for _, c := range cfgs {
		if c.CreationTimestamp.IsZero() {
			undated = append(undated, c)
		} else {
			dated = append(dated, c)
		}
	}
	cg := core.NewConfigGenTest(f, core.TestOptions{Configs: dated, Services: svcs, MeshConfig: w.Mesh, SkipRun: true})
	for _, c := range undated {
		if _, err := cg.Store().Create(c); err != nil {
			f.Done()
			vh.Abort("create %s/%s: %v", c.Namespace, c.Name, err)
		}
		// Update stores the object as given: no timestamp, resource version from the annotation
		u := c.DeepCopy()
		u.ResourceVersion = ""
		if u.Annotations == nil {
			u.Annotations = map[string]string{}
		}
		u.Annotations[memory.ResourceVersion] = c.ResourceVersion
		if _, err := cg.Store().Update(u); err != nil {
			f.Done()
			vh.Abort("update %s/%s: %v", c.Namespace, c.Name, err)
		}
	}
	env := cg.Env()
	for _, rep := range reps {
		if rep.ViaRegistry {
			cg.MemRegistry.SetEndpoints(rep.Host, rep.NS, rep.Eps)
		} else {
			env.EndpointIndex.UpdateServiceEndpoints(rep.Shard, rep.Host, rep.NS, rep.Eps, true)
		}
	}
	cg.Run()
	if err := env.InitNetworksManager(model.NewEndpointIndexUpdater(env.EndpointIndex)); err != nil {
		f.Done()
		vh.Abort("InitNetworksManager: %v", err)
	}
	e := &envH{f: f, cg: cg, env: env}
	e.gens = map[string]model.XdsResourceGenerator{
		"CDS":  &xds.CdsGenerator{ConfigGenerator: cg.ConfigGen},
		"LDS":  &xds.LdsGenerator{ConfigGenerator: cg.ConfigGen},
		"RDS":  &xds.RdsGenerator{ConfigGenerator: cg.ConfigGen},
		"EDS":  &xds.EdsGenerator{Cache: model.DisabledCache{}, EndpointIndex: env.EndpointIndex},
		"ECDS": &xds.EcdsGenerator{ConfigGenerator: cg.ConfigGen},
		"NDS":  &xds.NdsGenerator{ConfigGenerator: cg.ConfigGen},
	}
	e.newPushContext()
	return e
}

func (e *envH) close() { e.f.Done() }

// newPushContext computes a fresh PushContext from the environment the way
// DiscoveryServer.initPushContext does for a full push.
func (e *envH) newPushContext() *model.PushContext {
	pc := model.NewPushContext()
	pc.PushVersion = "v"
	pc.InitContext(e.env, nil, nil)
	e.env.SetPushContext(pc)
	e.npc++
	return pc
}

func localityOf(label string) *corev3.Locality {
	if label == "" {
		// istiod never leaves Proxy.Locality nil (ads.go falls back to an empty locality)
		return &corev3.Locality{}
	}
	p := strings.Split(label, "/")
	for len(p) < 3 {
		p = append(p, "")
	}
	return &corev3.Locality{Region: p[0], Zone: p[1], SubZone: p[2]}
}

func copyLabels(m map[string]string) map[string]string {
	out := make(map[string]string, len(m))
	for k, v := range m {
		out[k] = v
	}
	return out
}

// setupProxy creates a proxy as a fresh connection would and binds it to the current push context.
func (e *envH) setupProxy(pd proxyDef) *model.Proxy {
	p := &model.Proxy{
		Type:            pd.Type,
		ID:              pd.Name + "." + pd.NS,
		ConfigNamespace: pd.NS,
		IPAddresses:     []string{pd.IP},
		Labels:          copyLabels(pd.Labels),
		Locality:        localityOf(pd.Locality),
		Metadata: &model.NodeMetadata{
			Namespace:    pd.NS,
			Labels:       copyLabels(pd.Labels),
			ClusterID:    clusterid.ID(pd.Cluster),
			Network:      network.ID(pd.Network),
			IstioVersion: "1.27.0",
			DNSCapture:   model.StringBool(pd.DNS),
		},
	}
	return e.cg.SetupProxy(p)
}

// generate runs every generator once for the proxy against the current push context.
func (e *envH) generate(p *model.Proxy, pd proxyDef) genOut {
	pc := e.env.PushContext()
	req := &model.PushRequest{Forced: true, Push: pc, Reason: model.NewReasonStats(model.ProxyRequest)}
	out := genOut{}
	run := func(t string, names []string) []res {
		w := &model.WatchedResource{TypeUrl: typeURLs[t], ResourceNames: sets.New(names...)}
		rs, _, err := e.gens[t].Generate(p, w, req)
		if err != nil {
			vh.Abort("generator %s failed: %v", t, err)
		}
		o := make([]res, 0, len(rs))
		for _, r := range rs {
			if r.Resource == nil {
				o = append(o, res{Name: r.Name})
				continue
			}
			o = append(o, res{Name: r.Name, TypeURL: r.Resource.TypeUrl, Value: r.Resource.Value})
		}
		return o
	}
	out["CDS"] = run("CDS", nil)
	out["EDS"] = run("EDS", edsNames(out["CDS"]))
	out["LDS"] = run("LDS", nil)
	rds, ecds := listenerRefs(out["LDS"])
	out["RDS"] = run("RDS", rds)
	if len(ecds) > 0 {
		out["ECDS"] = run("ECDS", ecds)
	}
	if pd.DNS && pd.Type == model.SidecarProxy {
		out["NDS"] = run("NDS", nil)
	}
	out[scopeKey] = []res{{Name: proxyKind(p)}}
	return out
}

// scopeKey is a pseudo type under which a generation records which code path built it.
const scopeKey = "_proxy-kind"

// proxyKind distinguishes the generation paths: router, sidecar with the default scope, sidecar
// whose scope comes from a Sidecar resource. It is part of the violation key.
func proxyKind(p *model.Proxy) string {
	if p.Type != model.SidecarProxy {
		return string(p.Type)
	}
	if p.SidecarScope != nil && p.SidecarScope.Sidecar != nil {
		return "sidecar+Sidecar"
	}
	return "sidecar"
}

func (g genOut) kind() string {
	if r := g[scopeKey]; len(r) == 1 {
		return r[0].Name
	}
	return "?"
}

// edsNames lists the EDS service names of the generated clusters, sorted and distinct: the
// subscription a client would send is a set.
func edsNames(cds []res) []string {
	seen := map[string]bool{}
	for _, r := range cds {
		c := &cluster.Cluster{}
		if proto.Unmarshal(r.Value, c) != nil {
			continue
		}
		if c.GetType() == cluster.Cluster_EDS {
			n := c.GetEdsClusterConfig().GetServiceName()
			if n == "" {
				n = c.Name
			}
			seen[n] = true
		}
	}
	return sortedKeys(seen)
}

// listenerRefs lists the RDS route names and ECDS config names referenced by the listeners.
func listenerRefs(lds []res) (rds, ecds []string) {
	r, e := map[string]bool{}, map[string]bool{}
	for _, x := range lds {
		l := &listener.Listener{}
		if proto.Unmarshal(x.Value, l) != nil {
			continue
		}
		chains := append([]*listener.FilterChain{}, l.FilterChains...)
		if l.DefaultFilterChain != nil {
			chains = append(chains, l.DefaultFilterChain)
		}
		for _, fc := range chains {
			for _, fl := range fc.Filters {
				if cd := fl.GetConfigDiscovery(); cd != nil {
					e[fl.Name] = true
				}
				tc := fl.GetTypedConfig()
				if tc == nil || !strings.HasSuffix(tc.TypeUrl, "HttpConnectionManager") {
					continue
				}
				h := &hcm.HttpConnectionManager{}
				if proto.Unmarshal(tc.Value, h) != nil {
					continue
				}
				if rd := h.GetRds(); rd != nil {
					r[rd.RouteConfigName] = true
				}
				for _, hf := range h.HttpFilters {
					if hf.GetConfigDiscovery() != nil {
						e[hf.Name] = true
					}
				}
			}
		}
	}
	return sortedKeys(r), sortedKeys(e)
}

func sortedKeys(m map[string]bool) []string {
	out := make([]string, 0, len(m))
	for k := range m {
		out = append(out, k)
	}
	sort.Strings(out)
	return out
}
