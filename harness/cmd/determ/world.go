package main

// World generator for C17. A world is a *state*: configuration objects (with explicit creation
// timestamps, names and resource versions), registry services, endpoint shard reports, mesh
// config and the proxies that ask for configuration. Everything random comes from the *rand.Rand
// handed in and no Go map is iterated while drawing, so genWorld(seed) is a pure function: the
// child, its permuted environments and the helper processes all rebuild the identical state.
//
// The grammar is biased to TIE-RICH shapes (recorded in world.Shapes): equal creation
// timestamps between competing objects, one hostname exported from several namespaces, several
// DestinationRules / VirtualServices / Gateways / policies claiming one host or workload, match
// blocks with >= 2 header / withoutHeaders / queryParams / JWT-claim matchers, endpoints in
// many shards and localities.

import (
	"fmt"
	"math/rand"
	"sort"
	"strings"
	"time"

	"google.golang.org/protobuf/types/known/durationpb"
	"google.golang.org/protobuf/types/known/structpb"
	wrappers "google.golang.org/protobuf/types/known/wrapperspb"

	extensions "istio.io/api/extensions/v1alpha1"
	meshconfig "istio.io/api/mesh/v1alpha1"
	networking "istio.io/api/networking/v1alpha3"
	security "istio.io/api/security/v1beta1"
	telemetry "istio.io/api/telemetry/v1alpha1"
	typev1beta1 "istio.io/api/type/v1beta1"
	"istio.io/istio/pilot/pkg/model"
	"istio.io/istio/pilot/pkg/serviceregistry/provider"
	"istio.io/istio/pkg/cluster"
	"istio.io/istio/pkg/config"
	"istio.io/istio/pkg/config/host"
	"istio.io/istio/pkg/config/mesh"
	"istio.io/istio/pkg/config/protocol"
	"istio.io/istio/pkg/config/schema/collections"
	"istio.io/istio/pkg/config/schema/gvk"
	"istio.io/istio/pkg/config/visibility"
	"istio.io/istio/pkg/network"
	"istio.io/istio/pkg/util/sets"
)

const rootNS = "istio-system"

var (
	appNamespaces = []string{"ns1", "ns2", "ns3"}
	baseTime      = time.Date(2024, 3, 1, 12, 0, 0, 0, time.UTC)
	localities    = []string{"r1/z1/s1", "r1/z1/s2", "r1/z2/s1", "r2/z1/s1", "r2/z2/s1", ""}
	networksPool  = []string{"", "", "n1", "n2"}
	versions      = []string{"v1", "v2", "v3"}
	seHostPool    = []string{"a.example.com", "b.example.com", "c.example.com", "api.corp.internal", "*.wild.example.com"}
	k8sNames      = []string{"web", "db", "cache", "auth"}
	gwHostPool    = []string{"shop.example.org", "api.example.org", "*.example.org", "front.example.com", "*"}
	claimHeaders  = []string{"@request.auth.claims.groups", "@request.auth.claims.sub", "@request.auth.claims.iss", "@request.auth.claims.realm.role"}
	headerNames   = []string{"x-user", "x-env", "x-canary", "end-user", "x-b3-sampled", "cookie"}
	queryNames    = []string{"q", "page", "debug", "ver", "lang"}
	literalValues = []string{"alice", "bob", "prod", "true", "1", "v2"}
	regexValues   = []string{"a.*", "(alice|bob)", "[0-9]+", "^t.*"}
	// a syntactically valid JWKS so that RequestAuthentication never needs the network
	inlineJwks = `{"keys":[{"e":"AQAB","kid":"k1","kty":"RSA","n":"xAE7eB6qugXyCAG3yhh7pkDkT65pHymX-P7KfIupjf59vsdo91bSP9C8H07pSAGQO1MV_xFj9VswgsCg4R6otmg5PV2He95lZdHtOcU5DXIg_pbhLdKXbi66GlVeK6ABZOUW3WYtnNHD-91gVuoeJT_DwtGGcp4ignkgXfkiEm4sw-4sfb4qdt5oLbyVpmW6x9cfa7vs2WTfURiCrBoUqgBo_-4WTiULmmHSGZHOjzwa8WtrtOQGsAFjIbno85jp6MnGGGZPYZbDAa_b3y5u-YpW7ypZrvD8BgtKVjgtQgZhLAGezMt0ua3DRrWnKqTZ0BJ_EyxOGuHJrLsn00fnMQ"}]}`
)

// ---------------------------------------------------------------------------------------

type epReport struct {
	Shard       model.ShardKey
	Host        string
	NS          string
	Eps         []*model.IstioEndpoint
	ViaRegistry bool // reported through the memory registry (also feeds proxy service targets)
}

type proxyDef struct {
	Name     string
	Type     model.NodeType
	NS       string
	IP       string
	Labels   map[string]string
	Cluster  string
	Network  string
	Locality string
	DNS      bool
}

type world struct {
	Mesh     *meshconfig.MeshConfig
	Configs  []config.Config
	Services []*model.Service
	Reports  []epReport
	Proxies  []proxyDef
	Shapes   []string
	Rejected map[string]int
	KindN    map[string]int
	// AmbSvc marks the stratum of worlds that may contain services which tie on (creation time,
	// hostname, namespace): a ServiceEntry with several addresses, or two ServiceEntries of one
	// namespace declaring one host at the same second. Which of them owns the hostname then decides
	// dozens of fields, so violations in these worlds carry the stratum in their key.
	AmbSvc bool
	// Ties lists hostnames / addresses whose owner is decided by a tie (see tieTokens).
	Ties []tieToken

	r         *rand.Rand
	names     map[string]bool
	usedNames map[string][]string // prefix -> names drawn so far (any namespace)
	svcs      []svcInfo           // every hostname that exists, for destinations
	gwNames   []string            // ns/name of generated Gateways
	multiNS   string              // hostname planted in several namespaces with equal timestamps
	dnsEps    bool                // some DNS ServiceEntry has endpoints
	p2NS      string              // namespace of the second sidecar proxy (drawn first so that shapes can be planted around it)
}

type svcInfo struct {
	Host    string
	NS      string
	Ports   []int // http-capable ports first
	TCP     []int
	Subsets []string
}

func pick[T any](r *rand.Rand, xs []T) T { return xs[r.Intn(len(xs))] }
func chance(r *rand.Rand, pct int) bool  { return r.Intn(100) < pct }

func (w *world) shape(s string) {
	for _, x := range w.Shapes {
		if x == s {
			return
		}
	}
	w.Shapes = append(w.Shapes, s)
}

// ts draws a creation timestamp from a tiny range so that ties are the rule.
func (w *world) ts() time.Time {
	return baseTime.Add(time.Duration(pick(w.r, []int{0, 0, 0, 0, 1, 1, 2, 5})) * time.Second)
}

// name draws an object name whose lexical order is unrelated to creation order.
func (w *world) name(prefix, ns string) string {
	// Names repeat across namespaces in real meshes ("reviews" in team-a and team-b): in a third of the draws reuse a
	// name this kind already has in ANOTHER namespace, so that (creation time, name) ties between namespaces occur
	// and only the namespace can break them.
	if used := w.usedNames[prefix]; len(used) > 0 && w.r.Intn(3) == 0 {
		n := used[w.r.Intn(len(used))]
		if k := prefix + "/" + ns + "/" + n; !w.names[k] {
			w.names[k] = true
			return n
		}
	}
	for {
		n := fmt.Sprintf("%s-%s%d", prefix, string(rune('a'+w.r.Intn(26))), w.r.Intn(10))
		k := prefix + "/" + ns + "/" + n
		if !w.names[k] {
			w.names[k] = true
			if w.usedNames == nil {
				w.usedNames = map[string][]string{}
			}
			w.usedNames[prefix] = append(w.usedNames[prefix], n)
			return n
		}
	}
}

func (w *world) add(kind config.GroupVersionKind, name, ns string, t time.Time, spec config.Spec) bool {
	cfg := config.Config{
		Meta: config.Meta{
			GroupVersionKind:  kind,
			Name:              name,
			Namespace:         ns,
			CreationTimestamp: t,
			ResourceVersion:   "1",
			Domain:            "cluster.local",
		},
		Spec: spec,
	}
	s, ok := collections.Pilot.FindByGroupVersionKind(kind)
	if !ok {
		panic("unknown kind " + kind.String())
	}
	if _, err := s.ValidateConfig(cfg); err != nil {
		w.Rejected[kind.Kind]++
		if debugGen {
			fmt.Printf("rejected %s %s/%s: %v\n", kind.Kind, ns, name, err)
		}
		return false
	}
	w.KindN[kind.Kind]++
	w.Configs = append(w.Configs, cfg)
	return true
}

var debugGen = false

func genWorld(r *rand.Rand) *world {
	w := &world{r: r, names: map[string]bool{}, Rejected: map[string]int{}, KindN: map[string]int{}}
	w.AmbSvc = chance(r, 25)
	w.p2NS = pick(r, []string{"ns2", "ns3", "ns3"})
	w.genMesh()
	w.genRegistryServices()
	w.genServiceEntries()
	w.genGateways()
	w.genDestinationRules()
	w.genVirtualServices()
	w.genSidecars()
	w.genPeerAuthn()
	w.genRequestAuthn()
	w.genAuthz()
	w.genTelemetry()
	w.genEnvoyFilters()
	w.genExtensions()
	w.genProxies()
	w.Ties = tieTokens(w.Configs)
	sort.Strings(w.Shapes)
	return w
}

// tieToken attributes a hostname or address to a known tie between services:
//   - service-tie: several services share (creation time, hostname, namespace) - a ServiceEntry with
//     several addresses, or several ServiceEntries of one namespace declaring the host at the same second;
//   - namespace-tie: ServiceEntries of several namespaces declare the host at the same second.
//
// Which service then owns the hostname decides dozens of fields of every resource built for it, so a
// difference that mentions such a token carries the cause in its violation key (see runner.compare).
type tieToken struct {
	Token string
	Cause string
}

func tieTokens(cfgs []config.Config) []tieToken {
	type occ struct {
		ns    string
		t     time.Time
		addrs []string
	}
	byHost := map[string][]occ{}
	var hosts []string
	for _, c := range cfgs {
		se, ok := c.Spec.(*networking.ServiceEntry)
		if !ok {
			continue
		}
		for _, h := range se.Hosts {
			if _, ok := byHost[h]; !ok {
				hosts = append(hosts, h)
			}
			byHost[h] = append(byHost[h], occ{c.Namespace, c.CreationTimestamp, se.Addresses})
		}
	}
	var out []tieToken
	for _, h := range hosts {
		os := byHost[h]
		cause := ""
		for i, a := range os {
			if len(a.addrs) >= 2 {
				cause = "service-tie"
			}
			for _, b := range os[i+1:] {
				if a.ns == b.ns && a.t.Equal(b.t) {
					cause = "service-tie"
				}
				if a.ns != b.ns && a.t.Equal(b.t) && cause == "" {
					cause = "namespace-tie"
				}
			}
		}
		if cause == "" {
			continue
		}
		out = append(out, tieToken{strings.TrimPrefix(h, "*"), cause})
		for _, a := range os {
			for _, ad := range a.addrs {
				out = append(out, tieToken{ad, cause})
			}
		}
	}
	return out
}

// ---------------------------------------------------------------------------------------
// mesh config

func (w *world) genMesh() {
	r := w.r
	m := mesh.DefaultMeshConfig()
	m.RootNamespace = rootNS
	m.TrustDomain = "cluster.local"
	if chance(r, 40) {
		m.TrustDomainAliases = []string{"old.example", "older.example"}
	}
	if chance(r, 25) {
		m.OutboundTrafficPolicy = &meshconfig.MeshConfig_OutboundTrafficPolicy{Mode: meshconfig.MeshConfig_OutboundTrafficPolicy_REGISTRY_ONLY}
	}
	if chance(r, 30) {
		m.AccessLogFile = "/dev/stdout"
	}
	m.ExtensionProviders = append(m.ExtensionProviders,
		&meshconfig.MeshConfig_ExtensionProvider{Name: "file-a", Provider: &meshconfig.MeshConfig_ExtensionProvider_EnvoyFileAccessLog{
			EnvoyFileAccessLog: &meshconfig.MeshConfig_ExtensionProvider_EnvoyFileAccessLogProvider{Path: "/var/log/a.log"}}},
		&meshconfig.MeshConfig_ExtensionProvider{Name: "file-b", Provider: &meshconfig.MeshConfig_ExtensionProvider_EnvoyFileAccessLog{
			EnvoyFileAccessLog: &meshconfig.MeshConfig_ExtensionProvider_EnvoyFileAccessLogProvider{Path: "/var/log/b.log",
				LogFormat: &meshconfig.MeshConfig_ExtensionProvider_EnvoyFileAccessLogProvider_LogFormat{
					LogFormat: &meshconfig.MeshConfig_ExtensionProvider_EnvoyFileAccessLogProvider_LogFormat_Labels{
						Labels: &structpb.Struct{Fields: map[string]*structpb.Value{
							"start":  structpb.NewStringValue("%START_TIME%"),
							"method": structpb.NewStringValue("%REQ(:METHOD)%"),
							"path":   structpb.NewStringValue("%REQ(X-ENVOY-ORIGINAL-PATH?:PATH)%"),
							"code":   structpb.NewStringValue("%RESPONSE_CODE%"),
						}}}}}}},
		&meshconfig.MeshConfig_ExtensionProvider{Name: "zipkin-a", Provider: &meshconfig.MeshConfig_ExtensionProvider_Zipkin{
			Zipkin: &meshconfig.MeshConfig_ExtensionProvider_ZipkinTracingProvider{Service: "web.ns1.svc.cluster.local", Port: 8080}}},
		&meshconfig.MeshConfig_ExtensionProvider{Name: "authz-http", Provider: &meshconfig.MeshConfig_ExtensionProvider_EnvoyExtAuthzHttp{
			EnvoyExtAuthzHttp: &meshconfig.MeshConfig_ExtensionProvider_EnvoyExternalAuthorizationHttpProvider{
				Service: "auth.ns2.svc.cluster.local", Port: 8080,
				IncludeRequestHeadersInCheck: []string{"x-user", "authorization"},
				IncludeAdditionalHeadersInCheck: map[string]string{
					"x-auth-a": "1", "x-auth-b": "2", "x-auth-c": "3",
				},
				HeadersToUpstreamOnAllow: []string{"x-ok"},
			}}},
	)
	if chance(r, 30) {
		m.DefaultProviders = &meshconfig.MeshConfig_DefaultProviders{AccessLogging: []string{"file-a", "file-b"}, Metrics: []string{"prometheus"}}
	}
	if chance(r, 30) {
		m.ServiceSettings = []*meshconfig.MeshConfig_ServiceSettings{{
			Settings: &meshconfig.MeshConfig_ServiceSettings_Settings{ClusterLocal: true},
			Hosts:    []string{"db.ns1.svc.cluster.local", "*.ns3.svc.cluster.local"},
		}}
	}
	if chance(r, 30) {
		m.LocalityLbSetting = &networking.LocalityLoadBalancerSetting{
			Failover: []*networking.LocalityLoadBalancerSetting_Failover{{From: "r1", To: "r2"}, {From: "r2", To: "r1"}},
		}
	}
	w.Mesh = m
}

// ---------------------------------------------------------------------------------------
// registry services (Kubernetes-like, in the memory registry) and their endpoint shards

func (w *world) genRegistryServices() {
	r := w.r
	n := 3 + r.Intn(4)
	seen := map[string]bool{}
	ipSeq := 0
	for len(w.Services) < n {
		name := pick(r, k8sNames)
		ns := pick(r, appNamespaces)
		h := fmt.Sprintf("%s.%s.svc.cluster.local", name, ns)
		if seen[h] {
			continue
		}
		seen[h] = true
		idx := len(w.Services)
		svc := &model.Service{
			Hostname:       host.Name(h),
			DefaultAddress: fmt.Sprintf("10.96.%d.%d", idx, 1+r.Intn(200)),
			Resolution:     model.ClientSideLB,
			CreationTime:   w.ts(),
			Attributes: model.ServiceAttributes{
				Name: name, Namespace: ns, ServiceRegistry: provider.Kubernetes,
				Labels: map[string]string{"app": name},
			},
		}
		headless := chance(r, 25)
		if headless {
			svc.DefaultAddress = "0.0.0.0"
			svc.Resolution = model.Passthrough
			w.shape("registry:headless-multiport")
		}
		if chance(r, 25) {
			svc.Attributes.ExportTo = sets.New(visibility.Instance(pick(r, []string{".", "*", "ns2", "ns3"})))
			if chance(r, 50) {
				svc.Attributes.ExportTo.Insert(visibility.Instance(pick(r, []string{"ns1", "ns2"})))
			}
		}
		if chance(r, 30) {
			svc.ServiceAccounts = []string{"spiffe://cluster.local/ns/" + ns + "/sa/z", "spiffe://cluster.local/ns/" + ns + "/sa/a", "spiffe://old.example/ns/" + ns + "/sa/m"}
		}
		if chance(r, 20) {
			svc.Attributes.TrafficDistribution = model.TrafficDistributionPreferSameZone
		}
		if chance(r, 40) {
			svc.ClusterVIPs.SetAddressesFor(cluster.ID("c2"), []string{fmt.Sprintf("10.97.%d.1", idx)})
			svc.ClusterVIPs.SetAddressesFor(cluster.ID("Mock"), []string{svc.DefaultAddress})
			w.shape("registry:multi-cluster-vips")
		}
		info := svcInfo{Host: h, NS: ns, Subsets: []string{"v1", "v2"}}
		portSets := [][]struct {
			n int
			p protocol.Instance
			s string
		}{
			{{80, protocol.HTTP, "http"}},
			{{80, protocol.HTTP, "http"}, {8080, protocol.HTTP, "http-alt"}},
			{{80, protocol.HTTP, "http"}, {9000, protocol.TCP, "tcp"}},
			{{8080, protocol.HTTP, "http-alt"}, {443, protocol.HTTPS, "https"}, {9000, protocol.TCP, "tcp"}},
			{{7070, protocol.GRPC, "grpc"}, {80, protocol.Unsupported, "auto"}},
		}
		ps := pick(r, portSets)
		for _, p := range ps {
			svc.Ports = append(svc.Ports, &model.Port{Name: p.s, Port: p.n, Protocol: p.p})
			if p.p.IsHTTP() || p.p == protocol.Unsupported {
				info.Ports = append(info.Ports, p.n)
			} else {
				info.TCP = append(info.TCP, p.n)
			}
		}
		w.Services = append(w.Services, svc)
		w.svcs = append(w.svcs, info)

		// endpoint shards: the registry's own shard plus 1-3 remote ones, many localities
		shards := []model.ShardKey{{Cluster: "Mock", Provider: provider.Mock}}
		extra := []model.ShardKey{
			{Cluster: "c2", Provider: provider.Kubernetes}, {Cluster: "c3", Provider: provider.Kubernetes},
			{Cluster: "c2", Provider: provider.External}, {Cluster: "Mock", Provider: provider.Kubernetes},
		}
		r.Shuffle(len(extra), func(i, j int) { extra[i], extra[j] = extra[j], extra[i] })
		shards = append(shards, extra[:1+r.Intn(3)]...)
		if len(shards) >= 3 {
			w.shape("endpoints:>=3-shards")
		}
		locSeen := map[string]bool{}
		for si, sh := range shards {
			k := 1 + r.Intn(4)
			var eps []*model.IstioEndpoint
			for e := 0; e < k; e++ {
				ipSeq++
				p := pick(r, ps)
				loc := pick(r, localities)
				locSeen[loc] = true
				ep := &model.IstioEndpoint{
					Addresses:       []string{fmt.Sprintf("10.%d.%d.%d", 10+si, ipSeq/250, ipSeq%250+1)},
					ServicePortName: p.s,
					EndpointPort:    uint32(p.n + 1000),
					Labels:          map[string]string{"app": name, "version": pick(r, versions)},
					Namespace:       ns,
					WorkloadName:    fmt.Sprintf("%s-%d", name, ipSeq),
					ServiceAccount:  "spiffe://cluster.local/ns/" + ns + "/sa/" + name,
					Network:         network.ID(pick(r, networksPool)),
					Locality:        model.Locality{Label: loc, ClusterID: sh.Cluster},
					LbWeight:        uint32(r.Intn(3)),
					HealthStatus:    pick(r, []model.HealthStatus{model.Healthy, model.Healthy, model.Healthy, model.UnHealthy}),
					TLSMode:         pick(r, []string{model.IstioMutualTLSModeLabel, model.DisabledTLSModeLabel}),
				}
				if headless {
					ep.HostName = fmt.Sprintf("%s-%d", name, e)
					ep.SubDomain = name
				}
				eps = append(eps, ep)
				// the same workload often backs every port of the service
				if len(ps) > 1 && chance(r, 50) {
					q := pick(r, ps)
					if q.s != p.s {
						cp := *ep
						cp.ServicePortName = q.s
						cp.EndpointPort = uint32(q.n + 1000)
						eps = append(eps, &cp)
					}
				}
			}
			w.Reports = append(w.Reports, epReport{Shard: sh, Host: h, NS: ns, Eps: eps, ViaRegistry: si == 0})
		}
		if len(locSeen) >= 3 {
			w.shape("endpoints:>=3-localities")
		}
	}
	// equal creation time between registry services
	for i := range w.Services {
		for j := i + 1; j < len(w.Services); j++ {
			if w.Services[i].CreationTime.Equal(w.Services[j].CreationTime) {
				w.shape("registry:equal-creation-time")
			}
		}
	}
}

// ---------------------------------------------------------------------------------------
// ServiceEntries

func sePorts(r *rand.Rand) ([]*networking.ServicePort, []int, []int) {
	sets := [][]*networking.ServicePort{
		{{Number: 80, Protocol: "HTTP", Name: "http"}},
		{{Number: 80, Protocol: "HTTP", Name: "http"}, {Number: 443, Protocol: "TLS", Name: "tls"}},
		{{Number: 8080, Protocol: "HTTP", Name: "http-alt"}, {Number: 80, Protocol: "HTTP", Name: "http"}},
		{{Number: 443, Protocol: "HTTPS", Name: "https"}, {Number: 9000, Protocol: "TCP", Name: "tcp"}},
		{{Number: 80, Protocol: "HTTP", Name: "http"}, {Number: 9000, Protocol: "TCP", Name: "tcp"}, {Number: 7070, Protocol: "GRPC", Name: "grpc"}},
	}
	ps := pick(r, sets)
	var h, t []int
	for _, p := range ps {
		if p.Protocol == "HTTP" || p.Protocol == "GRPC" {
			h = append(h, int(p.Number))
		} else {
			t = append(t, int(p.Number))
		}
	}
	return ps, h, t
}

func (w *world) genServiceEntries() {
	r := w.r
	n := 3 + r.Intn(4)
	type seRec struct {
		hosts []string
		ns    string
		t     time.Time
	}
	var recs []seRec
	vipSeq := 0
	mk := func(hosts []string, ns string, t time.Time) {
		ports, hp, tp := sePorts(r)
		se := &networking.ServiceEntry{Hosts: hosts, Ports: ports}
		wild := false
		for _, h := range hosts {
			if strings.HasPrefix(h, "*") {
				wild = true
			}
		}
		switch {
		case wild:
			se.Resolution = pick(r, []networking.ServiceEntry_Resolution{networking.ServiceEntry_NONE, networking.ServiceEntry_STATIC})
		default:
			se.Resolution = pick(r, []networking.ServiceEntry_Resolution{networking.ServiceEntry_STATIC, networking.ServiceEntry_STATIC,
				networking.ServiceEntry_DNS, networking.ServiceEntry_DNS_ROUND_ROBIN, networking.ServiceEntry_NONE})
		}
		se.Location = pick(r, []networking.ServiceEntry_Location{networking.ServiceEntry_MESH_EXTERNAL, networking.ServiceEntry_MESH_INTERNAL})
		for _, x := range recs {
			for _, h := range hosts {
				for _, g := range x.hosts {
					if h == g && x.ns == ns && x.t.Equal(t) {
						if w.AmbSvc {
							w.shape("serviceentry:same-host-same-ns-equal-ts")
						} else {
							t = t.Add(time.Duration(10+len(recs)) * time.Second)
						}
					}
				}
			}
		}
		if chance(r, 60) {
			vipSeq++
			se.Addresses = []string{fmt.Sprintf("10.200.%d.%d", len(recs), vipSeq)}
			if w.AmbSvc && chance(r, 40) {
				vipSeq++
				se.Addresses = append(se.Addresses, fmt.Sprintf("10.201.%d.%d", len(recs), vipSeq))
				w.shape("serviceentry:several-addresses")
			}
		}
		useSelector := false
		switch se.Resolution {
		case networking.ServiceEntry_STATIC:
			if chance(r, 25) {
				useSelector = true
				se.WorkloadSelector = &networking.WorkloadSelector{Labels: map[string]string{"app": "we-" + ns}}
			} else {
				k := 2 + r.Intn(4)
				for e := 0; e < k; e++ {
					vipSeq++
					we := &networking.WorkloadEntry{
						Address:  fmt.Sprintf("172.16.%d.%d", len(recs), vipSeq%250+1),
						Labels:   map[string]string{"version": pick(r, versions), "app": "ext"},
						Locality: pick(r, localities),
						Network:  pick(r, networksPool),
						Weight:   uint32(r.Intn(3)),
					}
					if chance(r, 50) {
						we.Ports = map[string]uint32{}
						for _, p := range ports {
							we.Ports[p.Name] = p.Number + 10000
						}
					}
					if chance(r, 30) {
						we.ServiceAccount = pick(r, []string{"sa-z", "sa-a"})
					}
					se.Endpoints = append(se.Endpoints, we)
				}
				w.shape("serviceentry:static-endpoints-multi-locality")
			}
		case networking.ServiceEntry_DNS, networking.ServiceEntry_DNS_ROUND_ROBIN:
			if chance(r, 50) && !wild {
				k := 1 + r.Intn(3)
				if se.Resolution == networking.ServiceEntry_DNS_ROUND_ROBIN {
					k = 1
				}
				// one locality per DNS ServiceEntry: endpoints of a DNS cluster in >= 2 localities together with a
				// DestinationRule failoverPriority panic in loadbalancer.applyFailoverPriorityPerLocality
				// (index out of range; reported as a side finding, it is C14's business, not C17's)
				w.dnsEps = true
				dnsLoc := pick(r, localities)
				for e := 0; e < k; e++ {
					se.Endpoints = append(se.Endpoints, &networking.WorkloadEntry{
						Address: fmt.Sprintf("ep%d.upstream.example.net", e), Locality: dnsLoc,
						Labels: map[string]string{"version": pick(r, versions)},
					})
				}
			}
		}
		if chance(r, 35) {
			se.ExportTo = [][]string{{"."}, {"*"}, {"ns1", "ns2"}, {"ns3", "."}, {"ns2", "ns3", "ns1"}}[r.Intn(5)]
		}
		if chance(r, 25) {
			se.SubjectAltNames = []string{"spiffe://cluster.local/ns/x/sa/z", "spiffe://cluster.local/ns/x/sa/a", "san.example.com"}
		}
		if !w.add(gvk.ServiceEntry, w.name("se", ns), ns, t, se) {
			return
		}
		recs = append(recs, seRec{hosts: hosts, ns: ns, t: t})
		for _, h := range hosts {
			if !strings.HasPrefix(h, "*") {
				w.svcs = append(w.svcs, svcInfo{Host: h, NS: ns, Ports: hp, TCP: tp, Subsets: []string{"v1", "v2"}})
			}
		}
		if useSelector {
			k := 2 + r.Intn(3)
			for e := 0; e < k; e++ {
				vipSeq++
				we := &networking.WorkloadEntry{
					Address:  fmt.Sprintf("172.17.%d.%d", len(recs), vipSeq%250+1),
					Labels:   map[string]string{"app": "we-" + ns, "version": pick(r, versions)},
					Locality: pick(r, localities),
					Network:  pick(r, networksPool),
					Weight:   uint32(r.Intn(3)),
				}
				w.add(gvk.WorkloadEntry, w.name("we", ns), ns, w.ts(), we)
			}
			w.shape("serviceentry:workload-selector+workloadentries")
		}
	}
	// planted: one hostname exported from >= 2 namespaces with equal creation timestamps
	if chance(r, 80) {
		h := pick(r, seHostPool[:4])
		t := w.ts()
		nss := append([]string{}, appNamespaces...)
		r.Shuffle(len(nss), func(i, j int) { nss[i], nss[j] = nss[j], nss[i] })
		k := 2 + r.Intn(2)
		if k == 2 && chance(r, 70) {
			// the two namespaces the second sidecar does not live in: it sees the host only from elsewhere
			nss = nil
			for _, ns := range appNamespaces {
				if ns != w.p2NS {
					nss = append(nss, ns)
				}
			}
		}
		for _, ns := range nss[:k] {
			mk([]string{h}, ns, t)
		}
		w.multiNS = h
		w.shape("serviceentry:same-host-multi-ns-equal-ts")
	}
	for len(recs) < n {
		hosts := []string{pick(r, seHostPool)}
		if chance(r, 30) {
			h2 := pick(r, seHostPool)
			if h2 != hosts[0] {
				hosts = append(hosts, h2)
			}
		}
		if chance(r, 15) {
			// decorate a registry service (collision between registries)
			hosts = []string{string(pick(r, w.Services).Hostname)}
			w.shape("serviceentry:collides-with-registry-service")
		}
		before := len(recs)
		mk(hosts, pick(r, appNamespaces), w.ts())
		if len(recs) == before {
			n-- // rejected by validation: do not loop forever
		}
	}
	for i := range recs {
		for j := i + 1; j < len(recs); j++ {
			for _, h := range recs[i].hosts {
				for _, g := range recs[j].hosts {
					if h == g && recs[i].ns == recs[j].ns {
						w.shape("serviceentry:same-host-same-ns")
					}
					if h == g && recs[i].ns != recs[j].ns && !recs[i].t.Equal(recs[j].t) {
						w.shape("serviceentry:same-host-multi-ns")
					}
				}
			}
		}
	}
}

// ---------------------------------------------------------------------------------------
// Gateways

func (w *world) genGateways() {
	r := w.r
	n := 2 + r.Intn(3)
	// A quarter of the worlds are gateway-dense and carry Gateways WITHOUT a creationTimestamp next to dated ones, as the
	// Ingress controller synthesizes them (pilot/pkg/config/kube/ingress: the Gateway of an Ingress has no timestamp).
	synth := chance(r, 25)
	if synth {
		n = 4 + r.Intn(2)
		w.shape("gateway:without-creation-timestamp")
	}
	type claim struct {
		port uint32
		host string
		t    time.Time
	}
	var claims []claim
	for i := 0; i < n; i++ {
		ns := pick(r, []string{rootNS, rootNS, "ns1"})
		g := &networking.Gateway{Selector: map[string]string{"istio": "ingressgateway"}}
		if chance(r, 15) {
			g.Selector = map[string]string{"istio": "other"}
		}
		t := w.ts()
		if synth {
			t = baseTime.Add(time.Duration(r.Intn(6)) * time.Second)
			if i == 0 || chance(r, 30) {
				t = time.Time{}
			}
		}
		ns2 := 1 + r.Intn(3)
		for s := 0; s < ns2; s++ {
			srv := &networking.Server{}
			hostN := 1 + r.Intn(2)
			for k := 0; k < hostN; k++ {
				h := pick(r, gwHostPool)
				switch r.Intn(5) {
				case 0:
					h = "*/" + h
				case 1:
					h = pick(r, appNamespaces) + "/" + h
				case 2:
					if h != "*" {
						h = "./" + h
					}
				}
				if h == "*/*" {
					h = "*" // known crash (other engine's finding) avoided
				}
				dup := false
				for _, x := range srv.Hosts {
					if x == h {
						dup = true
					}
				}
				if !dup {
					srv.Hosts = append(srv.Hosts, h)
				}
			}
			switch r.Intn(6) {
			case 0, 1, 2:
				srv.Port = &networking.Port{Number: pick(r, []uint32{80, 8080}), Protocol: "HTTP", Name: fmt.Sprintf("http-%d-%d", i, s)}
			case 3:
				srv.Port = &networking.Port{Number: 443, Protocol: "HTTPS", Name: fmt.Sprintf("https-%d-%d", i, s)}
				srv.Tls = &networking.ServerTLSSettings{Mode: networking.ServerTLSSettings_SIMPLE, CredentialName: pick(r, []string{"cred-a", "cred-b"})}
				if chance(r, 40) {
					srv.Tls.CipherSuites = []string{"ECDHE-RSA-AES256-GCM-SHA384", "ECDHE-RSA-AES128-GCM-SHA256"}
				}
			case 4:
				srv.Port = &networking.Port{Number: 443, Protocol: "TLS", Name: fmt.Sprintf("tls-%d-%d", i, s)}
				srv.Tls = &networking.ServerTLSSettings{Mode: networking.ServerTLSSettings_PASSTHROUGH}
			default:
				srv.Port = &networking.Port{Number: pick(r, []uint32{9000, 80}), Protocol: "TCP", Name: fmt.Sprintf("tcp-%d-%d", i, s)}
			}
			g.Servers = append(g.Servers, srv)
			for _, h := range srv.Hosts {
				for _, c := range claims {
					if c.port == srv.Port.Number && c.host == h {
						if c.t.Equal(t) {
							w.shape("gateway:same-port-host-equal-ts")
						} else {
							w.shape("gateway:same-port-host")
						}
					}
					if c.port == srv.Port.Number && c.host != h {
						w.shape("gateway:same-port-several-servers")
					}
				}
				claims = append(claims, claim{srv.Port.Number, h, t})
			}
		}
		name := w.name("gw", ns)
		if w.add(gvk.Gateway, name, ns, t, g) {
			w.gwNames = append(w.gwNames, ns+"/"+name)
		}
	}
}

// ---------------------------------------------------------------------------------------
// DestinationRules

func (w *world) trafficPolicy(portLevel bool) *networking.TrafficPolicy {
	r := w.r
	tp := &networking.TrafficPolicy{}
	switch r.Intn(5) {
	case 0:
		tp.LoadBalancer = &networking.LoadBalancerSettings{LbPolicy: &networking.LoadBalancerSettings_Simple{Simple: pick(r,
			[]networking.LoadBalancerSettings_SimpleLB{networking.LoadBalancerSettings_ROUND_ROBIN, networking.LoadBalancerSettings_LEAST_REQUEST, networking.LoadBalancerSettings_RANDOM})}}
	case 1:
		tp.LoadBalancer = &networking.LoadBalancerSettings{LbPolicy: &networking.LoadBalancerSettings_ConsistentHash{ConsistentHash: &networking.LoadBalancerSettings_ConsistentHashLB{
			HashKey: &networking.LoadBalancerSettings_ConsistentHashLB_HttpHeaderName{HttpHeaderName: "x-user"}}}}
	case 2:
		tp.LoadBalancer = &networking.LoadBalancerSettings{
			LbPolicy: &networking.LoadBalancerSettings_Simple{Simple: networking.LoadBalancerSettings_ROUND_ROBIN},
			LocalityLbSetting: &networking.LocalityLoadBalancerSetting{
				Enabled: wrappers.Bool(true),
				Distribute: []*networking.LocalityLoadBalancerSetting_Distribute{
					{From: "r1/*", To: map[string]uint32{"r1/z1/*": 50, "r1/z2/*": 30, "r2/*": 20}},
					{From: "r2/*", To: map[string]uint32{"r2/*": 60, "r1/*": 40}},
				},
			}}
		w.shape("destinationrule:locality-distribute-map")
	case 3:
		if w.dnsEps {
			// failoverPriority on a DNS cluster whose hostname has more endpoints in the EndpointIndex than in its own
			// ServiceEntry (second ServiceEntry of the namespace declaring the host) panics in
			// loadbalancer.applyFailoverPriorityPerLocality; side finding, avoided here
			break
		}
		tp.LoadBalancer = &networking.LoadBalancerSettings{
			LbPolicy: &networking.LoadBalancerSettings_Simple{Simple: networking.LoadBalancerSettings_ROUND_ROBIN},
			LocalityLbSetting: &networking.LocalityLoadBalancerSetting{
				Enabled:          wrappers.Bool(true),
				FailoverPriority: []string{"topology.istio.io/network", "version", "app"},
			}}
	}
	if chance(r, 40) {
		tp.ConnectionPool = &networking.ConnectionPoolSettings{
			Tcp:  &networking.ConnectionPoolSettings_TCPSettings{MaxConnections: int32(10 + r.Intn(100))},
			Http: &networking.ConnectionPoolSettings_HTTPSettings{Http1MaxPendingRequests: int32(1 + r.Intn(50)), MaxRequestsPerConnection: int32(r.Intn(5))},
		}
	}
	if chance(r, 40) {
		tp.OutlierDetection = &networking.OutlierDetection{Consecutive_5XxErrors: wrappers.UInt32(uint32(1 + r.Intn(7))), BaseEjectionTime: durationpb.New(time.Duration(10+r.Intn(50)) * time.Second)}
	}
	switch r.Intn(5) {
	case 0:
		tp.Tls = &networking.ClientTLSSettings{Mode: networking.ClientTLSSettings_ISTIO_MUTUAL}
	case 1:
		tp.Tls = &networking.ClientTLSSettings{Mode: networking.ClientTLSSettings_SIMPLE, Sni: "sni.example.com",
			SubjectAltNames: []string{"z.example.com", "a.example.com", "m.example.com"}}
	case 2:
		tp.Tls = &networking.ClientTLSSettings{Mode: networking.ClientTLSSettings_DISABLE}
	}
	if portLevel && chance(r, 35) {
		for _, p := range []uint32{80, 443, 8080} {
			if chance(r, 60) {
				sub := w.trafficPolicy(false)
				tp.PortLevelSettings = append(tp.PortLevelSettings, &networking.TrafficPolicy_PortTrafficPolicy{
					Port: &networking.PortSelector{Number: p}, LoadBalancer: sub.LoadBalancer, ConnectionPool: sub.ConnectionPool,
					OutlierDetection: sub.OutlierDetection, Tls: sub.Tls,
				})
			}
		}
	}
	return tp
}

func (w *world) genDestinationRules() {
	r := w.r
	n := 3 + r.Intn(5)
	type rec struct {
		host, ns string
		t        time.Time
		sel      bool
	}
	var recs []rec
	mk := func(h, ns string, t time.Time) {
		dr := &networking.DestinationRule{Host: h}
		if chance(r, 70) {
			k := 1 + r.Intn(3)
			names := []string{"v1", "v2", "v3", "canary"}
			r.Shuffle(len(names), func(i, j int) { names[i], names[j] = names[j], names[i] })
			for _, sn := range names[:k] {
				s := &networking.Subset{Name: sn, Labels: map[string]string{"version": strings.TrimPrefix(sn, "c")}}
				if sn == "canary" {
					s.Labels = map[string]string{"version": "v3", "app": "ext", "track": "canary"}
				}
				if chance(r, 30) {
					s.TrafficPolicy = w.trafficPolicy(false)
				}
				dr.Subsets = append(dr.Subsets, s)
			}
		}
		if chance(r, 65) {
			dr.TrafficPolicy = w.trafficPolicy(true)
		}
		if chance(r, 25) {
			dr.ExportTo = [][]string{{"."}, {"*"}, {"ns1", "ns2"}, {"ns3", "."}}[r.Intn(4)]
		}
		sel := false
		if chance(r, 20) {
			sel = true
			dr.WorkloadSelector = &typev1beta1.WorkloadSelector{MatchLabels: pick(r, []map[string]string{{"app": "a"}, {"app": "a", "version": "v1"}, {"version": "v2"}})}
		}
		if w.add(gvk.DestinationRule, w.name("dr", ns), ns, t, dr) {
			recs = append(recs, rec{h, ns, t, sel})
		}
	}
	if len(w.svcs) == 0 {
		return
	}
	// planted: >= 2 rules for one host in one namespace with equal timestamps (merge order)
	if chance(r, 75) {
		s := pick(r, w.svcs)
		ns := pick(r, []string{s.NS, rootNS, pick(r, appNamespaces)})
		t := w.ts()
		for k := 0; k < 2+r.Intn(2); k++ {
			mk(s.Host, ns, t)
		}
		w.shape("destinationrule:same-host-same-ns-equal-ts")
	}
	for len(recs) < n {
		s := pick(r, w.svcs)
		h := s.Host
		switch r.Intn(8) {
		case 0:
			if i := strings.Index(h, "."); i > 0 {
				h = "*" + h[i:]
				w.shape("destinationrule:wildcard-host")
			}
		case 1:
			h = "*.wild.example.com"
		}
		before := len(recs)
		mk(h, pick(r, []string{s.NS, s.NS, rootNS, "ns1", "ns2", "ns3"}), w.ts())
		if len(recs) == before {
			n--
		}
	}
	for i := range recs {
		for j := i + 1; j < len(recs); j++ {
			if recs[i].host == recs[j].host && recs[i].ns != recs[j].ns {
				w.shape("destinationrule:same-host-multi-ns")
			}
			if recs[i].host == recs[j].host && recs[i].ns == recs[j].ns && !recs[i].t.Equal(recs[j].t) {
				w.shape("destinationrule:same-host-same-ns")
			}
			if recs[i].host == recs[j].host && (recs[i].sel || recs[j].sel) {
				w.shape("destinationrule:selector-vs-plain")
			}
		}
	}
}

// ---------------------------------------------------------------------------------------
// VirtualServices

func (w *world) stringMatch() *networking.StringMatch {
	r := w.r
	switch r.Intn(4) {
	case 0:
		return &networking.StringMatch{MatchType: &networking.StringMatch_Prefix{Prefix: pick(r, literalValues)}}
	case 1:
		return &networking.StringMatch{MatchType: &networking.StringMatch_Regex{Regex: pick(r, regexValues)}}
	default:
		return &networking.StringMatch{MatchType: &networking.StringMatch_Exact{Exact: pick(r, literalValues)}}
	}
}

func (w *world) matchMap(pool []string, lo, hi int) map[string]*networking.StringMatch {
	r := w.r
	names := append([]string{}, pool...)
	r.Shuffle(len(names), func(i, j int) { names[i], names[j] = names[j], names[i] })
	k := lo + r.Intn(hi-lo+1)
	if k > len(names) {
		k = len(names)
	}
	m := map[string]*networking.StringMatch{}
	for _, n := range names[:k] {
		m[n] = w.stringMatch()
	}
	return m
}

func (w *world) httpMatch(gateway bool) *networking.HTTPMatchRequest {
	r := w.r
	m := &networking.HTTPMatchRequest{}
	switch r.Intn(4) {
	case 0:
		m.Uri = &networking.StringMatch{MatchType: &networking.StringMatch_Prefix{Prefix: pick(r, []string{"/", "/api", "/api/v1", "/static"})}}
	case 1:
		m.Uri = &networking.StringMatch{MatchType: &networking.StringMatch_Exact{Exact: pick(r, []string{"/health", "/login", "/a/b"})}}
	case 2:
		m.Uri = &networking.StringMatch{MatchType: &networking.StringMatch_Regex{Regex: pick(r, []string{"/api/v[0-9]+/.*", "/user/[a-z]+"})}}
	}
	if chance(r, 70) {
		m.Headers = w.matchMap(headerNames, 2, 4)
		w.shape("virtualservice:>=2-headers")
	}
	if chance(r, 60) {
		m.QueryParams = w.matchMap(queryNames, 2, 4)
		w.shape("virtualservice:>=2-queryparams")
	}
	if chance(r, 50) {
		m.WithoutHeaders = w.matchMap(headerNames, 2, 3)
		w.shape("virtualservice:>=2-withoutheaders")
	}
	if gateway && chance(r, 60) {
		if m.Headers == nil {
			m.Headers = map[string]*networking.StringMatch{}
		}
		names := append([]string{}, claimHeaders...)
		r.Shuffle(len(names), func(i, j int) { names[i], names[j] = names[j], names[i] })
		for _, n := range names[:2+r.Intn(2)] {
			m.Headers[n] = &networking.StringMatch{MatchType: &networking.StringMatch_Exact{Exact: pick(r, literalValues)}}
		}
		w.shape("virtualservice:>=2-jwt-claim-matchers")
		if chance(r, 40) {
			if m.WithoutHeaders == nil {
				m.WithoutHeaders = map[string]*networking.StringMatch{}
			}
			for _, n := range names[2:] {
				m.WithoutHeaders[n] = &networking.StringMatch{MatchType: &networking.StringMatch_Exact{Exact: pick(r, literalValues)}}
			}
		}
	}
	if chance(r, 25) {
		m.Method = &networking.StringMatch{MatchType: &networking.StringMatch_Exact{Exact: pick(r, []string{"GET", "POST"})}}
	}
	if chance(r, 15) {
		m.Authority = &networking.StringMatch{MatchType: &networking.StringMatch_Prefix{Prefix: "shop"}}
	}
	if !gateway && chance(r, 25) {
		m.SourceLabels = pick(r, []map[string]string{{"app": "a"}, {"app": "a", "version": "v1"}, {"version": "v2"}})
	}
	if !gateway && chance(r, 15) {
		m.SourceNamespace = pick(r, appNamespaces)
	}
	if chance(r, 15) {
		m.Port = pick(r, []uint32{80, 8080})
	}
	return m
}

func (w *world) headerOps() *networking.Headers {
	r := w.r
	ops := func() *networking.Headers_HeaderOperations {
		o := &networking.Headers_HeaderOperations{}
		if chance(r, 70) {
			o.Set = map[string]string{"x-set-a": "1", "x-set-b": "2", "x-set-c": "3"}
		}
		if chance(r, 70) {
			o.Add = map[string]string{"x-add-a": "1", "x-add-b": "2", "x-add-c": "3"}
		}
		if chance(r, 50) {
			o.Remove = []string{"x-rm-z", "x-rm-a"}
		}
		return o
	}
	h := &networking.Headers{}
	if chance(r, 70) {
		h.Request = ops()
	}
	if chance(r, 60) {
		h.Response = ops()
	}
	w.shape("virtualservice:header-operation-maps")
	return h
}

func (w *world) destination(s svcInfo, http bool) *networking.Destination {
	r := w.r
	d := &networking.Destination{Host: s.Host}
	ports := s.Ports
	if !http {
		ports = s.TCP
	}
	if len(ports) > 0 && (len(s.Ports)+len(s.TCP) > 1 || chance(r, 30)) {
		d.Port = &networking.PortSelector{Number: uint32(pick(r, ports))}
	}
	if chance(r, 40) {
		d.Subset = pick(r, s.Subsets)
	}
	return d
}

func (w *world) httpRoute(gateway bool) *networking.HTTPRoute {
	r := w.r
	hr := &networking.HTTPRoute{}
	if chance(r, 30) {
		hr.Name = pick(r, []string{"r-main", "r-canary", "r-api"})
	}
	for k := 0; k < r.Intn(3)+boolInt(chance(r, 60)); k++ {
		hr.Match = append(hr.Match, w.httpMatch(gateway))
	}
	switch r.Intn(10) {
	case 0:
		hr.Redirect = &networking.HTTPRedirect{Uri: "/moved", Authority: "new.example.org", RedirectCode: 302}
		return hr
	case 1:
		hr.DirectResponse = &networking.HTTPDirectResponse{Status: 503, Body: &networking.HTTPBody{Specifier: &networking.HTTPBody_String_{String_: "no"}}}
		return hr
	}
	nd := 1 + r.Intn(3)
	remaining := int32(100)
	for k := 0; k < nd; k++ {
		s := pick(r, w.svcs)
		rd := &networking.HTTPRouteDestination{Destination: w.destination(s, true)}
		if nd > 1 {
			if k == nd-1 {
				rd.Weight = remaining
			} else {
				rd.Weight = int32(r.Intn(int(remaining) + 1))
				remaining -= rd.Weight
			}
		}
		if chance(r, 30) {
			rd.Headers = w.headerOps()
		}
		hr.Route = append(hr.Route, rd)
	}
	if chance(r, 40) {
		hr.Headers = w.headerOps()
	}
	if chance(r, 20) {
		hr.Timeout = durationpb.New(time.Duration(1+r.Intn(10)) * time.Second)
	}
	if chance(r, 25) {
		hr.Retries = &networking.HTTPRetry{Attempts: int32(1 + r.Intn(4)), RetryOn: pick(r, []string{"5xx,gateway-error,connect-failure", "retriable-status-codes,503,504", "reset"})}
	}
	if chance(r, 20) {
		hr.CorsPolicy = &networking.CorsPolicy{
			AllowOrigins: []*networking.StringMatch{{MatchType: &networking.StringMatch_Exact{Exact: "https://z.example.org"}}, {MatchType: &networking.StringMatch_Prefix{Prefix: "https://a."}}},
			AllowMethods: []string{"POST", "GET"}, AllowHeaders: []string{"x-z", "x-a"}, ExposeHeaders: []string{"x-exp-z", "x-exp-a"},
		}
	}
	if chance(r, 20) {
		s := pick(r, w.svcs)
		hr.Mirrors = []*networking.HTTPMirrorPolicy{{Destination: w.destination(s, true)}, {Destination: w.destination(pick(r, w.svcs), true), Percentage: &networking.Percent{Value: 50}}}
	}
	if chance(r, 15) {
		hr.Fault = &networking.HTTPFaultInjection{Abort: &networking.HTTPFaultInjection_Abort{ErrorType: &networking.HTTPFaultInjection_Abort_HttpStatus{HttpStatus: 500}, Percentage: &networking.Percent{Value: 10}}}
	}
	if chance(r, 15) {
		hr.Rewrite = &networking.HTTPRewrite{Uri: "/rewritten"}
	}
	return hr
}

func boolInt(b bool) int {
	if b {
		return 1
	}
	return 0
}

func (w *world) genVirtualServices() {
	r := w.r
	if len(w.svcs) == 0 {
		return
	}
	type rec struct {
		hosts []string
		ns    string
		t     time.Time
		gw    bool
		mesh  bool
	}
	var recs []rec
	mk := func(hosts []string, ns string, t time.Time, gws []string) bool {
		vs := &networking.VirtualService{Hosts: hosts, Gateways: gws}
		gateway := false
		meshBound := len(gws) == 0
		for _, g := range gws {
			if g != "mesh" {
				gateway = true
			} else {
				meshBound = true
			}
		}
		onlyGateway := gateway && !meshBound
		for k := 0; k < 1+r.Intn(3); k++ {
			vs.Http = append(vs.Http, w.httpRoute(onlyGateway))
		}
		if chance(r, 20) {
			s := pick(r, w.svcs)
			if len(s.TCP) > 0 {
				vs.Tcp = append(vs.Tcp, &networking.TCPRoute{
					Match: []*networking.L4MatchAttributes{{Port: uint32(s.TCP[0])}},
					Route: []*networking.RouteDestination{{Destination: w.destination(s, false)}},
				})
			}
		}
		if chance(r, 20) {
			s := pick(r, w.svcs)
			if len(s.TCP) > 0 {
				sni := hosts[0]
				vs.Tls = append(vs.Tls, &networking.TLSRoute{
					Match: []*networking.TLSMatchAttributes{{Port: 443, SniHosts: []string{sni}}},
					Route: []*networking.RouteDestination{{Destination: w.destination(s, false)}},
				})
			}
		}
		if chance(r, 25) {
			vs.ExportTo = [][]string{{"."}, {"*"}, {"ns1", "ns2"}, {"ns3", "."}}[r.Intn(4)]
		}
		if w.add(gvk.VirtualService, w.name("vs", ns), ns, t, vs) {
			recs = append(recs, rec{hosts, ns, t, gateway, meshBound})
			return true
		}
		return false
	}
	gwRef := func() []string {
		if len(w.gwNames) == 0 {
			return nil
		}
		out := []string{pick(r, w.gwNames)}
		if chance(r, 30) {
			g := pick(r, w.gwNames)
			if g != out[0] {
				out = append(out, g)
			}
		}
		if chance(r, 25) {
			out = append(out, "mesh")
		}
		return out
	}
	// planted: >= 2 VirtualServices for one host with equal timestamps, in the mesh and on a gateway
	if chance(r, 70) {
		s := pick(r, w.svcs)
		t := w.ts()
		nss := append([]string{}, appNamespaces...)
		r.Shuffle(len(nss), func(i, j int) { nss[i], nss[j] = nss[j], nss[i] })
		for _, ns := range nss[:2] {
			mk([]string{s.Host}, ns, t, nil)
		}
		w.shape("virtualservice:same-host-mesh-equal-ts")
	}
	if chance(r, 70) && len(w.gwNames) > 0 {
		h := pick(r, gwHostPool[:4])
		if strings.HasPrefix(h, "*") {
			h = "shop.example.org"
		}
		t := w.ts()
		g := []string{pick(r, w.gwNames)}
		for k := 0; k < 2+r.Intn(2); k++ {
			mk([]string{h}, pick(r, []string{rootNS, "ns1", "ns2"}), t, g)
		}
		w.shape("virtualservice:same-host-gateway-equal-ts")
	}
	// planted for the sidecar that imports only a VirtualService host (see genSidecars)
	{
		before := len(w.Configs)
		if mk([]string{"front.example.com"}, pick(r, appNamespaces), w.ts(), nil) && w.multiNS != "" {
			vs := w.Configs[before].Spec.(*networking.VirtualService)
			vs.ExportTo = nil
			vs.Http = append(vs.Http, &networking.HTTPRoute{Route: []*networking.HTTPRouteDestination{{Destination: &networking.Destination{Host: w.multiNS}}}})
		}
	}
	n := 3 + r.Intn(4)
	for k := 0; k < n; k++ {
		var hosts []string
		var gws []string
		if chance(r, 50) {
			gws = gwRef()
		}
		if len(gws) > 0 {
			hosts = []string{pick(r, gwHostPool[:4])}
			if chance(r, 30) {
				hosts = append(hosts, pick(r, w.svcs).Host)
			}
		} else {
			hosts = []string{pick(r, w.svcs).Host}
			if chance(r, 25) {
				h2 := pick(r, w.svcs).Host
				if h2 != hosts[0] {
					hosts = append(hosts, h2)
				}
			}
			if chance(r, 10) {
				hosts = []string{"*.wild.example.com"}
			}
		}
		mk(hosts, pick(r, []string{"ns1", "ns2", "ns3", rootNS}), w.ts(), gws)
	}
	// delegates
	if chance(r, 30) {
		dns := pick(r, appNamespaces)
		dname := w.name("vs", dns)
		del := &networking.VirtualService{}
		for k := 0; k < 1+r.Intn(2); k++ {
			hr := w.httpRoute(false)
			for _, m := range hr.Match {
				m.SourceLabels, m.SourceNamespace = nil, ""
			}
			del.Http = append(del.Http, hr)
		}
		rootVS := &networking.VirtualService{
			Hosts: []string{pick(r, w.svcs).Host},
			Http: []*networking.HTTPRoute{
				{Match: []*networking.HTTPMatchRequest{{Uri: &networking.StringMatch{MatchType: &networking.StringMatch_Prefix{Prefix: "/api"}},
					Headers: w.matchMap(headerNames, 2, 3), QueryParams: w.matchMap(queryNames, 2, 3)}},
					Delegate: &networking.Delegate{Name: dname, Namespace: dns}},
				{Route: []*networking.HTTPRouteDestination{{Destination: w.destination(pick(r, w.svcs), true)}}},
			},
		}
		if w.add(gvk.VirtualService, dname, dns, w.ts(), del) {
			if w.add(gvk.VirtualService, w.name("vs", rootNS), rootNS, w.ts(), rootVS) {
				w.shape("virtualservice:delegate")
			}
		}
	}
	for i := range recs {
		for j := i + 1; j < len(recs); j++ {
			for _, h := range recs[i].hosts {
				for _, g := range recs[j].hosts {
					if h == g && recs[i].mesh && recs[j].mesh {
						w.shape("virtualservice:same-host-mesh")
					}
					if h == g && recs[i].gw && recs[j].gw {
						w.shape("virtualservice:same-host-gateway")
					}
				}
			}
		}
	}
}

// ---------------------------------------------------------------------------------------
// Sidecars

func (w *world) genSidecars() {
	r := w.r
	egressHosts := func(ns string) []string {
		forms := []string{"./*", "*/*", rootNS + "/*", "ns1/*", "ns2/*", "~/*"}
		var out []string
		k := 1 + r.Intn(3)
		for i := 0; i < k; i++ {
			var h string
			switch r.Intn(4) {
			case 0, 1:
				h = pick(r, forms)
			case 2:
				if len(w.svcs) > 0 {
					s := pick(r, w.svcs)
					h = pick(r, []string{"*", ".", s.NS}) + "/" + s.Host
				} else {
					h = "./*"
				}
			default:
				h = "*/" + pick(r, []string{"*.example.com", "*.svc.cluster.local", "front.example.com"})
			}
			dup := false
			for _, x := range out {
				if x == h {
					dup = true
				}
			}
			if !dup {
				out = append(out, h)
			}
		}
		return out
	}
	mk := func(ns string, t time.Time, sel map[string]string) {
		sc := &networking.Sidecar{}
		if sel != nil {
			sc.WorkloadSelector = &networking.WorkloadSelector{Labels: sel}
		}
		sc.Egress = append(sc.Egress, &networking.IstioEgressListener{Hosts: egressHosts(ns)})
		if chance(r, 30) {
			sc.Egress = append([]*networking.IstioEgressListener{{
				Port:  &networking.SidecarPort{Number: pick(r, []uint32{80, 8080, 9000}), Protocol: pick(r, []string{"HTTP", "TCP"}), Name: "p"},
				Hosts: egressHosts(ns),
			}}, sc.Egress...)
			w.shape("sidecar:port-bound-egress")
		}
		if chance(r, 20) {
			sc.OutboundTrafficPolicy = &networking.OutboundTrafficPolicy{Mode: pick(r, []networking.OutboundTrafficPolicy_Mode{networking.OutboundTrafficPolicy_REGISTRY_ONLY, networking.OutboundTrafficPolicy_ALLOW_ANY})}
		}
		if sel != nil && chance(r, 30) {
			sc.Ingress = []*networking.IstioIngressListener{{
				Port:            &networking.SidecarPort{Number: 9080, Protocol: "HTTP", Name: "http-in"},
				DefaultEndpoint: "127.0.0.1:8080",
			}}
		}
		w.add(gvk.Sidecar, w.name("sc", ns), ns, t, sc)
	}
	// planted: the sidecar imports only a VirtualService host; the route's destination host lives in
	// several other namespaces with equal creation time (sidecar.go has to pick one namespace)
	if chance(r, 60) {
		t := w.ts()
		sc := &networking.Sidecar{Egress: []*networking.IstioEgressListener{{Hosts: []string{"*/front.example.com"}}}}
		ns := pick(r, []string{w.p2NS, w.p2NS, "ns1"})
		w.add(gvk.Sidecar, w.name("sc", ns), ns, t, sc)
		w.shape("sidecar:imports-only-virtualservice-host")
	}
	for _, ns := range append(append([]string{}, appNamespaces...), rootNS) {
		if chance(r, 35) {
			t := w.ts()
			mk(ns, t, nil)
			if chance(r, 30) {
				mk(ns, t, nil)
				w.shape("sidecar:two-namespace-defaults-equal-ts")
			}
		}
		if ns != rootNS && chance(r, 30) {
			t := w.ts()
			sel := pick(r, []map[string]string{{"app": "a"}, {"version": "v1"}, {"app": "a", "version": "v1"}})
			mk(ns, t, sel)
			if chance(r, 40) {
				mk(ns, t, pick(r, []map[string]string{{"app": "a"}, {"version": "v1"}}))
				w.shape("sidecar:two-selecting-one-workload-equal-ts")
			}
		}
	}
}

// ---------------------------------------------------------------------------------------
// security

var workloadSelectors = []map[string]string{{"app": "a"}, {"version": "v1"}, {"app": "a", "version": "v1"}, {"istio": "ingressgateway"}, {"app": "b"}}

func (w *world) selector() *typev1beta1.WorkloadSelector {
	if chance(w.r, 45) {
		return nil
	}
	return &typev1beta1.WorkloadSelector{MatchLabels: pick(w.r, workloadSelectors)}
}

func (w *world) genPeerAuthn() {
	r := w.r
	modes := []security.PeerAuthentication_MutualTLS_Mode{security.PeerAuthentication_MutualTLS_STRICT, security.PeerAuthentication_MutualTLS_PERMISSIVE,
		security.PeerAuthentication_MutualTLS_DISABLE, security.PeerAuthentication_MutualTLS_UNSET}
	type rec struct {
		ns  string
		sel string
		t   time.Time
	}
	var recs []rec
	n := 1 + r.Intn(5)
	for i := 0; i < n; i++ {
		ns := pick(r, []string{rootNS, "ns1", "ns1", "ns2", "ns3"})
		pa := &security.PeerAuthentication{Mtls: &security.PeerAuthentication_MutualTLS{Mode: pick(r, modes)}}
		if ns != rootNS {
			pa.Selector = w.selector()
		}
		if pa.Selector != nil && chance(r, 50) {
			pa.PortLevelMtls = map[uint32]*security.PeerAuthentication_MutualTLS{}
			for _, p := range []uint32{80, 1080, 8080, 9080, 10000} {
				if chance(r, 50) {
					pa.PortLevelMtls[p] = &security.PeerAuthentication_MutualTLS{Mode: pick(r, modes[:3])}
				}
			}
			if len(pa.PortLevelMtls) >= 2 {
				w.shape("peerauthentication:port-level-map")
			}
			if len(pa.PortLevelMtls) == 0 {
				pa.PortLevelMtls = nil
			}
		}
		t := w.ts()
		if w.add(gvk.PeerAuthentication, w.name("pa", ns), ns, t, pa) {
			recs = append(recs, rec{ns, fmt.Sprint(pa.Selector.GetMatchLabels()), t})
		}
	}
	for i := range recs {
		for j := i + 1; j < len(recs); j++ {
			if recs[i].ns == recs[j].ns && recs[i].t.Equal(recs[j].t) {
				if recs[i].sel == recs[j].sel {
					w.shape("peerauthentication:same-scope-equal-ts")
				} else {
					w.shape("peerauthentication:same-ns-equal-ts")
				}
			}
		}
	}
}

func (w *world) genRequestAuthn() {
	r := w.r
	n := r.Intn(4)
	type rec struct {
		ns string
		t  time.Time
	}
	var recs []rec
	for i := 0; i < n; i++ {
		ns := pick(r, []string{rootNS, rootNS, "ns1", "ns2"})
		ra := &security.RequestAuthentication{Selector: w.selector()}
		issuers := []string{"https://issuer-z.example.com", "https://issuer-a.example.com", "https://issuer-m.example.com"}
		r.Shuffle(len(issuers), func(i, j int) { issuers[i], issuers[j] = issuers[j], issuers[i] })
		for _, iss := range issuers[:1+r.Intn(3)] {
			jr := &security.JWTRule{Issuer: iss, Jwks: inlineJwks}
			if chance(r, 40) {
				jr.Audiences = []string{"aud-z", "aud-a"}
			}
			if chance(r, 30) {
				jr.FromHeaders = []*security.JWTHeader{{Name: "x-jwt-z", Prefix: "Bearer "}, {Name: "x-jwt-a"}}
			}
			if chance(r, 30) {
				jr.FromParams = []string{"token-z", "token-a"}
			}
			if chance(r, 30) {
				jr.OutputClaimToHeaders = []*security.ClaimToHeader{{Header: "x-claim-z", Claim: "z"}, {Header: "x-claim-a", Claim: "a"}}
			}
			if chance(r, 30) {
				jr.ForwardOriginalToken = true
			}
			ra.JwtRules = append(ra.JwtRules, jr)
		}
		t := w.ts()
		if w.add(gvk.RequestAuthentication, w.name("ra", ns), ns, t, ra) {
			for _, x := range recs {
				if x.ns == ns && x.t.Equal(t) {
					w.shape("requestauthentication:same-ns-equal-ts")
				}
			}
			recs = append(recs, rec{ns, t})
		}
	}
}

func (w *world) genAuthz() {
	r := w.r
	n := 1 + r.Intn(5)
	type rec struct {
		ns string
		a  security.AuthorizationPolicy_Action
		t  time.Time
	}
	var recs []rec
	for i := 0; i < n; i++ {
		ns := pick(r, []string{rootNS, "ns1", "ns1", "ns2", "ns3"})
		ap := &security.AuthorizationPolicy{Selector: w.selector()}
		ap.Action = pick(r, []security.AuthorizationPolicy_Action{security.AuthorizationPolicy_ALLOW, security.AuthorizationPolicy_ALLOW, security.AuthorizationPolicy_DENY,
			security.AuthorizationPolicy_AUDIT, security.AuthorizationPolicy_CUSTOM})
		if ap.Action == security.AuthorizationPolicy_CUSTOM {
			ap.ActionDetail = &security.AuthorizationPolicy_Provider{Provider: &security.AuthorizationPolicy_ExtensionProvider{Name: "authz-http"}}
		}
		for k := 0; k < 1+r.Intn(3); k++ {
			rule := &security.Rule{}
			if chance(r, 60) && ap.Action != security.AuthorizationPolicy_CUSTOM {
				src := &security.Source{}
				switch r.Intn(4) {
				case 0:
					src.Principals = []string{"cluster.local/ns/ns2/sa/z", "cluster.local/ns/ns1/sa/a", "*/sa/m"}
				case 1:
					src.Namespaces = []string{"ns3", "ns1"}
					src.NotPrincipals = []string{"cluster.local/ns/ns1/sa/bad"}
				case 2:
					src.RequestPrincipals = []string{"https://issuer-z.example.com/*", "https://issuer-a.example.com/sub"}
				default:
					src.IpBlocks = []string{"10.2.0.0/16", "10.1.0.0/16"}
				}
				rule.From = []*security.Rule_From{{Source: src}}
				if chance(r, 30) {
					rule.From = append(rule.From, &security.Rule_From{Source: &security.Source{Namespaces: []string{"ns2"}}})
				}
			}
			if chance(r, 70) {
				op := &security.Operation{}
				if chance(r, 60) {
					op.Methods = []string{"POST", "GET"}
				}
				if chance(r, 60) {
					op.Paths = []string{"/z/*", "/a", "*/suffix"}
				}
				if chance(r, 30) {
					op.Ports = []string{"8080", "80"}
				}
				if chance(r, 30) {
					op.Hosts = []string{"z.example.com", "*.a.example.com"}
				}
				if chance(r, 20) {
					op.NotPaths = []string{"/private/*"}
				}
				rule.To = []*security.Rule_To{{Operation: op}}
			}
			if chance(r, 50) && ap.Action != security.AuthorizationPolicy_CUSTOM {
				conds := []*security.Condition{
					{Key: "request.headers[x-user]", Values: []string{"z", "a"}},
					{Key: "request.auth.claims[groups]", Values: []string{"grp-z", "grp-a"}},
					{Key: "source.namespace", NotValues: []string{"ns9"}},
					{Key: "request.auth.claims[realm][role]", Values: []string{"admin"}},
					{Key: "destination.port", Values: []string{"8080", "80"}},
				}
				r.Shuffle(len(conds), func(i, j int) { conds[i], conds[j] = conds[j], conds[i] })
				rule.When = conds[:1+r.Intn(3)]
			}
			ap.Rules = append(ap.Rules, rule)
		}
		t := w.ts()
		if w.add(gvk.AuthorizationPolicy, w.name("ap", ns), ns, t, ap) {
			for _, x := range recs {
				if x.ns == ns && x.t.Equal(t) && x.a == ap.Action {
					w.shape("authorizationpolicy:same-ns-action-equal-ts")
				}
			}
			recs = append(recs, rec{ns, ap.Action, t})
		}
	}
}

// ---------------------------------------------------------------------------------------
// telemetry / extensions

func (w *world) genTelemetry() {
	r := w.r
	n := r.Intn(4)
	type rec struct {
		ns  string
		sel bool
		t   time.Time
	}
	var recs []rec
	for i := 0; i < n; i++ {
		ns := pick(r, []string{rootNS, rootNS, "ns1", "ns2"})
		tl := &telemetry.Telemetry{}
		if ns != rootNS {
			tl.Selector = w.selector()
		}
		if chance(r, 70) {
			al := &telemetry.AccessLogging{Providers: []*telemetry.ProviderRef{{Name: pick(r, []string{"file-a", "file-b", "envoy"})}}}
			if chance(r, 40) {
				al.Providers = append(al.Providers, &telemetry.ProviderRef{Name: pick(r, []string{"file-a", "file-b"})})
			}
			if chance(r, 30) {
				al.Filter = &telemetry.AccessLogging_Filter{Expression: "response.code >= 400"}
			}
			tl.AccessLogging = append(tl.AccessLogging, al)
			if chance(r, 30) {
				tl.AccessLogging = append(tl.AccessLogging, &telemetry.AccessLogging{Providers: []*telemetry.ProviderRef{{Name: "envoy"}}, Disabled: wrappers.Bool(chance(r, 50))})
			}
		}
		if chance(r, 60) {
			m := &telemetry.Metrics{Providers: []*telemetry.ProviderRef{{Name: "prometheus"}}}
			metrics := []telemetry.MetricSelector_IstioMetric{telemetry.MetricSelector_REQUEST_COUNT, telemetry.MetricSelector_REQUEST_DURATION,
				telemetry.MetricSelector_TCP_OPENED_CONNECTIONS, telemetry.MetricSelector_ALL_METRICS}
			r.Shuffle(len(metrics), func(i, j int) { metrics[i], metrics[j] = metrics[j], metrics[i] })
			for _, mt := range metrics[:1+r.Intn(3)] {
				ov := &telemetry.MetricsOverrides{Match: &telemetry.MetricSelector{
					MetricMatch: &telemetry.MetricSelector_Metric{Metric: mt},
					Mode:        pick(r, []telemetry.WorkloadMode{telemetry.WorkloadMode_CLIENT_AND_SERVER, telemetry.WorkloadMode_CLIENT, telemetry.WorkloadMode_SERVER}),
				}}
				if chance(r, 30) {
					ov.Disabled = wrappers.Bool(true)
				} else {
					ov.TagOverrides = map[string]*telemetry.MetricsOverrides_TagOverride{
						"tag_z": {Value: "request.host"},
						"tag_a": {Value: "request.method"},
						"tag_m": {Operation: telemetry.MetricsOverrides_TagOverride_REMOVE},
					}
					w.shape("telemetry:tag-override-map")
				}
				m.Overrides = append(m.Overrides, ov)
			}
			tl.Metrics = append(tl.Metrics, m)
		}
		if chance(r, 40) {
			tl.Tracing = []*telemetry.Tracing{{
				Providers:                []*telemetry.ProviderRef{{Name: "zipkin-a"}},
				RandomSamplingPercentage: wrappers.Double(float64(r.Intn(100))),
				CustomTags: map[string]*telemetry.Tracing_CustomTag{
					"ct_z": {Type: &telemetry.Tracing_CustomTag_Literal{Literal: &telemetry.Tracing_Literal{Value: "z"}}},
					"ct_a": {Type: &telemetry.Tracing_CustomTag_Header{Header: &telemetry.Tracing_RequestHeader{Name: "x-a", DefaultValue: "d"}}},
					"ct_m": {Type: &telemetry.Tracing_CustomTag_Environment{Environment: &telemetry.Tracing_Environment{Name: "M"}}},
				},
			}}
			w.shape("telemetry:tracing-custom-tag-map")
		}
		t := w.ts()
		if w.add(gvk.Telemetry, w.name("tl", ns), ns, t, tl) {
			for _, x := range recs {
				if x.ns == ns && x.t.Equal(t) && x.sel == (tl.Selector != nil) {
					w.shape("telemetry:same-scope-equal-ts")
				}
			}
			recs = append(recs, rec{ns, tl.Selector != nil, t})
		}
	}
}

func mustStruct(m map[string]any) *structpb.Struct {
	s, err := structpb.NewStruct(m)
	if err != nil {
		panic(err)
	}
	return s
}

func (w *world) genEnvoyFilters() {
	r := w.r
	n := r.Intn(4)
	type rec struct {
		ns   string
		prio int32
		t    time.Time
	}
	var recs []rec
	for i := 0; i < n; i++ {
		ns := pick(r, []string{rootNS, rootNS, "ns1", "ns2"})
		ef := &networking.EnvoyFilter{Priority: pick(r, []int32{0, 0, 0, 10, -5})}
		if ns != rootNS && chance(r, 50) {
			ef.WorkloadSelector = &networking.WorkloadSelector{Labels: pick(r, workloadSelectors)}
		}
		ctx := pick(r, []networking.EnvoyFilter_PatchContext{networking.EnvoyFilter_ANY, networking.EnvoyFilter_SIDECAR_OUTBOUND, networking.EnvoyFilter_GATEWAY, networking.EnvoyFilter_SIDECAR_INBOUND})
		tag := fmt.Sprintf("ef%d", i)
		templates := []func() *networking.EnvoyFilter_EnvoyConfigObjectPatch{
			func() *networking.EnvoyFilter_EnvoyConfigObjectPatch {
				return &networking.EnvoyFilter_EnvoyConfigObjectPatch{
					ApplyTo: networking.EnvoyFilter_CLUSTER,
					Match:   &networking.EnvoyFilter_EnvoyConfigObjectMatch{Context: ctx},
					Patch: &networking.EnvoyFilter_Patch{Operation: networking.EnvoyFilter_Patch_MERGE, Value: mustStruct(map[string]any{
						"connect_timeout": fmt.Sprintf("%ds", 1+i),
						"metadata":        map[string]any{"filter_metadata": map[string]any{"verif." + tag: map[string]any{"k_z": "1", "k_a": "2", "k_m": "3"}}},
					})},
				}
			},
			func() *networking.EnvoyFilter_EnvoyConfigObjectPatch {
				return &networking.EnvoyFilter_EnvoyConfigObjectPatch{
					ApplyTo: networking.EnvoyFilter_CLUSTER,
					Match:   &networking.EnvoyFilter_EnvoyConfigObjectMatch{Context: ctx},
					Patch: &networking.EnvoyFilter_Patch{Operation: networking.EnvoyFilter_Patch_ADD, Value: mustStruct(map[string]any{
						"name": "added-" + tag, "type": "STATIC", "connect_timeout": "1s",
					})},
				}
			},
			func() *networking.EnvoyFilter_EnvoyConfigObjectPatch {
				return &networking.EnvoyFilter_EnvoyConfigObjectPatch{
					ApplyTo: networking.EnvoyFilter_HTTP_FILTER,
					Match: &networking.EnvoyFilter_EnvoyConfigObjectMatch{Context: ctx, ObjectTypes: &networking.EnvoyFilter_EnvoyConfigObjectMatch_Listener{
						Listener: &networking.EnvoyFilter_ListenerMatch{FilterChain: &networking.EnvoyFilter_ListenerMatch_FilterChainMatch{
							Filter: &networking.EnvoyFilter_ListenerMatch_FilterMatch{Name: "envoy.filters.network.http_connection_manager",
								SubFilter: &networking.EnvoyFilter_ListenerMatch_SubFilterMatch{Name: "envoy.filters.http.router"}}}}}},
					Patch: &networking.EnvoyFilter_Patch{Operation: networking.EnvoyFilter_Patch_INSERT_BEFORE, Value: mustStruct(map[string]any{
						"name": "verif.lua." + tag,
						"typed_config": map[string]any{
							"@type":       "type.googleapis.com/envoy.extensions.filters.http.lua.v3.Lua",
							"inline_code": "function envoy_on_request(h) end -- " + tag,
						},
					})},
				}
			},
			func() *networking.EnvoyFilter_EnvoyConfigObjectPatch {
				return &networking.EnvoyFilter_EnvoyConfigObjectPatch{
					ApplyTo: networking.EnvoyFilter_VIRTUAL_HOST,
					Match:   &networking.EnvoyFilter_EnvoyConfigObjectMatch{Context: ctx},
					Patch: &networking.EnvoyFilter_Patch{Operation: networking.EnvoyFilter_Patch_MERGE, Value: mustStruct(map[string]any{
						"response_headers_to_add": []any{map[string]any{"header": map[string]any{"key": "x-" + tag, "value": "1"}}},
					})},
				}
			},
			func() *networking.EnvoyFilter_EnvoyConfigObjectPatch {
				return &networking.EnvoyFilter_EnvoyConfigObjectPatch{
					ApplyTo: networking.EnvoyFilter_HTTP_ROUTE,
					Match:   &networking.EnvoyFilter_EnvoyConfigObjectMatch{Context: ctx},
					Patch: &networking.EnvoyFilter_Patch{Operation: networking.EnvoyFilter_Patch_MERGE, Value: mustStruct(map[string]any{
						"route": map[string]any{"idle_timeout": fmt.Sprintf("%ds", 30+i)},
					})},
				}
			},
			func() *networking.EnvoyFilter_EnvoyConfigObjectPatch {
				return &networking.EnvoyFilter_EnvoyConfigObjectPatch{
					ApplyTo: networking.EnvoyFilter_LISTENER,
					Match:   &networking.EnvoyFilter_EnvoyConfigObjectMatch{Context: ctx},
					Patch: &networking.EnvoyFilter_Patch{Operation: networking.EnvoyFilter_Patch_MERGE, Value: mustStruct(map[string]any{
						"per_connection_buffer_limit_bytes": float64(32768 + i),
					})},
				}
			},
			func() *networking.EnvoyFilter_EnvoyConfigObjectPatch {
				return &networking.EnvoyFilter_EnvoyConfigObjectPatch{
					ApplyTo: networking.EnvoyFilter_NETWORK_FILTER,
					Match: &networking.EnvoyFilter_EnvoyConfigObjectMatch{Context: ctx, ObjectTypes: &networking.EnvoyFilter_EnvoyConfigObjectMatch_Listener{
						Listener: &networking.EnvoyFilter_ListenerMatch{FilterChain: &networking.EnvoyFilter_ListenerMatch_FilterChainMatch{
							Filter: &networking.EnvoyFilter_ListenerMatch_FilterMatch{Name: "envoy.filters.network.http_connection_manager"}}}}},
					Patch: &networking.EnvoyFilter_Patch{Operation: networking.EnvoyFilter_Patch_MERGE, Value: mustStruct(map[string]any{
						"typed_config": map[string]any{
							"@type":                   "type.googleapis.com/envoy.extensions.filters.network.http_connection_manager.v3.HttpConnectionManager",
							"server_name":             tag,
							"request_headers_timeout": fmt.Sprintf("%ds", 5+i),
						},
					})},
				}
			},
		}
		idx := r.Perm(len(templates))
		for _, k := range idx[:1+r.Intn(3)] {
			ef.ConfigPatches = append(ef.ConfigPatches, templates[k]())
		}
		t := w.ts()
		if w.add(gvk.EnvoyFilter, w.name("ef", ns), ns, t, ef) {
			for _, x := range recs {
				if x.ns == ns && x.prio == ef.Priority && x.t.Equal(t) {
					w.shape("envoyfilter:same-ns-priority-equal-ts")
				}
			}
			recs = append(recs, rec{ns, ef.Priority, t})
		}
	}
}

// genExtensions: TrafficExtensions (the object the push context reads; WasmPlugins are converted to
// it by a controller that core.NewConfigGenTest does not run). Several extensions of one phase and
// priority with equal timestamps tie on everything but their name.
func (w *world) genExtensions() {
	r := w.r
	n := r.Intn(4)
	if n == 1 && chance(r, 50) {
		n = 2
	}
	t0 := w.ts()
	type rec struct {
		ns    string
		phase extensions.TrafficExtension_ExecutionPhase
		prio  int32
		t     time.Time
	}
	var recs []rec
	for i := 0; i < n; i++ {
		ns := pick(r, []string{rootNS, rootNS, "ns1", "ns2"})
		te := &extensions.TrafficExtension{
			Phase: pick(r, []extensions.TrafficExtension_ExecutionPhase{extensions.TrafficExtension_AUTHN, extensions.TrafficExtension_AUTHZ,
				extensions.TrafficExtension_STATS, extensions.TrafficExtension_UNSPECIFIED, extensions.TrafficExtension_UNSPECIFIED}),
			Priority: wrappers.Int32(int32(pick(r, []int{0, 0, 10}))),
		}
		if chance(r, 50) {
			te.FilterConfig = &extensions.TrafficExtension_Wasm{Wasm: &extensions.WasmConfig{
				Url: fmt.Sprintf("oci://registry.example.com/plugin-%d:1", i),
				PluginConfig: mustStruct(map[string]any{
					"k_z": "1", "k_a": "2", "k_m": map[string]any{"x": "1", "b": "2"},
				}),
			}}
		} else {
			te.FilterConfig = &extensions.TrafficExtension_Lua{Lua: &extensions.LuaConfig{InlineCode: fmt.Sprintf("function envoy_on_request(h) end -- te%d", i)}}
		}
		if chance(r, 40) {
			te.Selector = &typev1beta1.WorkloadSelector{MatchLabels: pick(r, workloadSelectors)}
		}
		t := w.ts()
		if i > 0 && chance(r, 60) {
			t = t0
		}
		if w.add(gvk.TrafficExtension, w.name("te", ns), ns, t, te) {
			for _, x := range recs {
				if x.t.Equal(t) && x.phase == te.Phase && x.prio == te.Priority.Value {
					if x.ns == ns {
						w.shape("trafficextension:same-ns-phase-priority-equal-ts")
					} else {
						w.shape("trafficextension:same-phase-priority-equal-ts")
					}
				}
			}
			recs = append(recs, rec{ns, te.Phase, te.Priority.Value, t})
		}
	}
}

// ---------------------------------------------------------------------------------------
// proxies

func (w *world) genProxies() {
	r := w.r
	// the first sidecar sits on an endpoint address of a registry service when there is one (inbound listeners)
	ip1 := "10.250.0.1"
	ns1 := "ns1"
	lab1 := map[string]string{"app": "a", "version": "v1"}
	for _, rep := range w.Reports {
		if rep.ViaRegistry && len(rep.Eps) > 0 && chance(r, 70) {
			ip1 = rep.Eps[0].Addresses[0]
			ns1 = rep.NS
			break
		}
	}
	w.Proxies = []proxyDef{
		{Name: "sidecar-1", Type: model.SidecarProxy, NS: ns1, IP: ip1, Labels: lab1, Cluster: "Mock", Network: pick(r, networksPool),
			Locality: pick(r, localities[:5]), DNS: true},
		{Name: "sidecar-2", Type: model.SidecarProxy, NS: w.p2NS, IP: "10.250.0.2",
			Labels:  pick(r, []map[string]string{{"app": "b"}, {"app": "a", "version": "v2"}, {"version": "v1"}, {}}),
			Cluster: pick(r, []string{"Mock", "c2"}), Network: pick(r, networksPool), Locality: pick(r, localities), DNS: chance(r, 50)},
		{Name: "router", Type: model.Router, NS: rootNS, IP: "10.250.0.3", Labels: map[string]string{"istio": "ingressgateway", "app": "b"},
			Cluster: "Mock", Network: pick(r, networksPool), Locality: pick(r, localities)},
	}
}
