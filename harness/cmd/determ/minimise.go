package main

// Minimisation of a failing world (only on replay or with DETERM_MINIMISE=1): chunked greedy
// removal of config objects, registry services and endpoint shard reports while a difference with
// the same key still shows up for the same proxy. Because an order-dependent output passes most
// single comparisons, "still shows up" is decided over several environments, push contexts and
// generations.

import (
	"fmt"

	"google.golang.org/protobuf/encoding/prototext"
	"google.golang.org/protobuf/proto"
)

type mask struct {
	cfg, svc, rep []bool // true = removed
}

func (m mask) clone() mask {
	return mask{cfg: append([]bool{}, m.cfg...), svc: append([]bool{}, m.svc...), rep: append([]bool{}, m.rep...)}
}

func applyMask(w *world, m mask) *world {
	o := *w
	o.Configs, o.Services, o.Reports = nil, nil, nil
	for i, c := range w.Configs {
		if !m.cfg[i] {
			o.Configs = append(o.Configs, c)
		}
	}
	gone := map[string]bool{}
	for i, s := range w.Services {
		if !m.svc[i] {
			o.Services = append(o.Services, s)
		} else {
			gone[string(s.Hostname)] = true
		}
	}
	for i, r := range w.Reports {
		if !m.rep[i] && !gone[r.Host] {
			o.Reports = append(o.Reports, r)
		}
	}
	return &o
}

// reproduces reports whether a difference with the given key appears for proxy pd in the masked world.
func (rn *runner) reproduces(i int, m mask, pd proxyDef, key string) (hit bool) {
	defer func() {
		if r := recover(); r != nil {
			hit = key == "panic"
		}
	}()
	var ref genOut
	for e := 0; e < 7; e++ {
		w := applyMask(worldRng(rn.c, i), m)
		var env *envH
		if e == 0 {
			env = buildEnv(w, nil)
		} else {
			env = buildEnv(w, rn.c.Rng("minperm", i*64+e))
		}
		found := func() bool {
			defer env.close()
			for k := 0; k < 2; k++ {
				if k > 0 {
					env.newPushContext()
				}
				p := env.setupProxy(pd)
				for g := 0; g < 2; g++ {
					out := env.generate(p, pd)
					if ref == nil {
						ref = out
						continue
					}
					for _, t := range typeOrder {
						for _, d := range diffLists(t, ref[t], out[t]) {
							if d.key() == key {
								return true
							}
						}
					}
				}
			}
			return false
		}()
		if found {
			return true
		}
	}
	return false
}

func (rn *runner) minimise(i int, pd proxyDef, key string) map[string]any {
	w0 := worldRng(rn.c, i)
	m := mask{cfg: make([]bool, len(w0.Configs)), svc: make([]bool, len(w0.Services)), rep: make([]bool, len(w0.Reports))}
	tests := 0
	if !rn.reproduces(i, m, pd, key) {
		return map[string]any{"note": "difference did not reproduce in 28 further generations (7 environments); not minimised"}
	}
	type unit struct {
		kind string
		idx  int
	}
	var units []unit
	for k := range w0.Configs {
		units = append(units, unit{"cfg", k})
	}
	for k := range w0.Services {
		units = append(units, unit{"svc", k})
	}
	for k := range w0.Reports {
		units = append(units, unit{"rep", k})
	}
	set := func(mm mask, u unit, v bool) {
		switch u.kind {
		case "cfg":
			mm.cfg[u.idx] = v
		case "svc":
			mm.svc[u.idx] = v
		default:
			mm.rep[u.idx] = v
		}
	}
	isSet := func(mm mask, u unit) bool {
		switch u.kind {
		case "cfg":
			return mm.cfg[u.idx]
		case "svc":
			return mm.svc[u.idx]
		}
		return mm.rep[u.idx]
	}
	for n := (len(units) + 1) / 2; n >= 1 && tests < 220; n /= 2 {
		for lo := 0; lo < len(units) && tests < 220; lo += n {
			hi := lo + n
			if hi > len(units) {
				hi = len(units)
			}
			try := m.clone()
			changed := false
			for _, u := range units[lo:hi] {
				if !isSet(try, u) {
					set(try, u, true)
					changed = true
				}
			}
			if !changed {
				continue
			}
			tests++
			if rn.reproduces(i, try, pd, key) {
				m = try
			}
		}
		if n == 1 {
			break
		}
	}
	w := applyMask(worldRng(rn.c, i), m)
	var cfgs []map[string]any
	for _, c := range w.Configs {
		spec := ""
		if pm, ok := c.Spec.(proto.Message); ok {
			spec = prototext.MarshalOptions{Multiline: false}.Format(pm)
		}
		cfgs = append(cfgs, map[string]any{"kind": c.GroupVersionKind.Kind, "namespace": c.Namespace, "name": c.Name,
			"creationTimestamp": c.CreationTimestamp.UTC().Format("15:04:05"), "spec": spec})
	}
	var svcs []string
	for _, s := range w.Services {
		svcs = append(svcs, fmt.Sprintf("%s ns=%s created=%s resolution=%v ports=%d", s.Hostname, s.Attributes.Namespace, s.CreationTime.UTC().Format("15:04:05"), s.Resolution, len(s.Ports)))
	}
	var reps []string
	for _, r := range w.Reports {
		reps = append(reps, fmt.Sprintf("%s shard=%s endpoints=%d", r.Host, r.Shard, len(r.Eps)))
	}
	return map[string]any{"tests": tests, "configs": cfgs, "registry_services": svcs, "shard_reports": reps,
		"proxy": fmt.Sprintf("%s type=%s ns=%s labels=%v", pd.Name, pd.Type, pd.NS, pd.Labels)}
}
