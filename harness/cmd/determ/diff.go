package main

// Locating a difference between two generations: first differing resource, then the first
// differing field path inside the two decoded messages (google.protobuf.Any payloads are
// unpacked and walked too). The violation key is (type, field path without indices, kind of
// difference) so that different root causes get different keys.

import (
	"bytes"
	"fmt"
	"sort"
	"strings"

	"google.golang.org/protobuf/encoding/prototext"
	"google.golang.org/protobuf/proto"
	"google.golang.org/protobuf/reflect/protoreflect"
	"google.golang.org/protobuf/reflect/protoregistry"
	"google.golang.org/protobuf/types/known/anypb"
)

type difference struct {
	Type     string `json:"type"`
	Resource string `json:"resource"`
	KeyPath  string `json:"key_path"` // indices stripped
	Path     string `json:"path"`     // with indices / map keys
	Kind     string `json:"kind"`     // order | len | value | presence | resource-order | resource-set | encoding | any-type
	A        string `json:"a"`
	B        string `json:"b"`

	Ctx    []string `json:"context,omitempty"` // "name" fields of the enclosing messages along the path
	NamesA []string `json:"names_a,omitempty"` // resource-order / resource-set: the two name lists (bounded)
	NamesB []string `json:"names_b,omitempty"`

	rawA, rawB []byte // whole resources, kept only for encoding differences (debug dump)
}

func (d *difference) key() string {
	return fmt.Sprintf("type=%s field=%s:%s", d.Type, d.KeyPath, d.Kind)
}

var detMarshal = proto.MarshalOptions{Deterministic: true}

// diffLists compares the ordered resource lists of one type and returns every located difference,
// at most one per key (nil = identical). Content differences of same-named resources are reported
// as well as order / membership differences of the list itself, so that a frequent benign
// difference cannot hide a rarer one.
func diffLists(typ string, a, b []res) []*difference {
	same := len(a) == len(b)
	if same {
		for i := range a {
			if a[i].Name != b[i].Name || a[i].TypeURL != b[i].TypeURL || !bytes.Equal(a[i].Value, b[i].Value) {
				same = false
				break
			}
		}
	}
	if same {
		return nil
	}
	col := &collector{seen: map[string]bool{}}
	am, bm := map[string]res{}, map[string]res{}
	for _, r := range a {
		am[r.Name] = r
	}
	for _, r := range b {
		bm[r.Name] = r
	}
	dupNames := len(am) != len(a) || len(bm) != len(b)
	an, bn := names(a), names(b)
	sameSeq := strings.Join(an, "\x00") == strings.Join(bn, "\x00")
	pair := func(r, o res) {
		col.resource = r.Name
		if r.TypeURL != o.TypeURL {
			col.add(&difference{KeyPath: "<resource>", Path: "<resource>", Kind: "any-type", A: r.TypeURL, B: o.TypeURL})
			return
		}
		if !bytes.Equal(r.Value, o.Value) {
			diffResource(col, r, o)
		}
	}
	switch {
	case sameSeq:
		for i := range a {
			pair(a[i], b[i])
		}
	case !dupNames:
		for _, r := range a {
			if o, ok := bm[r.Name]; ok {
				pair(r, o)
			}
		}
	}
	col.resource = ""
	if !sameSeq {
		as, bs := append([]string{}, an...), append([]string{}, bn...)
		sort.Strings(as)
		sort.Strings(bs)
		if strings.Join(as, "\x00") == strings.Join(bs, "\x00") {
			first := ""
			for i := range an {
				if an[i] != bn[i] {
					first = fmt.Sprintf("position %d: %q vs %q", i, an[i], bn[i])
					break
				}
			}
			col.add(&difference{KeyPath: "<resources>", Path: "<resources>", Kind: "resource-order", A: first, B: fmt.Sprintf("%d resources", len(an)),
				NamesA: trunc(an, 80), NamesB: trunc(bn, 80)})
		} else {
			var onlyA, onlyB []string
			for _, n := range an {
				if _, ok := bm[n]; !ok {
					onlyA = append(onlyA, n)
				}
			}
			for _, n := range bn {
				if _, ok := am[n]; !ok {
					onlyB = append(onlyB, n)
				}
			}
			col.add(&difference{KeyPath: "<resources>", Path: "<resources>", Kind: "resource-set",
				A: fmt.Sprintf("only in first: %v (n=%d)", trunc(onlyA, 5), len(an)), B: fmt.Sprintf("only in second: %v (n=%d)", trunc(onlyB, 5), len(bn)),
				NamesA: trunc(onlyA, 80), NamesB: trunc(onlyB, 80)})
		}
	}
	for _, d := range col.out {
		d.Type = typ
	}
	return col.out
}

// collector gathers differences, one per key, bounded.
type collector struct {
	ctx      []string
	resource string
	seen     map[string]bool
	out      []*difference
}

func (c *collector) full() bool { return len(c.out) >= 40 }

func (c *collector) add(d *difference) {
	k := d.KeyPath + ":" + d.Kind
	if c.seen[k] || c.full() {
		return
	}
	c.seen[k] = true
	d.Resource = c.resource
	d.Ctx = append([]string{}, c.ctx...)
	c.out = append(c.out, d)
}

func trunc(s []string, n int) []string {
	if len(s) > n {
		return append(append([]string{}, s[:n]...), "…")
	}
	return s
}

func names(rs []res) []string {
	out := make([]string, len(rs))
	for i, r := range rs {
		out[i] = r.Name
	}
	return out
}

func decode(typeURL string, b []byte) (protoreflect.Message, error) {
	mt, err := protoregistry.GlobalTypes.FindMessageByURL(typeURL)
	if err != nil {
		return nil, err
	}
	m := mt.New()
	if err := (proto.UnmarshalOptions{}).Unmarshal(b, m.Interface()); err != nil {
		return nil, err
	}
	return m, nil
}

// diffResource records the differing fields of two resources whose bytes differ.
func diffResource(col *collector, a, b res) {
	ma, err1 := decode(a.TypeURL, a.Value)
	mb, err2 := decode(b.TypeURL, b.Value)
	if err1 != nil || err2 != nil {
		col.add(&difference{KeyPath: "<undecodable>", Path: "<undecodable>", Kind: "value", A: fmt.Sprint(err1), B: fmt.Sprint(err2)})
		return
	}
	root := string(ma.Descriptor().Name())
	if !diffMsg(col, ma, mb, root, root) && !col.full() {
		// decoded messages are equal field by field, bytes are not: the encoding itself differs
		col.add(&difference{KeyPath: root, Path: root, Kind: "encoding", A: fmt.Sprintf("%d bytes", len(a.Value)), B: fmt.Sprintf("%d bytes", len(b.Value)), rawA: a.Value, rawB: b.Value})
	}
}

func short(v string) string {
	v = strings.Join(strings.Fields(v), " ")
	if len(v) > 4000 {
		return v[:4000] + "…"
	}
	return v
}

func fmtMsg(m protoreflect.Message) string {
	return short(prototext.MarshalOptions{Multiline: false}.Format(m.Interface()))
}

func msgBytes(m protoreflect.Message) []byte {
	b, _ := detMarshal.Marshal(m.Interface())
	return b
}

// diffMsg walks two messages of the same type; returns true when it recorded (or would have
// recorded, had the key not been seen before) at least one difference below this point.
func diffMsg(col *collector, a, b protoreflect.Message, kp, p string) bool {
	if a.Descriptor().FullName() != b.Descriptor().FullName() {
		col.add(&difference{KeyPath: kp, Path: p, Kind: "any-type", A: string(a.Descriptor().FullName()), B: string(b.Descriptor().FullName())})
		return true
	}
	if a.Descriptor().FullName() == "google.protobuf.Any" {
		aa, ab := &anypb.Any{}, &anypb.Any{}
		proto.Merge(aa, a.Interface())
		proto.Merge(ab, b.Interface())
		if aa.TypeUrl != ab.TypeUrl {
			col.add(&difference{KeyPath: kp, Path: p, Kind: "any-type", A: aa.TypeUrl, B: ab.TypeUrl})
			return true
		}
		if bytes.Equal(aa.Value, ab.Value) {
			return false
		}
		ia, e1 := decode(aa.TypeUrl, aa.Value)
		ib, e2 := decode(ab.TypeUrl, ab.Value)
		n := aa.TypeUrl[strings.LastIndex(aa.TypeUrl, ".")+1:]
		if e1 != nil || e2 != nil {
			col.add(&difference{KeyPath: kp + "[" + n + "]", Path: p + "[" + n + "]", Kind: "value", A: "undecodable Any payload differs", B: ""})
			return true
		}
		if !diffMsg(col, ia, ib, kp+"["+n+"]", p+"["+n+"]") {
			col.add(&difference{KeyPath: kp + "[" + n + "]", Path: p + "[" + n + "]", Kind: "encoding", A: fmt.Sprintf("%d bytes", len(aa.Value)), B: fmt.Sprintf("%d bytes", len(ab.Value))})
		}
		return true
	}
	found := false
	fds := a.Descriptor().Fields()
	nctx := len(col.ctx)
	defer func() { col.ctx = col.ctx[:nctx] }()
	if nf := fds.ByName("name"); nf != nil && nf.Kind() == protoreflect.StringKind && !nf.IsList() {
		na, nb := a.Get(nf).String(), b.Get(nf).String()
		if na != "" {
			col.ctx = append(col.ctx, na)
		}
		if nb != "" && nb != na {
			col.ctx = append(col.ctx, nb)
		}
	}
	if fds.ByName("cluster") != nil || fds.ByName("weighted_clusters") != nil {
		// what a route action / TCP proxy is about: the clusters it sends to (context for attributing a difference to a hostname)
		seen := map[string]bool{}
		for _, m := range []protoreflect.Message{a, b} {
			for _, cn := range routeActionClusters(m) {
				if !seen[cn] {
					seen[cn] = true
					col.ctx = append(col.ctx, cn)
				}
			}
		}
	}
	for i := 0; i < fds.Len() && !col.full(); i++ {
		fd := fds.Get(i)
		name := string(fd.Name())
		fkp, fp := kp+"."+name, p+"."+name
		ha, hb := a.Has(fd), b.Has(fd)
		if !ha && !hb {
			continue
		}
		if ha != hb {
			// show the value on the side that has it
			ta, tb := "<absent>", "<absent>"
			one := a.New()
			if ha {
				one.Set(fd, a.Get(fd))
				ta = fmtMsg(one)
			} else {
				one.Set(fd, b.Get(fd))
				tb = fmtMsg(one)
			}
			col.add(&difference{KeyPath: fkp, Path: fp, Kind: "presence", A: ta, B: tb})
			found = true
			continue
		}
		va, vb := a.Get(fd), b.Get(fd)
		switch {
		case fd.IsList():
			if diffList(col, fd, va.List(), vb.List(), fkp, fp) {
				found = true
			}
		case fd.IsMap():
			if diffMap(col, fd, va.Map(), vb.Map(), fkp, fp) {
				found = true
			}
		case fd.Message() != nil:
			if diffMsg(col, va.Message(), vb.Message(), fkp, fp) {
				found = true
			}
		default:
			if !scalarEqual(fd, va, vb) {
				col.add(&difference{KeyPath: fkp, Path: fp, Kind: "value", A: short(va.String()), B: short(vb.String())})
				found = true
			}
		}
	}
	if !bytes.Equal(a.GetUnknown(), b.GetUnknown()) {
		col.add(&difference{KeyPath: kp + ".<unknown-fields>", Path: p + ".<unknown-fields>", Kind: "value"})
		found = true
	}
	return found
}

// routeActionClusters lists the cluster names of a RouteAction (cluster, weighted clusters, mirrors).
func routeActionClusters(m protoreflect.Message) []string {
	var out []string
	fds := m.Descriptor().Fields()
	if fd := fds.ByName("cluster"); fd != nil && fd.Kind() == protoreflect.StringKind && !fd.IsList() && m.Has(fd) {
		out = append(out, m.Get(fd).String())
	}
	if fd := fds.ByName("weighted_clusters"); fd != nil && fd.Message() != nil && !fd.IsList() && m.Has(fd) {
		wc := m.Get(fd).Message()
		if cfd := wc.Descriptor().Fields().ByName("clusters"); cfd != nil && cfd.IsList() && cfd.Message() != nil {
			l := wc.Get(cfd).List()
			for i := 0; i < l.Len(); i++ {
				e := l.Get(i).Message()
				if nfd := e.Descriptor().Fields().ByName("name"); nfd != nil && nfd.Kind() == protoreflect.StringKind {
					out = append(out, e.Get(nfd).String())
				}
			}
		}
	}
	if fd := fds.ByName("request_mirror_policies"); fd != nil && fd.IsList() && fd.Message() != nil && m.Has(fd) {
		l := m.Get(fd).List()
		for i := 0; i < l.Len(); i++ {
			e := l.Get(i).Message()
			if cfd := e.Descriptor().Fields().ByName("cluster"); cfd != nil && cfd.Kind() == protoreflect.StringKind {
				out = append(out, e.Get(cfd).String())
			}
		}
	}
	return out
}

func scalarEqual(fd protoreflect.FieldDescriptor, a, b protoreflect.Value) bool {
	if fd.Kind() == protoreflect.BytesKind {
		return bytes.Equal(a.Bytes(), b.Bytes())
	}
	return a.Interface() == b.Interface() || a.String() == b.String()
}

func elemBytes(fd protoreflect.FieldDescriptor, v protoreflect.Value) string {
	if fd.Message() != nil {
		return string(msgBytes(v.Message()))
	}
	if fd.Kind() == protoreflect.BytesKind {
		return string(v.Bytes())
	}
	return v.String()
}

func elemString(fd protoreflect.FieldDescriptor, v protoreflect.Value) string {
	if fd.Message() != nil {
		return fmtMsg(v.Message())
	}
	return short(v.String())
}

// canon is an order-insensitive canonical form of a value: every repeated field (recursively, also
// inside Any payloads) is sorted. Two elements with equal canon differ at most in inner ordering.
func canonMsg(m protoreflect.Message) string {
	if m.Descriptor().FullName() == "google.protobuf.Any" {
		a := &anypb.Any{}
		proto.Merge(a, m.Interface())
		if im, err := decode(a.TypeUrl, a.Value); err == nil {
			return "any{" + a.TypeUrl + ":" + canonMsg(im) + "}"
		}
		return "any{" + a.TypeUrl + ":" + string(a.Value) + "}"
	}
	var sb strings.Builder
	fds := m.Descriptor().Fields()
	for i := 0; i < fds.Len(); i++ {
		fd := fds.Get(i)
		if !m.Has(fd) {
			continue
		}
		fmt.Fprintf(&sb, "%d(", fd.Number())
		v := m.Get(fd)
		switch {
		case fd.IsList():
			l := v.List()
			es := make([]string, l.Len())
			for k := range es {
				es[k] = canonVal(fd, l.Get(k))
			}
			sort.Strings(es)
			sb.WriteString(strings.Join(es, "\x01"))
		case fd.IsMap():
			var es []string
			v.Map().Range(func(k protoreflect.MapKey, mv protoreflect.Value) bool {
				es = append(es, k.String()+"="+canonVal(fd.MapValue(), mv))
				return true
			})
			sort.Strings(es)
			sb.WriteString(strings.Join(es, "\x01"))
		default:
			sb.WriteString(canonVal(fd, v))
		}
		sb.WriteString(")")
	}
	if u := m.GetUnknown(); len(u) > 0 {
		sb.WriteString("u(" + string(u) + ")")
	}
	return sb.String()
}

func canonVal(fd protoreflect.FieldDescriptor, v protoreflect.Value) string {
	if fd.Message() != nil {
		return "{" + canonMsg(v.Message()) + "}"
	}
	if fd.Kind() == protoreflect.BytesKind {
		return string(v.Bytes())
	}
	return v.String()
}

// differingFields counts the top-level fields in which two messages of one type differ.
func differingFields(a, b protoreflect.Message) (n int, names []string) {
	fds := a.Descriptor().Fields()
	for i := 0; i < fds.Len(); i++ {
		fd := fds.Get(i)
		ha, hb := a.Has(fd), b.Has(fd)
		if !ha && !hb {
			continue
		}
		if ha != hb {
			n++
			names = append(names, string(fd.Name()))
			continue
		}
		ma, mb := a.New(), b.New()
		ma.Set(fd, a.Get(fd))
		mb.Set(fd, b.Get(fd))
		if !bytes.Equal(msgBytes(ma), msgBytes(mb)) {
			n++
			names = append(names, string(fd.Name()))
		}
	}
	return n, names
}

// diffList compares a repeated field.
//  1. Same length and, index by index, equal up to inner ordering: descend into the unequal pairs
//     (the finding is the inner ordering, not this list).
//  2. Otherwise elements are matched as multisets of canonical forms. Matched elements in a
//     different relative order => "order". Matched pairs whose bytes differ are descended into.
//     Unmatched leftovers => "len" when their numbers differ; they are paired in order of
//     appearance: a pair differing in >= 3 top-level fields is a different object altogether
//     ("element-differs", not descended: the cascade of field keys would be meaningless),
//     otherwise it is descended into.
func diffList(col *collector, fd protoreflect.FieldDescriptor, a, b protoreflect.List, kp, p string) bool {
	ea, eb := make([]string, a.Len()), make([]string, b.Len())
	for i := range ea {
		ea[i] = elemBytes(fd, a.Get(i))
	}
	for i := range eb {
		eb[i] = elemBytes(fd, b.Get(i))
	}
	if len(ea) == len(eb) {
		eq := true
		for i := range ea {
			if ea[i] != eb[i] {
				eq = false
				break
			}
		}
		if eq {
			return false
		}
	}
	isMsg := fd.Message() != nil
	ca, cb := ea, eb
	if isMsg {
		ca, cb = make([]string, a.Len()), make([]string, b.Len())
		for i := range ca {
			ca[i] = canonMsg(a.Get(i).Message())
		}
		for i := range cb {
			cb[i] = canonMsg(b.Get(i).Message())
		}
	}
	descend := func(ia, ib int) {
		ip := fmt.Sprintf("%s[%d]", p, ia)
		if ia != ib {
			ip = fmt.Sprintf("%s[%d|%d]", p, ia, ib)
		}
		if !diffMsg(col, a.Get(ia).Message(), b.Get(ib).Message(), kp, ip) {
			col.add(&difference{KeyPath: kp, Path: ip, Kind: "value", A: elemString(fd, a.Get(ia)), B: elemString(fd, b.Get(ib))})
		}
	}
	if len(ca) == len(cb) {
		aligned := true
		for i := range ca {
			if ca[i] != cb[i] {
				aligned = false
				break
			}
		}
		if aligned {
			// only inner orderings differ
			for i := range ea {
				if ea[i] != eb[i] && !col.full() {
					descend(i, i)
				}
			}
			return true
		}
	}
	// multiset matching on canonical forms
	posB := map[string][]int{}
	for i, e := range cb {
		posB[e] = append(posB[e], i)
	}
	var leftA, leftB []int
	usedB := make([]bool, len(cb))
	type pr struct{ ia, ib int }
	var matched []pr
	for i, e := range ca {
		if l := posB[e]; len(l) > 0 {
			matched = append(matched, pr{i, l[0]})
			usedB[l[0]] = true
			posB[e] = l[1:]
		} else {
			leftA = append(leftA, i)
		}
	}
	for i := range cb {
		if !usedB[i] {
			leftB = append(leftB, i)
		}
	}
	// relative order of the matched elements (by canonical form)
	var seqA, seqB []string
	for _, m := range matched {
		seqA = append(seqA, ca[m.ia])
	}
	mb := append([]pr{}, matched...)
	sort.Slice(mb, func(i, j int) bool { return mb[i].ib < mb[j].ib })
	for _, m := range mb {
		seqB = append(seqB, cb[m.ib])
	}
	if strings.Join(seqA, "\x02") != strings.Join(seqB, "\x02") {
		var oa, ob []string
		for i := 0; i < a.Len() && i < 6; i++ {
			oa = append(oa, elemString(fd, a.Get(i)))
		}
		for i := 0; i < b.Len() && i < 6; i++ {
			ob = append(ob, elemString(fd, b.Get(i)))
		}
		col.add(&difference{KeyPath: kp, Path: p, Kind: "order", A: short(strings.Join(oa, " ; ")), B: short(strings.Join(ob, " ; "))})
	}
	if isMsg {
		for _, m := range matched {
			if ea[m.ia] != eb[m.ib] && !col.full() {
				descend(m.ia, m.ib)
			}
		}
	}
	if len(leftA) != len(leftB) {
		col.add(&difference{KeyPath: kp, Path: p, Kind: "len", A: fmt.Sprintf("%d elements", len(ea)), B: fmt.Sprintf("%d elements", len(eb))})
	}
	for k := 0; k < len(leftA) && k < len(leftB) && !col.full(); k++ {
		ia, ib := leftA[k], leftB[k]
		ip := fmt.Sprintf("%s[%d]", p, ia)
		if ia != ib {
			ip = fmt.Sprintf("%s[%d|%d]", p, ia, ib)
		}
		if isMsg {
			if n, fields := differingFields(a.Get(ia).Message(), b.Get(ib).Message()); n >= 3 {
				col.add(&difference{KeyPath: kp, Path: ip, Kind: "element-differs", A: fmt.Sprintf("differs in %v: %s", fields, elemString(fd, a.Get(ia))), B: elemString(fd, b.Get(ib))})
				continue
			}
			descend(ia, ib)
			continue
		}
		col.add(&difference{KeyPath: kp, Path: ip, Kind: "value", A: elemString(fd, a.Get(ia)), B: elemString(fd, b.Get(ib))})
	}
	return true
}

func diffMap(col *collector, fd protoreflect.FieldDescriptor, a, b protoreflect.Map, kp, p string) bool {
	keys := map[string]protoreflect.MapKey{}
	a.Range(func(k protoreflect.MapKey, _ protoreflect.Value) bool { keys[k.String()] = k; return true })
	b.Range(func(k protoreflect.MapKey, _ protoreflect.Value) bool { keys[k.String()] = k; return true })
	ks := make([]string, 0, len(keys))
	for k := range keys {
		ks = append(ks, k)
	}
	sort.Strings(ks)
	vfd := fd.MapValue()
	found := false
	for _, k := range ks {
		if col.full() {
			break
		}
		mk := keys[k]
		ha, hb := a.Has(mk), b.Has(mk)
		kpath := fmt.Sprintf("%s[%q]", p, k)
		if ha != hb {
			col.add(&difference{KeyPath: kp, Path: kpath, Kind: "presence", A: fmt.Sprint(ha), B: fmt.Sprint(hb)})
			found = true
			continue
		}
		va, vb := a.Get(mk), b.Get(mk)
		if vfd.Message() != nil {
			if diffMsg(col, va.Message(), vb.Message(), kp, kpath) {
				found = true
			}
		} else if !scalarEqual(vfd, va, vb) {
			col.add(&difference{KeyPath: kp, Path: kpath, Kind: "value", A: short(va.String()), B: short(vb.String())})
			found = true
		}
	}
	return found
}
