package main

// Cross-process level. The child re-executes its own binary with a private flag; every helper is a
// brand-new process (new map hash seeds, new address space, empty process-global state) that
// regenerates each world of the batch once, in an environment built with the helper's own
// insertion-order permutation and in the helper's own order of worlds, and streams the
// resources to the child over stdout (gob). The child compares them with its references.

import (
	"bufio"
	"context"
	"encoding/gob"
	"fmt"
	"io"
	"os"
	"os/exec"
	"path/filepath"
	"runtime/debug"
	"strconv"
	"strings"
	"time"

	"verifharness/internal/quiet"
	"verifharness/internal/vh"
)

const helperFlag = "-determ-helper"

type xproxy struct {
	Name string
	Out  map[string][]res
}

type xrec struct {
	World   int // -1 = end of stream
	Err     string
	Proxies []xproxy
}

// helperMain: -determ-helper <seed> <round> <comma separated world indices>
func helperMain(args []string) {
	if len(args) != 3 {
		fmt.Fprintln(os.Stderr, "usage: -determ-helper <seed> <round> <worlds>")
		os.Exit(2)
	}
	seed, _ := strconv.ParseInt(args[0], 10, 64)
	round, _ := strconv.Atoi(args[1])
	var worlds []int
	for _, s := range strings.Split(args[2], ",") {
		if n, err := strconv.Atoi(s); err == nil {
			worlds = append(worlds, n)
		}
	}
	quiet.Logs("none")
	c := &vh.Ctx{Prop: &vh.Prop{ID: "C17"}, Seed: seed}
	// the helper visits the worlds in its own order: output that depends on what the process
	// generated before (process-global state) then differs from the child's
	or := c.Rng("xorder", round)
	or.Shuffle(len(worlds), func(i, j int) { worlds[i], worlds[j] = worlds[j], worlds[i] })
	bw := bufio.NewWriterSize(os.Stdout, 1<<20)
	enc := gob.NewEncoder(bw)
	for _, i := range worlds {
		rec := helperWorld(c, i, round)
		if err := enc.Encode(rec); err != nil {
			fmt.Fprintf(os.Stderr, "helper: encode: %v\n", err)
			os.Exit(3)
		}
	}
	_ = enc.Encode(&xrec{World: -1})
	_ = bw.Flush()
	os.Exit(0)
}

func helperWorld(c *vh.Ctx, i, round int) (rec *xrec) {
	rec = &xrec{World: i}
	defer func() {
		if r := recover(); r != nil {
			rec.Err = fmt.Sprintf("panic in helper: %v\n%s", r, firstLines(string(debug.Stack()), 30))
			rec.Proxies = nil
		}
	}()
	w := worldRng(c, i)
	env := buildEnv(w, c.Rng("xperm", i*1024+round))
	defer env.close()
	for _, pd := range w.Proxies {
		p := env.setupProxy(pd)
		rec.Proxies = append(rec.Proxies, xproxy{Name: pd.Name, Out: env.generate(p, pd)})
	}
	return rec
}

func firstLines(s string, n int) string {
	l := strings.Split(s, "\n")
	if len(l) > n {
		l = l[:n]
	}
	return strings.Join(l, "\n")
}

// xprocCase runs helper round r over all worlds of this batch and compares.
func (rn *runner) xprocCase(r int, mine []int) {
	c := rn.c
	if len(mine) == 0 {
		return
	}
	ws := make([]string, len(mine))
	for k, i := range mine {
		ws[k] = strconv.Itoa(i)
	}
	// generous watchdog: the helper does one environment + one generation per world
	ctx, cancel := context.WithTimeout(context.Background(), time.Duration(120+8*len(mine))*time.Second)
	defer cancel()
	cmd := exec.CommandContext(ctx, os.Args[0], helperFlag, fmt.Sprint(c.Seed), strconv.Itoa(r), strings.Join(ws, ","))
	cmd.Stderr = os.Stderr
	cmd.Env = os.Environ()
	stdout, err := cmd.StdoutPipe()
	if err != nil {
		vh.Abort("helper pipe: %v", err)
	}
	if err := cmd.Start(); err != nil {
		vh.Abort("helper start: %v", err)
	}
	c.Count("helper_processes", 1)
	dec := gob.NewDecoder(bufio.NewReaderSize(stdout, 1<<20))
	got := 0
	complete := false
	for {
		var rec xrec
		if err := dec.Decode(&rec); err != nil {
			if err != io.EOF {
				c.Inconclusive(fmt.Sprintf("helper round %d: stream broke after %d worlds: %v", r, got, err))
			}
			break
		}
		if rec.World < 0 {
			complete = true
			break
		}
		got++
		if rec.Err != "" {
			c.Count("helper_world_errors", 1)
			c.Inconclusive(fmt.Sprintf("helper round %d world %d: %s", r, rec.World, firstLines(rec.Err, 3)))
			continue
		}
		ref := rn.ref(rec.World)
		if ref == nil {
			continue
		}
		for _, xp := range rec.Proxies {
			pd, ok := proxyByName(ref.proxies, xp.Name)
			r0, ok2 := ref.out[xp.Name]
			if !ok || !ok2 {
				continue
			}
			c.Count("generations_helper", 1)
			rn.compare(rec.World, pd, "other-process", r0, genOut(xp.Out), ref.shape, map[string]any{"helper_round": r})
		}
	}
	_, _ = io.Copy(io.Discard, stdout)
	werr := cmd.Wait()
	if !complete || werr != nil {
		c.Count("helper_failures", 1)
		c.Inconclusive(fmt.Sprintf("helper round %d ended abnormally (complete=%v, err=%v, worlds received=%d/%d)", r, complete, werr, got, len(mine)))
	}
}

// ref returns the reference of world i, computing it when the world case did not run in this
// process (replay of an xproc case).
func (rn *runner) ref(i int) *refEntry {
	if e, ok := rn.refs[i]; ok {
		return e
	}
	var e *refEntry
	func() {
		defer func() {
			if r := recover(); r != nil {
				e = nil
			}
		}()
		w := worldRng(rn.c, i)
		env := buildEnv(w, nil)
		defer env.close()
		e = &refEntry{proxies: w.Proxies, shape: shapeOf(w), out: map[string]genOut{}}
		for _, pd := range w.Proxies {
			e.out[pd.Name] = env.generate(env.setupProxy(pd), pd)
		}
	}()
	rn.refs[i] = e
	return e
}

// writeDigests appends, per (world, proxy, type), the number of resources and one SHA-256 over the
// ordered (name, type, SHA-256(bytes)) list to <out>/run/C17/digests.<batch>.txt.
func (rn *runner) writeDigests(i int, ref *refEntry) {
	root := os.Getenv("VERIF_OUT")
	if root == "" {
		root = vh.VerifRoot
	}
	dir := filepath.Join(root, "run", "C17")
	if os.MkdirAll(dir, 0o755) != nil {
		return
	}
	f, err := os.OpenFile(filepath.Join(dir, fmt.Sprintf("digests.%d.txt", rn.c.Batch)), os.O_CREATE|os.O_APPEND|os.O_WRONLY, 0o644)
	if err != nil {
		return
	}
	defer f.Close()
	for _, pd := range ref.proxies {
		for _, t := range typeOrder {
			rs := ref.out[pd.Name][t]
			fmt.Fprintf(f, "world=%d proxy=%s type=%s n=%d sha256=%s\n", i, pd.Name, t, len(rs), listDigest(rs))
		}
	}
}
