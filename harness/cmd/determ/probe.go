package main

// Development aid: `determ probe <seed> <world> <proxy> <type> <resource> [generations]` regenerates one
// resource of one generated world several times (same push context, fresh push contexts, permuted
// environments) and prints every distinct variant as prototext, so that two variants can be diffed.

import (
	"fmt"
	"os"
	"strconv"

	"google.golang.org/protobuf/encoding/prototext"

	"verifharness/internal/quiet"
	"verifharness/internal/vh"
)

func probeMain(args []string) {
	if len(args) < 5 {
		fmt.Fprintln(os.Stderr, "usage: probe <seed> <world> <proxy> <type> <resource|*> [envs]")
		os.Exit(2)
	}
	seed, _ := strconv.ParseInt(args[0], 10, 64)
	wi, _ := strconv.Atoi(args[1])
	envs := 6
	if len(args) > 5 {
		envs, _ = strconv.Atoi(args[5])
	}
	quiet.Logs("none")
	c := &vh.Ctx{Prop: &vh.Prop{ID: "C17"}, Seed: seed}
	seen := map[string]int{}
	if args[3] == "shape" {
		w := worldRng(c, wi)
		sh := shapeOf(w)
		fmt.Printf("shapes: %v\nservice-tie tokens: %v\nnamespace-tie hosts per proxy namespace: %v\nvhost patch lists: %v sharedAddress=%v portLevelMtls=%v multiShard=%v\n",
			w.Shapes, sh.ties, sh.nsTieHosts, sh.vhostPatchLists, sh.sharedAddress, sh.portLevelMtls, sh.multiShard)
		for _, cfg := range w.Configs {
			if k := cfg.GroupVersionKind.Kind; k == "ServiceEntry" || k == "Sidecar" || os.Getenv("DETERM_ALL_KINDS") != "" {
				fmt.Printf("%s %s/%s %s %v\n", cfg.GroupVersionKind.Kind, cfg.Namespace, cfg.Name, cfg.CreationTimestamp.UTC().Format("15:04:05"), cfg.Spec)
			}
		}
		return
	}
	for e := 0; e < envs; e++ {
		w := worldRng(c, wi)
		pd, ok := proxyByName(w.Proxies, args[2])
		if !ok {
			fmt.Fprintln(os.Stderr, "no such proxy")
			os.Exit(2)
		}
		var env *envH
		if e == 0 {
			env = buildEnv(w, nil)
		} else {
			env = buildEnv(w, c.Rng("probe", e))
		}
		for k := 0; k < 3; k++ {
			if k > 0 {
				env.newPushContext()
			}
			p := env.setupProxy(pd)
			for g := 0; g < 3; g++ {
				out := env.generate(p, pd)
				if args[4] == "*" {
					d := listDigest(out[args[3]])
					if _, ok := seen[d]; !ok {
						seen[d] = len(seen)
						fmt.Printf("=== variant %d (env %d pc %d gen %d): %v\n", seen[d], e, k, g, names(out[args[3]]))
					}
					continue
				}
				for _, r := range out[args[3]] {
					if r.Name != args[4] {
						continue
					}
					d := r.digest()
					if _, ok := seen[d]; ok {
						continue
					}
					seen[d] = len(seen)
					m, err := decode(r.TypeURL, r.Value)
					if err != nil {
						fmt.Printf("=== variant %d undecodable\n", seen[d])
						continue
					}
					fmt.Printf("=== variant %d (env %d pc %d gen %d)\n%s\n", seen[d], e, k, g, prototext.MarshalOptions{Multiline: true}.Format(m.Interface()))
				}
			}
		}
		env.close()
	}
	fmt.Printf("distinct variants: %d\n", len(seen))
}
