package main

// Attribution of a difference to a KNOWN root cause in istio.
//
// The verdict is and stays the byte comparison of what the generators returned (compare in
// main.go). This file only decides the violation KEY. Every known cause c has a normaliser N_c that
// removes from a generation exactly the freedom the cause introduces (e.g. "the query parameter
// matchers of one RouteMatch come in Go map order" => sort that one list). The normalisers are
// applied one after the other to both generations; the differences that disappear when N_c is applied
// are reported under the key "cause=<istio code site>"; whatever is left keeps the generic key
// (type, field path, kind) and is a plain violation. A cause is only tried on the xDS type and the
// proxy kind on which its code site runs, and - where the site needs a particular input - only when
// the world has that shape (inputShape). So another nondeterminism, even in the same field, keeps a
// key that no known-findings line matches:
//   - another field / another kind of difference (value, len, presence): not touched by N_c;
//   - the same list on a type or proxy kind the cause cannot reach: N_c is not tried;
//   - an order difference of the very list that the cause already shuffles uniformly is not
//     observable at all while the cause exists, so nothing is lost there.
//
// Two causes are semantic (a different object wins a tie). They are recognised from the input: the
// world contains the exact tie (tieShapes) and the residual difference is about a hostname / address
// whose owner the tie decides.

import (
	"fmt"
	"net/netip"
	"sort"
	"strings"

	cluster "github.com/envoyproxy/go-control-plane/envoy/config/cluster/v3"
	listener "github.com/envoyproxy/go-control-plane/envoy/config/listener/v3"
	route "github.com/envoyproxy/go-control-plane/envoy/config/route/v3"
	"google.golang.org/protobuf/proto"
	"google.golang.org/protobuf/reflect/protoreflect"
	"google.golang.org/protobuf/types/known/structpb"

	networking "istio.io/api/networking/v1alpha3"
	security "istio.io/api/security/v1beta1"
	"istio.io/istio/pilot/pkg/model"
	"istio.io/istio/pkg/config"
	dnsProto "istio.io/istio/pkg/dns/proto"
)

// Known causes (key fragment = code site). See DESIGN.md / the engine report for the reproductions
// (`determ repro <name>`).
const (
	causeQueryParams  = "route.TranslateRouteMatch.query_parameters-map-order"
	causeClaimMatch   = "route.TranslateRouteMatch.dynamic_metadata-map-order"
	causeNdsIPs       = "dns.BuildNameTable.ServiceEndpoints-port-map-order+model.EndpointShards.CopyEndpoints-shard-map-order"
	causeEdsSubs      = "xds.EdsGenerator.buildEndpoints-subscription-set-order"
	causeRdsSubs      = "xds.RdsGenerator.Generate-subscription-set-order"
	causeEcdsSubs     = "xds.EcdsGenerator.Generate-subscription-set-order"
	causeOutboundLds  = "core.finalizeOutboundListeners-listenerMap-order"
	causeGatewayLds   = "core.buildGatewayListeners-mutableopts-map-order"
	causePassthrough  = "authn.Builder.ForPassthrough-portLevelMtls-map-order"
	causeCopyEps      = "model.EndpointShards.CopyEndpoints-shard-map-order"
	causeVSDestOrder  = "model.SidecarScope.collectImportedServices-virtualservice-destination-map-order"
	causeDoublePatch  = "core.buildSidecarOutboundHTTPRouteConfig-vHostCache-virtualhost-patched-once-per-route"
	causeVhostDomains = "route.BuildSidecarVirtualHostWrapper-serviceRegistry-map-order-decides-shared-domain"
	causeServiceTie   = "model.SortServicesByCreationTime-tie-on-time+name+namespace-not-total"
	causeNamespaceTie = "model.pickBestVisibleNamespace-equal-creation-time-by-map-order"
)

// normCtx is what a normaliser may look at besides the generation itself.
type normCtx struct {
	typ   string
	kind  string // proxyKind
	shape *inputShape
}

// knownCause describes one root cause.
type knownCause struct {
	id    string
	types []string                                   // xDS types on which the code site runs
	kinds func(kind string) bool                     // proxy kinds on which it runs (nil = all)
	shape func(s *inputShape) bool                   // required input shape (nil = none)
	list  func(nc *normCtx, rs []res) []res          // resource-list level normaliser (order of resources), or nil
	msg   func(nc *normCtx, a, b proto.Message) bool // resource level normaliser: mutates the two decoded same-named resources, reports whether it changed anything
}

func isSidecarKind(k string) bool { return strings.HasPrefix(k, "sidecar") }

// knownCauses in the order in which they are tried.
var knownCauses = []knownCause{
	{id: causeEdsSubs, types: []string{"EDS"}, list: sortAllByName},
	{id: causeRdsSubs, types: []string{"RDS"}, list: sortAllByName},
	{id: causeEcdsSubs, types: []string{"ECDS"}, list: sortAllByName},
	{id: causeOutboundLds, types: []string{"LDS"}, kinds: isSidecarKind, list: sortOutboundListenerBlock},
	{id: causeGatewayLds, types: []string{"LDS"}, kinds: func(k string) bool { return k == string(model.Router) }, list: sortAllByName},
	{id: causeVSDestOrder, types: []string{"CDS"}, kinds: func(k string) bool { return k == "sidecar+Sidecar" }, list: sortOutboundClusterGroups},
	{id: causeQueryParams, types: []string{"RDS"}, msg: each(normQueryParams)},
	{id: causeClaimMatch, types: []string{"RDS"}, msg: each(normClaimMatchers)},
	{id: causeDoublePatch, types: []string{"RDS"}, kinds: isSidecarKind, shape: func(s *inputShape) bool { return len(s.vhostPatchLists) > 0 }, msg: each(normDoublePatch)},
	{id: causeVhostDomains, types: []string{"RDS"}, kinds: isSidecarKind, shape: func(s *inputShape) bool { return s.sharedAddress }, msg: normSharedAddressDomains},
	{id: causePassthrough, types: []string{"LDS"}, kinds: isSidecarKind, shape: func(s *inputShape) bool { return s.portLevelMtls }, msg: each(normPassthroughChains)},
	{id: causeCopyEps, types: []string{"CDS"}, shape: func(s *inputShape) bool { return s.multiShard }, msg: each(normClusterLbEndpoints)},
	{id: causeNdsIPs, types: []string{"NDS"}, shape: func(s *inputShape) bool { return s.multiShard }, msg: each(normNameTableIPs)},
}

func (kc *knownCause) applies(nc *normCtx) bool {
	ok := false
	for _, t := range kc.types {
		if t == nc.typ {
			ok = true
		}
	}
	if !ok || (kc.kinds != nil && !kc.kinds(nc.kind)) || (kc.shape != nil && !kc.shape(nc.shape)) {
		return false
	}
	return true
}

// ---------------------------------------------------------------------------------------
// input shapes

// inputShape records, per world, the shapes some causes need.
type inputShape struct {
	vhostPatchLists []string // repeated VirtualHost fields appended by an EnvoyFilter VIRTUAL_HOST MERGE patch
	sharedAddress   bool     // two hostnames of ServiceEntries share one address
	portLevelMtls   bool     // a PeerAuthentication has >= 2 port level settings
	multiShard      bool     // a service has endpoints in >= 2 shards or on >= 2 ports
	ties            []tieToken
	// vsDestHosts: hostnames that are a route / mirror destination of some VirtualService
	vsDestHosts map[string]bool
	// nsTieHosts[proxy namespace] = hostnames (and their addresses) for which pickBestVisibleNamespace meets a tie
	nsTieHosts map[string][]string
}

func shapeOf(w *world) *inputShape {
	s := &inputShape{vsDestHosts: map[string]bool{}, nsTieHosts: map[string][]string{}}
	addrHosts := map[string]map[string]bool{}
	for _, c := range w.Configs {
		switch spec := c.Spec.(type) {
		case *networking.EnvoyFilter:
			for _, cp := range spec.ConfigPatches {
				if cp.ApplyTo != networking.EnvoyFilter_VIRTUAL_HOST || cp.Patch == nil || cp.Patch.Operation != networking.EnvoyFilter_Patch_MERGE {
					continue
				}
				for k, v := range cp.Patch.Value.GetFields() {
					if _, isList := v.Kind.(*structpb.Value_ListValue); isList {
						s.vhostPatchLists = append(s.vhostPatchLists, k)
					}
				}
			}
		case *networking.ServiceEntry:
			for _, a := range spec.Addresses {
				if addrHosts[a] == nil {
					addrHosts[a] = map[string]bool{}
				}
				for _, h := range spec.Hosts {
					addrHosts[a][h] = true
				}
			}
		case *networking.VirtualService:
			for _, h := range spec.Http {
				for _, r := range h.Route {
					if r.Destination != nil {
						s.vsDestHosts[r.Destination.Host] = true
					}
				}
				if h.Mirror != nil {
					s.vsDestHosts[h.Mirror.Host] = true
				}
				for _, m := range h.Mirrors {
					if m.Destination != nil {
						s.vsDestHosts[m.Destination.Host] = true
					}
				}
			}
			for _, t := range spec.Tcp {
				for _, r := range t.Route {
					if r.Destination != nil {
						s.vsDestHosts[r.Destination.Host] = true
					}
				}
			}
			for _, t := range spec.Tls {
				for _, r := range t.Route {
					if r.Destination != nil {
						s.vsDestHosts[r.Destination.Host] = true
					}
				}
			}
		}
		if pa, ok := c.Spec.(*security.PeerAuthentication); ok && len(pa.PortLevelMtls) >= 2 {
			s.portLevelMtls = true
		}
	}
	sort.Strings(s.vhostPatchLists)
	for _, hs := range addrHosts {
		if len(hs) >= 2 {
			s.sharedAddress = true
		}
	}
	perHost := map[string]int{}
	for _, r := range w.Reports {
		perHost[r.Host]++
		ports := map[string]bool{}
		for _, e := range r.Eps {
			ports[e.ServicePortName] = true
		}
		if len(ports) >= 2 {
			s.multiShard = true
		}
	}
	for _, n := range perHost {
		if n >= 2 {
			s.multiShard = true
		}
	}
	s.ties = serviceTieTokens(w.Configs)
	for _, ns := range appNamespaces {
		s.nsTieHosts[ns] = namespaceTieHosts(w, ns, s.vsDestHosts)
	}
	return s
}

// ---------------------------------------------------------------------------------------
// list level normalisers

func byName(rs []res) func(i, j int) bool {
	return func(i, j int) bool { return rs[i].Name < rs[j].Name }
}

// sortAllByName: the cause hands the names to the generator in set (map) order and the generator
// emits in that order, so every permutation of the whole list is possible.
func sortAllByName(_ *normCtx, rs []res) []res {
	out := append([]res{}, rs...)
	sort.SliceStable(out, byName(out))
	return out
}

// sortOutboundListenerBlock: a sidecar's listeners are [outbound listeners from listenerMap ...,
// virtualOutbound, virtualInbound, ...]; the cause permutes the first block only.
func sortOutboundListenerBlock(_ *normCtx, rs []res) []res {
	out := append([]res{}, rs...)
	var idx []int
	for i, r := range out {
		if !strings.HasPrefix(r.Name, "virtual") {
			idx = append(idx, i)
		}
	}
	blk := make([]res, len(idx))
	for k, i := range idx {
		blk[k] = out[i]
	}
	sort.SliceStable(blk, byName(blk))
	for k, i := range idx {
		out[i] = blk[k]
	}
	return out
}

// sortOutboundClusterGroups: CDS lists the outbound clusters service by service in the order of
// SidecarScope.services; the cause appends the services inferred from VirtualService destinations
// in map order. The groups (all "outbound|...|host" clusters of one host) are reordered by host;
// the order inside a group and every other cluster keep their places.
func sortOutboundClusterGroups(_ *normCtx, rs []res) []res {
	out := append([]res{}, rs...)
	hostOf := func(n string) (string, bool) {
		p := strings.Split(n, "|")
		if len(p) == 4 && p[0] == "outbound" {
			return p[3], true
		}
		return "", false
	}
	var idx []int
	for i, r := range out {
		if _, ok := hostOf(r.Name); ok {
			idx = append(idx, i)
		}
	}
	blk := make([]res, len(idx))
	for k, i := range idx {
		blk[k] = out[i]
	}
	sort.SliceStable(blk, func(i, j int) bool {
		hi, _ := hostOf(blk[i].Name)
		hj, _ := hostOf(blk[j].Name)
		return hi < hj
	})
	for k, i := range idx {
		out[i] = blk[k]
	}
	return out
}

// ---------------------------------------------------------------------------------------
// resource level normalisers (typed)

// each lifts a one-sided normaliser to the pair.
func each(f func(nc *normCtx, m proto.Message) bool) func(nc *normCtx, a, b proto.Message) bool {
	return func(nc *normCtx, a, b proto.Message) bool {
		ca := f(nc, a)
		cb := f(nc, b)
		return ca || cb
	}
}

func msgKey(m proto.Message) string {
	b, _ := detMarshal.Marshal(m)
	return string(b)
}

func eachRoute(m proto.Message, fn func(vh *route.VirtualHost, r *route.Route)) {
	rc, ok := m.(*route.RouteConfiguration)
	if !ok {
		return
	}
	for _, vh := range rc.VirtualHosts {
		for _, r := range vh.Routes {
			fn(vh, r)
		}
	}
}

func normQueryParams(_ *normCtx, m proto.Message) bool {
	ch := false
	eachRoute(m, func(_ *route.VirtualHost, r *route.Route) {
		q := r.GetMatch().GetQueryParameters()
		if len(q) < 2 || sort.SliceIsSorted(q, func(i, j int) bool { return q[i].Name < q[j].Name }) {
			return
		}
		// the matchers of one match come from one map: their names are distinct
		sort.SliceStable(q, func(i, j int) bool { return q[i].Name < q[j].Name })
		ch = true
	})
	return ch
}

func normClaimMatchers(_ *normCtx, m proto.Message) bool {
	ch := false
	eachRoute(m, func(_ *route.VirtualHost, r *route.Route) {
		dm := r.GetMatch().GetDynamicMetadata()
		if len(dm) < 2 {
			return
		}
		ks := make([]string, len(dm))
		for i := range dm {
			ks[i] = msgKey(dm[i])
		}
		if sort.StringsAreSorted(ks) {
			return
		}
		sort.SliceStable(dm, func(i, j int) bool { return msgKey(dm[i]) < msgKey(dm[j]) })
		ch = true
	})
	return ch
}

// normDoublePatch: a VIRTUAL_HOST MERGE patch appends its list values; applied twice, the appended
// elements are there twice. Only the lists the world's patches append to are touched, only in route
// configurations of sniffed ports ("host:port"), and only exact duplicates are dropped.
func normDoublePatch(nc *normCtx, m proto.Message) bool {
	rc, ok := m.(*route.RouteConfiguration)
	if !ok || !strings.Contains(rc.Name, ":") {
		return false
	}
	ch := false
	for _, vh := range rc.VirtualHosts {
		r := vh.ProtoReflect()
		for _, fname := range nc.shape.vhostPatchLists {
			fd := r.Descriptor().Fields().ByName(protoreflect.Name(fname))
			if fd == nil {
				fd = r.Descriptor().Fields().ByJSONName(fname)
			}
			if fd == nil || !fd.IsList() || fd.Message() == nil || !r.Has(fd) {
				continue
			}
			l := r.Mutable(fd).List()
			seen := map[string]bool{}
			var keep []proto.Message
			for i := 0; i < l.Len(); i++ {
				e := l.Get(i).Message().Interface()
				k := msgKey(e)
				if seen[k] {
					ch = true
					continue
				}
				seen[k] = true
				keep = append(keep, proto.Clone(e))
			}
			if len(keep) != l.Len() {
				l.Truncate(0)
				for _, e := range keep {
					l.Append(protoreflect.ValueOfMessage(e.ProtoReflect()))
				}
			}
		}
	}
	return ch
}

// normSharedAddressDomains: several services claim one address as a virtual host domain; the first
// virtual host built gets it and the cause builds them in map order. An IP-literal domain that both
// generations have, but in different virtual hosts of the route configuration, is moved (on both
// sides) to the one of the two virtual hosts whose name sorts first. Domains that only one side has
// are not touched.
func normSharedAddressDomains(_ *normCtx, ma, mb proto.Message) bool {
	ra, ok1 := ma.(*route.RouteConfiguration)
	rb, ok2 := mb.(*route.RouteConfiguration)
	if !ok1 || !ok2 {
		return false
	}
	owner := func(rc *route.RouteConfiguration) map[string]string {
		o := map[string]string{}
		for _, vh := range rc.VirtualHosts {
			for _, d := range vh.Domains {
				if isIPDomain(d) {
					o[d] = vh.Name
				}
			}
		}
		return o
	}
	oa, ob := owner(ra), owner(rb)
	move := func(rc *route.RouteConfiguration, dom, to string) {
		for _, vh := range rc.VirtualHosts {
			if vh.Name == to {
				continue
			}
			keep := vh.Domains[:0:0]
			for _, d := range vh.Domains {
				if d != dom {
					keep = append(keep, d)
				}
			}
			vh.Domains = keep
		}
		for _, vh := range rc.VirtualHosts {
			if vh.Name == to {
				vh.Domains = append(vh.Domains, dom)
			}
		}
	}
	hasVhost := func(rc *route.RouteConfiguration, n string) bool {
		for _, vh := range rc.VirtualHosts {
			if vh.Name == n {
				return true
			}
		}
		return false
	}
	ch := false
	doms := make([]string, 0, len(oa))
	for d := range oa {
		doms = append(doms, d)
	}
	sort.Strings(doms)
	for _, d := range doms {
		va, vb := oa[d], ob[d]
		if vb == "" || va == vb {
			continue
		}
		to := va
		if vb < va {
			to = vb
		}
		if !hasVhost(ra, to) || !hasVhost(rb, to) {
			continue
		}
		// re-appending also on the side that already has it there keeps the element order equal on both sides
		move(ra, d, "")
		move(rb, d, "")
		move(ra, d, to)
		move(rb, d, to)
		ch = true
	}
	return ch
}

func isIPDomain(d string) bool {
	if _, err := netip.ParseAddr(strings.Trim(d, "[]")); err == nil {
		return true
	}
	if ap, err := netip.ParseAddrPort(d); err == nil && ap.IsValid() {
		return true
	}
	return false
}

// normPassthroughChains: the per-port passthrough filter chains of the virtual inbound listener
// (named "virtualInbound*", matching one destination port) come from a range over the port level
// mTLS map. They are sorted among themselves; every other chain keeps its place.
func normPassthroughChains(_ *normCtx, m proto.Message) bool {
	l, ok := m.(*listener.Listener)
	if !ok || l.Name != model.VirtualInboundListenerName {
		return false
	}
	var idx []int
	for i, fc := range l.FilterChains {
		if strings.HasPrefix(fc.Name, model.VirtualInboundListenerName) && fc.GetFilterChainMatch().GetDestinationPort() != nil &&
			fc.GetFilterChainMatch().GetDestinationPort().GetValue() != 15006 {
			idx = append(idx, i)
		}
	}
	if len(idx) < 2 {
		return false
	}
	blk := make([]*listener.FilterChain, len(idx))
	ks := make([]string, len(idx))
	for k, i := range idx {
		blk[k] = l.FilterChains[i]
		ks[k] = fmt.Sprintf("%08d|%s", blk[k].GetFilterChainMatch().GetDestinationPort().GetValue(), msgKey(blk[k]))
	}
	if sort.StringsAreSorted(ks) {
		return false
	}
	ord := make([]int, len(idx))
	for k := range ord {
		ord[k] = k
	}
	sort.SliceStable(ord, func(a, b int) bool { return ks[ord[a]] < ks[ord[b]] })
	for k, i := range idx {
		l.FilterChains[i] = blk[ord[k]]
	}
	return true
}

// normClusterLbEndpoints: the endpoints a DNS / static cluster carries in CDS come from
// PushContext.instancesByPort, filled by EndpointShards.CopyEndpoints in shard map order.
func normClusterLbEndpoints(_ *normCtx, m proto.Message) bool {
	c, ok := m.(*cluster.Cluster)
	if !ok || c.LoadAssignment == nil {
		return false
	}
	ch := false
	for _, le := range c.LoadAssignment.Endpoints {
		if len(le.LbEndpoints) < 2 {
			continue
		}
		ks := make([]string, len(le.LbEndpoints))
		for i, e := range le.LbEndpoints {
			ks[i] = msgKey(e)
		}
		if sort.StringsAreSorted(ks) {
			continue
		}
		eps := le.LbEndpoints
		sort.SliceStable(eps, func(i, j int) bool { return msgKey(eps[i]) < msgKey(eps[j]) })
		ch = true
	}
	return ch
}

func normNameTableIPs(_ *normCtx, m proto.Message) bool {
	nt, ok := m.(*dnsProto.NameTable)
	if !ok {
		return false
	}
	ch := false
	for _, ni := range nt.Table {
		if len(ni.Ips) >= 2 && !sort.StringsAreSorted(ni.Ips) {
			sort.Strings(ni.Ips)
			ch = true
		}
	}
	return ch
}

// ---------------------------------------------------------------------------------------
// applying a cause to a pair of generations

// applyCause returns the normalised lists and whether the normaliser changed anything on either side.
// Resource level normalisers are applied to the pairs of same-named resources whose bytes differ
// (both sides are re-encoded with the same deterministic marshaller, so equal messages give equal bytes).
func applyCause(kc *knownCause, nc *normCtx, a, b []res) ([]res, []res, bool) {
	if kc.list != nil {
		a2, b2 := kc.list(nc, a), kc.list(nc, b)
		return a2, b2, !sameNames(a, a2) || !sameNames(b, b2)
	}
	bi := map[string]int{}
	for i, r := range b {
		if _, dup := bi[r.Name]; dup {
			return a, b, false // duplicate names: leave it to the generic report
		}
		bi[r.Name] = i
	}
	a2, b2 := append([]res{}, a...), append([]res{}, b...)
	changed := false
	for i, ra := range a2 {
		j, ok := bi[ra.Name]
		if !ok || ra.TypeURL != b2[j].TypeURL || string(ra.Value) == string(b2[j].Value) {
			continue
		}
		ma, e1 := decode(ra.TypeURL, ra.Value)
		mb, e2 := decode(b2[j].TypeURL, b2[j].Value)
		if e1 != nil || e2 != nil {
			continue
		}
		if !kc.msg(nc, ma.Interface(), mb.Interface()) {
			continue
		}
		changed = true
		a2[i].Value, _ = detMarshal.Marshal(ma.Interface())
		b2[j].Value, _ = detMarshal.Marshal(mb.Interface())
	}
	return a2, b2, changed
}

func sameNames(a, b []res) bool {
	if len(a) != len(b) {
		return false
	}
	for i := range a {
		if a[i].Name != b[i].Name {
			return false
		}
	}
	return true
}

func diffKeySet(ds []*difference) map[string]*difference {
	out := map[string]*difference{}
	for _, d := range ds {
		out[d.key()] = d
	}
	return out
}

// ---------------------------------------------------------------------------------------
// ties

// serviceTieTokens: hostnames and addresses of ServiceEntry-derived services that tie on
// (creation time, hostname, namespace), the complete sort key of SortServicesByCreationTime: one
// ServiceEntry with several addresses (one service per address), or several ServiceEntries of one
// namespace that declare one host at the same second.
func serviceTieTokens(cfgs []config.Config) []tieToken {
	var out []tieToken
	for _, t := range tieTokens(cfgs) {
		if t.Cause == "service-tie" {
			out = append(out, tieToken{Token: t.Token, Cause: causeServiceTie})
		}
	}
	return out
}

// namespaceTieHosts lists the hostnames for which a Sidecar-scoped proxy of namespace ns makes
// pickBestVisibleNamespace choose between equally old services: the host is a VirtualService
// destination, no service of that name that is visible to ns lives in ns, and the oldest ServiceEntry
// services visible to ns are in >= 2 namespaces with the same creation time. (A Kubernetes registry service of that name
// would win regardless; registry hostnames contain their namespace, so the hosts below never are.)
func namespaceTieHosts(w *world, ns string, vsDest map[string]bool) []string {
	type occ struct {
		t   int64
		vis bool
	}
	byHost := map[string]map[string]occ{} // host -> namespace -> oldest
	addrs := map[string][]string{}        // host -> addresses declared for it anywhere
	for _, c := range w.Configs {
		se, ok := c.Spec.(*networking.ServiceEntry)
		if !ok {
			continue
		}
		for _, h := range se.Hosts {
			addrs[h] = append(addrs[h], se.Addresses...)
		}
		vis := len(se.ExportTo) == 0
		for _, e := range se.ExportTo {
			if e == "*" || e == ns || (e == "." && c.Namespace == ns) {
				vis = true
			}
		}
		for _, h := range se.Hosts {
			if byHost[h] == nil {
				byHost[h] = map[string]occ{}
			}
			t := c.CreationTimestamp.UnixNano()
			if o, ok := byHost[h][c.Namespace]; !ok || t < o.t {
				byHost[h][c.Namespace] = occ{t, vis}
			} else if t == o.t && vis {
				byHost[h][c.Namespace] = occ{t, true} // which of two equally old entries of one namespace wins is the service tie's business
			}
		}
	}
	var out []string
	for h, m := range byHost {
		if !vsDest[h] {
			continue
		}
		if o, own := m[ns]; own && o.vis {
			continue // found in the proxy's own namespace and exported to it: no choice to make
		}
		best, n := int64(0), 0
		for _, o := range m {
			if !o.vis {
				continue
			}
			switch {
			case n == 0 || o.t < best:
				best, n = o.t, 1
			case o.t == best:
				n++
			}
		}
		if n >= 2 {
			// the hostname and the addresses the competing entries give it
			out = append(out, strings.TrimPrefix(h, "*"))
			out = append(out, addrs[h]...)
		}
	}
	sort.Strings(out)
	return out
}

// tieCause attributes a residual difference to a tie when the world has the tie and the difference
// is about a hostname / address whose owner the tie decides.
func tieCause(d *difference, sh *inputShape, pd proxyDef, kind string) string {
	if d.Kind == "order" || d.Kind == "resource-order" {
		return "" // which service owns a name does not explain a pure reordering
	}
	hay := append([]string{d.Resource, d.A, d.B}, d.Ctx...)
	if d.Kind == "resource-set" {
		hay = append(append(hay, d.NamesA...), d.NamesB...)
	}
	mentions := func(tok string) bool {
		for _, h := range hay {
			if strings.Contains(h, tok) {
				return true
			}
		}
		return false
	}
	svcTie, nsTie := false, false
	for _, t := range sh.ties {
		if mentions(t.Token) {
			svcTie = true
		}
	}
	if kind == "sidecar+Sidecar" {
		for _, tok := range sh.nsTieHosts[pd.NS] {
			if mentions(tok) {
				nsTie = true
			}
		}
	}
	switch {
	case svcTie && nsTie:
		// the hostname is subject to both ties for this proxy; the difference does not tell which one decided
		return causeNamespaceTie + "+" + causeServiceTie
	case svcTie:
		return causeServiceTie
	case nsTie:
		return causeNamespaceTie
	}
	return ""
}
