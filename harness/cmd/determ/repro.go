package main

// `determ repro <name>|all|list`: minimal hand-written worlds, one per root cause found by the
// check on the unchanged tree. Each reproduction builds the smallest state that shows the cause,
// runs the real generators repeatedly (same push context, fresh push contexts, environments with
// permuted insertion order) and prints the state, every distinct output istio produced for the
// part of the response the cause touches, the first level at which an output differed from the
// first generation, and what the property demands. Exit status 1 when more than one output was seen.

import (
	"fmt"
	"os"
	"strings"
	"time"

	cluster "github.com/envoyproxy/go-control-plane/envoy/config/cluster/v3"
	listener "github.com/envoyproxy/go-control-plane/envoy/config/listener/v3"
	route "github.com/envoyproxy/go-control-plane/envoy/config/route/v3"
	"google.golang.org/protobuf/encoding/prototext"
	"google.golang.org/protobuf/proto"

	extensions "istio.io/api/extensions/v1alpha1"
	networking "istio.io/api/networking/v1alpha3"
	security "istio.io/api/security/v1beta1"
	typev1beta1 "istio.io/api/type/v1beta1"
	"istio.io/istio/pilot/pkg/model"
	"istio.io/istio/pilot/pkg/serviceregistry/provider"
	"istio.io/istio/pkg/config"
	"istio.io/istio/pkg/config/host"
	"istio.io/istio/pkg/config/mesh"
	"istio.io/istio/pkg/config/protocol"
	"istio.io/istio/pkg/config/schema/gvk"
	dnsProto "istio.io/istio/pkg/dns/proto"
	"istio.io/istio/pkg/network"

	"verifharness/internal/quiet"
	"verifharness/internal/vh"
)

type reproCase struct {
	name   string
	cause  string // key fragment
	site   string // istio code site
	world  func() *world
	proxy  string
	view   func(out genOut) string // the part of the response the cause touches, as text
	demand string
}

func emptyWorld() *world {
	w := &world{names: map[string]bool{}, Rejected: map[string]int{}, KindN: map[string]int{}}
	m := mesh.DefaultMeshConfig()
	m.RootNamespace = rootNS
	m.TrustDomain = "cluster.local"
	w.Mesh = m
	w.Proxies = []proxyDef{
		{Name: "sidecar", Type: model.SidecarProxy, NS: "ns2", IP: "10.250.0.2", Labels: map[string]string{"app": "a"}, Cluster: "Mock", DNS: true},
		{Name: "router", Type: model.Router, NS: rootNS, IP: "10.250.0.3", Labels: map[string]string{"istio": "ingressgateway"}, Cluster: "Mock"},
	}
	return w
}

func (w *world) must(kind config.GroupVersionKind, name, ns string, sec int, spec config.Spec) {
	if !w.add(kind, name, ns, baseTime.Add(time.Duration(sec)*time.Second), spec) {
		panic(fmt.Sprintf("repro object %s/%s rejected by validation", ns, name))
	}
}

func httpPort(n uint32) *networking.ServicePort {
	return &networking.ServicePort{Number: n, Protocol: "HTTP", Name: fmt.Sprintf("http-%d", n)}
}

func exact(s string) *networking.StringMatch {
	return &networking.StringMatch{MatchType: &networking.StringMatch_Exact{Exact: s}}
}

func dest(h string, port uint32) []*networking.HTTPRouteDestination {
	d := &networking.Destination{Host: h}
	if port != 0 {
		d.Port = &networking.PortSelector{Number: port}
	}
	return []*networking.HTTPRouteDestination{{Destination: d}}
}

func (w *world) registryService(name, ns string, sec int, res model.Resolution, addr string, ports ...*model.Port) *model.Service {
	s := &model.Service{
		Hostname: host.Name(fmt.Sprintf("%s.%s.svc.cluster.local", name, ns)), DefaultAddress: addr, Resolution: res,
		CreationTime: baseTime.Add(time.Duration(sec) * time.Second), Ports: ports,
		Attributes: model.ServiceAttributes{Name: name, Namespace: ns, ServiceRegistry: provider.Kubernetes},
	}
	w.Services = append(w.Services, s)
	return s
}

func (w *world) report(s *model.Service, shard model.ShardKey, viaRegistry bool, eps ...*model.IstioEndpoint) {
	for _, e := range eps {
		e.Namespace = s.Attributes.Namespace
		e.Locality.ClusterID = shard.Cluster
		e.HealthStatus = model.Healthy
		e.TLSMode = model.DisabledTLSModeLabel
	}
	w.Reports = append(w.Reports, epReport{Shard: shard, Host: string(s.Hostname), NS: s.Attributes.Namespace, Eps: eps, ViaRegistry: viaRegistry})
}

func endpoint(ip, portName string, port uint32) *model.IstioEndpoint {
	return &model.IstioEndpoint{Addresses: []string{ip}, ServicePortName: portName, EndpointPort: port, Network: network.ID("")}
}

var (
	shardMock = model.ShardKey{Cluster: "Mock", Provider: provider.Mock}
	shardC2   = model.ShardKey{Cluster: "c2", Provider: provider.Kubernetes}
	shardC3   = model.ShardKey{Cluster: "c3", Provider: provider.Kubernetes}
)

func findRes(rs []res, name string) proto.Message {
	for _, r := range rs {
		if r.Name == name {
			if m, err := decode(r.TypeURL, r.Value); err == nil {
				return m.Interface()
			}
		}
	}
	return nil
}

func text(m proto.Message) string {
	return strings.Join(strings.Fields(prototext.MarshalOptions{Multiline: false}.Format(m)), " ")
}

func reproCases() []reproCase {
	return []reproCase{
		{
			name: "query-params", cause: causeQueryParams, site: "pilot/pkg/networking/core/route/route.go TranslateRouteMatch: `for name, stringMatch := range in.QueryParams` appends in map order (only out.Headers is sorted)",
			world: func() *world {
				w := emptyWorld()
				w.must(gvk.ServiceEntry, "se", "ns2", 0, &networking.ServiceEntry{Hosts: []string{"a.example.com"}, Ports: []*networking.ServicePort{httpPort(80)}, Resolution: networking.ServiceEntry_DNS})
				w.must(gvk.VirtualService, "vs", "ns2", 0, &networking.VirtualService{Hosts: []string{"a.example.com"}, Http: []*networking.HTTPRoute{{
					Match: []*networking.HTTPMatchRequest{{QueryParams: map[string]*networking.StringMatch{"q": exact("1"), "page": exact("2"), "lang": exact("3")}}},
					Route: dest("a.example.com", 0)}}})
				return w
			},
			proxy: "sidecar",
			view: func(o genOut) string {
				var out []string
				eachRoute(findRes(o["RDS"], "80"), func(vh *route.VirtualHost, r *route.Route) {
					if vh.Name == "a.example.com:80" {
						for _, q := range r.GetMatch().GetQueryParameters() {
							out = append(out, q.Name)
						}
					}
				})
				return "RDS 80 / a.example.com:80 / routes[0].match.query_parameters = " + strings.Join(out, ",")
			},
			demand: "one order of the three query parameter matchers in every generation (the matchers are ANDed; Envoy treats a reordered list as a changed route configuration)",
		},
		{
			name: "jwt-claim-matchers", cause: causeClaimMatch, site: "pilot/pkg/networking/core/route/route.go TranslateRouteMatch: `for name, stringMatch := range in.Headers` / `in.WithoutHeaders` append out.DynamicMetadata in map order",
			world: func() *world {
				w := emptyWorld()
				w.must(gvk.Gateway, "gw", rootNS, 0, &networking.Gateway{Selector: map[string]string{"istio": "ingressgateway"}, Servers: []*networking.Server{{
					Port: &networking.Port{Number: 80, Protocol: "HTTP", Name: "http"}, Hosts: []string{"shop.example.org"}}}})
				w.must(gvk.ServiceEntry, "se", rootNS, 0, &networking.ServiceEntry{Hosts: []string{"a.example.com"}, Ports: []*networking.ServicePort{httpPort(80)}, Resolution: networking.ServiceEntry_DNS})
				w.must(gvk.VirtualService, "vs", rootNS, 0, &networking.VirtualService{Hosts: []string{"shop.example.org"}, Gateways: []string{rootNS + "/gw"}, Http: []*networking.HTTPRoute{{
					Match: []*networking.HTTPMatchRequest{{Headers: map[string]*networking.StringMatch{
						"@request.auth.claims.groups": exact("g"), "@request.auth.claims.sub": exact("s"), "@request.auth.claims.iss": exact("i")}}},
					Route: dest("a.example.com", 0)}}})
				return w
			},
			proxy: "router",
			view: func(o genOut) string {
				var out []string
				eachRoute(findRes(o["RDS"], "http.80"), func(_ *route.VirtualHost, r *route.Route) {
					for _, dm := range r.GetMatch().GetDynamicMetadata() {
						p := dm.GetPath()
						out = append(out, p[len(p)-1].GetKey())
					}
				})
				return "RDS http.80 / routes[0].match.dynamic_metadata (claim) = " + strings.Join(out, ",")
			},
			demand: "one order of the three JWT claim matchers in every generation",
		},
		{
			name: "nds-ips-port-order", cause: causeNdsIPs, site: "pkg/dns/server/name_table.go BuildNameTable: `for _, endpoints := range cfg.Push.ServiceEndpoints(svc.Key())` ranges over map[port][]endpoint",
			world: func() *world {
				w := emptyWorld()
				s := w.registryService("db", "ns2", 0, model.Passthrough, "0.0.0.0", &model.Port{Name: "http", Port: 80, Protocol: protocol.HTTP}, &model.Port{Name: "tcp", Port: 9000, Protocol: protocol.TCP})
				w.report(s, shardMock, true, endpoint("10.10.0.1", "http", 1080), endpoint("10.10.0.2", "tcp", 19000))
				return w
			},
			proxy: "sidecar",
			view: func(o genOut) string {
				nt, _ := findRes(o["NDS"], "").(*dnsProto.NameTable)
				if nt == nil && len(o["NDS"]) > 0 {
					if m, err := decode(o["NDS"][0].TypeURL, o["NDS"][0].Value); err == nil {
						nt, _ = m.Interface().(*dnsProto.NameTable)
					}
				}
				if nt == nil || nt.Table["db.ns2.svc.cluster.local"] == nil {
					return "NDS: no entry"
				}
				return "NDS table[db.ns2.svc.cluster.local].ips = " + strings.Join(nt.Table["db.ns2.svc.cluster.local"].Ips, ",")
			},
			demand: "one order of the two pod addresses of the headless service (one shard, one endpoint per port) in every generation",
		},
		{
			name: "cds-dns-endpoints-shard-order", cause: causeCopyEps, site: "pilot/pkg/model/endpointshards.go CopyEndpoints: `for _, v := range es.Shards` (the EDS path uses the sorted es.Keys())",
			world: func() *world {
				w := emptyWorld()
				s := w.registryService("ext", "ns2", 0, model.DNSLB, "10.96.0.9", &model.Port{Name: "http", Port: 80, Protocol: protocol.HTTP})
				w.report(s, shardMock, true, endpoint("10.10.0.1", "http", 1080))
				w.report(s, shardC2, false, endpoint("10.11.0.1", "http", 1080))
				w.report(s, shardC3, false, endpoint("10.12.0.1", "http", 1080))
				return w
			},
			proxy: "sidecar",
			view: func(o genOut) string {
				c, _ := findRes(o["CDS"], "outbound|80||ext.ns2.svc.cluster.local").(*cluster.Cluster)
				var out []string
				for _, le := range c.GetLoadAssignment().GetEndpoints() {
					for _, e := range le.LbEndpoints {
						out = append(out, e.GetEndpoint().GetAddress().GetSocketAddress().GetAddress())
					}
				}
				return fmt.Sprintf("CDS outbound|80||ext.ns2.svc.cluster.local type=%v load_assignment lb_endpoints = %s", c.GetType(), strings.Join(out, ","))
			},
			demand: "one order of the three endpoints (one per shard) of the STRICT_DNS cluster in every push context",
		},
		{
			name: "eds-response-order", cause: causeEdsSubs, site: "pilot/pkg/xds/eds.go buildEndpoints: `for clusterName := range w.ResourceNames` (a sets.String, filled from the request in ads.go)",
			world: twoServicesWorld, proxy: "sidecar",
			view:   func(o genOut) string { return "EDS resources = " + strings.Join(names(o["EDS"]), " ") },
			demand: "the same order of the ClusterLoadAssignments in every response to one subscription",
		},
		{
			name: "rds-response-order", cause: causeRdsSubs, site: "pilot/pkg/xds/rds.go Generate: BuildHTTPRoutes(proxy, req, w.ResourceNames.UnsortedList())",
			world: twoServicesWorld, proxy: "sidecar",
			view:   func(o genOut) string { return "RDS resources = " + strings.Join(names(o["RDS"]), " ") },
			demand: "the same order of the RouteConfigurations in every response to one subscription",
		},
		{
			name: "ecds-response-order", cause: causeEcdsSubs, site: "pilot/pkg/xds/ecds.go Generate: BuildExtensionConfiguration(..., w.ResourceNames.UnsortedList(), ...)",
			world: func() *world {
				w := twoServicesWorld()
				for _, n := range []string{"te-a", "te-b", "te-c"} {
					w.must(gvk.TrafficExtension, n, rootNS, 0, &extensions.TrafficExtension{
						FilterConfig: &extensions.TrafficExtension_Wasm{Wasm: &extensions.WasmConfig{Url: "oci://registry.example.com/" + n + ":1"}}})
				}
				return w
			},
			proxy:  "sidecar",
			view:   func(o genOut) string { return "ECDS resources = " + strings.Join(names(o["ECDS"]), " ") },
			demand: "the same order of the extension configurations in every response to one subscription",
		},
		{
			name: "sidecar-outbound-listener-order", cause: causeOutboundLds, site: "pilot/pkg/networking/core/listener.go finalizeOutboundListeners: `for _, le := range listenerMap` (upstream TODO: \"the order of listeners ... is not guaranteed\")",
			world: twoServicesWorld, proxy: "sidecar",
			view:   func(o genOut) string { return "LDS resources = " + strings.Join(names(o["LDS"]), " ") },
			demand: "the same order of the outbound listeners in every generation",
		},
		{
			name: "gateway-listener-order", cause: causeGatewayLds, site: "pilot/pkg/networking/core/gateway.go buildGatewayListeners: `for _, ml := range mutableopts` (map keyed by listener name)",
			world: func() *world {
				w := emptyWorld()
				w.must(gvk.Gateway, "gw", rootNS, 0, &networking.Gateway{Selector: map[string]string{"istio": "ingressgateway"}, Servers: []*networking.Server{
					{Port: &networking.Port{Number: 80, Protocol: "HTTP", Name: "http"}, Hosts: []string{"shop.example.org"}},
					{Port: &networking.Port{Number: 8080, Protocol: "HTTP", Name: "http-alt"}, Hosts: []string{"shop.example.org"}},
					{Port: &networking.Port{Number: 9000, Protocol: "TCP", Name: "tcp"}, Hosts: []string{"shop.example.org"}},
				}})
				w.must(gvk.ServiceEntry, "se", rootNS, 0, &networking.ServiceEntry{Hosts: []string{"a.example.com"}, Ports: []*networking.ServicePort{httpPort(80), {Number: 9000, Protocol: "TCP", Name: "tcp"}}, Resolution: networking.ServiceEntry_DNS})
				w.must(gvk.VirtualService, "vs", rootNS, 0, &networking.VirtualService{Hosts: []string{"shop.example.org"}, Gateways: []string{rootNS + "/gw"},
					Http: []*networking.HTTPRoute{{Route: dest("a.example.com", 80)}},
					Tcp:  []*networking.TCPRoute{{Match: []*networking.L4MatchAttributes{{Port: 9000}}, Route: []*networking.RouteDestination{{Destination: &networking.Destination{Host: "a.example.com", Port: &networking.PortSelector{Number: 9000}}}}}}})
				return w
			},
			proxy:  "router",
			view:   func(o genOut) string { return "LDS resources = " + strings.Join(names(o["LDS"]), " ") },
			demand: "the same order of the gateway listeners in every generation",
		},
		{
			name: "passthrough-filter-chain-order", cause: causePassthrough, site: "pilot/pkg/networking/plugin/authn/authentication.go ForPassthrough: `for port := range b.applier.PortLevelSetting()` (map[uint32]MutualTLSMode)",
			world: func() *world {
				w := emptyWorld()
				w.must(gvk.PeerAuthentication, "pa", "ns2", 0, &security.PeerAuthentication{
					Selector: &typev1beta1.WorkloadSelector{MatchLabels: map[string]string{"app": "a"}},
					Mtls:     &security.PeerAuthentication_MutualTLS{Mode: security.PeerAuthentication_MutualTLS_STRICT},
					PortLevelMtls: map[uint32]*security.PeerAuthentication_MutualTLS{
						1080: {Mode: security.PeerAuthentication_MutualTLS_DISABLE}, 9080: {Mode: security.PeerAuthentication_MutualTLS_DISABLE}, 10000: {Mode: security.PeerAuthentication_MutualTLS_DISABLE}}})
				return w
			},
			proxy: "sidecar",
			view: func(o genOut) string {
				l, _ := findRes(o["LDS"], "virtualInbound").(*listener.Listener)
				var out []string
				for _, fc := range l.GetFilterChains() {
					if p := fc.GetFilterChainMatch().GetDestinationPort(); p != nil && p.Value != 15006 {
						out = append(out, fmt.Sprint(p.Value))
					}
				}
				return "LDS virtualInbound filter chains by destination_port = " + strings.Join(out, ",")
			},
			demand: "the same order of the per-port passthrough filter chains in every generation",
		},
		{
			name: "sidecar-vs-destination-cluster-order", cause: causeVSDestOrder, site: "pilot/pkg/model/sidecar.go collectImportedServices: `for h, ports := range virtualServiceDestinationsFilteredBySourceNamespace(v, configNamespace)` appends services in map order",
			world: func() *world {
				w := emptyWorld()
				for i, h := range []string{"b.example.com", "c.example.com", "d.example.com"} {
					w.must(gvk.ServiceEntry, fmt.Sprintf("se-%d", i), "ns1", i, &networking.ServiceEntry{Hosts: []string{h}, Ports: []*networking.ServicePort{httpPort(80)}, Resolution: networking.ServiceEntry_DNS})
				}
				w.must(gvk.VirtualService, "vs", "ns2", 0, &networking.VirtualService{Hosts: []string{"front.example.com"}, Http: []*networking.HTTPRoute{{Route: []*networking.HTTPRouteDestination{
					{Destination: &networking.Destination{Host: "b.example.com"}, Weight: 30}, {Destination: &networking.Destination{Host: "c.example.com"}, Weight: 30}, {Destination: &networking.Destination{Host: "d.example.com"}, Weight: 40}}}}})
				w.must(gvk.Sidecar, "sc", "ns2", 0, &networking.Sidecar{Egress: []*networking.IstioEgressListener{{Hosts: []string{"*/front.example.com"}}}})
				return w
			},
			proxy: "sidecar",
			view: func(o genOut) string {
				var out []string
				for _, n := range names(o["CDS"]) {
					if strings.HasPrefix(n, "outbound|") {
						out = append(out, n)
					}
				}
				return "CDS outbound clusters = " + strings.Join(out, " ")
			},
			demand: "the same order of the three clusters in every push context",
		},
		{
			name: "namespace-tie", cause: causeNamespaceTie, site: "pilot/pkg/model/sidecar.go pickBestVisibleNamespace: `for _, svc := range byNamespace` keeps the first of equally old services (`svc.CreationTime.Before(best.CreationTime)`)",
			world: func() *world {
				w := emptyWorld()
				w.must(gvk.ServiceEntry, "se-dns", "ns1", 0, &networking.ServiceEntry{Hosts: []string{"b.example.com"}, Ports: []*networking.ServicePort{httpPort(80)}, Resolution: networking.ServiceEntry_DNS})
				w.must(gvk.ServiceEntry, "se-static", "ns3", 0, &networking.ServiceEntry{Hosts: []string{"b.example.com"}, Ports: []*networking.ServicePort{httpPort(80)}, Resolution: networking.ServiceEntry_STATIC,
					Endpoints: []*networking.WorkloadEntry{{Address: "172.16.0.1"}}})
				w.must(gvk.VirtualService, "vs", "ns2", 0, &networking.VirtualService{Hosts: []string{"front.example.com"}, Http: []*networking.HTTPRoute{{Route: dest("b.example.com", 0)}}})
				w.must(gvk.Sidecar, "sc", "ns2", 0, &networking.Sidecar{Egress: []*networking.IstioEgressListener{{Hosts: []string{"*/front.example.com"}}}})
				return w
			},
			proxy: "sidecar",
			view: func(o genOut) string {
				c, _ := findRes(o["CDS"], "outbound|80||b.example.com").(*cluster.Cluster)
				return fmt.Sprintf("CDS outbound|80||b.example.com type = %v", c.GetType())
			},
			demand: "the same ServiceEntry (ns1: DNS, or ns3: STATIC; both created at 12:00:00) chosen in every push context and on every istiod",
		},
		{
			name: "service-tie", cause: causeServiceTie, site: "pilot/pkg/model/push_context.go SortServicesByCreationTime: stable sort on (creation time, Attributes.Name, Attributes.Namespace); a ServiceEntry yields one Service per address with identical keys, listed by krt in map order (serviceentry/controller.go Services), and the first service owns the hostname",
			world: func() *world {
				w := emptyWorld()
				w.must(gvk.ServiceEntry, "se", "ns2", 0, &networking.ServiceEntry{Hosts: []string{"a.example.com"}, Addresses: []string{"10.200.0.1", "10.201.0.1"},
					Ports: []*networking.ServicePort{httpPort(80)}, Resolution: networking.ServiceEntry_DNS})
				return w
			},
			proxy: "sidecar",
			view: func(o genOut) string {
				rc, _ := findRes(o["RDS"], "80").(*route.RouteConfiguration)
				var out []string
				for _, vh := range rc.GetVirtualHosts() {
					if vh.Name == "a.example.com:80" {
						for _, d := range vh.Domains {
							if isIPDomain(d) {
								out = append(out, d)
							}
						}
					}
				}
				return "RDS 80 / virtual host a.example.com:80: address domains = " + strings.Join(out, ",")
			},
			demand: "the same address of a.example.com in the virtual host in every push context and on every istiod",
		},
		{
			name: "envoyfilter-double-patch", cause: causeDoublePatch, site: "pilot/pkg/networking/core/httproute.go buildSidecarOutboundHTTPRouteConfig: virtual hosts are shared between the route configurations of one port through vHostCache and envoyfilter.ApplyRouteConfigurationPatches merges into them in place; route \"80\" before \"host:80\" patches the shared virtual host twice",
			world: func() *world {
				w := emptyWorld()
				w.registryService("web", "ns2", 0, model.ClientSideLB, "10.96.0.1", &model.Port{Name: "http", Port: 80, Protocol: protocol.HTTP})
				w.registryService("db", "ns2", 1, model.ClientSideLB, "10.96.0.2", &model.Port{Name: "auto", Port: 80, Protocol: protocol.Unsupported})
				w.must(gvk.EnvoyFilter, "ef", "ns2", 0, &networking.EnvoyFilter{ConfigPatches: []*networking.EnvoyFilter_EnvoyConfigObjectPatch{{
					ApplyTo: networking.EnvoyFilter_VIRTUAL_HOST, Match: &networking.EnvoyFilter_EnvoyConfigObjectMatch{Context: networking.EnvoyFilter_SIDECAR_OUTBOUND},
					Patch: &networking.EnvoyFilter_Patch{Operation: networking.EnvoyFilter_Patch_MERGE, Value: mustStruct(map[string]any{
						"response_headers_to_add": []any{map[string]any{"header": map[string]any{"key": "x-ef", "value": "1"}}}})}}}})
				return w
			},
			proxy: "sidecar",
			view: func(o genOut) string {
				rc, _ := findRes(o["RDS"], "db.ns2.svc.cluster.local:80").(*route.RouteConfiguration)
				n := -1
				for _, vh := range rc.GetVirtualHosts() {
					if vh.Name == "db.ns2.svc.cluster.local:80" {
						n = len(vh.ResponseHeadersToAdd)
					}
				}
				return fmt.Sprintf("RDS db.ns2.svc.cluster.local:80 / virtual host db.ns2.svc.cluster.local:80: response_headers_to_add has %d element(s)", n)
			},
			demand: "the EnvoyFilter's header added exactly once, in every generation",
		},
		{
			name: "shared-address-domain", cause: causeVhostDomains, site: "pilot/pkg/networking/core/route/route.go BuildSidecarVirtualHostWrapper: `for _, svc := range serviceRegistry` (map) fixes the order in which BuildSidecarOutboundVirtualHosts builds virtual hosts; dedupeDomains gives a domain claimed twice to the first one",
			world: func() *world {
				w := emptyWorld()
				w.must(gvk.ServiceEntry, "se", "ns2", 0, &networking.ServiceEntry{Hosts: []string{"x.example.com", "y.example.com"}, Addresses: []string{"10.200.0.2"},
					Ports: []*networking.ServicePort{httpPort(80)}, Resolution: networking.ServiceEntry_DNS})
				return w
			},
			proxy: "sidecar",
			view: func(o genOut) string {
				rc, _ := findRes(o["RDS"], "80").(*route.RouteConfiguration)
				var out []string
				for _, vh := range rc.GetVirtualHosts() {
					for _, d := range vh.Domains {
						if d == "10.200.0.2" {
							out = append(out, vh.Name)
						}
					}
				}
				return "RDS 80: domain 10.200.0.2 belongs to virtual host " + strings.Join(out, ",")
			},
			demand: "the shared address routed to the same virtual host in every generation",
		},
	}
}

func twoServicesWorld() *world {
	w := emptyWorld()
	a := w.registryService("web", "ns2", 0, model.ClientSideLB, "10.96.0.1", &model.Port{Name: "http", Port: 80, Protocol: protocol.HTTP}, &model.Port{Name: "http-alt", Port: 8080, Protocol: protocol.HTTP})
	b := w.registryService("db", "ns2", 1, model.ClientSideLB, "10.96.0.2", &model.Port{Name: "tcp", Port: 9000, Protocol: protocol.TCP}, &model.Port{Name: "grpc", Port: 7070, Protocol: protocol.GRPC})
	w.report(a, shardMock, true, endpoint("10.10.0.1", "http", 1080))
	w.report(b, shardMock, true, endpoint("10.10.0.2", "tcp", 19000))
	return w
}

func describeWorld(w *world, proxy string) {
	for _, c := range w.Configs {
		spec := ""
		if pm, ok := c.Spec.(proto.Message); ok {
			spec = text(pm)
		}
		fmt.Printf("  %s %s/%s created %s: %s\n", c.GroupVersionKind.Kind, c.Namespace, c.Name, c.CreationTimestamp.UTC().Format("15:04:05"), spec)
	}
	for _, s := range w.Services {
		var ps []string
		for _, p := range s.Ports {
			ps = append(ps, fmt.Sprintf("%s/%d/%s", p.Name, p.Port, p.Protocol))
		}
		fmt.Printf("  registry Service %s created %s address %s resolution %v ports %s\n", s.Hostname, s.CreationTime.UTC().Format("15:04:05"), s.DefaultAddress, s.Resolution, strings.Join(ps, ","))
	}
	for _, r := range w.Reports {
		var es []string
		for _, e := range r.Eps {
			es = append(es, fmt.Sprintf("%s:%d(%s)", e.Addresses[0], e.EndpointPort, e.ServicePortName))
		}
		fmt.Printf("  endpoints of %s from shard %s: %s\n", r.Host, r.Shard, strings.Join(es, " "))
	}
	for _, p := range w.Proxies {
		if p.Name == proxy {
			fmt.Printf("  proxy %s type %s namespace %s labels %v\n", p.Name, p.Type, p.NS, p.Labels)
		}
	}
}

func runRepro(rc reproCase) bool {
	fmt.Printf("=== repro %s\ncause: %s\nsite:  %s\nstate:\n", rc.name, rc.cause, rc.site)
	w0 := rc.world()
	describeWorld(w0, rc.proxy)
	c := &vh.Ctx{Prop: &vh.Prop{ID: "C17"}, Seed: 1}
	count := map[string]int{}
	var order []string
	// distinct outputs per level: within the first push context, within the first environment, overall
	samePC, sameEnv := map[string]bool{}, map[string]bool{}
	gens := 0
	for e := 0; e < 6; e++ {
		w := rc.world()
		pd, _ := proxyByName(w.Proxies, rc.proxy)
		var env *envH
		pcs := 2
		if e == 0 {
			env = buildEnv(w, nil)
			pcs = 8
		} else {
			env = buildEnv(w, c.Rng("repro-"+rc.name, e))
		}
		for k := 0; k < pcs; k++ {
			if k > 0 {
				env.newPushContext()
			}
			p := env.setupProxy(pd)
			for g := 0; g < 4; g++ {
				v := rc.view(env.generate(p, pd))
				gens++
				if count[v] == 0 {
					order = append(order, v)
				}
				count[v]++
				if e == 0 {
					sameEnv[v] = true
					if k == 0 {
						samePC[v] = true
					}
				}
			}
		}
		env.close()
	}
	fmt.Printf("istio produced (%d generations):\n", gens)
	for _, v := range order {
		fmt.Printf("  %3dx  %s\n", count[v], v)
	}
	fmt.Printf("distinct outputs: %d in 4 generations from one push context, %d in 8 push contexts of one environment, %d in 6 environments (same objects, permuted insertion order)\n",
		len(samePC), len(sameEnv), len(order))
	fmt.Printf("property demands: %s\n", rc.demand)
	if len(order) > 1 {
		fmt.Printf("=> VIOLATED (%d distinct outputs)\n\n", len(order))
		return true
	}
	fmt.Printf("=> not reproduced (1 output)\n\n")
	return false
}

func reproMain(args []string) {
	quiet.Logs("none")
	cases := reproCases()
	if len(args) == 0 || args[0] == "list" {
		for _, rc := range cases {
			fmt.Printf("%-40s %s\n", rc.name, rc.cause)
		}
		return
	}
	bad := false
	found := false
	for _, rc := range cases {
		if args[0] == "all" || args[0] == rc.name {
			found = true
			if runRepro(rc) {
				bad = true
			}
		}
	}
	if !found {
		fmt.Fprintf(os.Stderr, "unknown repro %q (try: repro list)\n", args[0])
		os.Exit(2)
	}
	if bad {
		os.Exit(1)
	}
}
