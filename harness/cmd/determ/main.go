// Engine determ: property C17 — generation is deterministic: the same state and proxy give
// byte-identical xDS resources in the same order, whatever the insertion order of the objects,
// the iteration order of Go maps, or the process that generates.
//
// For a PRNG world W (world.go) and each proxy p the real generators (CDS, EDS, LDS, RDS, ECDS,
// NDS) are run
//
//	(1) several times from one PushContext,
//	(2) from fresh PushContexts of one environment,
//	(3) in environments built from W with permuted insertion orders,
//	(4) in R freshly started helper processes (os.Args[0] -determ-helper …), each with its own
//	    permutation, map hash seeds and (empty) process-global state,
//
// and every generation is compared with the first one: ordered list of (name, Any type, bytes).
// Any byte difference is a violation. explain.go decides its key: the istio code site when the
// difference is exactly the freedom one known root cause introduces, a generic (type, field path,
// kind) key otherwise. `determ repro <name>` (repro.go) shows every known cause on a minimal
// hand-written world; `determ probe ...` (probe.go) is a development aid that prints the distinct
// variants of one resource of a generated world.
package main

import (
	"encoding/json"
	"fmt"
	"os"
	"sort"
	"strings"
	"time"

	"istio.io/istio/pilot/pkg/model"

	"verifharness/internal/quiet"
	"verifharness/internal/vh"
)

const (
	quickWorlds    = 42
	thoroughWorlds = 800
)

// tierParams: every (world, proxy) is generated envs*pcs*gens times in-process and rounds/stride
// times in helper processes; the total is R of the design (>= 5 quick, >= 20 thorough).
type tierParams struct {
	envs   int // environments per world (first = canonical insertion order, others permuted)
	pcs    int // push contexts per environment
	gens   int // generations per (push context, proxy)
	rounds int // helper processes per batch
	stride int // helper round r regenerates the worlds whose position in the batch is = r mod stride
}

func params(tier string) tierParams {
	if tier == "thorough" {
		return tierParams{envs: 4, pcs: 2, gens: 2, rounds: 16, stride: 4} // 16 + 4 generations
	}
	return tierParams{envs: 3, pcs: 2, gens: 2, rounds: 5, stride: 1} // 12 + 5 generations
}

func main() {
	if len(os.Args) > 1 && os.Args[1] == helperFlag {
		helperMain(os.Args[2:])
		return
	}
	if len(os.Args) > 1 && os.Args[1] == "probe" {
		probeMain(os.Args[2:])
		return
	}
	if len(os.Args) > 1 && os.Args[1] == "repro" {
		reproMain(os.Args[2:])
		return
	}
	vh.Main(vh.Prop{
		ID:    "C17",
		Level: "exploration",
		Rule: "case world-<i> = one PRNG world (ServiceEntries in 3 namespaces incl. one hostname exported from >=2 namespaces with equal creation timestamps, registry " +
			"services with endpoints in 2-4 shards and up to 6 localities, VirtualServices with >=2 header/withoutHeaders/queryParams/JWT-claim matchers per match, several " +
			"DestinationRules/VirtualServices/Gateways/Sidecars/PeerAuthentications/AuthorizationPolicies/RequestAuthentications/Telemetries/EnvoyFilters/TrafficExtensions claiming one " +
			"host or workload with equal timestamps; every object validated by the real validators) x 3 proxies (2 sidecars, 1 router). The real CDS/EDS/LDS/RDS/ECDS/NDS " +
			"generators run envs x pcs x gens times in-process (same PushContext, fresh PushContext, environment with permuted config/service/endpoint-shard insertion order; names, " +
			"creation timestamps and resource versions are part of the state and identical everywhere) and, in case xproc-<r>, once per world in each of R fresh helper processes; " +
			"every generation is compared with the first: ordered list of (name, Any type URL, bytes) per type, exactly as the generators returned them. Any byte difference is a violation. " +
			"Its key is the istio code site (cause=...) when the difference disappears once the freedom that ONE known root cause introduces is normalised away (explain.go: e.g. sort " +
			"RouteMatch.query_parameters; causes are tried only on the xDS type / proxy kind / input shape their code site needs), or when the world contains an exact tie and the " +
			"difference is about the hostname the tie decides; every other difference keeps the generic key (proxy kind, type, field path, kind of difference). " +
			"A world is non-trivial when >=3 tie shapes were planted, every proxy got clusters and listeners and >=2 generations were compared; distinct by hash of the reference digests.",
		Assumptions: []string{
			"trusted base: Go protobuf decoding for locating a difference (the verdict itself is a byte comparison of what the generators returned)",
			"core.NewConfigGenTest (in-memory config store, ServiceEntry controller, memory registry, EndpointIndex) stands for istiod's state; the XDS cache is disabled so every generation really runs",
			"EDS/RDS/ECDS subscriptions are handed to the generators as a set, as the server stores them (WatchedResource.ResourceNames)",
			"the order of endpoints inside one shard report is part of the state (never permuted); shard reports, services and config objects are permuted",
			"attribution of a difference to a known cause decodes both resources, normalises and re-encodes them with Go protobuf deterministic marshalling; it selects the violation key only, never the verdict",
		},
		Anchors: []string{
			"pilot/pkg/model/push_context.go", "pilot/pkg/model/sidecar.go", "pilot/pkg/model/virtualservice.go", "pilot/pkg/model/destination_rule.go",
			"pilot/pkg/networking/core/listener.go", "pilot/pkg/networking/core/cluster.go", "pilot/pkg/networking/core/httproute.go",
			"pilot/pkg/xds/endpoints/endpoint_builder.go", "pilot/pkg/model/config.go",
		},
		MinNontrivial: func(t string) int { return map[string]int{"quick": 30, "thorough": 640}[t] },
		Batches:       func(t string) int { return map[string]int{"quick": 6, "thorough": 6}[t] },
		Parallel:      func(t string) int { return map[string]int{"quick": 6, "thorough": 6}[t] },
		TimeoutSec:    func(t string) int { return map[string]int{"quick": 600, "thorough": 3000}[t] },
		Run:           run,
	})
}

type refEntry struct {
	shape   *inputShape
	proxies []proxyDef
	out     map[string]genOut // proxy name -> reference generation
	err     string
}

type runner struct {
	c      *vh.Ctx
	tp     tierParams
	refs   map[int]*refEntry
	seen   map[string]bool // world|key already reported
	minned map[string]bool

	curProxy proxyDef
}

func run(c *vh.Ctx) {
	quiet.Logs("none")
	rn := &runner{c: c, tp: params(c.Tier), refs: map[int]*refEntry{}, seen: map[string]bool{}, minned: map[string]bool{}}
	var mine []int
	for i := 0; i < c.N(quickWorlds, thoroughWorlds); i++ {
		if c.Mine(i) {
			mine = append(mine, i)
		}
	}
	// wall-clock is recorded for the cost figures in the evidence only; no verdict depends on it
	t0 := time.Now()
	for _, i := range mine {
		c.Case(fmt.Sprintf("world-%d", i), func() { rn.worldCase(i) })
	}
	c.Count("wall_ms:in-process-levels", int(time.Since(t0).Milliseconds()))
	t0 = time.Now()
	for r := 0; r < rn.tp.rounds; r++ {
		var sub []int
		for k, i := range mine {
			if k%rn.tp.stride == r%rn.tp.stride {
				sub = append(sub, i)
			}
		}
		c.Case(fmt.Sprintf("xproc-%d", r), func() { rn.xprocCase(r, sub) })
	}
	c.Count("wall_ms:helper-rounds", int(time.Since(t0).Milliseconds()))
}

func worldRng(c *vh.Ctx, i int) *world { return genWorld(c.Rng("world", i)) }

// worldCase performs the in-process levels for world i and leaves the reference in rn.refs.
func (rn *runner) worldCase(i int) {
	c := rn.c
	if os.Getenv("DETERM_MINIMISE") != "" {
		// development aid: minimise a world in which the code under test panics
		defer func() {
			if r := recover(); r != nil {
				if _, harness := r.(vh.HarnessPanic); !harness {
					b, _ := json.MarshalIndent(rn.minimise(i, rn.curProxy, "panic"), "", " ")
					fmt.Fprintf(os.Stderr, "MINIMAL-PANIC-WORLD %v\n%s\n", r, b)
				}
				panic(r)
			}
		}()
	}
	ref := &refEntry{out: map[string]genOut{}}
	nGen := 0
	for e := 0; e < rn.tp.envs; e++ {
		w := worldRng(c, i)
		if e == 0 {
			ref.proxies = w.Proxies
			ref.shape = shapeOf(w)
			if w.AmbSvc {
				c.Count("worlds_with_service_ties", 1)
			}
			for _, s := range w.Shapes {
				c.SetAdd("tie_shapes", s)
			}
			kinds := make([]string, 0, len(w.KindN))
			for k := range w.KindN {
				kinds = append(kinds, k)
			}
			sort.Strings(kinds)
			for _, k := range kinds {
				c.Count("objects:"+k, w.KindN[k])
			}
			for k, n := range w.Rejected {
				c.Count("rejected_by_validation:"+k, n)
			}
			c.Count("objects:registry-services", len(w.Services))
			c.Count("objects:endpoint-shard-reports", len(w.Reports))
			c.Max("objects_per_world", len(w.Configs)+len(w.Services))
			c.Max("tie_shapes_per_world", len(w.Shapes))
			c.Sample(map[string]any{"world": i, "objects": w.KindN, "registry_services": len(w.Services), "shard_reports": len(w.Reports), "tie_shapes": w.Shapes})
		}
		level := "permuted-env"
		var env *envH
		if e == 0 {
			env = buildEnv(w, nil)
		} else {
			env = buildEnv(w, c.Rng("perm", i*64+e))
			c.Count("permutations", 1)
		}
		func() {
			defer env.close()
			for k := 0; k < rn.tp.pcs; k++ {
				if k > 0 {
					env.newPushContext()
				}
				c.Count("push_contexts", 1)
				for _, pd := range w.Proxies {
					rn.curProxy = pd
					p := env.setupProxy(pd)
					for g := 0; g < rn.tp.gens; g++ {
						out := env.generate(p, pd)
						nGen++
						c.Count("generations", 1)
						r0, ok := ref.out[pd.Name]
						if !ok {
							ref.out[pd.Name] = out
							for _, t := range typeOrder {
								c.Count("reference_resources:"+t, len(out[t]))
							}
							continue
						}
						lv := level
						if e == 0 && k == 0 {
							lv = "same-pushcontext"
						} else if e == 0 {
							lv = "fresh-pushcontext"
						}
						rn.compare(i, pd, lv, r0, out, ref.shape, nil)
					}
				}
			}
		}()
	}
	rn.refs[i] = ref
	w := worldRng(c, i)
	ok := len(w.Shapes) >= 3 && nGen >= 2*len(w.Proxies)
	var ds []string
	for _, pd := range ref.proxies {
		o := ref.out[pd.Name]
		if len(o["CDS"]) == 0 || len(o["LDS"]) == 0 {
			ok = false
		}
		for _, t := range typeOrder {
			ds = append(ds, listDigest(o[t]))
		}
	}
	if ok {
		c.Nontrivial(vh.Hash(strings.Join(ds, ",")))
	}
	c.Count("worlds", 1)
	c.Count("proxies", len(ref.proxies))
	rn.writeDigests(i, ref)
}

// compare checks one generation against the reference, type by type. When CDS (LDS) differs so
// that the derived EDS (RDS, ECDS) subscription differs, the dependent type is skipped: its
// difference would only be a consequence. The verdict is the byte comparison; the known-cause
// normalisers of explain.go only decide under which key a difference is reported.
func (rn *runner) compare(world int, pd proxyDef, level string, ref, got genOut, sh *inputShape, extra map[string]any) {
	c := rn.c
	c.Count("comparisons", 1)
	c.Count("comparisons:"+level, 1)
	c.SetAdd("levels", level)
	skip := map[string]bool{}
	if ref.kind() != got.kind() {
		c.Count("proxy_kind_differs", 1)
	}
	if strings.Join(edsNames(ref["CDS"]), "\x00") != strings.Join(edsNames(got["CDS"]), "\x00") {
		skip["EDS"] = true
	}
	r1, e1 := listenerRefs(ref["LDS"])
	r2, e2 := listenerRefs(got["LDS"])
	if strings.Join(r1, "\x00") != strings.Join(r2, "\x00") {
		skip["RDS"] = true
	}
	if strings.Join(e1, "\x00") != strings.Join(e2, "\x00") {
		skip["ECDS"] = true
	}
	kind := ref.kind()
	for _, t := range typeOrder {
		if skip[t] {
			c.Count("skipped_dependent_type", 1)
			continue
		}
		c.Count("resources_compared:"+t, len(ref[t]))
		for _, r := range ref[t] {
			c.Count("bytes_compared", len(r.Value))
		}
		a, b := ref[t], got[t]
		cur := diffLists(t, a, b)
		if len(cur) == 0 {
			continue
		}
		c.Count("generations_differing:"+t, 1)
		report := func(key string, d *difference, what string) {
			c.Count("differences", 1)
			c.SetAdd("difference_levels", key+" @"+level)
			if dir := os.Getenv("DETERM_DUMP"); dir != "" && d.rawA != nil {
				base := fmt.Sprintf("%s/w%d-%s-%s-%s", dir, world, pd.Name, t, strings.NewReplacer("/", "_", "|", "_").Replace(d.Resource))
				_ = os.WriteFile(base+".a", d.rawA, 0o644)
				_ = os.WriteFile(base+".b", d.rawB, 0o644)
			}
			sk := fmt.Sprintf("%d|%s", world, key)
			if rn.seen[sk] {
				return
			}
			rn.seen[sk] = true
			payload := map[string]any{"world": world, "seed": c.Seed, "proxy": pd.Name, "proxy_type": string(pd.Type), "proxy_ns": pd.NS, "level": level, "difference": d}
			for k, v := range extra {
				payload[k] = v
			}
			if (c.Only != "" || os.Getenv("DETERM_MINIMISE") != "") && !rn.minned[key] && wantKey(key) && (os.Getenv("DETERM_PROXY") == "" || os.Getenv("DETERM_PROXY") == pd.Name) {
				rn.minned[key] = true
				payload["minimal"] = rn.minimise(world, pd, d.key())
				payload["minimal_key"] = d.key()
			}
			c.Violation(key, fmt.Sprintf("world %d proxy %s (%s in %s): %s generation differs from the first one at level %s%s: resource %q, %s [%s]: %s <> %s",
				world, pd.Name, pd.Type, pd.NS, t, level, what, d.Resource, d.Path, d.Kind, clip(d.A, 300), clip(d.B, 300)), payload)
		}
		// known causes: the differences that disappear under the cause's normaliser are reported under the cause
		nc := &normCtx{typ: t, kind: kind, shape: sh}
		for i := range knownCauses {
			kc := &knownCauses[i]
			if !kc.applies(nc) {
				continue
			}
			a2, b2, changed := applyCause(kc, nc, a, b)
			if !changed {
				continue
			}
			next := diffLists(t, a2, b2)
			nk := diffKeySet(next)
			var gone []*difference
			for _, d := range cur {
				if _, still := nk[d.key()]; !still {
					gone = append(gone, d)
				}
			}
			a, b = a2, b2
			cur = next
			if len(gone) == 0 {
				continue
			}
			c.Count("explained_by:"+kc.id, len(gone))
			report(fmt.Sprintf("cause=%s type=%s proxy=%s", kc.id, t, kind), gone[0], " (explained by the known cause "+kc.id+")")
			if len(cur) == 0 {
				break
			}
		}
		// residual differences: a tie the world really contains, or unexplained
		for _, d := range cur {
			if tc := tieCause(d, sh, pd, kind); tc != "" {
				c.Count("explained_by:"+tc, 1)
				report(fmt.Sprintf("cause=%s type=%s proxy=%s field=%s:%s", tc, t, kind, d.KeyPath, d.Kind), d, " (the world contains the tie "+tc+")")
				continue
			}
			c.Count("unexplained_differences", 1)
			report("proxy="+kind+" "+d.key(), d, "")
		}
	}
}

func clip(s string, n int) string {
	if len(s) > n {
		return s[:n] + "…"
	}
	return s
}

// wantKey restricts minimisation to keys containing DETERM_KEY (development aid).
func wantKey(key string) bool {
	f := os.Getenv("DETERM_KEY")
	return f == "" || strings.Contains(strings.Join(strings.Fields(key), "_"), f)
}

func proxyByName(ps []proxyDef, n string) (proxyDef, bool) {
	for _, p := range ps {
		if p.Name == n {
			return p, true
		}
	}
	return proxyDef{}, false
}

var _ = model.SidecarProxy
