package main

import (
	"fmt"
	"math/rand"
	"sort"
	"strings"
	"time"

	meshconfig "istio.io/api/mesh/v1alpha1"
	endpoint "github.com/envoyproxy/go-control-plane/envoy/config/endpoint/v3"

	"istio.io/istio/pilot/pkg/features"
	"istio.io/istio/pilot/pkg/model"
	"istio.io/istio/pilot/pkg/xds/endpoints"
	v3 "istio.io/istio/pilot/pkg/xds/v3"
	xdsfake "istio.io/istio/pilot/test/xds"
	"istio.io/istio/pkg/cluster"
	"istio.io/istio/pkg/config"
	"istio.io/istio/pkg/config/host"
	"istio.io/istio/pkg/config/mesh"
	"istio.io/istio/pkg/util/sets"
	"verifharness/internal/vh"
)

// ---------------------------------------------------------------------------------------
// stratum (iv): sequences of registry reports on one index with a WARM endpoint cache.
//
// The eds stratum judges one final state. Here every single report is judged:
//   * after the report, what the real generator serves (through the cache that was warmed just
//     before the report, and through the uncached builder) must equal the reference membership of
//     the NEW latest reports - nothing derived from the previous report may be handed out;
//   * the push type UpdateServiceEndpoints returns must not be NoPush when, by the reference, what
//     some proxy is served for some cluster of the service differs before and after the report
//     (connected proxies learn about a change only through a push).
// Reports are edits of the previous report of the same (service, registry): endpoints removed,
// brand-new endpoints of any health added, health flips, label / weight / locality changes,
// unchanged resends - in one report, which is how an EndpointSlice write replaces a pod.

type seqEnv struct {
	f   *vh.F
	srv *xdsfake.FakeDiscoveryServer
	px  map[string]*model.Proxy
	// assignments the generator took from the endpoint cache (as reported by the generator itself)
	fromCache int
}

func newSeqEnv() *seqEnv {
	e := &seqEnv{f: vh.NewF(), px: map[string]*model.Proxy{}}
	m := mesh.DefaultMeshConfig()
	m.ServiceSettings = []*meshconfig.MeshConfig_ServiceSettings{{
		Settings: &meshconfig.MeshConfig_ServiceSettings_Settings{ClusterLocal: true},
		Hosts:    []string{"local.example.com"},
	}}
	var svcs []*model.Service
	var cfgs []config.Config
	for _, s := range edsServices {
		svcs = append(svcs, s.toService())
		if dr := s.destinationRule(); dr != nil {
			cfgs = append(cfgs, *dr)
		}
	}
	e.srv = xdsfake.NewFakeDiscoveryServer(e.f, xdsfake.FakeOptions{Services: svcs, Configs: cfgs, MeshConfig: m})
	for _, p := range edsProxies {
		e.px[p.name] = e.srv.SetupProxy(&model.Proxy{
			ID:              p.name + ".ns1",
			ConfigNamespace: "ns1",
			IPAddresses:     []string{"10.99.0.1"},
			Labels:          map[string]string{"app": "client"},
			Metadata: &model.NodeMetadata{
				ClusterID:            cluster.ID(p.cluster),
				NodeName:             p.node,
				Namespace:            "ns1",
				RequestedNetworkView: p.view,
				Labels:               map[string]string{"app": "client"},
			},
		})
		e.px[p.name].Locality = localityOf(p.locality)
	}
	return e
}

type clusterWant struct {
	s      svcSpec
	port   int
	subset string
}

func clustersOf(s svcSpec) map[string]clusterWant {
	out := map[string]clusterWant{}
	for port := range s.ports {
		subs := []string{""}
		for sn := range s.subsets {
			subs = append(subs, sn)
		}
		for _, sn := range subs {
			out[model.BuildSubsetKey(model.TrafficDirectionOutbound, sn, host.Name(s.host), port)] = clusterWant{s, port, sn}
		}
	}
	return out
}

// refServed: reference membership of every cluster of s for proxy p, as one canonical string per cluster.
func refServed(p proxySpec, s svcSpec, latest map[int][]epSpec, allowUnhealthyDefault bool) map[string]string {
	out := map[string]string{}
	for cn, w := range clustersOf(s) {
		var subset map[string]string
		if w.subset != "" {
			subset = s.subsets[w.subset]
		}
		exp := refMembers(p, s, s.ports[w.port], subset, latest, allowUnhealthyDefault)
		for k := range exp {
			parts := strings.SplitN(exp[k], "|", 2)
			exp[k] = normLoc(parts[0]) + "|" + parts[1]
		}
		sort.Strings(exp)
		out[cn] = strings.Join(exp, ",")
	}
	return out
}

// generate asks the real EDS generator (cache in use) for all clusters of s as proxy p.
func (e *seqEnv) generate(p proxySpec, s svcSpec) map[string]string {
	names := sets.New[string]()
	for cn := range clustersOf(s) {
		names.Insert(cn)
	}
	gen := prodEDSGenerator(e.srv) // shares the index's cache, as in istiod (see gen.go)
	// Start is only the cache token (the endpoint cache stores nothing for a request without a start time)
	res, logd, err := gen.Generate(e.px[p.name], &model.WatchedResource{TypeUrl: v3.EndpointType, ResourceNames: names},
		&model.PushRequest{Forced: true, Push: e.srv.PushContext(), Start: time.Now()})
	if err != nil {
		vh.Abort("eds generate: %v", err)
	}
	if nCached, _, ok := cachedOf(logd); ok {
		e.fromCache += nCached
	}
	out := map[string]string{}
	for _, rsc := range res {
		cla := &endpoint.ClusterLoadAssignment{}
		if err := rsc.Resource.UnmarshalTo(cla); err != nil {
			vh.Abort("unmarshal: %v", err)
		}
		members, _, _ := flattenCLA(cla)
		out[cla.ClusterName] = strings.Join(members, ",")
	}
	return out
}

func (e *seqEnv) build(p proxySpec, s svcSpec) map[string]string {
	out := map[string]string{}
	for cn := range clustersOf(s) {
		b := endpoints.NewEndpointBuilder(cn, e.px[p.name], e.srv.PushContext())
		members, _, _ := flattenCLA(b.BuildClusterLoadAssignment(e.srv.Env().EndpointIndex))
		out[cn] = strings.Join(members, ",")
	}
	return out
}

// editReport derives the next report of a registry from its previous one.
func editReport(r *rand.Rand, s svcSpec, shard int, prev []epSpec, seq *int) (next []epSpec, shape string) {
	removed, added, flipped, touched := 0, 0, 0, 0
	for _, e := range prev {
		switch x := r.Intn(10); {
		case x < 2:
			removed++
			continue
		case x < 4:
			// health flip
			hs := []model.HealthStatus{model.Healthy, model.UnHealthy, model.Draining, model.Terminating}
			nh := hs[r.Intn(len(hs))]
			if nh != e.Health {
				flipped++
			}
			e.Health = nh
		case x < 5:
			// metadata edit that changes what is served or where
			touched++
			switch r.Intn(3) {
			case 0:
				lab := map[string]string{}
				for k, v := range e.Labels {
					lab[k] = v
				}
				lab["version"] = []string{"v1", "v2", "v3"}[r.Intn(3)]
				e.Labels = lab
			case 1:
				e.Weight = uint32(r.Intn(4))
			default:
				e.Locality = []string{"r1/z1/s1", "r1/z2/s1", "r2/z1/s1", ""}[r.Intn(4)]
			}
		}
		next = append(next, e)
	}
	nadd := 0
	switch x := r.Intn(10); {
	case x < 4:
		nadd = 0
	case x < 8:
		nadd = 1 + r.Intn(2)
	default:
		nadd = removed + r.Intn(2) // at least as many as were removed: a replacement
	}
	fresh := genEndpoints(r, s, shard, nadd, seq)
	for i := range fresh {
		// new endpoints usually start not ready (a replacement pod), sometimes ready at once
		if r.Intn(3) != 0 {
			fresh[i].Health = model.UnHealthy
		}
		added++
	}
	next = append(next, fresh...)
	shape = fmt.Sprintf("removed=%s added=%s flipped=%s touched=%s", bucket(removed), bucket(added), bucket(flipped), bucket(touched))
	return next, shape
}

func bucket(n int) string {
	switch {
	case n == 0:
		return "0"
	case n == 1:
		return "1"
	}
	return "2+"
}

func runSeq(c *vh.Ctx) {
	n := c.N(240, 12000)
	var env *seqEnv
	defer func() {
		if env != nil {
			env.f.Done()
		}
	}()
	autoSendDefault := features.DefaultSendUnhealthyEndpoints.Load()
	defer features.DefaultSendUnhealthyEndpoints.Store(autoSendDefault)
	for i := 0; i < n; i++ {
		if !c.Mine(i) {
			continue
		}
		c.Case(fmt.Sprintf("seq/%d", i), func() {
			if env == nil {
				env = newSeqEnv()
			}
			// sub-strata: (0) default features; (1) PILOT_AUTO_SEND_UNHEALTHY_ENDPOINTS=false (unhealthy endpoints are not
			// served unless the service forces it). In both the registry sets the per-endpoint SendUnhealthyEndpoints flag
			// from the service, as the Kubernetes registry does - the only registry that reports UnHealthy endpoints (a
			// sub-stratum with the flag left unset fired on pure additions of unhealthy endpoints and was dropped as
			// input no real registry produces).
			sub := i % 2
			features.DefaultSendUnhealthyEndpoints.Store(autoSendDefault)
			if sub == 1 {
				features.DefaultSendUnhealthyEndpoints.Store(false)
			}
			allowUnhealthyDefault := features.DefaultSendUnhealthyEndpoints.Load() || features.GlobalSendUnhealthyEndpoints.Load()
			stratum := []string{"auto-send-unhealthy=default", "auto-send-unhealthy=false"}[sub]
			c.Count("seq_cases_"+stratum, 1)
			r := c.Rng("seq", i)
			idx := env.srv.Env().EndpointIndex
			for sh := 0; sh < 3; sh++ {
				idx.DeleteShard(shardKey(sh))
			}
			latest := map[string]map[int][]epSpec{}
			seq := 0
			var trace []string
			changedServed, noPushSeen := 0, 0
			steps := 8 + r.Intn(10)
			for step := 0; step < steps; step++ {
				s := edsServices[r.Intn(len(edsServices))]
				sh := r.Intn(3)
				if latest[s.host] == nil {
					latest[s.host] = map[int][]epSpec{}
				}
				prev := latest[s.host][sh]
				var next []epSpec
				shape := "initial"
				if len(prev) == 0 {
					next = genEndpoints(r, s, sh, 1+r.Intn(5), &seq)
				} else {
					next, shape = editReport(r, s, sh, prev, &seq)
				}
				// warm the cache with what is served now, and remember the reference view
				before := map[string]map[string]string{}
				for _, p := range edsProxies {
					env.generate(p, s)
					before[p.name] = refServed(p, s, latest[s.host], allowUnhealthyDefault)
				}
				var ie []*model.IstioEndpoint
				for k := range next {
					// registry contract: the endpoint carries the service-level "unhealthy endpoints are sent" decision
					next[k].SendUnhealthy = allowUnhealthyDefault || s.trafficDistrib
					ie = append(ie, next[k].toIstio(s.ns))
				}
				pt := idx.UpdateServiceEndpoints(shardKey(sh), s.host, s.ns, ie, false)
				latest[s.host][sh] = next
				trace = append(trace, fmt.Sprintf("step %d: %s registry c%d %s -> %d endpoints, push=%v", step, s.host, sh, shape, len(next), pt))
				c.Count("seq_reports", 1)
				c.SetAdd("seq_report_shapes", fmt.Sprintf("sub%d %s push=%v", sub, shape, pt))
				if pt == model.NoPush {
					noPushSeen++
					c.Count("seq_reports_answered_with_no_push", 1)
				}
				servedChanged := false
				for _, p := range edsProxies {
					after := refServed(p, s, latest[s.host], allowUnhealthyDefault)
					cached := env.generate(p, s)
					built := env.build(p, s)
					cns := make([]string, 0, len(after))
					for cn := range after {
						cns = append(cns, cn)
					}
					sort.Strings(cns)
					for _, cn := range cns {
						c.Count("seq_assignments_compared", 2)
						if before[p.name][cn] != after[cn] {
							servedChanged = true
						}
						switch {
						case built[cn] != after[cn]:
							c.Violation("seq:served-differs-from-latest-reports:src=builder:"+stratum+":"+shape,
								fmt.Sprintf("after %s the uncached builder serves proxy %s cluster %s [%s], reference (latest reports) [%s]", trace[len(trace)-1], p.name, cn, built[cn], after[cn]),
								map[string]any{"trace": trace, "proxy": p.name, "cluster": cn})
						case cached[cn] != after[cn]:
							stale := "other"
							if cached[cn] == before[p.name][cn] {
								stale = "previous-report-still-served"
							}
							c.Violation(fmt.Sprintf("seq:served-differs-from-latest-reports:src=generator-with-warm-cache:%s:push=%v:%s:%s", stale, pt, stratum, shape),
								fmt.Sprintf("after %s the generator (cache warmed before the report) serves proxy %s cluster %s [%s], reference (latest reports) [%s]; uncached builder agrees with the reference",
									trace[len(trace)-1], p.name, cn, cached[cn], after[cn]),
								map[string]any{"trace": trace, "proxy": p.name, "cluster": cn})
						}
					}
				}
				if servedChanged {
					changedServed++
					c.Count("seq_reports_changing_what_is_served", 1)
					if pt == model.NoPush {
						c.Violation("seq:no-push-although-served-endpoints-changed:"+stratum+":"+shape,
							fmt.Sprintf("%s: UpdateServiceEndpoints returned NoPush although the reference membership of some cluster of the service changes for some proxy; connected proxies keep the previous endpoints. trace: %s",
								trace[len(trace)-1], strings.Join(trace, " | ")),
							map[string]any{"trace": trace})
					}
				}
			}
			c.Count("seq_generator_assignments_from_cache", env.fromCache)
			env.fromCache = 0
			if changedServed > 0 && noPushSeen > 0 {
				c.Nontrivial(vh.Hash("seq", i, trace))
			}
			if i < 2 {
				c.Sample(map[string]any{"stratum": "seq", "trace": trace})
			}
		})
	}
}
