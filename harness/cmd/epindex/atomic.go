package main

import (
	"fmt"
	"math/rand"
	"runtime"
	"sort"
	"strings"
	"sync"
	"sync/atomic"
	"time"

	"github.com/anishathalye/porcupine"

	"istio.io/istio/pilot/pkg/model"
	"istio.io/istio/pilot/pkg/serviceregistry/provider"
	"istio.io/istio/pkg/cluster"
	"istio.io/istio/pkg/util/sets"
	"verifharness/internal/vh"
)

// ---------------------------------------------------------------------------------------
// operations at the client boundary

type opKind int

const (
	opUpdate      opKind = iota // UpdateServiceEndpoints with a non-empty, uniquely identified endpoint list
	opUpdateEmpty               // UpdateServiceEndpoints with an empty list
	opDeleteSvc                 // DeleteServiceShard(shard, svc, ns, false)
	opDeleteShard               // DeleteShard(shard)
	opPrune                     // PruneShard(shard, keep)
	opRead                      // ShardsForService + copy under the shard's read lock
)

var opNames = map[opKind]string{opUpdate: "update", opUpdateEmpty: "update-empty", opDeleteSvc: "delete-service", opDeleteShard: "delete-shard", opPrune: "prune", opRead: "read"}

type op struct {
	Kind  opKind
	Shard int      // registry index
	Svc   string   // "host|ns" (unused for delete-shard / prune)
	ID    int      // unique update id
	N     int      // endpoints in the update
	SA    string   // service account of the endpoints
	Keep  []string // prune: services to keep
}

func (o op) String() string {
	switch o.Kind {
	case opUpdate:
		return fmt.Sprintf("%s(r%d,%s,id=%d,n=%d,sa=%s)", opNames[o.Kind], o.Shard, o.Svc, o.ID, o.N, o.SA)
	case opPrune:
		return fmt.Sprintf("%s(r%d,keep=%v)", opNames[o.Kind], o.Shard, o.Keep)
	case opDeleteShard:
		return fmt.Sprintf("%s(r%d)", opNames[o.Kind], o.Shard)
	case opRead:
		return fmt.Sprintf("read(%s)", o.Svc)
	}
	return fmt.Sprintf("%s(r%d,%s)", opNames[o.Kind], o.Shard, o.Svc)
}

func shardKey(i int) model.ShardKey {
	return model.ShardKey{Cluster: cluster.ID(fmt.Sprintf("c%d", i)), Provider: provider.Kubernetes}
}

func shardName(k model.ShardKey) string { return strings.TrimPrefix(string(k.Cluster), "c") }

func splitSvc(s string) (host, ns string) {
	i := strings.IndexByte(s, '|')
	return s[:i], s[i+1:]
}

func mkEndpoints(o op) []*model.IstioEndpoint {
	_, ns := splitSvc(o.Svc)
	eps := make([]*model.IstioEndpoint, 0, o.N)
	for j := 0; j < o.N; j++ {
		eps = append(eps, &model.IstioEndpoint{
			Addresses:       []string{fmt.Sprintf("10.%d.%d.%d", o.ID/250, o.ID%250, j+1)},
			ServicePortName: "http",
			EndpointPort:    8080,
			ServiceAccount:  o.SA,
			Namespace:       ns,
			WorkloadName:    fmt.Sprintf("u%d", o.ID),
			Labels:          map[string]string{"uid": fmt.Sprint(o.ID)},
			HealthStatus:    model.Healthy,
		})
	}
	return eps
}

// apply executes one op on the real index and returns the observable output.
func apply(idx *model.EndpointIndex, o op) string {
	switch o.Kind {
	case opUpdate:
		host, ns := splitSvc(o.Svc)
		pt := idx.UpdateServiceEndpoints(shardKey(o.Shard), host, ns, mkEndpoints(o), false)
		return fmt.Sprintf("push=%d", pt)
	case opUpdateEmpty:
		host, ns := splitSvc(o.Svc)
		idx.UpdateServiceEndpoints(shardKey(o.Shard), host, ns, nil, false)
	case opDeleteSvc:
		host, ns := splitSvc(o.Svc)
		idx.DeleteServiceShard(shardKey(o.Shard), host, ns, false)
	case opDeleteShard:
		idx.DeleteShard(shardKey(o.Shard))
	case opPrune:
		keep := map[string]sets.String{}
		for _, s := range o.Keep {
			host, ns := splitSvc(s)
			if keep[host] == nil {
				keep[host] = sets.New[string]()
			}
			keep[host].Insert(ns)
		}
		idx.PruneShard(shardKey(o.Shard), keep)
	case opRead:
		return readSvc(idx, o.Svc)
	}
	return ""
}

// readSvc is what every consumer of the index does: look the shard set up, then copy under
// the shard's own read lock. Output: "r0=12/2,r3=7/1" (registry=update id/endpoint count),
// or a "TORN" marker if one shard holds endpoints of several updates.
func readSvc(idx *model.EndpointIndex, svc string) string {
	host, ns := splitSvc(svc)
	es, ok := idx.ShardsForService(host, ns)
	if !ok {
		return ""
	}
	es.RLock()
	defer es.RUnlock()
	var parts []string
	for k, eps := range es.Shards {
		if len(eps) == 0 {
			continue
		}
		ids := map[string]int{}
		for _, e := range eps {
			ids[e.Labels["uid"]]++
		}
		if len(ids) != 1 {
			parts = append(parts, fmt.Sprintf("r%s=TORN%v", shardName(k), ids))
			continue
		}
		for id, n := range ids {
			parts = append(parts, fmt.Sprintf("r%s=%s/%d", shardName(k), id, n))
		}
	}
	sort.Strings(parts)
	return strings.Join(parts, ",")
}

// ---------------------------------------------------------------------------------------
// sequential specification. State of one service: canonical string "r0=12/2,r3=7/1".

func stParse(s string) map[string]string {
	m := map[string]string{}
	if s == "" {
		return m
	}
	for _, p := range strings.Split(s, ",") {
		i := strings.IndexByte(p, '=')
		m[p[:i]] = p[i+1:]
	}
	return m
}

func stFmt(m map[string]string) string {
	parts := make([]string, 0, len(m))
	for k, v := range m {
		parts = append(parts, k+"="+v)
	}
	sort.Strings(parts)
	return strings.Join(parts, ",")
}

// stepSvc applies o to the state of service svc (o already known to concern svc).
func stepSvc(state string, svc string, o op, out string) (bool, string) {
	r := fmt.Sprintf("r%d", o.Shard)
	switch o.Kind {
	case opUpdate:
		if o.Svc != svc {
			return true, state
		}
		m := stParse(state)
		m[r] = fmt.Sprintf("%d/%d", o.ID, o.N)
		return true, stFmt(m)
	case opUpdateEmpty, opDeleteSvc:
		if o.Svc != svc {
			return true, state
		}
		m := stParse(state)
		delete(m, r)
		return true, stFmt(m)
	case opDeleteShard:
		m := stParse(state)
		delete(m, r)
		return true, stFmt(m)
	case opPrune:
		for _, k := range o.Keep {
			if k == svc {
				return true, state
			}
		}
		m := stParse(state)
		delete(m, r)
		return true, stFmt(m)
	case opRead:
		if o.Svc != svc {
			return true, state
		}
		return out == state, state
	}
	return false, state
}

func concerns(o op, svc string) bool {
	switch o.Kind {
	case opDeleteShard, opPrune:
		return true
	}
	return o.Svc == svc
}

func modelFor(svc string) porcupine.Model {
	return porcupine.Model{
		Init: func() any { return "" },
		Step: func(st, in, out any) (bool, any) {
			return stepSvc(st.(string), svc, in.(op), out.(string))
		},
		DescribeOperation: func(in, out any) string { return in.(op).String() + " -> " + out.(string) },
	}
}

// ---------------------------------------------------------------------------------------
// recorder

type recorder struct {
	clock atomic.Int64
	mu    sync.Mutex
	ops   []porcupine.Operation
}

func (r *recorder) do(idx *model.EndpointIndex, client int, o op) string {
	call := r.clock.Add(1)
	out := apply(idx, o)
	ret := r.clock.Add(1)
	r.mu.Lock()
	r.ops = append(r.ops, porcupine.Operation{ClientId: client, Input: o, Call: call, Output: out, Return: ret})
	r.mu.Unlock()
	return out
}

type histResult struct {
	res     porcupine.CheckResult
	svc     string
	witness []string
}

// checkHistory decides linearizability per service (multi-service ops are projected into
// every service they touch, which is sound: a linearization of the whole projects onto one
// of each part).
func checkHistory(ops []porcupine.Operation, svcs []string) histResult {
	for _, svc := range svcs {
		var sub []porcupine.Operation
		for _, o := range ops {
			if concerns(o.Input.(op), svc) {
				sub = append(sub, o)
			}
		}
		if len(sub) == 0 {
			continue
		}
		res, _ := porcupine.CheckOperationsVerbose(modelFor(svc), sub, 60*time.Second)
		if res != porcupine.Ok {
			return histResult{res: res, svc: svc, witness: describe(sub)}
		}
	}
	return histResult{res: porcupine.Ok}
}

func describe(ops []porcupine.Operation) []string {
	sorted := append([]porcupine.Operation(nil), ops...)
	sort.Slice(sorted, func(i, j int) bool { return sorted[i].Call < sorted[j].Call })
	out := make([]string, 0, len(sorted))
	for _, o := range sorted {
		out = append(out, fmt.Sprintf("[%d,%d] c%d %s -> %q", o.Call, o.Return, o.ClientId, o.Input.(op).String(), o.Output.(string)))
	}
	return out
}

// ---------------------------------------------------------------------------------------
// gate control (hook H2)

type gateCtl struct {
	mu      sync.Mutex
	armed   bool
	parked  chan struct{} // closed when a goroutine parks
	release chan struct{}
	// free-running mode
	yieldSeed atomic.Int64
	yields    bool
}

func (g *gateCtl) install() {
	model.SetVerifGate(func(point string) {
		g.mu.Lock()
		if g.armed {
			g.armed = false
			parked, release := g.parked, g.release
			g.mu.Unlock()
			close(parked)
			<-release
			return
		}
		y := g.yields
		g.mu.Unlock()
		if y {
			// PRNG-determined number of yields; widens the window without inventing an interleaving
			n := g.yieldSeed.Add(0x9E3779B97F4A7C15 >> 1)
			k := int(uint64(n)>>60) % 8
			for i := 0; i < k; i++ {
				runtime.Gosched()
			}
			if k == 7 {
				time.Sleep(50 * time.Microsecond)
			}
		}
	})
}

func (g *gateCtl) arm() (parked, release chan struct{}) {
	g.mu.Lock()
	defer g.mu.Unlock()
	g.armed = true
	g.parked = make(chan struct{})
	g.release = make(chan struct{})
	return g.parked, g.release
}

func (g *gateCtl) disarm() {
	g.mu.Lock()
	g.armed = false
	g.mu.Unlock()
}

// ---------------------------------------------------------------------------------------
// stratum (i): gate-pair enumeration

type gatePair struct {
	init  []int // registries that have reported svcX before
	other op    // op run while the update is parked
	name  string
}

const svcX = "x.example.com|ns1"
const svcY = "y.example.com|ns1"

func enumerateGatePairs() []gatePair {
	inits := [][]int{{}, {0}, {1}, {0, 1}, {0, 1, 2}}
	others := []struct {
		name string
		o    op
	}{
		{"delete-service-other", op{Kind: opDeleteSvc, Shard: 1, Svc: svcX}},
		{"delete-service-same", op{Kind: opDeleteSvc, Shard: 0, Svc: svcX}},
		{"delete-shard-other", op{Kind: opDeleteShard, Shard: 1}},
		{"delete-shard-same", op{Kind: opDeleteShard, Shard: 0}},
		{"prune-other-keep-none", op{Kind: opPrune, Shard: 1}},
		{"prune-other-keep-svc", op{Kind: opPrune, Shard: 1, Keep: []string{svcX}}},
		{"prune-same-keep-none", op{Kind: opPrune, Shard: 0}},
		{"update-empty-other", op{Kind: opUpdateEmpty, Shard: 1, Svc: svcX}},
		{"update-empty-same", op{Kind: opUpdateEmpty, Shard: 0, Svc: svcX}},
		{"update-other", op{Kind: opUpdate, Shard: 1, Svc: svcX, N: 2, SA: "sa-b"}},
		{"update-same", op{Kind: opUpdate, Shard: 0, Svc: svcX, N: 1, SA: "sa-a"}},
		{"delete-service-third", op{Kind: opDeleteSvc, Shard: 2, Svc: svcX}},
	}
	var out []gatePair
	for _, in := range inits {
		for _, ot := range others {
			out = append(out, gatePair{init: in, other: ot.o, name: fmt.Sprintf("init=%v/other=%s", in, ot.name)})
		}
	}
	return out
}

func runGatePairs(c *vh.Ctx) {
	pairs := enumerateGatePairs()
	g := &gateCtl{}
	g.install()
	defer model.SetVerifGate(nil)
	reps := c.N(5, 100)
	for pi, p := range pairs {
		for rep := 0; rep < reps; rep++ {
			i := pi*reps + rep
			if !c.Mine(i) {
				continue
			}
			p := p
			c.Case(fmt.Sprintf("gate/%s/rep%d", p.name, rep), func() {
				r := c.Rng("gate", i)
				idx := model.NewEndpointIndex(model.NewXdsCache())
				rec := &recorder{}
				nextID := 1
				// initial population (sequential); second service so delete-shard/prune have something else to touch
				for _, reg := range p.init {
					rec.do(idx, 9, op{Kind: opUpdate, Shard: reg, Svc: svcX, ID: nextID, N: 1 + r.Intn(2), SA: fmt.Sprintf("sa-%d", reg)})
					nextID++
				}
				if r.Intn(2) == 0 {
					rec.do(idx, 9, op{Kind: opUpdate, Shard: 1, Svc: svcY, ID: nextID, N: 1, SA: "sa-y"})
					nextID++
				}
				upd := op{Kind: opUpdate, Shard: 0, Svc: svcX, ID: nextID, N: 1 + r.Intn(3), SA: "sa-0"}
				nextID++
				other := p.other
				if other.Kind == opUpdate {
					other.ID = nextID
					nextID++
				}
				parked, release := g.arm()
				done := make(chan struct{})
				go func() {
					defer close(done)
					rec.do(idx, 0, upd)
				}()
				didPark := false
				select {
				case <-parked:
					didPark = true
				case <-done:
				case <-time.After(30 * time.Second):
					g.disarm()
					c.Inconclusive("update neither parked nor returned")
					return
				}
				g.disarm()
				odone := make(chan struct{})
				go func() {
					defer close(odone)
					rec.do(idx, 1, other)
				}()
				otherRanMeanwhile := false
				// The other op either completes while the update is parked (a window exists) or
				// blocks on a lock the parked update holds (no window). The wait only shapes the
				// schedule; the verdict comes from the recorded history.
				select {
				case <-odone:
					otherRanMeanwhile = didPark
				case <-time.After(40 * time.Millisecond):
				}
				if didPark {
					close(release)
				}
				wd := time.After(30 * time.Second)
				for _, ch := range []chan struct{}{done, odone} {
					select {
					case <-ch:
					case <-wd:
						c.Inconclusive("ops did not return after release")
						return
					}
				}
				// quiescent reads
				rec.do(idx, 9, op{Kind: opRead, Svc: svcX})
				rec.do(idx, 9, op{Kind: opRead, Svc: svcY})
				c.Count("gate_cases", 1)
				c.Count("ops_recorded", len(rec.ops))
				if didPark {
					c.Count("gate_update_parked", 1)
				}
				if didPark {
					c.Nontrivial(vh.Hash("gate", p.name))
				}
				if otherRanMeanwhile {
					c.Count("gate_other_completed_inside_window", 1)
					c.SetAdd("gate_pairs_with_window", p.name)
				} else if didPark {
					c.Count("gate_other_blocked_until_release", 1)
				}
				c.SetAdd("gate_pairs_visited", p.name)
				hr := checkHistory(rec.ops, []string{svcX, svcY})
				switch hr.res {
				case porcupine.Ok:
					c.Count("linearizable_histories", 1)
				case porcupine.Unknown:
					c.Inconclusive("porcupine timeout")
				case porcupine.Illegal:
					c.Violation("nonlinearizable:gate:other="+opNames[p.other.Kind]+sameOrOther(p.other),
						fmt.Sprintf("history of service %s is not linearizable (an endpoint update parked between shard lookup and shard lock, %s ran meanwhile): %s",
							hr.svc, p.other.String(), strings.Join(hr.witness, " ; ")),
						map[string]any{"pair": p.name, "history": hr.witness})
				}
				if rep == 0 && pi%17 == 0 {
					c.Sample(map[string]any{"stratum": "gate", "pair": p.name, "parked": didPark, "other_completed_inside_window": otherRanMeanwhile, "history": describe(rec.ops)})
				}
			})
		}
	}
}

func sameOrOther(o op) string {
	if o.Shard == 0 {
		return ":same-registry"
	}
	return ":other-registry"
}

// ---------------------------------------------------------------------------------------
// stratum (ii): free-running stress histories

func genClientOps(r *rand.Rand, reg int, svcs []string, n int, nextID *int) []op {
	var ops []op
	for i := 0; i < n; i++ {
		svc := svcs[r.Intn(len(svcs))]
		switch x := r.Intn(100); {
		case x < 50:
			*nextID++
			sa := fmt.Sprintf("sa-%d", reg)
			if r.Intn(4) == 0 {
				sa = fmt.Sprintf("sa-%d-alt", reg)
			}
			ops = append(ops, op{Kind: opUpdate, Shard: reg, Svc: svc, ID: *nextID, N: 1 + r.Intn(3), SA: sa})
		case x < 60:
			ops = append(ops, op{Kind: opUpdateEmpty, Shard: reg, Svc: svc})
		case x < 82:
			ops = append(ops, op{Kind: opDeleteSvc, Shard: reg, Svc: svc})
		case x < 88:
			ops = append(ops, op{Kind: opDeleteShard, Shard: reg})
		case x < 94:
			var keep []string
			for _, s := range svcs {
				if r.Intn(2) == 0 {
					keep = append(keep, s)
				}
			}
			ops = append(ops, op{Kind: opPrune, Shard: reg, Keep: keep})
		default:
			ops = append(ops, op{Kind: opRead, Svc: svc})
		}
	}
	return ops
}

func runStress(c *vh.Ctx) {
	g := &gateCtl{yields: true}
	g.install()
	defer model.SetVerifGate(nil)
	n := c.N(3000, 400000)
	allSvcs := []string{svcX, svcY, "x.example.com|ns2"}
	for i := 0; i < n; i++ {
		if !c.Mine(i) {
			continue
		}
		c.Case(fmt.Sprintf("stress/%d", i), func() {
			r := c.Rng("stress", i)
			g.yieldSeed.Store(r.Int63())
			svcs := allSvcs[:1+r.Intn(len(allSvcs))]
			if r.Intn(3) == 0 {
				svcs = allSvcs[:1] // maximal contention
			}
			nreg := 2 + r.Intn(4)
			nread := r.Intn(3)
			perClient := 3 + r.Intn(8)
			if c.Quick() && perClient > 7 {
				perClient = 7
			}
			nextID := 0
			plans := make([][]op, 0, nreg+nread)
			for reg := 0; reg < nreg; reg++ {
				plans = append(plans, genClientOps(r, reg, svcs, perClient, &nextID))
			}
			for k := 0; k < nread; k++ {
				var ops []op
				for j := 0; j < perClient; j++ {
					ops = append(ops, op{Kind: opRead, Svc: svcs[r.Intn(len(svcs))]})
				}
				plans = append(plans, ops)
			}
			idx := model.NewEndpointIndex(model.NewXdsCache())
			rec := &recorder{}
			var wg sync.WaitGroup
			start := make(chan struct{})
			for ci, plan := range plans {
				wg.Add(1)
				go func(ci int, plan []op) {
					defer wg.Done()
					<-start
					for _, o := range plan {
						rec.do(idx, ci, o)
					}
				}(ci, plan)
			}
			close(start)
			wg.Wait()
			for _, s := range svcs {
				rec.do(idx, len(plans), op{Kind: opRead, Svc: s})
			}
			c.Count("stress_histories", 1)
			c.Count("ops_recorded", len(rec.ops))
			// overlap measure: registries whose ops on one service overlap in logical time
			if overlapping(rec.ops) {
				c.Nontrivial(vh.Hash("stress", i, plans))
				c.Count("stress_histories_with_overlap", 1)
			}
			hr := checkHistory(rec.ops, svcs)
			switch hr.res {
			case porcupine.Ok:
				c.Count("linearizable_histories", 1)
			case porcupine.Unknown:
				c.Inconclusive("porcupine timeout")
			case porcupine.Illegal:
				c.Violation("nonlinearizable:stress",
					fmt.Sprintf("free-running history of service %s is not linearizable: %s", hr.svc, strings.Join(hr.witness, " ; ")),
					map[string]any{"history": hr.witness})
			}
			if i < 2 {
				c.Sample(map[string]any{"stratum": "stress", "registries": nreg, "readers": nread, "history": describe(rec.ops)})
			}
		})
	}
}

func overlapping(ops []porcupine.Operation) bool {
	for i := range ops {
		a := ops[i].Input.(op)
		if a.Kind == opRead {
			continue
		}
		for j := i + 1; j < len(ops); j++ {
			b := ops[j].Input.(op)
			if b.Kind == opRead || ops[i].ClientId == ops[j].ClientId {
				continue
			}
			if ops[i].Call < ops[j].Return && ops[j].Call < ops[i].Return {
				return true
			}
		}
	}
	return false
}
