// Engine epindex: property C13 — endpoints served equal the registries' latest healthy
// members of the subset; concurrent registry operations are applied as if sequentially.
package main

import (
	"os"
	"strconv"

	"verifharness/internal/vh"
)

func main() {
	vh.Main(vh.Prop{
		ID:    "C13",
		Level: "exploration",
		Rule: "Five strata, case-name prefix determines stratum. (gate) every ordered pair (endpoint update parked at hook H2 between shard lookup and shard lock) x (concurrent op of another/same registry: " +
			"delete-service, delete-shard, prune, empty update, update) x initial shard population, enumerated; (stress) PRNG histories of 3-6 registries and readers on a real " +
			"EndpointIndex with PRNG yields at the gate; both recorded at the call boundary with a logical clock and checked with porcupine against map[service]map[shard]->update id; " +
			"(eds) PRNG shard contents/subsets/health/locality/network worlds where the real EDS generator output is compared with a reference membership function; " +
			"(seq) sequences of 8-17 registry reports on one index with a warm endpoint cache, each an edit of the previous report (removals, brand-new endpoints of any health, health flips, label/weight/locality edits in ONE report): after every report generator-with-warm-cache and uncached builder must serve the reference membership of the new latest reports, and the returned push type must not be NoPush when the reference says what some proxy is served changed; " +
			"(mnet) multi-network worlds: PRNG east-west gateways (0-3 per network by address in MeshNetworks, plus registry gateways bound to a cluster in every second world, IPv4/IPv6), proxies on three networks / without network / IPv6-only / dual stack / router with a network view, members over 2-4 localities and 5 networks with PRNG weights and tlsMode present/absent, DestinationRule tls ISTIO_MUTUAL/DISABLE: generator (cold, warm cache) and builder must serve the reference - same-network members directly, remote members represented in their own locality by the reachable gateways of their network with the summed (scaled, split) weight, locality weight = sum of its entries. " +
			"Non-trivial: gate case where the update really parked at the gate (the other op then either ran inside the window or blocked until release - both counted); stress history with >=2 registries overlapping in logical time on one service; eds world with >=1 endpoint filtered out and >=1 kept; seq case with >=1 report that changes what is served and >=1 report answered with NoPush; mnet world with >=1 member replaced by a gateway and >=1 sent directly. Distinct by hash of the op list / world.",
		Assumptions: []string{
			"porcupine v1.3.0 decides linearizability of the recorded history (timeouts => inconclusive)",
			"reads identify the write they observed because every update carries a unique id in its endpoints",
			"reference membership function is our reading of the property: latest report per shard, port-name match, subset labels, health rule, discoverability, network rule, locality grouping with summed weights",
			"multi-network reference (mnet.go R0-R5) follows the explanatory comments of ep_filters.go / network.go (sidecar mode): remote members of a network without gateway are sent directly, weights are scaled by the lcm of the gateway counts, rounding of an inexact split is unspecified (interval)",
		},
		Anchors:       []string{"pilot/pkg/model/endpointshards.go", "pilot/pkg/xds/endpoints/", "pilot/pkg/xds/eds.go"},
		MinNontrivial: func(t string) int { return map[string]int{"quick": 1000, "thorough": 100000}[t] },
		Batches:       func(t string) int { return map[string]int{"quick": 4, "thorough": 14}[t] },
		Parallel: func(t string) int {
			// development aid: EPINDEX_DEV_PARALLEL caps the children alive at once (same batches, same cases)
			if n, err := strconv.Atoi(os.Getenv("EPINDEX_DEV_PARALLEL")); err == nil && n > 0 {
				return n
			}
			return map[string]int{"quick": 4, "thorough": 14}[t]
		},
		TimeoutSec: func(t string) int { return map[string]int{"quick": 300, "thorough": 1500}[t] },
		Run:        run,
	})
}

func run(c *vh.Ctx) {
	runGatePairs(c)
	runStress(c)
	runEDS(c)
	runSeq(c)
	runMnet(c)
}
