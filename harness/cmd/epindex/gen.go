package main

import (
	"fmt"

	"istio.io/istio/pilot/pkg/model"
	"istio.io/istio/pilot/pkg/xds"
	xdsfake "istio.io/istio/pilot/test/xds"
)

// prodEDSGenerator returns an EDS generator wired the way istiod wires it (pilot/pkg/bootstrap:
// NewEnvironment -> NewDiscoveryServer(env) -> InitGenerators: ONE XdsCache, invalidated by the
// EndpointIndex on every registry report and read by the generator).
//
// The fake discovery server builds its DiscoveryServer around a throw-away environment before the
// real one exists, so the generator it registers reads a cache the EndpointIndex never invalidates
// (in the fake the invalidation arrives with the push that follows DiscoveryServer.EDSUpdate). The
// eds / seq / mnet strata report to the index directly and judge what is served right afterwards;
// with the fake's generator that is only sound while the cache stays empty - which it did, silently,
// because a PushRequest without Start stores nothing. With this generator and a Start time the
// "warm cache" passes really are served from the cache (counted: *_assignments_from_cache).
func prodEDSGenerator(srv *xdsfake.FakeDiscoveryServer) *xds.EdsGenerator {
	env := srv.Env()
	return &xds.EdsGenerator{Cache: env.Cache, EndpointIndex: env.EndpointIndex}
}

// cachedOf parses the generator's own account of a Generate call ("empty:E cached:C/N").
func cachedOf(d model.XdsLogDetails) (cached, all int, ok bool) {
	var empty int
	if k, _ := fmt.Sscanf(d.AdditionalInfo, "empty:%d cached:%d/%d", &empty, &cached, &all); k == 3 {
		return cached, all, true
	}
	return 0, 0, false
}
