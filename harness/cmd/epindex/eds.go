package main

import (
	"fmt"
	"math/rand"
	"sort"
	"strings"
	"time"

	corev3 "github.com/envoyproxy/go-control-plane/envoy/config/core/v3"
	endpoint "github.com/envoyproxy/go-control-plane/envoy/config/endpoint/v3"
	"google.golang.org/protobuf/types/known/durationpb"
	wrappers "google.golang.org/protobuf/types/known/wrapperspb"

	meshconfig "istio.io/api/mesh/v1alpha1"
	networking "istio.io/api/networking/v1alpha3"
	"istio.io/istio/pilot/pkg/features"
	"istio.io/istio/pilot/pkg/model"
	netutil "istio.io/istio/pilot/pkg/networking/util"
	"istio.io/istio/pilot/pkg/serviceregistry/provider"
	"istio.io/istio/pilot/pkg/xds/endpoints"
	v3 "istio.io/istio/pilot/pkg/xds/v3"
	xdsfake "istio.io/istio/pilot/test/xds"
	"istio.io/istio/pkg/cluster"
	"istio.io/istio/pkg/config"
	"istio.io/istio/pkg/config/host"
	"istio.io/istio/pkg/config/mesh"
	"istio.io/istio/pkg/config/protocol"
	"istio.io/istio/pkg/config/schema/gvk"
	"istio.io/istio/pkg/network"
	"istio.io/istio/pkg/util/sets"
	"verifharness/internal/vh"
)

// ---------------------------------------------------------------------------------------
// stratum (iii): membership oracle for EDS

type svcSpec struct {
	host           string
	ns             string
	ports          map[int]string // number -> name
	clusterLocal   bool
	nodeLocal      bool
	persistent     bool
	trafficDistrib bool
	subsets        map[string]map[string]string // from its DestinationRule
	distribute     bool                         // DR sets localityLbSetting.distribute
	outlier        bool                         // DR sets outlier detection (failover applies)
	minHealth      bool                         // outlier detection minHealthPercent > 0
}

var edsServices = []svcSpec{
	{host: "plain.example.com", ns: "ns1", ports: map[int]string{80: "http", 90: "tcp"},
		subsets: map[string]map[string]string{"v1": {"version": "v1"}, "v2a": {"version": "v2", "tier": "a"}}},
	{host: "local.example.com", ns: "ns1", ports: map[int]string{80: "http"}, clusterLocal: true,
		subsets: map[string]map[string]string{"v1": {"version": "v1"}}},
	{host: "node.example.com", ns: "ns1", ports: map[int]string{80: "http"}, nodeLocal: true},
	{host: "sticky.example.com", ns: "ns1", ports: map[int]string{80: "http"}, persistent: true,
		subsets: map[string]map[string]string{"v2": {"version": "v2"}}},
	{host: "zone.example.com", ns: "ns1", ports: map[int]string{80: "http"}, trafficDistrib: true},
	{host: "dist.example.com", ns: "ns1", ports: map[int]string{80: "http"}, distribute: true,
		subsets: map[string]map[string]string{"v1": {"version": "v1"}}},
	{host: "outlier.example.com", ns: "ns1", ports: map[int]string{80: "http"}, outlier: true, minHealth: true,
		subsets: map[string]map[string]string{"v1": {"version": "v1"}}},
}

type proxySpec struct {
	name     string
	cluster  string
	node     string
	locality string
	view     []string // requested network view
}

var edsProxies = []proxySpec{
	{name: "p-c0", cluster: "c0", node: "node-a", locality: "r1/z1/s1"},
	{name: "p-c1", cluster: "c1", node: "node-b", locality: "r1/z2/s1"},
	{name: "p-c0-view", cluster: "c0", node: "node-b", locality: "r2/z1/s1", view: []string{"n1"}},
}

func (s svcSpec) toService() *model.Service {
	svc := &model.Service{
		Hostname:       host.Name(s.host),
		DefaultAddress: "0.0.0.0",
		Resolution:     model.ClientSideLB,
		Attributes: model.ServiceAttributes{
			Name:            strings.Split(s.host, ".")[0],
			Namespace:       s.ns,
			ServiceRegistry: provider.Kubernetes,
			Labels:          map[string]string{},
		},
	}
	svc.Attributes.NodeLocal = s.nodeLocal
	if s.persistent {
		svc.Attributes.Labels[features.PersistentSessionLabel] = "cookie"
	}
	if s.trafficDistrib {
		svc.Attributes.TrafficDistribution = model.TrafficDistributionPreferSameZone
	}
	nums := make([]int, 0, len(s.ports))
	for n := range s.ports {
		nums = append(nums, n)
	}
	sort.Ints(nums)
	for _, n := range nums {
		p := protocol.HTTP
		if s.ports[n] == "tcp" {
			p = protocol.TCP
		}
		svc.Ports = append(svc.Ports, &model.Port{Name: s.ports[n], Port: n, Protocol: p})
	}
	return svc
}

func (s svcSpec) destinationRule() *config.Config {
	if len(s.subsets) == 0 && !s.distribute && !s.outlier {
		return nil
	}
	dr := &networking.DestinationRule{Host: s.host}
	names := make([]string, 0, len(s.subsets))
	for n := range s.subsets {
		names = append(names, n)
	}
	sort.Strings(names)
	for _, n := range names {
		dr.Subsets = append(dr.Subsets, &networking.Subset{Name: n, Labels: s.subsets[n]})
	}
	if s.distribute {
		dr.TrafficPolicy = &networking.TrafficPolicy{LoadBalancer: &networking.LoadBalancerSettings{
			LocalityLbSetting: &networking.LocalityLoadBalancerSetting{
				Enabled: wrappers.Bool(true),
				Distribute: []*networking.LocalityLoadBalancerSetting_Distribute{
					{From: "r1/*", To: map[string]uint32{"r1/*": 80, "r2/*": 20}},
					{From: "r2/*", To: map[string]uint32{"r2/*": 100}},
				},
			},
		}}
	}
	if s.outlier {
		od := &networking.OutlierDetection{ConsecutiveErrors: 5, BaseEjectionTime: durationpb.New(30e9)}
		if s.minHealth {
			od.MinHealthPercent = 50
		}
		dr.TrafficPolicy = &networking.TrafficPolicy{OutlierDetection: od}
	}
	return &config.Config{
		Meta: config.Meta{GroupVersionKind: gvk.DestinationRule, Name: "dr-" + strings.Split(s.host, ".")[0], Namespace: s.ns},
		Spec: dr,
	}
}

type epSpec struct {
	Addr     string
	Port     string // service port name
	Labels   map[string]string
	Health   model.HealthStatus
	Weight   uint32
	Locality string
	Network  string
	Node     string
	SameOnly bool // DiscoverableFromSameCluster
	Shard    int  // registry == cluster index
	// SendUnhealthy is the registry's per-endpoint copy of "the service supports unhealthy endpoints" (the
	// Kubernetes registry sets it from Service.SupportsUnhealthyEndpoints); only the seq stratum sets it.
	SendUnhealthy bool
}

func (e epSpec) toIstio(ns string) *model.IstioEndpoint {
	ie := &model.IstioEndpoint{
		Addresses:       []string{e.Addr},
		ServicePortName: e.Port,
		EndpointPort:    8080,
		Labels:          e.Labels,
		HealthStatus:    e.Health,
		LbWeight:        e.Weight,
		Namespace:       ns,
		WorkloadName:    "w-" + e.Addr,
		Network:         network.ID(e.Network),
		NodeName:        e.Node,
		Locality:        model.Locality{Label: e.Locality, ClusterID: cluster.ID(fmt.Sprintf("c%d", e.Shard))},

		SendUnhealthyEndpoints: e.SendUnhealthy,
	}
	if e.SameOnly {
		ie.DiscoverabilityPolicy = model.DiscoverableFromSameCluster
	} else if e.Weight%2 == 0 {
		ie.DiscoverabilityPolicy = model.AlwaysDiscoverable
	}
	return ie
}

func genEndpoints(r *rand.Rand, s svcSpec, shard int, n int, seq *int) []epSpec {
	var out []epSpec
	portNames := []string{"http", "tcp", "other"}
	versions := []string{"v1", "v2", "v3"}
	healths := []model.HealthStatus{model.Healthy, model.Healthy, model.Healthy, model.UnHealthy, model.Draining, model.Terminating}
	locs := []string{"r1/z1/s1", "r1/z2/s1", "r2/z1/s1", "r1/z1/s2", ""}
	nets := []string{"", "", "n1", "n2"}
	nodes := []string{"node-a", "node-b", "node-c"}
	for i := 0; i < n; i++ {
		*seq++
		lab := map[string]string{"version": versions[r.Intn(len(versions))]}
		if r.Intn(2) == 0 {
			lab["tier"] = []string{"a", "b"}[r.Intn(2)]
		}
		out = append(out, epSpec{
			Addr:     fmt.Sprintf("10.%d.%d.%d", shard, *seq/250, *seq%250+1),
			Port:     portNames[r.Intn(len(portNames))],
			Labels:   lab,
			Health:   healths[r.Intn(len(healths))],
			Weight:   uint32(r.Intn(4)), // 0 => default 1
			Locality: locs[r.Intn(len(locs))],
			Network:  nets[r.Intn(len(nets))],
			Node:     nodes[r.Intn(len(nodes))],
			SameOnly: r.Intn(5) == 0,
			Shard:    shard,
		})
	}
	return out
}

// refMembers is the reference membership function (our reading of the property).
func refMembers(p proxySpec, s svcSpec, portName string, subset map[string]string, latest map[int][]epSpec, allowUnhealthyDefault bool) []string {
	var out []string
	for shard, eps := range latest {
		shardCluster := fmt.Sprintf("c%d", shard)
		for _, e := range eps {
			if e.Port != portName {
				continue
			}
			ok := true
			for k, v := range subset {
				if e.Labels[k] != v {
					ok = false
				}
			}
			if !ok {
				continue
			}
			// visible to the proxy: cluster-local / node-local services, discoverability, network view
			if (s.clusterLocal || s.nodeLocal) && shardCluster != p.cluster {
				continue
			}
			if s.nodeLocal && e.Node != p.node {
				continue
			}
			if e.SameOnly && shardCluster != p.cluster {
				continue
			}
			if len(p.view) > 0 && e.Network != "" {
				// a proxy that requested a network view only sees endpoints of those networks
				// (endpoints without a network are always visible)
				in := false
				for _, v := range p.view {
					if v == e.Network {
						in = true
					}
				}
				if !in {
					continue
				}
			}
			// health rule
			switch e.Health {
			case model.Healthy:
			case model.UnHealthy:
				allow := s.trafficDistrib || (allowUnhealthyDefault && !s.minHealth)
				if !allow {
					continue
				}
			case model.Draining:
				if !s.persistent {
					continue
				}
			case model.Terminating:
				continue
			}
			if s.distribute {
				// DestinationRule localityLbSetting.distribute: traffic from the proxy's region goes only to the
				// listed localities (r1/* -> r1/*, r2/*; r2/* -> r2/*); endpoints elsewhere receive none.
				reg := strings.Split(e.Locality, "/")[0]
				preg := strings.Split(p.locality, "/")[0]
				if !(reg == preg || (preg == "r1" && reg == "r2")) {
					continue
				}
			}
			w := e.Weight
			if w == 0 {
				w = 1
			}
			out = append(out, fmt.Sprintf("%s|%s:8080|h=%d|w=%d", e.Locality, e.Addr, envoyHealth(e.Health), w))
		}
	}
	sort.Strings(out)
	return out
}

func envoyHealth(h model.HealthStatus) int { return int(h) }

func flattenCLA(cla *endpoint.ClusterLoadAssignment) (members []string, locWeights map[string]uint32, dup bool) {
	locWeights = map[string]uint32{}
	seen := map[string]bool{}
	for _, l := range cla.GetEndpoints() {
		loc := ""
		if l.Locality != nil && (l.Locality.Region != "" || l.Locality.Zone != "" || l.Locality.SubZone != "") {
			loc = l.Locality.Region + "/" + l.Locality.Zone + "/" + l.Locality.SubZone
		}
		locWeights[loc] += l.GetLoadBalancingWeight().GetValue()
		for _, e := range l.LbEndpoints {
			sa := e.GetEndpoint().GetAddress().GetSocketAddress()
			m := fmt.Sprintf("%s|%s:%d|h=%d|w=%d", loc, sa.GetAddress(), sa.GetPortValue(), int(e.HealthStatus), e.GetLoadBalancingWeight().GetValue())
			if seen[m] {
				dup = true
			}
			seen[m] = true
			members = append(members, m)
		}
	}
	sort.Strings(members)
	return
}

func normLoc(l string) string {
	if l == "" {
		return ""
	}
	parts := strings.Split(l, "/")
	for len(parts) < 3 {
		parts = append(parts, "")
	}
	return strings.Join(parts[:3], "/")
}

func runEDS(c *vh.Ctx) {
	n := c.N(400, 30000)
	var (
		f   *vh.F
		srv *xdsfake.FakeDiscoveryServer
		px  map[string]*model.Proxy
	)
	setup := func() {
		f = vh.NewF()
		m := mesh.DefaultMeshConfig()
		m.ServiceSettings = []*meshconfig.MeshConfig_ServiceSettings{{
			Settings: &meshconfig.MeshConfig_ServiceSettings_Settings{ClusterLocal: true},
			Hosts:    []string{"local.example.com"},
		}}
		var svcs []*model.Service
		var cfgs []config.Config
		for _, s := range edsServices {
			svcs = append(svcs, s.toService())
			if dr := s.destinationRule(); dr != nil {
				cfgs = append(cfgs, *dr)
			}
		}
		srv = xdsfake.NewFakeDiscoveryServer(f, xdsfake.FakeOptions{Services: svcs, Configs: cfgs, MeshConfig: m})
		px = map[string]*model.Proxy{}
		for _, p := range edsProxies {
			px[p.name] = srv.SetupProxy(&model.Proxy{
				ID:              p.name + ".ns1",
				ConfigNamespace: "ns1",
				IPAddresses:     []string{"10.99.0.1"},
				Labels:          map[string]string{"app": "client"},
				Locality:        nil,
				Metadata: &model.NodeMetadata{
					ClusterID:            cluster.ID(p.cluster),
					NodeName:             p.node,
					Namespace:            "ns1",
					RequestedNetworkView: p.view,
					Labels:               map[string]string{"app": "client"},
				},
			})
			px[p.name].Locality = localityOf(p.locality)
		}
	}
	defer func() {
		if f != nil {
			f.Done()
		}
	}()
	allowUnhealthyDefault := features.DefaultSendUnhealthyEndpoints.Load() || features.GlobalSendUnhealthyEndpoints.Load()
	for i := 0; i < n; i++ {
		if !c.Mine(i) {
			continue
		}
		c.Case(fmt.Sprintf("eds/%d", i), func() {
			if srv == nil {
				setup()
			}
			r := c.Rng("eds", i)
			idx := srv.Env().EndpointIndex
			// wipe all registries, then report in several rounds so "latest report" matters
			for sh := 0; sh < 3; sh++ {
				idx.DeleteShard(shardKey(sh))
			}
			latest := map[string]map[int][]epSpec{}
			seq := 0
			rounds := 1 + r.Intn(3)
			for round := 0; round < rounds; round++ {
				for _, s := range edsServices {
					for sh := 0; sh < 3; sh++ {
						if round > 0 && r.Intn(2) == 0 {
							continue
						}
						k := r.Intn(6)
						if r.Intn(8) == 0 {
							k = 0 // empty report
						}
						eps := genEndpoints(r, s, sh, k, &seq)
						var ie []*model.IstioEndpoint
						for _, e := range eps {
							ie = append(ie, e.toIstio(s.ns))
						}
						idx.UpdateServiceEndpoints(shardKey(sh), s.host, s.ns, ie, false)
						if latest[s.host] == nil {
							latest[s.host] = map[int][]epSpec{}
						}
						latest[s.host][sh] = eps
					}
				}
				// occasionally a registry goes away or drops a service
				if r.Intn(4) == 0 {
					sh := r.Intn(3)
					idx.DeleteShard(shardKey(sh))
					for h := range latest {
						delete(latest[h], sh)
					}
				}
				if r.Intn(3) == 0 {
					s := edsServices[r.Intn(len(edsServices))]
					sh := r.Intn(3)
					idx.DeleteServiceShard(shardKey(sh), s.host, s.ns, r.Intn(2) == 0)
					if latest[s.host] != nil {
						delete(latest[s.host], sh)
					}
				}
			}
			push := srv.PushContext()
			gen := prodEDSGenerator(srv) // shares the index's cache, as in istiod (see gen.go)
			filtered, kept, compared := 0, 0, 0
			var sample map[string]any
			for _, p := range edsProxies {
				proxy := px[p.name]
				names := sets.New[string]()
				type want struct {
					s      svcSpec
					port   int
					subset string
				}
				wants := map[string]want{}
				for _, s := range edsServices {
					for port := range s.ports {
						subs := []string{""}
						for sn := range s.subsets {
							subs = append(subs, sn)
						}
						for _, sn := range subs {
							cn := model.BuildSubsetKey(model.TrafficDirectionOutbound, sn, host.Name(s.host), port)
							names.Insert(cn)
							wants[cn] = want{s, port, sn}
						}
					}
				}
				// through the generator twice (second time served from the cache) and through the builder
				got := map[string][]*endpoint.ClusterLoadAssignment{}
				for pass := 0; pass < 2; pass++ {
					// Start is only the cache token (the endpoint cache stores nothing for a request without a start time)
					res, logd, err := gen.Generate(proxy, &model.WatchedResource{TypeUrl: v3.EndpointType, ResourceNames: names}, &model.PushRequest{Forced: true, Push: push, Start: time.Now()})
					if err != nil {
						vh.Abort("eds generate: %v", err)
					}
					if nCached, _, ok := cachedOf(logd); ok {
						c.Count(fmt.Sprintf("eds_generator_pass%d_assignments_from_cache", pass+1), nCached)
					}
					for _, rsc := range res {
						cla := &endpoint.ClusterLoadAssignment{}
						if err := rsc.Resource.UnmarshalTo(cla); err != nil {
							vh.Abort("unmarshal: %v", err)
						}
						got[cla.ClusterName] = append(got[cla.ClusterName], cla)
					}
				}
				for cn := range wants {
					b := endpoints.NewEndpointBuilder(cn, proxy, push)
					got[cn] = append(got[cn], b.BuildClusterLoadAssignment(idx))
				}
				cns := make([]string, 0, len(wants))
				for cn := range wants {
					cns = append(cns, cn)
				}
				sort.Strings(cns)
				for _, cn := range cns {
					w := wants[cn]
					total := 0
					for _, eps := range latest[w.s.host] {
						total += len(eps)
					}
					var subset map[string]string
					if w.subset != "" {
						subset = w.s.subsets[w.subset]
					}
					exp := refMembers(p, w.s, w.s.ports[w.port], subset, latest[w.s.host], allowUnhealthyDefault)
					for k := range exp {
						// locality labels are normalised to region/zone/subzone
						parts := strings.SplitN(exp[k], "|", 2)
						exp[k] = normLoc(parts[0]) + "|" + parts[1]
					}
					sort.Strings(exp)
					filtered += total - len(exp)
					kept += len(exp)
					if len(got[cn]) != 3 {
						c.Violation("eds:missing-cla", fmt.Sprintf("proxy %s cluster %s: expected 3 generated assignments (generator x2, builder), got %d", p.name, cn, len(got[cn])), nil)
						continue
					}
					for gi, cla := range got[cn] {
						compared++
						members, locW, dup := flattenCLA(cla)
						src := []string{"generator", "generator-cached", "builder"}[gi]
						if dup {
							c.Violation("eds:duplicate-member", fmt.Sprintf("proxy %s cluster %s (%s): duplicate endpoint in %v", p.name, cn, src, members), nil)
						}
						if strings.Join(members, ",") != strings.Join(exp, ",") {
							c.Violation(fmt.Sprintf("eds:membership:svc=%s", strings.Split(w.s.host, ".")[0]),
								fmt.Sprintf("proxy %s cluster %s (%s): served members %v, reference (latest report of each registry, port, subset, health, visibility) %v", p.name, cn, src, members, exp),
								map[string]any{"proxy": p, "cluster": cn, "latest": latest[w.s.host], "got": members, "want": exp})
							continue
						}
						if !w.s.distribute {
							// locality weight must be the sum of its members' weights
							sum := map[string]uint32{}
							for _, m := range exp {
								parts := strings.Split(m, "|")
								var wt uint32
								fmt.Sscanf(parts[3], "w=%d", &wt)
								sum[parts[0]] += wt
							}
							for loc, s := range sum {
								if locW[loc] != s {
									c.Violation("eds:locality-weight", fmt.Sprintf("proxy %s cluster %s (%s): locality %q weight %d, members sum to %d", p.name, cn, src, loc, locW[loc], s), nil)
								}
							}
						}
					}
					if sample == nil && len(exp) > 0 && total > len(exp) {
						sample = map[string]any{"stratum": "eds", "proxy": p.name, "cluster": cn, "reported": total, "served": exp}
					}
				}
			}
			c.Count("eds_worlds", 1)
			c.Count("eds_assignments_compared", compared)
			c.Count("eds_endpoints_kept", kept)
			c.Count("eds_endpoints_filtered_out", filtered)
			if filtered > 0 && kept > 0 {
				c.Nontrivial(vh.Hash("eds", i, latest))
			}
			if i < 3 && sample != nil {
				c.Sample(sample)
			}
		})
	}
}

func localityOf(l string) *corev3.Locality { return netutil.ConvertLocality(l) }
