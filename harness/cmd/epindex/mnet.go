package main

import (
	"fmt"
	"math/rand"
	"sort"
	"strings"
	"time"

	endpoint "github.com/envoyproxy/go-control-plane/envoy/config/endpoint/v3"

	meshconfig "istio.io/api/mesh/v1alpha1"
	networking "istio.io/api/networking/v1alpha3"
	"istio.io/istio/pilot/pkg/model"
	"istio.io/istio/pilot/pkg/serviceregistry/provider"
	"istio.io/istio/pilot/pkg/xds/endpoints"
	v3 "istio.io/istio/pilot/pkg/xds/v3"
	xdsfake "istio.io/istio/pilot/test/xds"
	"istio.io/istio/pkg/cluster"
	"istio.io/istio/pkg/config"
	"istio.io/istio/pkg/config/host"
	"istio.io/istio/pkg/config/mesh/meshwatcher"
	"istio.io/istio/pkg/config/protocol"
	"istio.io/istio/pkg/config/schema/gvk"
	"istio.io/istio/pkg/network"
	"istio.io/istio/pkg/util/sets"
	"verifharness/internal/vh"
)

// ---------------------------------------------------------------------------------------
// stratum (v): multi-network membership oracle ("split horizon" EDS, sidecar mode).
//
// A fake discovery server whose mesh networks configuration defines east-west gateways; proxies on
// different networks ask for clusters whose members are spread over several localities and
// networks. What the generator (cold and warm cache) and the uncached builder hand out is compared
// with the reference below.
//
// Reference rule. It is taken from the property text, the DestinationRule / MeshNetworks API
// documentation and the explanatory comments of pilot/pkg/xds/endpoints/ep_filters.go and
// pilot/pkg/model/network.go - never from running EndpointsByNetworkFilter. For a proxy P and a
// member e that passed the ordinary membership rules (port, subset, health, visibility):
//
//  (R0) no gateway is configured anywhere: "Multi-network is not configured ... Just access all
//       endpoints directly." - every member is sent as it is, nothing is scaled.
//  (R1) gateways of e: "the gateways that best match the network and cluster. If there is no match
//       for the network+cluster, then all gateways matching the network are returned."
//  (R2) e is sent directly (its own address) when it is on P's network or has no network, or when
//       its network has no gateway at all ("when we have multiple networks but no E/W gateways
//       configured we still generate EDS endpoints for remote networks as if they were on the same
//       network"; the repo's own table calls such a member "directly accessible"). A directly sent
//       member needs an address ("If there is no gateway, the address must not be empty").
//       Exception, P has no network: "when the proxy's network is not set (empty) but the endpoint
//       has a specific network and gateways are configured for that network, we should route
//       through the gateway rather than treating the endpoint as directly reachable."
//  (R3) otherwise e is represented, IN ITS OWN LOCALITY, by the gateways of (R1) that P's IP family
//       can reach ("only those whose address family is supported by the proxy. If the proxy's IP
//       mode is unknown, all gateways are returned"; dual stack reaches all). None reachable: "Skip
//       the endpoint entirely rather than falling back to the raw remote workload IP". e cannot do
//       mTLS: "Cross-network traffic relies on mTLS for SNI routing in sidecar mode ... we skip it
//       altogether." (mTLS possible = the workload carries security.istio.io/tlsMode=istio, i.e. has a
//       sidecar - "if endpoint has no sidecar or explicitly tls disabled by security.istio.io/tlsMode
//       label" it is not - and the DestinationRule, if it sets a tls mode at all, says ISTIO_MUTUAL;
//       no PeerAuthentication in these worlds.)
//  (R4) weights: "Scale all weights by the lcm of gateways per network and gateways per cluster" -
//       EVERY weight (direct member, gateway share) is multiplied by K = lcm of the gateway counts
//       per network and per (network, cluster). "Apply the weight for this endpoint to the network
//       gateways ... Spread the weight across the gateways": a member of weight w adds K*w/g to each
//       of its g reachable gateways; a gateway entry's load_balancing_weight is the sum over the
//       members of that locality it stands for. K is a multiple of the number of gateways (R1), so
//       the division is exact unless the IP family removed gateways; how a remainder is rounded is
//       said nowhere => each share may be rounded down or up (interval check).
//  (R5) a locality's load_balancing_weight is the sum of the weights of the entries it contains;
//       (locality, address) pairs are unique; an entry appears in no locality other than that of a
//       member it stands for. A locality left without entries may or may not be listed (with no
//       weight) - unspecified, accepted.
//  Unspecified and therefore not generated: health of remote members other than healthy (a gateway
//  entry has no health of its own; we accept UNKNOWN or HEALTHY on it), host-name gateways, ambient
//  multi-network (AMBIENT_ENABLE_MULTI_NETWORK, off by default), weights near uint32 overflow.

type mnetSvc struct {
	host    string
	tls     string // "" | "mutual" | "disable": DestinationRule trafficPolicy.tls.mode
	subsets map[string]map[string]string
}

var mnetServices = []mnetSvc{
	{host: "mn-plain.example.com", subsets: map[string]map[string]string{"v1": {"version": "v1"}}},
	{host: "mn-nodr.example.com"},
	{host: "mn-mutual.example.com", tls: "mutual", subsets: map[string]map[string]string{"v1": {"version": "v1"}}},
	{host: "mn-notls.example.com", tls: "disable"},
}

func (s mnetSvc) toService() *model.Service {
	return &model.Service{
		Hostname:       host.Name(s.host),
		DefaultAddress: "0.0.0.0",
		Resolution:     model.ClientSideLB,
		Ports:          model.PortList{{Name: "http", Port: 80, Protocol: protocol.HTTP}},
		Attributes: model.ServiceAttributes{
			Name:            strings.Split(s.host, ".")[0],
			Namespace:       "ns1",
			ServiceRegistry: provider.Kubernetes,
			Labels:          map[string]string{},
		},
	}
}

func (s mnetSvc) destinationRule() *config.Config {
	if len(s.subsets) == 0 && s.tls == "" {
		return nil
	}
	dr := &networking.DestinationRule{Host: s.host}
	names := make([]string, 0, len(s.subsets))
	for n := range s.subsets {
		names = append(names, n)
	}
	sort.Strings(names)
	for _, n := range names {
		dr.Subsets = append(dr.Subsets, &networking.Subset{Name: n, Labels: s.subsets[n]})
	}
	switch s.tls {
	case "mutual":
		dr.TrafficPolicy = &networking.TrafficPolicy{Tls: &networking.ClientTLSSettings{Mode: networking.ClientTLSSettings_ISTIO_MUTUAL}}
	case "disable":
		dr.TrafficPolicy = &networking.TrafficPolicy{Tls: &networking.ClientTLSSettings{Mode: networking.ClientTLSSettings_DISABLE}}
	}
	return &config.Config{
		Meta: config.Meta{GroupVersionKind: gvk.DestinationRule, Name: "dr-" + strings.Split(s.host, ".")[0], Namespace: "ns1"},
		Spec: dr,
	}
}

// clusters of a service: cluster name -> subset name
func (s mnetSvc) clusters() map[string]string {
	out := map[string]string{model.BuildSubsetKey(model.TrafficDirectionOutbound, "", host.Name(s.host), 80): ""}
	for sn := range s.subsets {
		out[model.BuildSubsetKey(model.TrafficDirectionOutbound, sn, host.Name(s.host), 80)] = sn
	}
	return out
}

type mnetProxy struct {
	Name    string
	Network string
	Cluster string
	IPs     []string
	Router  bool
	View    []string
}

var mnetProxies = []mnetProxy{
	{Name: "mp-n1", Network: "n1", Cluster: "c0", IPs: []string{"10.99.0.1"}},
	{Name: "mp-n2", Network: "n2", Cluster: "c1", IPs: []string{"10.99.0.2"}},
	{Name: "mp-nonet", Network: "", Cluster: "c0", IPs: []string{"10.99.0.3"}},
	{Name: "mp-n1-v6", Network: "n1", Cluster: "c0", IPs: []string{"2001:db8:99::1"}},
	{Name: "mp-n3-dual", Network: "n3", Cluster: "c2", IPs: []string{"10.99.0.5", "2001:db8:99::5"}},
	{Name: "mp-n2-router-view", Network: "n2", Cluster: "c1", IPs: []string{"10.99.0.6"}, Router: true, View: []string{"n2", "n3"}},
}

func (p mnetProxy) reaches(gwAddr string) bool {
	v4, v6 := false, false
	for _, ip := range p.IPs {
		if strings.Contains(ip, ":") {
			v6 = true
		} else {
			v4 = true
		}
	}
	if v4 == v6 {
		return true // dual stack (or unknown): all gateways
	}
	return strings.Contains(gwAddr, ":") == v6
}

type mnetGw struct {
	Network string
	Cluster string // "" for gateways given by address in MeshNetworks
	Addr    string
	Port    uint32
}

func (g mnetGw) hostPort() string { return fmt.Sprintf("%s:%d", g.Addr, g.Port) }

// registry gateways of server variant 1 (they carry the cluster they live in); variant 0 has none.
var mnetRegistryGateways = []mnetGw{
	{Network: "n3", Cluster: "c2", Addr: "33.2.0.1", Port: 15443},
	{Network: "n3", Cluster: "c1", Addr: "33.1.0.1", Port: 15443},
	{Network: "n3", Cluster: "c1", Addr: "33.1.0.2", Port: 15443},
	{Network: "n2", Cluster: "c1", Addr: "22.1.0.1", Port: 15444},
}

type mnetEp struct {
	epSpec
	TLS bool // workload carries security.istio.io/tlsMode=istio (has a sidecar)
}

func (e mnetEp) toIstio() *model.IstioEndpoint {
	ie := e.epSpec.toIstio("ns1")
	lab := map[string]string{}
	for k, v := range e.Labels {
		lab[k] = v
	}
	if e.TLS {
		ie.TLSMode = model.IstioMutualTLSModeLabel
		lab["security.istio.io/tlsMode"] = model.IstioMutualTLSModeLabel
	}
	ie.Labels = lab
	return ie
}

type mnetEnv struct {
	f       *vh.F
	srv     *xdsfake.FakeDiscoveryServer
	watcher meshwatcher.TestNetworksWatcher
	px      map[string]*model.Proxy
	regGws  []mnetGw
}

func newMnetEnv(variant int) *mnetEnv {
	e := &mnetEnv{f: vh.NewF(), px: map[string]*model.Proxy{}, watcher: meshwatcher.NewFixedNetworksWatcher(nil)}
	var svcs []*model.Service
	var cfgs []config.Config
	for _, s := range mnetServices {
		svcs = append(svcs, s.toService())
		if dr := s.destinationRule(); dr != nil {
			cfgs = append(cfgs, *dr)
		}
	}
	var gws []model.NetworkGateway
	if variant == 1 {
		e.regGws = mnetRegistryGateways
		for _, g := range e.regGws {
			gws = append(gws, model.NetworkGateway{Network: network.ID(g.Network), Cluster: cluster.ID(g.Cluster), Addr: g.Addr, Port: g.Port})
		}
	}
	e.srv = xdsfake.NewFakeDiscoveryServer(e.f, xdsfake.FakeOptions{Services: svcs, Configs: cfgs, NetworksWatcher: e.watcher, Gateways: gws})
	for _, p := range mnetProxies {
		mp := &model.Proxy{
			ID:              p.Name + ".ns1",
			ConfigNamespace: "ns1",
			IPAddresses:     p.IPs,
			Labels:          map[string]string{"app": "client"},
			Metadata: &model.NodeMetadata{
				ClusterID:            cluster.ID(p.Cluster),
				Network:              network.ID(p.Network),
				Namespace:            "ns1",
				RequestedNetworkView: p.View,
				Labels:               map[string]string{"app": "client"},
			},
		}
		if p.Router {
			mp.Type = model.Router
		}
		e.px[p.Name] = e.srv.SetupProxy(mp)
		e.px[p.Name].Locality = localityOf("r1/z1/s1")
	}
	return e
}

func mnetLCM(a, b uint64) uint64 {
	x, y := a, b
	for y != 0 {
		x, y = y, x%y
	}
	return a / x * b
}

// mnetScale: (R4) K = lcm of the number of gateways per network and per (network, cluster).
func mnetScale(gws []mnetGw) uint64 {
	perNet, perNC := map[string]uint64{}, map[string]uint64{}
	for _, g := range gws {
		perNet[g.Network]++
		perNC[g.Network+"/"+g.Cluster]++
	}
	k := uint64(1)
	for _, n := range perNet {
		k = mnetLCM(k, n)
	}
	for _, n := range perNC {
		k = mnetLCM(k, n)
	}
	return k
}

// mnetGatewaysFor: (R1).
func mnetGatewaysFor(gws []mnetGw, nw, cl string) []mnetGw {
	var exact, byNet []mnetGw
	for _, g := range gws {
		if g.Network != nw {
			continue
		}
		byNet = append(byNet, g)
		if g.Cluster == cl {
			exact = append(exact, g)
		}
	}
	if len(exact) > 0 {
		return exact
	}
	return byNet
}

type mnetEntry struct {
	Loc     string
	Addr    string // host:port
	Gateway bool
	Health  int    // direct entries only
	Lo, Hi  uint64 // admissible load_balancing_weight
	Stands  int    // members a gateway entry stands for
}

type mnetStats struct {
	direct, viaGateway, noMTLS, unreachableFamily, noGatewayDirect, noAddress, invisible, forcedNoNet int
}

// refMnet is the reference: what proxy p is to be given for (service s, port http, subset).
func refMnet(p mnetProxy, s mnetSvc, subset map[string]string, latest map[int][]mnetEp, gws []mnetGw, st *mnetStats) map[string]*mnetEntry {
	out := map[string]*mnetEntry{}
	k := mnetScale(gws)
	for shard := 0; shard < 3; shard++ {
		shardCluster := fmt.Sprintf("c%d", shard)
		for _, e := range latest[shard] {
			// ordinary membership: port, subset, visibility, health
			if e.Port != "http" {
				continue
			}
			ok := true
			for lk, lv := range subset {
				if e.Labels[lk] != lv {
					ok = false
				}
			}
			if !ok || e.Health != model.Healthy {
				continue
			}
			if e.SameOnly && shardCluster != p.Cluster {
				continue
			}
			if len(p.View) > 0 && e.Network != "" {
				in := false
				for _, v := range p.View {
					in = in || v == e.Network
				}
				if !in {
					st.invisible++
					continue
				}
			}
			w := uint64(e.Weight)
			if w == 0 {
				w = 1
			}
			loc := normLoc(e.Locality)
			egws := mnetGatewaysFor(gws, e.Network, shardCluster)
			direct := len(gws) == 0 || e.Network == "" || len(egws) == 0 || (p.Network != "" && p.Network == e.Network) // (R0) (R2)
			if direct {
				if e.Addr == "" {
					st.noAddress++
					continue
				}
				if len(gws) > 0 && e.Network != "" && p.Network != e.Network {
					st.noGatewayDirect++
				}
				st.direct++
				key := loc + "|" + e.Addr + ":8080"
				out[key] = &mnetEntry{Loc: loc, Addr: e.Addr + ":8080", Health: envoyHealth(e.Health), Lo: k * w, Hi: k * w}
				continue
			}
			// (R3)
			var reach []mnetGw
			for _, g := range egws {
				if p.reaches(g.Addr) {
					reach = append(reach, g)
				}
			}
			if len(reach) == 0 {
				st.unreachableFamily++
				continue
			}
			// mTLS possible: the workload has a sidecar (tlsMode label) and the client is not told to use something else
			mtls := e.TLS && s.tls != "disable"
			if !mtls {
				st.noMTLS++
				continue
			}
			st.viaGateway++
			if p.Network == "" {
				st.forcedNoNet++
			}
			g := uint64(len(reach))
			lo, hi := k*w/g, (k*w+g-1)/g
			for _, gw := range reach {
				key := loc + "|" + gw.hostPort()
				en := out[key]
				if en == nil {
					en = &mnetEntry{Loc: loc, Addr: gw.hostPort(), Gateway: true}
					out[key] = en
				}
				en.Lo += lo
				en.Hi += hi
				en.Stands++
			}
		}
	}
	return out
}

func genMnetEndpoints(r *rand.Rand, shard, n int, locs []string, seq *int) []mnetEp {
	var out []mnetEp
	ports := []string{"http", "http", "http", "http", "http", "other"}
	versions := []string{"v1", "v1", "v2"}
	healths := []model.HealthStatus{model.Healthy, model.Healthy, model.Healthy, model.Healthy, model.Healthy, model.Terminating}
	nets := []string{"", "n1", "n1", "n2", "n2", "n3", "n3", "n4"}
	for i := 0; i < n; i++ {
		*seq++
		addr := fmt.Sprintf("10.%d.%d.%d", shard, *seq/250, *seq%250+1)
		if r.Intn(14) == 0 {
			addr = "" // address unknown to this control plane: only a gateway can stand for it
		}
		out = append(out, mnetEp{
			epSpec: epSpec{
				Addr:     addr,
				Port:     ports[r.Intn(len(ports))],
				Labels:   map[string]string{"version": versions[r.Intn(len(versions))]},
				Health:   healths[r.Intn(len(healths))],
				Weight:   uint32(r.Intn(5)), // 0 => default 1
				Locality: locs[r.Intn(len(locs))],
				Network:  nets[r.Intn(len(nets))],
				Node:     "node-a",
				SameOnly: r.Intn(10) == 0,
				Shard:    shard,
			},
			TLS: r.Intn(4) != 0,
		})
	}
	return out
}

// genMnetGateways draws the gateways given by address in MeshNetworks: 0-2 (rarely 3) for each of n1..n3,
// never one for n4; one in five is an IPv6 address.
func genMnetGateways(r *rand.Rand, variant int) []mnetGw {
	var out []mnetGw
	for ni, nw := range []string{"n1", "n2", "n3"} {
		cnt := []int{0, 1, 1, 2, 2, 3}[r.Intn(6)]
		if variant == 0 && r.Intn(12) == 0 {
			cnt = 0
		}
		for j := 0; j < cnt; j++ {
			addr := fmt.Sprintf("%d%d.0.0.%d", ni+1, ni+1, j+1)
			if r.Intn(5) == 0 {
				addr = fmt.Sprintf("2001:db8:%d::%d", ni+1, j+1)
			}
			out = append(out, mnetGw{Network: nw, Addr: addr, Port: 15443})
		}
	}
	return out
}

func mnetMeshNetworks(gws []mnetGw) *meshconfig.MeshNetworks {
	mn := &meshconfig.MeshNetworks{Networks: map[string]*meshconfig.Network{}}
	for i, nw := range []string{"n1", "n2", "n3"} {
		mn.Networks[nw] = &meshconfig.Network{Endpoints: []*meshconfig.Network_NetworkEndpoints{{
			Ne: &meshconfig.Network_NetworkEndpoints_FromRegistry{FromRegistry: fmt.Sprintf("c%d", i)},
		}}}
	}
	for _, g := range gws {
		mn.Networks[g.Network].Gateways = append(mn.Networks[g.Network].Gateways, &meshconfig.Network_IstioNetworkGateway{
			Gw: &meshconfig.Network_IstioNetworkGateway_Address{Address: g.Addr}, Port: g.Port,
		})
	}
	return mn
}

func runMnet(c *vh.Ctx) {
	n := c.N(300, 12000)
	envs := map[int]*mnetEnv{}
	defer func() {
		for _, e := range envs {
			e.f.Done()
		}
	}()
	for i := 0; i < n; i++ {
		if !c.Mine(i) {
			continue
		}
		c.Case(fmt.Sprintf("mnet/%d", i), func() {
			// server variant by parity of the case index (the number of children is even, so a child builds one server)
			variant := i % 2
			if envs[variant] == nil {
				envs[variant] = newMnetEnv(variant)
			}
			env := envs[variant]
			r := c.Rng("mnet", i)

			// networks configuration of this world
			explicit := genMnetGateways(r, variant)
			gws := append(append([]mnetGw{}, explicit...), env.regGws...)
			env.watcher.SetNetworks(mnetMeshNetworks(explicit))
			wantGw := sets.New[string]()
			for _, g := range gws {
				wantGw.Insert(g.Network + "/" + g.Cluster + "/" + g.hostPort())
			}
			for _, mgr := range []*model.NetworkManager{env.srv.Env().NetworkManager, env.srv.PushContext().NetworkManager()} {
				haveGw := sets.New[string]()
				for _, g := range mgr.AllGateways() {
					haveGw.Insert(fmt.Sprintf("%s/%s/%s:%d", g.Network, g.Cluster, g.Addr, g.Port))
				}
				if !haveGw.Equals(wantGw) {
					vh.Abort("network gateways not loaded: have %v want %v", sets.SortedList(haveGw), sets.SortedList(wantGw))
				}
			}
			gwAddrs := sets.New[string]()
			gwNets := sets.New[string]()
			for _, g := range gws {
				gwAddrs.Insert(g.hostPort())
				gwNets.Insert(g.Network)
			}

			// registry reports. Wiping a registry empties the endpoint cache the index shares with the generator
			// (gen.go); in istiod the forced push that follows a networks change does the same.
			idx := env.srv.Env().EndpointIndex
			for sh := 0; sh < 3; sh++ {
				idx.DeleteShard(shardKey(sh))
			}
			pool := []string{"r1/z1/s1", "r1/z2/s1", "r2/z1/s1", "r2/z2/s2", ""}
			latest := map[string]map[int][]mnetEp{}
			seq := 0
			for _, s := range mnetServices {
				r.Shuffle(len(pool), func(a, b int) { pool[a], pool[b] = pool[b], pool[a] })
				locs := append([]string{}, pool[:2+r.Intn(3)]...)
				latest[s.host] = map[int][]mnetEp{}
				rounds := 1 + r.Intn(2)
				for round := 0; round < rounds; round++ {
					for sh := 0; sh < 3; sh++ {
						if round > 0 && r.Intn(2) == 0 {
							continue
						}
						eps := genMnetEndpoints(r, sh, r.Intn(7), locs, &seq)
						var ie []*model.IstioEndpoint
						for _, e := range eps {
							ie = append(ie, e.toIstio())
						}
						idx.UpdateServiceEndpoints(shardKey(sh), s.host, "ns1", ie, false)
						latest[s.host][sh] = eps
					}
				}
			}

			push := env.srv.PushContext()
			gen := prodEDSGenerator(env.srv) // shares the index's cache, as in istiod (see gen.go)
			st := &mnetStats{}
			compared, gwEntries, gwLocalities, splitInexact := 0, 0, 0, 0
			var sample map[string]any
			for _, p := range mnetProxies {
				proxy := env.px[p.Name]
				names := sets.New[string]()
				type want struct {
					s      mnetSvc
					subset string
				}
				wants := map[string]want{}
				for _, s := range mnetServices {
					for cn, sn := range s.clusters() {
						names.Insert(cn)
						wants[cn] = want{s, sn}
					}
				}
				got := map[string][]*endpoint.ClusterLoadAssignment{}
				for pass := 0; pass < 2; pass++ {
					// PushRequest.Start is only the cache token: the endpoint cache stores nothing for a request without a
					// start time, and nothing older than its last invalidation. No verdict depends on it.
					res, logd, err := gen.Generate(proxy, &model.WatchedResource{TypeUrl: v3.EndpointType, ResourceNames: names}, &model.PushRequest{Forced: true, Push: push, Start: time.Now()})
					if err != nil {
						vh.Abort("eds generate: %v", err)
					}
					// the generator reports how many assignments it took from the endpoint cache
					if nCached, nAll, ok := cachedOf(logd); ok {
						c.Count(fmt.Sprintf("mnet_generator_pass%d_assignments_from_cache", pass+1), nCached)
						c.Count(fmt.Sprintf("mnet_generator_pass%d_assignments_built", pass+1), nAll-nCached)
					}
					for _, rsc := range res {
						cla := &endpoint.ClusterLoadAssignment{}
						if err := rsc.Resource.UnmarshalTo(cla); err != nil {
							vh.Abort("unmarshal: %v", err)
						}
						got[cla.ClusterName] = append(got[cla.ClusterName], cla)
					}
				}
				cns := make([]string, 0, len(wants))
				for cn := range wants {
					cns = append(cns, cn)
				}
				sort.Strings(cns)
				for _, cn := range cns {
					b := endpoints.NewEndpointBuilder(cn, proxy, push)
					got[cn] = append(got[cn], b.BuildClusterLoadAssignment(idx))
				}
				for _, cn := range cns {
					w := wants[cn]
					var subset map[string]string
					if w.subset != "" {
						subset = w.s.subsets[w.subset]
					}
					ref := refMnet(p, w.s, subset, latest[w.s.host], gws, st)
					refKeys := make([]string, 0, len(ref))
					gwLocs := sets.New[string]()
					for k, en := range ref {
						refKeys = append(refKeys, k)
						if en.Gateway {
							gwEntries++
							gwLocs.Insert(en.Loc)
							if en.Lo != en.Hi {
								splitInexact++
							}
						}
					}
					sort.Strings(refKeys)
					gwLocalities += gwLocs.Len()
					if len(got[cn]) != 3 {
						c.Violation("mnet:missing-cla", fmt.Sprintf("proxy %s cluster %s: expected 3 generated assignments (generator x2, builder), got %d", p.Name, cn, len(got[cn])), nil)
						continue
					}
					for gi, cla := range got[cn] {
						compared++
						src := []string{"generator", "generator-cached", "builder"}[gi]
						members, locW, _ := flattenCLA(cla)
						problems := map[string]string{}
						note := func(kind, msg string) {
							if _, dup := problems[kind]; !dup {
								problems[kind] = msg
							}
						}
						seen := map[string]bool{}
						locSum := map[string]uint64{}
						for _, m := range members {
							parts := strings.Split(m, "|") // loc | host:port | h=H | w=W
							var h int
							var wt uint64
							fmt.Sscanf(parts[2], "h=%d", &h)
							fmt.Sscanf(parts[3], "w=%d", &wt)
							key := parts[0] + "|" + parts[1]
							locSum[parts[0]] += wt
							if strings.HasPrefix(parts[1], ":") && ref[key] == nil {
								where := "multi-network"
								if len(gws) == 0 {
									where = "no-gateway-configured"
								}
								note("address-less-member-sent-directly:"+where, fmt.Sprintf("an entry with an EMPTY address (%q) is listed in locality %q: a member whose address this control plane does not know can only be represented by a gateway", parts[1], parts[0]))
								continue
							}
							if seen[key] {
								note("duplicate-entry", fmt.Sprintf("%s listed twice in locality %q", parts[1], parts[0]))
								continue
							}
							seen[key] = true
							en := ref[key]
							isGw := gwAddrs.Contains(parts[1])
							switch {
							case en == nil && isGw:
								inOther := false
								for _, k := range refKeys {
									inOther = inOther || (ref[k].Addr == parts[1])
								}
								kind := "unexpected-gateway-entry:no-member-reaches-it"
								if inOther {
									kind = "unexpected-gateway-entry:locality-has-no-member-behind-it"
								}
								note(kind, fmt.Sprintf("gateway %s (weight %d) is listed in locality %q where it stands for no member", parts[1], wt, parts[0]))
							case en == nil:
								note("unexpected-direct-entry", fmt.Sprintf("%s is listed in locality %q; by the reference it is not sent there", parts[1], parts[0]))
							case en.Gateway:
								if h != 0 && h != 1 {
									note("gateway-health", fmt.Sprintf("gateway %s in %q has health %d", parts[1], parts[0], h))
								}
								if wt < en.Lo || wt > en.Hi {
									note("gateway-weight", fmt.Sprintf("gateway %s in locality %q has weight %d, the %d members it stands for there give [%d,%d]", parts[1], parts[0], wt, en.Stands, en.Lo, en.Hi))
								}
							default:
								if h != en.Health {
									note("direct-health", fmt.Sprintf("%s in %q has health %d, reported %d", parts[1], parts[0], h, en.Health))
								}
								if wt != en.Lo {
									note("direct-weight", fmt.Sprintf("%s in locality %q has weight %d, reference (scaled) weight %d", parts[1], parts[0], wt, en.Lo))
								}
							}
						}
						for _, k := range refKeys {
							if !seen[k] {
								kind := "missing-direct-entry"
								if ref[k].Gateway {
									kind = "missing-gateway-entry"
								}
								note(kind, fmt.Sprintf("%s (weight [%d,%d]) is missing from locality %q", ref[k].Addr, ref[k].Lo, ref[k].Hi, ref[k].Loc))
							}
						}
						// (R5) locality weight = sum of what it contains
						locs := make([]string, 0, len(locW))
						for l := range locW {
							locs = append(locs, l)
						}
						sort.Strings(locs)
						for _, l := range locs {
							if uint64(locW[l]) != locSum[l] {
								note("locality-weight", fmt.Sprintf("locality %q has load_balancing_weight %d, its entries sum to %d", l, locW[l], locSum[l]))
							}
						}
						if len(problems) > 0 {
							kinds := make([]string, 0, len(problems))
							for k := range problems {
								kinds = append(kinds, k)
							}
							sort.Strings(kinds)
							var refDump []string
							for _, k := range refKeys {
								refDump = append(refDump, fmt.Sprintf("%s|gw=%v|w=[%d,%d]", k, ref[k].Gateway, ref[k].Lo, ref[k].Hi))
							}
							for _, kind := range kinds {
								c.Violation("mnet:"+kind,
									fmt.Sprintf("proxy %s (network %q, ips %v) cluster %s (%s): %s. served %v locality weights %v; reference %v; gateways %v",
										p.Name, p.Network, p.IPs, cn, src, problems[kind], members, locW, refDump, gws),
									map[string]any{"proxy": p, "cluster": cn, "source": src, "gateways": gws, "latest": latest[w.s.host], "got": members, "got_locality_weights": locW, "want": refDump})
							}
						}
					}
					if sample == nil && len(ref) > 0 {
						hasGw, hasDirect := false, false
						for _, en := range ref {
							hasGw = hasGw || en.Gateway
							hasDirect = hasDirect || !en.Gateway
						}
						if hasGw && hasDirect {
							var refDump []string
							for _, k := range refKeys {
								refDump = append(refDump, fmt.Sprintf("%s|gw=%v|w=[%d,%d]", k, ref[k].Gateway, ref[k].Lo, ref[k].Hi))
							}
							sample = map[string]any{"stratum": "mnet", "proxy": p, "cluster": cn, "gateways": gws, "scale": mnetScale(gws), "reference": refDump}
						}
					}
				}
			}
			// networks that have members but no gateway in this world
			noGw := sets.New[string]()
			for _, byShard := range latest {
				for _, eps := range byShard {
					for _, e := range eps {
						if e.Network != "" && !gwNets.Contains(e.Network) {
							noGw.Insert(e.Network)
						}
					}
				}
			}
			c.Count("mnet_worlds", 1)
			c.Count(fmt.Sprintf("mnet_worlds_registry_gateways=%v", variant == 1), 1)
			if len(gws) == 0 {
				c.Count("mnet_worlds_without_any_gateway", 1)
			}
			c.Count("mnet_assignments_compared", compared)
			c.Count("mnet_members_sent_directly", st.direct)
			c.Count("mnet_members_replaced_by_gateways", st.viaGateway)
			c.Count("mnet_members_replaced_for_proxy_without_network", st.forcedNoNet)
			c.Count("mnet_remote_members_skipped_no_mtls", st.noMTLS)
			c.Count("mnet_remote_members_skipped_no_gateway_of_proxy_ip_family", st.unreachableFamily)
			c.Count("mnet_remote_members_direct_because_network_has_no_gateway", st.noGatewayDirect)
			c.Count("mnet_members_dropped_no_address_and_no_gateway", st.noAddress)
			c.Count("mnet_members_outside_requested_network_view", st.invisible)
			c.Count("mnet_gateway_entries_expected", gwEntries)
			c.Count("mnet_gateway_entries_with_inexact_split", splitInexact)
			c.Count("mnet_localities_with_gateway_entries", gwLocalities)
			c.Count("mnet_networks_with_members_but_no_gateway", noGw.Len())
			c.Max("mnet_max_scale_factor", int(mnetScale(gws)))
			c.SetAdd("mnet_scale_factors", fmt.Sprintf("%d", mnetScale(gws)))
			if st.viaGateway > 0 && st.direct > 0 {
				c.Nontrivial(vh.Hash("mnet", i, gws, latest))
			}
			if i < 3 && sample != nil {
				c.Sample(sample)
			}
		})
	}
}
