package main

// Stream layer of the sdsauth engine. It wraps internal/xdsshim (shared, not edited): the shim
// always builds a plaintext peer, so an authenticated (TLS) stream is the shim stream with its
// Context() overridden by one whose peer carries credentials.TLSInfo; the credential the
// "TLS handshake" proved travels as a context value that the harness authenticator reads.

import (
	"context"
	"crypto/tls"
	"errors"
	"fmt"
	"net"
	"runtime/debug"
	"sync"
	"time"

	corev3 "github.com/envoyproxy/go-control-plane/envoy/config/core/v3"
	discovery "github.com/envoyproxy/go-control-plane/envoy/service/discovery/v3"
	"google.golang.org/grpc/codes"
	"google.golang.org/grpc/credentials"
	"google.golang.org/grpc/peer"
	"google.golang.org/grpc/status"
	"google.golang.org/protobuf/proto"
	"google.golang.org/protobuf/types/known/structpb"

	"istio.io/istio/pilot/pkg/xds"
	"istio.io/istio/pkg/security"
	"verifharness/internal/xdsshim"
)

// credential is what the transport proved about a client.
type credential struct {
	// Mode: "plaintext" (no TLS: istiod does not authenticate at all), "tls" (authenticator
	// returns Identities), "tls-reject" (authenticator fails: no valid client certificate).
	Mode       string   `json:"mode"`
	Identities []string `json:"identities,omitempty"`
}

func (c credential) authenticated() bool { return c.Mode == "tls" && len(c.Identities) > 0 }

type credKey struct{}

// harnessAuthenticator returns the identity list planted in the stream's context.
type harnessAuthenticator struct{}

func (harnessAuthenticator) AuthenticatorType() string { return "verif-harness" }

func (harnessAuthenticator) Authenticate(ctx security.AuthContext) (*security.Caller, error) {
	if ctx.GrpcContext == nil {
		return nil, errors.New("harness authenticator: no grpc context")
	}
	cred, _ := ctx.GrpcContext.Value(credKey{}).(*credential)
	if cred == nil || cred.Mode != "tls" {
		return nil, errors.New("harness authenticator: no valid client credential")
	}
	return &security.Caller{AuthSource: security.AuthSourceClientCertificate, Identities: append([]string(nil), cred.Identities...)}, nil
}

// resource is one resource of one response, kept raw.
type resource struct {
	Name string
	Raw  []byte // marshalled Any (type url + value)
}

// response is one Send observed on the server's stream goroutine.
type response struct {
	TypeURL   string
	Nonce     string
	Version   string
	Resources []resource
	Removed   []string
}

// conn is one client connection (SotW or delta) to the real DiscoveryServer.
type conn struct {
	proto string
	cred  credential
	ctx   context.Context

	sotw  *xdsshim.SotwStream
	delta *xdsshim.DeltaStream

	done   chan struct{}
	err    error
	panicS string

	mu        sync.Mutex
	resp      []response
	lastNonce map[string]string
	lastVer   map[string]string
	barrier   chan string
	seq       int
	nodeSent  bool
	node      *corev3.Node
	// delta client view of its SDS subscription
	subscribed map[string]bool
}

// sotwWrap / deltaWrap override Context() only; Send/Recv and the no-op grpc.ServerStream
// methods are promoted from the shim stream.
type sotwWrap struct {
	*xdsshim.SotwStream
	ctx context.Context
}

func (w sotwWrap) Context() context.Context { return w.ctx }

type deltaWrap struct {
	*xdsshim.DeltaStream
	ctx context.Context
}

func (w deltaWrap) Context() context.Context { return w.ctx }

func newConn(ds *xds.DiscoveryServer, proto string, cred credential, node *corev3.Node, ip string) *conn {
	cn := &conn{
		proto: proto, cred: cred, node: node, done: make(chan struct{}), barrier: make(chan string, 16),
		lastNonce: map[string]string{}, lastVer: map[string]string{}, subscribed: map[string]bool{},
	}
	parent := context.WithValue(context.Background(), credKey{}, &cred)
	var inner context.Context
	var cancel func()
	var serve func() error
	if proto == "sotw" {
		cn.sotw = xdsshim.NewSotw(parent, func(r *discovery.DiscoveryResponse) error {
			if r.TypeUrl == xdsshim.BarrierType {
				cn.barrier <- r.Nonce
				return nil
			}
			rr := response{TypeURL: r.TypeUrl, Nonce: r.Nonce, Version: r.VersionInfo}
			for _, a := range r.Resources {
				b, _ := proto2bytes(a)
				rr.Resources = append(rr.Resources, resource{Name: xdsshim.ResourceName(a), Raw: b})
			}
			cn.record(rr)
			return nil
		})
		inner, cancel = cn.sotw.Context(), cn.sotw.Cancel
	} else {
		cn.delta = xdsshim.NewDelta(parent, func(r *discovery.DeltaDiscoveryResponse) error {
			if r.TypeUrl == xdsshim.BarrierType {
				cn.barrier <- r.Nonce
				return nil
			}
			rr := response{TypeURL: r.TypeUrl, Nonce: r.Nonce, Version: r.SystemVersionInfo, Removed: r.RemovedResources}
			for _, rs := range r.Resources {
				b, _ := proto2bytes(rs.Resource)
				rr.Resources = append(rr.Resources, resource{Name: rs.Name, Raw: b})
			}
			cn.record(rr)
			return nil
		})
		inner, cancel = cn.delta.Context(), cn.delta.Cancel
	}
	cn.ctx = inner
	if cred.Mode != "plaintext" {
		// what a TLS listener hands to gRPC: the peer carries TLSInfo (the shim's peer does not)
		cn.ctx = peer.NewContext(inner, &peer.Peer{
			Addr:     &net.TCPAddr{IP: net.ParseIP(ip), Port: 40000},
			AuthInfo: credentials.TLSInfo{State: tls.ConnectionState{HandshakeComplete: true}},
		})
	}
	if proto == "sotw" {
		w := sotwWrap{cn.sotw, cn.ctx}
		serve = func() error { return ds.Stream(w) }
	} else {
		w := deltaWrap{cn.delta, cn.ctx}
		serve = func() error { return ds.StreamDeltas(w) }
	}
	go func() {
		defer close(cn.done)
		defer cancel() // gRPC cancels the stream context when the handler returns
		defer func() {
			if r := recover(); r != nil {
				cn.panicS = fmt.Sprintf("%v\n%s", r, debug.Stack())
			}
		}()
		cn.err = serve()
	}()
	return cn
}

func proto2bytes(m proto.Message) ([]byte, error) {
	if m == nil {
		return nil, nil
	}
	return proto.MarshalOptions{Deterministic: true}.Marshal(m)
}

func (cn *conn) record(rr response) {
	cn.mu.Lock()
	cn.resp = append(cn.resp, rr)
	cn.lastNonce[rr.TypeURL] = rr.Nonce
	cn.lastVer[rr.TypeURL] = rr.Version
	cn.mu.Unlock()
}

func (cn *conn) respLen() int {
	cn.mu.Lock()
	defer cn.mu.Unlock()
	return len(cn.resp)
}

func (cn *conn) since(i int) []response {
	cn.mu.Lock()
	defer cn.mu.Unlock()
	return append([]response(nil), cn.resp[i:]...)
}

func (cn *conn) close() {
	if cn.sotw != nil {
		cn.sotw.Cancel()
	} else {
		cn.delta.Cancel()
	}
}

// waitDone waits for the server handler to return; false on watchdog.
func (cn *conn) waitDone(d time.Duration) bool {
	select {
	case <-cn.done:
		return true
	case <-time.After(d):
		return false
	}
}

func (cn *conn) ended() bool {
	select {
	case <-cn.done:
		return true
	default:
		return false
	}
}

func (cn *conn) errCode() codes.Code {
	if cn.err == nil {
		return codes.OK
	}
	return status.Code(cn.err)
}

// request sends one SotW-style "my names for this type are now ns" request; for delta it is
// translated into subscribe/unsubscribe diffs. The node travels on the first request.
func (cn *conn) request(typeURL string, names []string) bool {
	cn.mu.Lock()
	nonce, ver := cn.lastNonce[typeURL], cn.lastVer[typeURL]
	cn.mu.Unlock()
	var nd *corev3.Node
	if !cn.nodeSent {
		nd = cn.node
		cn.nodeSent = true
	}
	if cn.proto == "sotw" {
		r := &discovery.DiscoveryRequest{TypeUrl: typeURL, ResourceNames: names, ResponseNonce: nonce, Node: nd}
		if nonce != "" {
			r.VersionInfo = ver
		}
		return cn.sotw.Request(r)
	}
	r := &discovery.DeltaDiscoveryRequest{TypeUrl: typeURL, Node: nd}
	if typeURL == sdsType {
		want := map[string]bool{}
		for _, n := range names {
			want[n] = true
			if !cn.subscribed[n] {
				r.ResourceNamesSubscribe = append(r.ResourceNamesSubscribe, n)
			}
		}
		for _, n := range sortedKeys(cn.subscribed) {
			if !want[n] {
				r.ResourceNamesUnsubscribe = append(r.ResourceNamesUnsubscribe, n)
			}
		}
		cn.subscribed = want
		if len(r.ResourceNamesSubscribe) == 0 && len(r.ResourceNamesUnsubscribe) == 0 {
			r.ResponseNonce = nonce // pure ACK
		}
	}
	return cn.delta.Request(r)
}

// doBarrier sends a barrier request and waits for its echo: "" ok, "closed" the stream ended,
// "panic" the handler panicked, "lost" watchdog.
func (cn *conn) doBarrier() string {
	cn.seq++
	name := fmt.Sprintf("b-%d", cn.seq)
	var nd *corev3.Node
	if !cn.nodeSent {
		nd = cn.node
		cn.nodeSent = true
	}
	ok := false
	if cn.proto == "sotw" {
		ok = cn.sotw.Request(&discovery.DiscoveryRequest{TypeUrl: xdsshim.BarrierType, ResourceNames: []string{name}, Node: nd})
	} else {
		req := &discovery.DeltaDiscoveryRequest{TypeUrl: xdsshim.BarrierType, ResourceNamesSubscribe: []string{name}, Node: nd}
		if cn.seq > 1 {
			req.ResourceNamesUnsubscribe = []string{fmt.Sprintf("b-%d", cn.seq-1)}
		}
		ok = cn.delta.Request(req)
	}
	if !ok {
		if !cn.waitDone(30 * time.Second) {
			return "lost"
		}
		if cn.panicS != "" {
			return "panic"
		}
		return "closed"
	}
	select {
	case <-cn.barrier:
		return ""
	case <-cn.done:
		if cn.panicS != "" {
			return "panic"
		}
		return "closed"
	case <-time.After(60 * time.Second):
		return "lost"
	}
}

// buildNode builds the node a client claims to be.
func buildNode(s *streamSpec) *corev3.Node {
	m := map[string]any{}
	if s.MetaNS != nil {
		m["NAMESPACE"] = *s.MetaNS
	}
	if s.MetaSA != "" {
		m["SERVICE_ACCOUNT"] = s.MetaSA
	}
	if len(s.Labels) > 0 {
		l := map[string]any{}
		for k, v := range s.Labels {
			l[k] = v
		}
		m["LABELS"] = l
	}
	if s.ClusterID != "" {
		m["CLUSTER_ID"] = s.ClusterID
	}
	m["ISTIO_VERSION"] = "1.28.0"
	switch s.PKP {
	case "cryptomb":
		m["PROXY_CONFIG"] = map[string]any{"privateKeyProvider": map[string]any{"cryptomb": map[string]any{"pollDelay": "0.001s"}}}
	case "qat":
		m["PROXY_CONFIG"] = map[string]any{"privateKeyProvider": map[string]any{"qat": map[string]any{"pollDelay": "0.001s"}}}
	}
	st, err := structpb.NewStruct(m)
	if err != nil {
		panic(fmt.Sprintf("node metadata: %v", err))
	}
	return &corev3.Node{Id: fmt.Sprintf("%s~%s~%s~%s", s.Type, s.IP, s.NodeID, s.Domain), Metadata: st}
}
