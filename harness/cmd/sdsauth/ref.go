package main

// Reference side of the oracle, written from the property text and public documentation
// (SPIFFE identity format, node id format, credentialName / SDS resource name formats,
// Gateway API ReferenceGrant semantics). It never calls the istio functions being judged.

import (
	"strings"
)

// streamSpec is everything a client presents: what the transport proved (Cred) and what the
// client merely claims (node id and metadata).
type streamSpec struct {
	Role  string     `json:"role"`
	Proto string     `json:"proto"` // sotw | delta
	Cred  credential `json:"cred"`
	Type  string     `json:"type"` // router | sidecar
	IP    string     `json:"ip"`
	// node id = Type~IP~NodeID~Domain ; NodeID is conventionally <pod>.<namespace>,
	// Domain <namespace>.svc.cluster.local
	NodeID    string            `json:"node_id"`
	Domain    string            `json:"domain"`
	MetaNS    *string           `json:"meta_ns"` // NAMESPACE metadata; nil = absent
	MetaSA    string            `json:"meta_sa"` // SERVICE_ACCOUNT metadata; "" = absent
	Labels    map[string]string `json:"labels,omitempty"`
	ClusterID string            `json:"cluster_id"`
	PKP       string            `json:"pkp,omitempty"`
	First     string            `json:"first"` // first message on the stream: barrier | cds | sds
}

type ident struct{ TD, NS, SA string }

// parseSPIFFE parses the Istio workload identity format
// spiffe://<trust-domain>/ns/<namespace>/sa/<service-account>.
func parseSPIFFE(s string) (ident, bool) {
	rest, ok := strings.CutPrefix(s, "spiffe://")
	if !ok {
		return ident{}, false
	}
	seg := strings.Split(rest, "/")
	if len(seg) != 5 || seg[1] != "ns" || seg[3] != "sa" {
		return ident{}, false
	}
	return ident{TD: seg[0], NS: seg[2], SA: seg[4]}, true
}

// claimedNamespace: the NAMESPACE metadata if the client sent one, else the namespace label of
// the DNS domain in the node id (<ns>.svc.cluster.local); "" = no namespace claimed.
func (s *streamSpec) claimedNamespace() string {
	if s.MetaNS != nil && *s.MetaNS != "" {
		return *s.MetaNS
	}
	if i := strings.IndexByte(s.Domain, '.'); i >= 0 {
		return s.Domain[:i]
	}
	return ""
}

func (s *streamSpec) claimedSA() string { return s.MetaSA }

// consistentIdentities returns the credential identities that prove what the client claims:
// same namespace if one is claimed and same service account if one is claimed.
func (s *streamSpec) consistentIdentities() []ident {
	if !s.Cred.authenticated() {
		return nil
	}
	var out []ident
	ns, sa := s.claimedNamespace(), s.claimedSA()
	for _, raw := range s.Cred.Identities {
		id, ok := parseSPIFFE(raw)
		if !ok {
			continue
		}
		if ns != "" && id.NS != ns {
			continue
		}
		if sa != "" && id.SA != sa {
			continue
		}
		out = append(out, id)
	}
	return out
}

func subset(sel, labels map[string]string) bool {
	for k, v := range sel {
		if labels[k] != v {
			return false
		}
	}
	return true
}

// gatewayRef resolves a credentialName / SDS name of the kubernetes-gateway form to the secret
// it designates (kubernetes-gateway://<namespace>/<name>).
func gatewayRef(cn string) (ns, name string, ok bool) {
	rest, ok := strings.CutPrefix(cn, "kubernetes-gateway://")
	if !ok {
		return "", "", false
	}
	seg := strings.Split(rest, "/")
	if len(seg) < 2 || seg[0] == "" || seg[1] == "" {
		return "", "", false
	}
	return seg[0], seg[1], true
}

// entitlement decides whether the private key of secret ns/name may be released to the stream.
// From the property: authenticated, and either the secret lives in the namespace the credential
// proves and that identity is authorised (SubjectAccessReview) to read secrets there, or the
// secret is referenced as a Gateway certificate by gateway configuration of the proxy's own
// verified namespace that applies to it, the reference being same-namespace or covered by a
// ReferenceGrant.
func entitlement(w *world, s *streamSpec, ns, name string, viaGatewayName bool) (bool, string) {
	if !s.Cred.authenticated() {
		return false, "unauthenticated"
	}
	ids := s.consistentIdentities()
	if len(ids) == 0 {
		return false, "no-proven-identity"
	}
	sameNS := false
	own := false
	for _, id := range ids {
		if id.NS == ns {
			sameNS = true
			if w.sarAllows(id.NS, id.SA, ns) {
				own = true
			}
		}
	}
	// (which of several applicable grounds is reported only matters for the evidence)
	if own && !viaGatewayName {
		return true, "own-namespace+authorised"
	}
	if s.Type == "router" {
		for _, id := range ids {
			for _, g := range w.Gateways {
				if g.NS != id.NS || (g.Selector != nil && !subset(g.Selector, s.Labels)) {
					continue
				}
				for _, sv := range g.Servers {
					rns, rname, ok := gatewayRef(sv.Credential)
					if !ok || rns != ns || rname != name {
						continue
					}
					if rns == id.NS {
						return true, "gateway-ref-same-namespace"
					}
					if w.granted(id.NS, rns, rname) {
						return true, "gateway-ref-granted"
					}
				}
			}
			for _, g := range w.GwAPI {
				if g.NS != id.NS {
					continue
				}
				for _, l := range g.Listeners {
					rns := l.RefNS
					if rns == "" {
						rns = g.NS
					}
					if rns != ns || l.RefNm != name {
						continue
					}
					if rns == id.NS {
						return true, "gwapi-ref-same-namespace"
					}
					if w.granted(id.NS, rns, l.RefNm) {
						return true, "gwapi-ref-granted"
					}
				}
			}
		}
	}
	if own {
		return true, "own-namespace+authorised"
	}
	if sameNS {
		return false, "not-authorised"
	}
	return false, "cross-namespace"
}

// nameType classifies an SDS resource name by its scheme, for violation keys and evidence.
func nameType(n string) string {
	for _, p := range []string{"kubernetes-gateway://", "kubernetes://", "configmap://", "builtin://", "invalid://"} {
		if strings.HasPrefix(n, p) {
			return strings.TrimSuffix(p, "://")
		}
	}
	return "other"
}
