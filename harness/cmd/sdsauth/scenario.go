package main

import (
	"fmt"
	"math/rand"
	"sort"
	"strings"
	"time"

	clusterv3 "github.com/envoyproxy/go-control-plane/envoy/config/cluster/v3"
	tlsv3 "github.com/envoyproxy/go-control-plane/envoy/extensions/transport_sockets/tls/v3"
	"google.golang.org/protobuf/proto"
	"google.golang.org/protobuf/types/known/anypb"

	"istio.io/istio/pilot/pkg/model"
	v3 "istio.io/istio/pilot/pkg/xds/v3"
	"verifharness/internal/vh"
)

const (
	sdsType = v3.SecretType
	cdsType = v3.ClusterType
)

// ---------------------------------------------------------------------------------------
// generators

func spiffe(td, ns, sa string) string { return "spiffe://" + td + "/ns/" + ns + "/sa/" + sa }

// hostileIdentity draws an identity string that proves something else than it might seem to.
func hostileIdentity(r *rand.Rand, ns, sa string) string {
	switch r.Intn(12) {
	case 0:
		return "spiffe://cluster.local/ns/" + ns // truncated
	case 1:
		return "spiffe://cluster.local/ns/" + ns + "/sa/" + sa + "/extra"
	case 2:
		return "cluster.local/ns/" + ns + "/sa/" + sa // no scheme
	case 3:
		return "spiffe://cluster.local/sa/" + sa + "/ns/" + ns // swapped segments
	case 4:
		return spiffe("cluster.local", ns, "") // empty service account
	case 5:
		return spiffe("cluster.local", "", sa) // empty namespace
	case 6:
		return spiffe("other.domain", ns, sa) // other trust domain
	case 7:
		return spiffe("cluster.local", ns+"b", sa) // namespace with the claimed one as prefix
	case 8:
		return spiffe("cluster.local", strings.TrimSuffix(ns, "b"), sa+"2")
	case 9:
		return "SPIFFE://cluster.local/ns/" + ns + "/sa/" + sa
	case 10:
		return ""
	default:
		return "spiffe://cluster.local/ns/" + ns + "/sa/" + sa + "/"
	}
}

var ipSeq int

func nextIP() string {
	ipSeq++
	return fmt.Sprintf("10.%d.%d.%d", 1+ipSeq/62500%200, ipSeq/250%250, ipSeq%250+1)
}

func strp(s string) *string { return &s }

// baseStream is a well-behaved proxy of namespace ns running as sa.
func baseStream(r *rand.Rand, role, typ, ns, sa string) streamSpec {
	s := streamSpec{
		Role: role, Proto: pick(r, []string{"sotw", "sotw", "delta"}), Type: typ, IP: nextIP(),
		Cred:   credential{Mode: "tls", Identities: []string{spiffe("cluster.local", ns, sa)}},
		NodeID: "pod-" + role + "." + ns, Domain: ns + ".svc.cluster.local",
		MetaNS: strp(ns), MetaSA: sa, ClusterID: "Kubernetes", First: pick(r, []string{"barrier", "cds", "sds"}),
	}
	if typ == "router" {
		s.Labels = map[string]string{}
		for _, sel := range selectorPool {
			if r.Intn(2) == 0 {
				for k, v := range sel {
					s.Labels[k] = v
				}
			}
		}
	} else {
		s.Labels = map[string]string{"app": "workload"}
	}
	return s
}

// perturb applies claim/credential variations that keep or break the binding.
func perturb(r *rand.Rand, s *streamSpec) {
	ns := s.claimedNamespace()
	for i, n := 0, r.Intn(3); i < n; i++ {
		switch r.Intn(13) {
		case 0: // several identities: an unrelated one first
			s.Cred.Identities = append([]string{spiffe("cluster.local", pick(r, namespaces), pick(r, serviceAccounts))}, s.Cred.Identities...)
		case 1: // several identities: a hostile one first
			s.Cred.Identities = append([]string{hostileIdentity(r, ns, s.MetaSA)}, s.Cred.Identities...)
		case 2: // same namespace, second account appended
			s.Cred.Identities = append(s.Cred.Identities, spiffe("cluster.local", ns, pick(r, serviceAccounts)))
		case 3: // no SERVICE_ACCOUNT claim
			s.MetaSA = ""
		case 4: // namespace only claimed through the node id domain
			s.MetaNS = nil
		case 5: // NAMESPACE metadata present but empty
			s.MetaNS = strp("")
		case 6: // node id names another namespace than the metadata
			s.NodeID = "pod-x." + pick(r, namespaces)
		case 7: // domain names another namespace than the metadata
			s.Domain = pick(r, namespaces) + ".svc.cluster.local"
		case 8:
			s.Cred.Identities[len(s.Cred.Identities)-1] = spiffe("other.domain", ns, s.MetaSA)
		case 9:
			s.PKP = pick(r, []string{"cryptomb", "qat"})
		case 10:
			s.Domain = "localdomain" // a domain without a namespace label
		case 12: // no namespace claimed at all (and sometimes no account either)
			s.MetaNS, s.Domain = nil, "localdomain"
			if r.Intn(2) == 0 {
				s.MetaSA = ""
			}
		case 11:
			if r.Intn(4) == 0 {
				s.ClusterID = pick(r, []string{"", "remote-cluster"})
			}
		}
	}
}

// breakBinding makes the claim differ from what the credential proves.
func breakBinding(r *rand.Rand, s *streamSpec) {
	ns, sa := s.claimedNamespace(), s.MetaSA
	switch r.Intn(8) {
	case 0: // credential of another namespace
		o := pick(r, namespaces)
		s.Cred.Identities = []string{spiffe("cluster.local", o, sa)}
	case 1: // credential of another account, account claimed
		s.Cred.Identities = []string{spiffe("cluster.local", ns, sa+"x")}
	case 2: // only hostile identities
		s.Cred.Identities = []string{hostileIdentity(r, ns, sa), hostileIdentity(r, ns, sa)}
	case 3: // privileged control-plane identity claiming a tenant namespace
		s.Cred.Identities = []string{spiffe("cluster.local", "istio-system", "istiod"), spiffe("cluster.local", "istio-system", "istio-ingressgateway-service-account")}
	case 4: // namespace that has the proven one as a prefix / is a prefix of it
		if strings.HasSuffix(ns, "b") {
			s.Cred.Identities = []string{spiffe("cluster.local", strings.TrimSuffix(ns, "b"), sa)}
		} else {
			s.Cred.Identities = []string{spiffe("cluster.local", ns+"b", sa)}
		}
	case 5: // claim another namespace through metadata, keep credential
		s.MetaNS = strp(pick(r, namespaces))
	case 6: // claim another account
		s.MetaSA = pick(r, serviceAccounts)
	case 7: // rejected by the authenticator / empty identity list
		s.Cred = credential{Mode: "tls-reject"}
	}
}

func genRandomStream(r *rand.Rand, role string) streamSpec {
	s := baseStream(r, role, pick(r, []string{"router", "router", "sidecar"}), pick(r, namespaces), pick(r, serviceAccounts))
	perturb(r, &s)
	switch x := r.Intn(100); {
	case x < 45:
		breakBinding(r, &s)
	case x < 55:
		s.Cred = credential{Mode: "plaintext"}
	}
	return s
}

type nameDraw struct{ Name, Form string }

// genName draws one SDS resource name; Form labels how it was produced (evidence only).
func genName(r *rand.Rand, w *world, own string) nameDraw {
	sec := pick(r, secretNames)
	ns := pick(r, namespaces)
	switch x := r.Intn(100); {
	case x < 22:
		return nameDraw{"kubernetes://" + sec, "k8s-bare"}
	case x < 30:
		return nameDraw{"kubernetes://" + own + "/" + sec, "k8s-own-ns"}
	case x < 40:
		return nameDraw{"kubernetes://" + ns + "/" + sec, "k8s-explicit-ns"}
	case x < 46:
		// more segments than the format has, incl. a trailing segment that LOOKS like a CA-only reference
		// ("-cacert" names are exempt from the authorisation check because they carry no key material)
		third := pick(r, []string{"x", own, sec, "x-cacert", sec + "-cacert", "-cacert", "x/y-cacert"})
		form := "k8s-three-segments"
		if strings.HasSuffix(third, "-cacert") {
			form = "k8s-three-segments-cacert-tail"
		}
		return nameDraw{"kubernetes://" + ns + "/" + sec + "/" + third, form}
	case x < 51:
		return nameDraw{"kubernetes://" + sec + "-cacert", "k8s-cacert"}
	case x < 54:
		return nameDraw{"kubernetes://" + ns + "/" + sec + "-cacert", "k8s-ns-cacert"}
	case x < 64:
		return nameDraw{"kubernetes-gateway://" + own + "/" + sec, "gw-own-ns"}
	case x < 74:
		return nameDraw{"kubernetes-gateway://" + ns + "/" + sec, "gw-explicit-ns"}
	case x < 77:
		return nameDraw{"kubernetes-gateway://" + ns + "/" + sec + "-cacert", "gw-cacert"}
	case x < 79:
		return nameDraw{"kubernetes-gateway://" + ns + "/" + sec + "/" + pick(r, []string{"extra", "extra-cacert", sec + "-cacert"}), "gw-three-segments"}
	case x < 81:
		return nameDraw{pick(r, []string{"kubernetes-gateway://" + sec, "kubernetes-gateway:///" + sec, "kubernetes-gateway://" + ns + "/", "kubernetes-gateway://"}), "gw-malformed"}
	case x < 85:
		return nameDraw{"configmap://" + ns + "/" + pick(r, []string{"ca-bundle", sec, "ca-bundle-cacert"}), "configmap"}
	case x < 87:
		return nameDraw{pick(r, []string{"builtin://", "builtin://x", "invalid://", "invalid://" + sec}), "builtin-invalid"}
	case x < 95:
		// the names gateway configuration of this world actually references
		var refs []string
		for _, g := range w.Gateways {
			for _, s := range g.Servers {
				refs = append(refs, credentialToResource(s.Credential))
			}
		}
		for _, g := range w.GwAPI {
			for _, l := range g.Listeners {
				rns := l.RefNS
				if rns == "" {
					rns = g.NS
				}
				refs = append(refs, "kubernetes-gateway://"+rns+"/"+l.RefNm)
			}
		}
		if len(refs) > 0 {
			return nameDraw{pick(r, refs), "gateway-referenced"}
		}
		return nameDraw{"kubernetes://" + sec, "k8s-bare"}
	default:
		return nameDraw{pick(r, []string{
			"", "default", "ROOTCA", "garbage", "kubernetes://", "kubernetes:///" + sec, "kubernetes://../" + ns + "/" + sec,
			"KUBERNETES://" + sec, "kubernetes://" + sec + " ", " kubernetes://" + sec, "kubernetes:/" + sec, "file-cert:/etc/certs",
			"kubernetes://" + ns + "%2F" + sec, "kubernetes://" + ns + "//" + sec, "kubernetes://" + sec + "/", "configmap://" + sec, "configmap:///x",
			"kubernetes://Kubernetes/" + sec, "kubernetes-gateway://" + ns + "/" + sec + "?x", "kubernetes://" + ns + "/" + sec + "#frag",
		}), "garbage"}
	}
}

// credentialToResource is the documented mapping credentialName -> SDS resource name: a name
// with an explicit scheme is kept, a bare name means kubernetes://<name>.
func credentialToResource(cn string) string {
	if strings.Contains(cn, "://") {
		return cn
	}
	return "kubernetes://" + cn
}

type event struct {
	Kind   string   `json:"kind"` // sds | push | cds
	Stream int      `json:"stream"`
	Names  []string `json:"names,omitempty"`
}

type plan struct {
	Streams []streamSpec `json:"streams"`
	Events  []event      `json:"events"`
	Order1  []int        `json:"order1"`
	Order2  []int        `json:"order2"`
	Warm2   bool         `json:"warm2"` // second run starts on the cache left by the first
	Push1   bool         `json:"push1"` // forced push after connect in run 1 (gives connections a push time, so requests fill the cache)
	forms   map[string]string
}

func genPlan(r *rand.Rand, w *world) *plan {
	p := &plan{forms: map[string]string{}}
	x := pick(r, []string{"team-a", "team-b", "team-a", "team-ab"})
	y := pick(r, []string{"team-b", "team-ab", "team-a"})
	for y == x {
		y = pick(r, []string{"team-b", "team-ab", "team-a"})
	}
	// who may read secrets in x according to the table?
	privSA, unprivSA := "gw", "gw2"
	for _, sa := range serviceAccounts {
		if w.sarAllows(x, sa, x) {
			privSA = sa
			break
		}
	}
	for _, sa := range serviceAccounts {
		if !w.sarAllows(x, sa, x) {
			unprivSA = sa
			break
		}
	}
	add := func(s streamSpec, tweak bool) {
		if tweak && r.Intn(3) == 0 {
			perturb(r, &s)
		}
		p.Streams = append(p.Streams, s)
	}
	add(baseStream(r, "priv-router", "router", x, privSA), true)
	add(baseStream(r, "unpriv-router", "router", x, unprivSA), true)
	add(baseStream(r, "other-ns-router", "router", y, pick(r, serviceAccounts)), true)
	add(baseStream(r, "sidecar", "sidecar", x, pick(r, serviceAccounts)), true)
	un := baseStream(r, "unauth", "router", x, privSA)
	un.Cred = credential{Mode: "plaintext"}
	add(un, false)
	if r.Intn(2) == 0 {
		add(genRandomStream(r, "random"), false)
	}
	if r.Intn(3) == 0 {
		// a gateway workload of a Gateway-API gateway (or pretending to be one)
		if len(w.GwAPI) > 0 {
			g := pick(r, w.GwAPI)
			s := baseStream(r, "gwapi-router", "router", g.NS, g.Name+"-istio")
			s.Labels = map[string]string{"gateway.networking.k8s.io/gateway-name": g.Name}
			if r.Intn(4) == 0 {
				s.Cred.Identities = []string{spiffe("cluster.local", g.NS, pick(r, serviceAccounts))}
				s.MetaSA = ""
			}
			add(s, false)
		}
	}
	// a common pool so that the proxies ask for overlapping names
	pool := make([]nameDraw, 0, 16)
	for i := 0; i < 14; i++ {
		pool = append(pool, genName(r, w, x))
	}
	for si, s := range p.Streams {
		own := s.claimedNamespace()
		if own == "" {
			own = x
		}
		ne := 1 + r.Intn(3)
		for e := 0; e < ne; e++ {
			n := 4 + r.Intn(9)
			seen := map[string]bool{}
			var names []string
			for len(names) < n {
				var d nameDraw
				if r.Intn(100) < 65 {
					d = pick(r, pool)
				} else {
					d = genName(r, w, own)
				}
				if seen[d.Name] {
					n--
					continue
				}
				seen[d.Name] = true
				p.forms[d.Name] = d.Form
				names = append(names, d.Name)
			}
			p.Events = append(p.Events, event{Kind: "sds", Stream: si, Names: names})
		}
		if r.Intn(2) == 0 {
			p.Events = append(p.Events, event{Kind: "cds", Stream: si})
		}
	}
	for i, n := 0, r.Intn(3); i < n; i++ {
		p.Events = append(p.Events, event{Kind: "push"})
	}
	p.Order1 = r.Perm(len(p.Events))
	p.Order2 = r.Perm(len(p.Events))
	switch r.Intn(3) {
	case 0: // privileged proxies first, then the rest
		p.Order1 = byPrivilege(p, p.Order1, true)
		p.Order2 = byPrivilege(p, p.Order2, false)
	case 1:
		p.Order1 = byPrivilege(p, p.Order1, false)
		p.Order2 = byPrivilege(p, p.Order2, true)
	}
	p.Warm2 = r.Intn(2) == 0
	p.Push1 = r.Intn(4) != 0
	return p
}

// byPrivilege stably sorts an order so that events of the privileged proxy come first (or last).
func byPrivilege(p *plan, order []int, privFirst bool) []int {
	out := append([]int(nil), order...)
	rank := func(i int) int {
		e := p.Events[i]
		priv := e.Kind != "push" && p.Streams[e.Stream].Role == "priv-router"
		if priv == privFirst {
			return 0
		}
		return 1
	}
	sort.SliceStable(out, func(a, b int) bool { return rank(out[a]) < rank(out[b]) })
	return out
}

// ---------------------------------------------------------------------------------------
// monitors

type live struct {
	spec   *streamSpec
	cn     *conn
	served bool
	mark   int // responses already evaluated
}

type runResult struct {
	answers   map[string]map[string]bool // "<stream>|<name>" -> classes observed
	keyed     int
	denied    int // requested names of existing keyed secrets that were not released
	abandoned bool
}

type monitor struct {
	c *vh.Ctx
	s *server
	// cache bookkeeping: which stream's event first left a key in the shared cache
	cacheOwner map[string]int
}

func claimClass(s *streamSpec) string {
	nsSrc := "none"
	if s.MetaNS != nil && *s.MetaNS != "" {
		nsSrc = "meta"
	} else if strings.Contains(s.Domain, ".") {
		nsSrc = "domain"
	}
	sa := "sa-claimed"
	if s.MetaSA == "" {
		sa = "sa-unclaimed"
	}
	parse, bad := 0, 0
	for _, i := range s.Cred.Identities {
		if _, ok := parseSPIFFE(i); ok {
			parse++
		} else {
			bad++
		}
	}
	match := "mismatch"
	if len(s.consistentIdentities()) > 0 {
		match = "match"
	}
	if !s.Cred.authenticated() {
		match = "n/a"
	}
	return fmt.Sprintf("%s ids=%d+%dbad ns-from=%s %s %s %s", s.Cred.Mode, parse, bad, nsSrc, sa, s.Type, match)
}

// connect opens the stream, sends the first message and decides served / not served.
func (m *monitor) connect(spec *streamSpec, firstNames []string) *live {
	c := m.c
	cn := newConn(m.s.srv.Discovery, spec.Proto, spec.Cred, buildNode(spec), spec.IP)
	l := &live{spec: spec, cn: cn}
	switch spec.First {
	case "cds":
		cn.request(cdsType, nil)
	case "sds":
		if len(firstNames) > 0 {
			cn.request(sdsType, firstNames)
			c.Count("sds_requests", 1)
			c.Count("sds_names_requested", len(firstNames))
		}
	}
	switch b := cn.doBarrier(); b {
	case "":
		l.served = true
	case "closed":
	case "panic":
		c.Inconclusive("stream handler panicked on connect: " + firstLine(cn.panicS))
	default:
		vh.Abort("barrier lost on connect")
	}
	cls := claimClass(spec)
	sends := cn.respLen()
	if l.served && spec.Type == "router" {
		m.noteVerifiedRefs(spec)
	}
	if l.served || sends > 0 {
		c.Count("streams_served", 1)
		if spec.Cred.Mode == "tls" && spec.claimedNamespace() == "" {
			c.Count("tls_streams_served_claiming_no_namespace", 1)
		}
		c.SetAdd("stream_classes", cls+" -> served")
	} else {
		c.Count("streams_not_served", 1)
		c.SetAdd("stream_classes", cls+" -> "+cn.errCode().String())
		c.SetAdd("not_served_codes", cn.errCode().String())
	}
	// Monitor 1: identity binding
	switch spec.Cred.Mode {
	case "tls":
		ok := len(spec.consistentIdentities()) > 0 || (spec.claimedNamespace() == "" && spec.claimedSA() == "")
		c.Count("identity_bindings_checked", 1)
		if !ok {
			c.Count("identity_bindings_mismatching", 1)
			which := "service-account"
			nsOK := false
			for _, raw := range spec.Cred.Identities {
				if id, p := parseSPIFFE(raw); p && (spec.claimedNamespace() == "" || id.NS == spec.claimedNamespace()) {
					nsOK = true
				}
			}
			if !nsOK {
				which = "namespace"
			}
			if l.served {
				c.Violation("identity-binding:served-without-proof claim="+which,
					fmt.Sprintf("stream served although no credential identity %v proves the claimed namespace %q / service account %q", spec.Cred.Identities, spec.claimedNamespace(), spec.claimedSA()),
					map[string]any{"stream": spec})
			} else if sends > 0 {
				c.Violation("identity-binding:resources-before-denial claim="+which,
					fmt.Sprintf("%d responses were sent before the stream was refused (%v)", sends, cn.err), map[string]any{"stream": spec})
			}
		} else if !l.served {
			// not required by the property, recorded only
			c.Count("matching_identity_not_served", 1)
			c.SetAdd("matching_identity_not_served_codes", cn.errCode().String())
		}
	case "tls-reject":
		if l.served {
			c.Count("served_after_failed_authentication", 1)
		}
	}
	return l
}

// noteVerifiedRefs records, as evidence only (never used by the oracle), which certificate
// references the server holds as verified for the connected proxy and how they relate to the
// proxy's namespace: shows that the same-namespace and the ReferenceGrant paths were exercised.
func (m *monitor) noteVerifiedRefs(spec *streamSpec) {
	for _, con := range m.s.srv.Discovery.Clients() {
		p := con.Proxy()
		if p == nil || len(p.IPAddresses) == 0 || p.IPAddresses[0] != spec.IP {
			continue
		}
		if p.MergedGateway == nil {
			m.c.Count("routers_without_merged_gateway", 1)
			return
		}
		m.c.Count("routers_with_merged_gateway", 1)
		for _, ref := range sortedKeys(p.MergedGateway.VerifiedCertificateReferences) {
			kind := "other"
			if ns, _, ok := gatewayRef(ref); ok {
				kind = "gateway-cross-namespace"
				if ns == spec.claimedNamespace() {
					kind = "gateway-same-namespace"
				}
			}
			m.c.Count("server_verified_references:"+kind, 1)
		}
		return
	}
}

func firstLine(s string) string {
	if i := strings.IndexByte(s, '\n'); i >= 0 {
		return s[:i]
	}
	return s
}

// evaluate inspects every response the stream got since the last call.
func (m *monitor) evaluate(si int, l *live, res *runResult, pl *plan) {
	c := m.c
	rs := l.cn.since(l.mark)
	l.mark += len(rs)
	for _, rp := range rs {
		c.Count("responses_observed", 1)
		c.SetAdd("response_types", v3.GetShortType(rp.TypeURL)+"/"+l.spec.Cred.Mode)
		for _, rc := range rp.Resources {
			marks := m.s.w.scanMarkers(rc.Raw)
			var classes []string
			for _, mk := range marks {
				switch mk.Kind {
				case keyMarker:
					classes = append(classes, "key:"+mk.NS+"/"+mk.Name)
					c.Count("key_material_released", 1)
					res.keyed++
					ok, why := entitlement(m.s.w, l.spec, mk.NS, mk.Name, nameType(rc.Name) == "kubernetes-gateway")
					form := ""
					if pl != nil {
						form = pl.forms[rc.Name]
					}
					c.SetAdd("key_release_reasons", why+" via "+nameType(rc.Name)+" to "+l.spec.Type)
					if form != "" {
						c.SetAdd("name_forms_released_with_key", form)
					}
					if !ok {
						c.Violation(fmt.Sprintf("key-release:%s type=%s in=%s", why, nameType(rc.Name), v3.GetShortType(rp.TypeURL)),
							fmt.Sprintf("private key of secret %s/%s released in %s resource %q to stream %s (%s): %s", mk.NS, mk.Name, v3.GetShortType(rp.TypeURL), rc.Name, l.spec.Role, claimClass(l.spec), why),
							map[string]any{"stream": l.spec, "resource": rc.Name, "secret": mk.NS + "/" + mk.Name, "world": m.s.w, "plan": pl})
					}
				default:
					classes = append(classes, mk.Kind+":"+mk.NS+"/"+mk.Name)
				}
			}
			if rp.TypeURL != sdsType {
				continue
			}
			// structural inspection of the envoy Secret
			c.Count("secrets_inspected", 1)
			a := &anypb.Any{}
			sec := &tlsv3.Secret{}
			if proto.Unmarshal(rc.Raw, a) != nil || a.UnmarshalTo(sec) != nil {
				c.Inconclusive("SDS resource is not an envoy Secret: " + rc.Name)
				continue
			}
			tc := sec.GetTlsCertificate()
			hasKey := tc != nil && (len(tc.GetPrivateKey().GetInlineBytes()) > 0 || tc.GetPrivateKey().GetInlineString() != "" ||
				tc.GetPrivateKey().GetFilename() != "" || tc.GetPrivateKeyProvider() != nil)
			if hasKey {
				c.Count("secrets_with_key_material", 1)
				if tc.GetPrivateKeyProvider() != nil {
					c.Count("secrets_with_private_key_provider", 1)
				}
				attributed := false
				for _, mk := range marks {
					if mk.Kind == keyMarker {
						attributed = true
					}
				}
				if !attributed {
					c.Inconclusive("key material without a harness marker in " + rc.Name)
				}
			} else if sec.GetValidationContext() != nil {
				c.Count("secrets_ca_only", 1)
			}
			sort.Strings(classes)
			k := fmt.Sprintf("%d|%s", si, rc.Name)
			if res.answers[k] == nil {
				res.answers[k] = map[string]bool{}
			}
			res.answers[k][strings.Join(classes, ",")] = true
		}
		if rp.TypeURL == cdsType && l.spec.Cred.Mode == "tls" {
			// Monitor 1, witness form: namespace-private clusters reveal as a member of which
			// namespace the proxy is being served
			proven := map[string]bool{}
			for _, raw := range l.spec.Cred.Identities {
				if id, ok := parseSPIFFE(raw); ok {
					proven[id.NS] = true
				}
			}
			for _, rc := range rp.Resources {
				a := &anypb.Any{}
				cl := &clusterv3.Cluster{}
				if proto.Unmarshal(rc.Raw, a) != nil || a.UnmarshalTo(cl) != nil {
					continue
				}
				rest, ok := strings.CutPrefix(cl.Name, "outbound|80||private.")
				if !ok {
					continue
				}
				ns := strings.TrimSuffix(rest, ".example")
				c.Count("namespace_witness_clusters", 1)
				if !proven[ns] {
					c.Violation("identity-binding:config-of-unproven-namespace",
						fmt.Sprintf("stream with identities %v received the namespace-private cluster %s", l.spec.Cred.Identities, cl.Name),
						map[string]any{"stream": l.spec})
				}
			}
		}
	}
}

func (m *monitor) cacheKeys() map[string]bool {
	out := map[string]bool{}
	for _, k := range m.s.srv.Discovery.Cache.Keys(model.SDSType) {
		if s, ok := k.(string); ok {
			out[s] = true
		}
	}
	return out
}

// runOrder executes the plan's events in the given order on fresh connections.
func (m *monitor) runOrder(pl *plan, order []int, push bool) *runResult {
	c := m.c
	ds := m.s.srv.Discovery
	res := &runResult{answers: map[string]map[string]bool{}}
	m.s.waitIdle()
	// the first SDS event of each stream may travel as the very first message
	firstSDS := map[int]int{}
	for _, ei := range order {
		e := pl.Events[ei]
		if e.Kind == "sds" {
			if _, ok := firstSDS[e.Stream]; !ok {
				firstSDS[e.Stream] = ei
			}
		}
	}
	lives := make([]*live, len(pl.Streams))
	defer func() {
		for _, l := range lives {
			if l != nil {
				l.cn.close()
			}
		}
		for _, l := range lives {
			if l != nil && !l.cn.waitDone(30*time.Second) {
				c.Inconclusive("stream handler did not return after cancel")
			}
		}
	}()
	barrierAll := func() {
		for si, l := range lives {
			if l == nil || !l.served || l.cn.ended() {
				continue
			}
			if b := l.cn.doBarrier(); b == "lost" {
				vh.Abort("barrier lost")
			}
			m.evaluate(si, l, res, pl)
		}
	}
	doneFirst := map[int]bool{}
	for si := range pl.Streams {
		spec := &pl.Streams[si]
		var fn []string
		if spec.First == "sds" {
			if ei, ok := firstSDS[si]; ok {
				fn = pl.Events[ei].Names
				doneFirst[ei] = true
			}
		}
		pre := m.cacheKeys()
		lives[si] = m.connect(spec, fn)
		m.evaluate(si, lives[si], res, pl)
		m.noteCache(si, pre, nil)
	}
	if push {
		ds.ConfigUpdate(&model.PushRequest{Forced: true, Reason: model.NewReasonStats(model.GlobalUpdate)})
		m.s.waitIdle()
		barrierAll()
		m.cacheOwner = map[string]int{}
	}
	for _, ei := range order {
		if doneFirst[ei] {
			continue
		}
		e := pl.Events[ei]
		switch e.Kind {
		case "push":
			ds.ConfigUpdate(&model.PushRequest{Forced: true, Reason: model.NewReasonStats(model.GlobalUpdate)})
			m.s.waitIdle()
			c.Count("forced_pushes", 1)
			barrierAll()
			m.cacheOwner = map[string]int{}
			for k := range m.cacheKeys() {
				m.cacheOwner[k] = -1
			}
		case "cds", "sds":
			l := lives[e.Stream]
			if !l.served || l.cn.ended() {
				c.Count("events_on_refused_streams", 1)
				continue
			}
			pre := m.cacheKeys()
			before := l.cn.respLen()
			if e.Kind == "cds" {
				l.cn.request(cdsType, nil)
			} else {
				l.cn.request(sdsType, e.Names)
				c.Count("sds_requests", 1)
				c.Count("sds_names_requested", len(e.Names))
				for _, n := range e.Names {
					c.SetAdd("name_forms_requested", pl.forms[n])
				}
			}
			if b := l.cn.doBarrier(); b == "lost" {
				vh.Abort("barrier lost")
			} else if b == "panic" {
				c.Inconclusive("stream handler panicked: " + firstLine(l.cn.panicS))
			}
			var got []response
			if e.Kind == "sds" {
				got = l.cn.since(before)
			}
			m.evaluate(e.Stream, l, res, pl)
			m.noteCache(e.Stream, pre, got)
		}
	}
	// what was refused: names designating an existing keyed secret, requested but never answered with a key
	for _, e := range pl.Events {
		if e.Kind != "sds" {
			continue
		}
		for _, n := range e.Names {
			k := fmt.Sprintf("%d|%s", e.Stream, n)
			hasKey := false
			for cl := range res.answers[k] {
				if strings.Contains(cl, "key:") {
					hasKey = true
				}
			}
			if !hasKey && designatesKeyedSecret(m.s.w, n, pl.Streams[e.Stream].claimedNamespace()) {
				res.denied++
			}
		}
	}
	return res
}

// designatesKeyedSecret: does the name, read by the documented formats, point at an existing
// secret that holds a private key? (evidence only: counts refusals that matter)
func designatesKeyedSecret(w *world, n, own string) bool {
	var ns, name string
	if rest, ok := strings.CutPrefix(n, "kubernetes://"); ok {
		seg := strings.Split(rest, "/")
		if len(seg) == 1 {
			ns, name = own, seg[0]
		} else {
			ns, name = seg[0], seg[1]
		}
	} else if a, b, ok := gatewayRef(n); ok {
		ns, name = a, b
	} else {
		return false
	}
	s := w.secret(ns, name)
	return s != nil && s.HasKey && !strings.HasSuffix(name, "-cacert")
}

// noteCache records evidence about the shared cache: keys an event left behind, and responses
// whose cache key had been left there by another stream's event (a cross-proxy cache hit path).
func (m *monitor) noteCache(si int, pre map[string]bool, got []response) {
	post := m.cacheKeys()
	for k := range post {
		if !pre[k] {
			if _, ok := m.cacheOwner[k]; !ok {
				m.cacheOwner[k] = si
				m.c.Count("cache_entries_created_by_requests", 1)
			}
		}
	}
	for _, rp := range got {
		for _, rc := range rp.Resources {
			for k := range pre {
				if strings.HasPrefix(k, rc.Name+"/") {
					if o, ok := m.cacheOwner[k]; ok && o != si {
						m.c.Count("responses_for_names_cached_by_another_stream", 1)
					} else if !ok {
						m.c.Count("responses_for_names_cached_earlier", 1)
					}
				}
			}
		}
	}
}

func flatten(a map[string]bool) string {
	return strings.Join(sortedKeys(a), " | ")
}

// compare checks order independence of the per-proxy answers.
func (m *monitor) compare(pl *plan, r1, r2 *runResult) {
	c := m.c
	keys := map[string]bool{}
	for k := range r1.answers {
		keys[k] = true
	}
	for k := range r2.answers {
		keys[k] = true
	}
	for _, k := range sortedKeys(keys) {
		a, b := flatten(r1.answers[k]), flatten(r2.answers[k])
		c.Count("answers_compared", 1)
		if a == b {
			continue
		}
		kind := "changed"
		if a == "" {
			kind = "only-in-second-order"
		} else if b == "" {
			kind = "only-in-first-order"
		}
		var si int
		var name string
		fmt.Sscanf(k, "%d|", &si)
		name = k[strings.IndexByte(k, '|')+1:]
		c.Violation("order-dependence:"+kind+" type="+nameType(name),
			fmt.Sprintf("stream %s got %q for %q in the first order and %q in the second", pl.Streams[si].Role, a, name, b),
			map[string]any{"plan": pl, "world": m.s.w, "stream": si, "name": name})
	}
}
