package main

// Key material of a world. Most secrets hold a real ECDSA key pair with a self-signed
// certificate (the Gateway-API conversion validates referenced secrets with
// tls.X509KeyPair), some hold syntactically invalid PEM (the SDS path does not validate).
// A released private key is recognised by a needle: the first base64 line of its PEM body (or
// the marker line of a junk key), searched in the raw bytes of every resource of every response.

import (
	"bytes"
	"crypto/ecdsa"
	"crypto/elliptic"
	"crypto/rand"
	"crypto/x509"
	"crypto/x509/pkix"
	"encoding/pem"
	"fmt"
	"math/big"
	"time"

	"verifharness/internal/vh"
)

type keypair struct {
	KeyPEM, CertPEM []byte
}

var (
	pairPool []keypair
	caPool   [][]byte
)

const poolSize = 40

func genPair(cn string, isCA bool) keypair {
	k, err := ecdsa.GenerateKey(elliptic.P256(), rand.Reader)
	if err != nil {
		vh.Abort("keygen: %v", err)
	}
	tpl := &x509.Certificate{
		SerialNumber: big.NewInt(time.Now().UnixNano()),
		Subject:      pkix.Name{CommonName: cn},
		NotBefore:    time.Now().Add(-time.Hour),
		NotAfter:     time.Now().Add(10 * 365 * 24 * time.Hour),
		KeyUsage:     x509.KeyUsageDigitalSignature | x509.KeyUsageCertSign,
		ExtKeyUsage:  []x509.ExtKeyUsage{x509.ExtKeyUsageServerAuth},
		DNSNames:     []string{cn},
		IsCA:         isCA, BasicConstraintsValid: true,
	}
	der, err := x509.CreateCertificate(rand.Reader, tpl, tpl, &k.PublicKey, k)
	if err != nil {
		vh.Abort("cert: %v", err)
	}
	kb, err := x509.MarshalPKCS8PrivateKey(k)
	if err != nil {
		vh.Abort("key marshal: %v", err)
	}
	return keypair{
		KeyPEM:  pem.EncodeToMemory(&pem.Block{Type: "PRIVATE KEY", Bytes: kb}),
		CertPEM: pem.EncodeToMemory(&pem.Block{Type: "CERTIFICATE", Bytes: der}),
	}
}

func ensurePools() {
	if len(pairPool) > 0 {
		return
	}
	for i := 0; i < poolSize; i++ {
		pairPool = append(pairPool, genPair(fmt.Sprintf("pair-%d.verif.example", i), false))
		caPool = append(caPool, genPair(fmt.Sprintf("ca-%d.verif.example", i), true).CertPEM)
	}
}

// needle: the first line of the PEM body.
func needle(pemBytes []byte) []byte {
	lines := bytes.Split(pemBytes, []byte("\n"))
	if len(lines) >= 2 && len(lines[1]) >= 16 {
		return lines[1]
	}
	return bytes.TrimSpace(pemBytes)
}

// material is what one secret / configmap holds.
type material struct {
	Kind          string // secret | configmap
	NS, Name      string
	Key, Cert, CA []byte
}

func junkPEM(typ, tag, ns, name string) []byte {
	return []byte("-----BEGIN " + typ + "-----\n" + tag + "/" + ns + "/" + name + "/not-base64!\n-----END " + typ + "-----\n")
}

// materialise assigns key material to every secret and configmap of the world.
func (w *world) materialise() {
	if w.mat != nil {
		return
	}
	ensurePools()
	w.mat = map[string]*material{}
	if len(w.Secrets)+len(w.CMs) > poolSize {
		vh.Abort("world larger than the key pool")
	}
	for i, s := range w.Secrets {
		m := &material{Kind: "secret", NS: s.NS, Name: s.Name}
		if s.HasKey {
			if s.Junk {
				m.Key, m.Cert = junkPEM("PRIVATE KEY", "VERIFKEY", s.NS, s.Name), junkPEM("CERTIFICATE", "VERIFCERT", s.NS, s.Name)
			} else {
				m.Key, m.Cert = pairPool[i].KeyPEM, pairPool[i].CertPEM
			}
		}
		if s.HasCA {
			if s.Junk {
				m.CA = junkPEM("CERTIFICATE", "VERIFCA", s.NS, s.Name)
			} else {
				m.CA = caPool[i]
			}
		}
		w.mat["secret:"+s.NS+"/"+s.Name] = m
	}
	for j, cm := range w.CMs {
		w.mat["configmap:"+cm[0]+"/"+cm[1]] = &material{Kind: "configmap", NS: cm[0], Name: cm[1], CA: caPool[len(w.Secrets)+j]}
	}
}

type marker struct{ Kind, NS, Name string }

const (
	keyMarker  = "key"
	certMarker = "cert"
	caMarker   = "ca"
)

// scanMarkers finds whose key / certificate / CA certificate a raw resource carries.
func (w *world) scanMarkers(raw []byte) []marker {
	var out []marker
	for _, k := range sortedKeys(w.mat) {
		m := w.mat[k]
		if m.Key != nil && bytes.Contains(raw, needle(m.Key)) {
			out = append(out, marker{keyMarker, m.NS, m.Name})
		}
		if m.Cert != nil && bytes.Contains(raw, needle(m.Cert)) {
			out = append(out, marker{certMarker, m.NS, m.Name})
		}
		if m.CA != nil && bytes.Contains(raw, needle(m.CA)) {
			out = append(out, marker{caMarker + "(" + m.Kind + ")", m.NS, m.Name})
		}
	}
	return out
}
