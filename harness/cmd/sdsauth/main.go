// Engine sdsauth: property C11 — configuration and Gateway TLS key material are released only
// to the identity entitled to them. The real DiscoveryServer (FakeDiscoveryServer with real
// credentials controller, real gateway controller, real XDS cache) is driven through the
// stream shim by clients whose transport credential and whose claims (node id, metadata) are
// chosen independently; every response of every stream is inspected.
package main

import (
	"fmt"

	"istio.io/istio/pilot/pkg/features"
	"istio.io/istio/pkg/security"
	"verifharness/internal/quiet"
	"verifharness/internal/vh"
)

const orderingsPerWorld = 8

func main() {
	vh.Main(vh.Prop{
		ID:    "C11",
		Level: "exploration",
		Rule: "PRNG worlds on a FakeDiscoveryServer (real credentials controller, gateway controller, XDS cache; harness authenticator; SubjectAccessReview reactor answering allow/deny/error from a table): " +
			"4 namespaces incl. a prefix pair (team-a/team-ab), Kubernetes TLS/generic/CA-only secrets with real ECDSA key pairs (some with junk PEM), ConfigMaps, 2-5 Istio Gateways with credentialName in " +
			"bare / kubernetes:// / kubernetes-gateway:// same- and cross-namespace / three-segment / builtin / configmap forms, Gateway-API Gateways with certificateRefs (every second world), ReferenceGrants aimed at real cross-namespace references plus decoys. " +
			"identity stratum: per world 40 streams with PRNG credential (plaintext, TLS with 1-3 identities, hostile SPIFFE strings, other trust domain, control-plane identities, prefix namespaces, authenticator rejection) x PRNG claims " +
			"(NAMESPACE / SERVICE_ACCOUNT metadata present, empty or absent, node id and DNS domain naming other namespaces), first message barrier / CDS / SDS; oracle: a TLS stream is served only if a credential identity proves the claimed namespace " +
			"and service account, a refused stream received no response of any type, and namespace-private CDS clusters reveal only namespaces the credential proves. " +
			"ordering stratum: per world 8 plans of 5-7 proxies (authorised router, unauthorised router of the same namespace, router of another namespace, sidecar, unauthenticated, random, gateway-api workload) x 1-3 SDS requests of 4-12 names " +
			"from a shared pool (SotW and delta) plus CDS requests and forced pushes, executed in two PRNG orders (privileged first / last in 2 of 3 plans) on fresh connections against the shared cache, second run on a warm or cold cache; " +
			"every resource of every response of every type is scanned for the private keys of the world and each released key is judged by the entitlement function written from the property; per-proxy answers of both orders must agree. " +
			"Non-trivial: an ordering plan in which at least one key was released, at least one name designating an existing keyed secret was refused and two proxies asked for a common name; an identity case with at least one served and one refused TLS stream. Distinct by hash of world+plan.",
		Assumptions: []string{
			"trusted base: the harness authenticator stands for istiod's certificate/JWT authenticators (the credential list is taken as proven); the Kubernetes fake clientset, informers and the SubjectAccessReview reactor",
			"a private key is recognised by a needle (first base64 line of its PEM body) searched in the raw bytes of every resource of every type, so private_key, private key providers and any other carrier are covered; envoy Secrets are also inspected structurally and key material that matches no needle makes the case inconclusive",
			"claimed namespace = NAMESPACE metadata, else the namespace label of the node id DNS domain; the namespace-private-cluster witness checks the effect independently of this reading",
			"entitlement via gateway references is computed from the generated Gateway / Gateway-API / ReferenceGrant objects; for Gateway-API gateways the reference ignores the service-account and service-membership conditions (it only allows more, never less)",
			"answers are compared as the union over a run of what each proxy received per name, which the xDS subscription rules make independent of request order",
		},
		Anchors:       []string{"pilot/pkg/xds/auth.go", "pilot/pkg/xds/sds.go", "pilot/pkg/model/credentials/resource.go", "pilot/pkg/credentials/kube/secrets.go"},
		MinNontrivial: func(t string) int { return map[string]int{"quick": 120, "thorough": 3000}[t] },
		Batches:       func(t string) int { return map[string]int{"quick": 5, "thorough": 8}[t] },
		Parallel:      func(t string) int { return map[string]int{"quick": 5, "thorough": 8}[t] },
		TimeoutSec:    func(t string) int { return map[string]int{"quick": 900, "thorough": 3600}[t] },
		Exhaustive:    func(string) bool { return false },
		Run:           run,
	})
}

func run(c *vh.Ctx) {
	quiet.Logs("error")
	if !features.EnableXDSIdentityCheck || !features.XDSAuth || security.AuthPlaintext {
		// the property is conditional on identity checking being on
		c.Case("precondition", func() { vh.Abort("identity checking is switched off by the environment") })
		return
	}
	nWorlds := c.N(25, 625)
	for wi := 0; wi < nWorlds; wi++ {
		if !c.Mine(wi) {
			continue
		}
		var srv *server
		get := func() *server {
			if srv == nil {
				srv = newServer(genWorld(c.Rng("world", wi), wi, wi%2 == 1))
			}
			return srv
		}
		c.Case(fmt.Sprintf("w%d/identity", wi), func() { runIdentity(c, get(), wi) })
		for j := 0; j < orderingsPerWorld; j++ {
			c.Case(fmt.Sprintf("w%d/order%d", wi, j), func() { runOrdering(c, get(), wi, j) })
		}
		if srv != nil {
			for k, n := range srv.sar.asked {
				c.SetAdd("subject_access_reviews", k[:min(len(k), 120)])
				c.Count("subject_access_reviews_total", n)
			}
			srv.close()
		}
	}
}

func runIdentity(c *vh.Ctx, s *server, wi int) {
	r := c.Rng("identity", wi)
	m := &monitor{c: c, s: s, cacheOwner: map[string]int{}}
	served, refused := 0, 0
	var specs []streamSpec
	for i := 0; i < 40; i++ {
		spec := genRandomStream(r, fmt.Sprintf("id%d", i))
		specs = append(specs, spec)
		var names []string
		for j := 0; j < 4; j++ {
			names = append(names, genName(r, s.w, spec.claimedNamespace()).Name)
		}
		res := &runResult{answers: map[string]map[string]bool{}}
		l := m.connect(&spec, names)
		m.evaluate(i, l, res, nil)
		if l.served && !l.cn.ended() {
			if spec.First != "cds" {
				l.cn.request(cdsType, nil)
			}
			if spec.First != "sds" {
				l.cn.request(sdsType, names)
				c.Count("sds_requests", 1)
				c.Count("sds_names_requested", len(names))
			}
			if b := l.cn.doBarrier(); b == "lost" {
				vh.Abort("barrier lost")
			}
			m.evaluate(i, l, res, nil)
		}
		if spec.Cred.Mode == "tls" {
			if l.served {
				served++
			} else {
				refused++
			}
		}
		l.cn.close()
		if !l.cn.waitDone(30e9) {
			c.Inconclusive("stream handler did not return after cancel")
		}
	}
	if served > 0 && refused > 0 {
		c.Nontrivial(vh.Hash("identity", specs))
	}
	if wi < 2 {
		c.Sample(map[string]any{"identity_streams": specs[:3]})
	}
}

func runOrdering(c *vh.Ctx, s *server, wi, j int) {
	r := c.Rng("order", wi*orderingsPerWorld+j)
	pl := genPlan(r, s.w)
	m := &monitor{c: c, s: s, cacheOwner: map[string]int{}}
	r1 := m.runOrder(pl, pl.Order1, pl.Push1)
	r2 := m.runOrder(pl, pl.Order2, !pl.Warm2)
	m.compare(pl, r1, r2)
	c.Count("orderings_compared", 1)
	if pl.Warm2 {
		c.Count("second_runs_on_warm_cache", 1)
	}
	// overlap: a name asked for by two different streams
	asked := map[string]map[int]bool{}
	overlap := false
	for _, e := range pl.Events {
		for _, n := range e.Names {
			if asked[n] == nil {
				asked[n] = map[int]bool{}
			}
			asked[n][e.Stream] = true
			if len(asked[n]) > 1 {
				overlap = true
			}
		}
	}
	c.Max("streams_per_plan", len(pl.Streams))
	c.Max("events_per_plan", len(pl.Events))
	if r1.keyed > 0 && r1.denied > 0 && overlap {
		c.Nontrivial(vh.Hash("order", s.w, pl))
	}
	if wi < 1 && j < 2 {
		c.Sample(map[string]any{"world": s.w, "plan": pl})
	}
}
