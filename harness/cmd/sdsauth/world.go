package main

// World generation: namespaces, Kubernetes secrets whose every private key carries a unique
// marker naming the secret it belongs to, ConfigMaps, Istio Gateways with credentialName in all
// forms, Gateway-API Gateways, ReferenceGrants, and the SubjectAccessReview table.

import (
	"fmt"
	"math/rand"
	"sort"
	"strings"
	"sync"
	"time"

	authorizationv1 "k8s.io/api/authorization/v1"
	corev1 "k8s.io/api/core/v1"
	metav1 "k8s.io/apimachinery/pkg/apis/meta/v1"
	"k8s.io/apimachinery/pkg/runtime"
	"k8s.io/apimachinery/pkg/util/intstr"
	"k8s.io/client-go/kubernetes/fake"
	k8stesting "k8s.io/client-go/testing"
	gwv1 "sigs.k8s.io/gateway-api/apis/v1"
	gwv1beta1 "sigs.k8s.io/gateway-api/apis/v1beta1"

	networking "istio.io/api/networking/v1alpha3"
	xdsfake "istio.io/istio/pilot/test/xds"
	"istio.io/istio/pkg/config"
	"istio.io/istio/pkg/config/schema/gvk"
	kubelib "istio.io/istio/pkg/kube"
	"istio.io/istio/pkg/security"
	"verifharness/internal/idle"
	"verifharness/internal/vh"
	"verifharness/internal/xdsshim"
)

// team-a is a proper prefix of team-ab on purpose (prefix comparisons must not pass).
var namespaces = []string{"team-a", "team-ab", "team-b", "istio-system"}

var serviceAccounts = []string{"gw", "gw2", "app", "default"}

var secretNames = []string{"shared", "tls-1", "gen-1", "mtls", "ca-only", "tricky-cacert", "only-here"}

type secretSpec struct {
	NS, Name string
	Form     string // tls | generic | ca-only
	HasKey   bool
	HasCA    bool
	Junk     bool // syntactically invalid PEM
}

type serverSpec struct {
	Port       int
	Mode       string // SIMPLE | MUTUAL
	Credential string
}

type gatewaySpec struct {
	NS, Name string
	Selector map[string]string // nil: applies to every router
	Servers  []serverSpec
}

// grantSpec is a ReferenceGrant living in namespace NS (the namespace of the referenced objects).
type grantSpec struct {
	NS, Name            string
	FromGroup, FromKind string
	FromNS              string
	ToGroup, ToKind     string
	ToName              string // "" = all names
}

// gwapiSpec is a Gateway-API Gateway (class istio) with HTTPS listeners.
type gwapiSpec struct {
	NS, Name  string
	Listeners []gwapiListener
}

type gwapiListener struct {
	Name         string
	Port         int
	RefNS, RefNm string // certificateRef; RefNS "" = the gateway's namespace
}

type world struct {
	Index    int
	Secrets  []secretSpec
	CMs      [][2]string // ns, name
	Gateways []gatewaySpec
	Grants   []grantSpec
	GwAPI    []gwapiSpec
	// SAR[user|namespace] = "allow" | "deny" | "error" (absent = deny)
	SAR map[string]string

	mat map[string]*material
}

func (w *world) secret(ns, name string) *secretSpec {
	for i := range w.Secrets {
		if w.Secrets[i].NS == ns && w.Secrets[i].Name == name {
			return &w.Secrets[i]
		}
	}
	return nil
}

func k8sUser(ns, sa string) string { return "system:serviceaccount:" + ns + ":" + sa }

func (w *world) sarAllows(ns, sa, inNS string) bool {
	return w.SAR[k8sUser(ns, sa)+"|"+inNS] == "allow"
}

// granted: does a ReferenceGrant in toNS let Gateways of fromNS reference Secret name?
// (Gateway API: ReferenceGrant.from{group,kind,namespace} -> to{group,kind[,name]}, the grant
// lives in the namespace of the referenced object.)
func (w *world) granted(fromNS, toNS, name string) bool {
	for _, g := range w.Grants {
		if g.NS == toNS && g.FromNS == fromNS && g.FromGroup == "gateway.networking.k8s.io" && g.FromKind == "Gateway" &&
			g.ToGroup == "" && g.ToKind == "Secret" && (g.ToName == "" || g.ToName == name) {
			return true
		}
	}
	return false
}

var selectorPool = []map[string]string{
	{"app": "gw-a"}, {"app": "gw-b"}, {"istio": "ingressgateway"}, nil,
}

func pick[T any](r *rand.Rand, xs []T) T { return xs[r.Intn(len(xs))] }

func genWorld(r *rand.Rand, idx int, withGwAPI bool) *world {
	w := &world{Index: idx, SAR: map[string]string{}}
	for _, ns := range namespaces {
		for _, n := range secretNames {
			if n == "only-here" && ns != "team-b" && ns != "team-ab" {
				continue
			}
			if r.Intn(100) < 15 {
				continue // does not exist in this world
			}
			s := secretSpec{NS: ns, Name: n, HasKey: true}
			switch n {
			case "tls-1":
				s.Form = "tls"
				s.HasCA = r.Intn(2) == 0
			case "ca-only":
				s.Form, s.HasKey, s.HasCA = "ca-only", false, true
			case "mtls", "tricky-cacert":
				s.Form, s.HasCA = "generic", true
			default:
				s.Form = pick(r, []string{"tls", "generic"})
				s.HasCA = r.Intn(3) == 0
			}
			s.Junk = r.Intn(100) < 12
			w.Secrets = append(w.Secrets, s)
		}
		if r.Intn(100) < 70 {
			w.CMs = append(w.CMs, [2]string{ns, "ca-bundle"})
		}
		// SubjectAccessReview table: who may list secrets where
		for _, sa := range serviceAccounts {
			switch x := r.Intn(100); {
			case x < 50:
				w.SAR[k8sUser(ns, sa)+"|"+ns] = "allow"
			case x < 90:
				w.SAR[k8sUser(ns, sa)+"|"+ns] = "deny"
			default:
				w.SAR[k8sUser(ns, sa)+"|"+ns] = "error"
			}
			// RBAC may well allow an account to list secrets of another namespace; the property
			// still forbids SDS from releasing them across namespaces.
			if r.Intn(100) < 20 {
				w.SAR[k8sUser(ns, sa)+"|"+pick(r, namespaces)] = "allow"
			}
		}
	}
	// every world has one account that may and one that may not read team-a / team-b secrets
	for _, ns := range []string{"team-a", "team-b"} {
		w.SAR[k8sUser(ns, "gw")+"|"+ns] = "allow"
		w.SAR[k8sUser(ns, "gw2")+"|"+ns] = "deny"
	}
	// Istio Gateways
	ng := 2 + r.Intn(4)
	port := 8443
	for i := 0; i < ng; i++ {
		g := gatewaySpec{NS: pick(r, namespaces[:3]), Name: fmt.Sprintf("gw-%d", i), Selector: pick(r, selectorPool)}
		ns := 1 + r.Intn(3)
		for j := 0; j < ns; j++ {
			port++
			g.Servers = append(g.Servers, serverSpec{Port: port, Mode: pick(r, []string{"SIMPLE", "SIMPLE", "MUTUAL"}), Credential: genCredentialName(r, g.NS)})
		}
		w.Gateways = append(w.Gateways, g)
	}
	if withGwAPI {
		for i, n := 0, 1+r.Intn(2); i < n; i++ {
			g := gwapiSpec{NS: pick(r, namespaces[:3]), Name: fmt.Sprintf("kgw-%d", i)}
			for j, m := 0, 1+r.Intn(3); j < m; j++ {
				port++
				l := gwapiListener{Name: fmt.Sprintf("l%d", j), Port: port, RefNm: pick(r, secretNames)}
				if r.Intn(2) == 0 {
					l.RefNS = pick(r, namespaces[:3])
				}
				// mostly reference secrets the conversion will accept (existing, valid key pair)
				for try := 0; try < 6; try++ {
					rns := l.RefNS
					if rns == "" {
						rns = g.NS
					}
					if sc := w.secret(rns, l.RefNm); sc != nil && sc.HasKey && !sc.Junk {
						break
					}
					l.RefNm = pick(r, secretNames)
				}
				g.Listeners = append(g.Listeners, l)
			}
			w.GwAPI = append(w.GwAPI, g)
		}
	}
	// ReferenceGrants: half of them aimed at a cross-namespace reference that gateway
	// configuration of this world really makes, the rest random; some are decoys that must not
	// grant Gateway -> Secret
	type xref struct{ from, to, name string }
	var xrefs []xref
	for _, g := range w.Gateways {
		for _, sv := range g.Servers {
			if rns, rn, ok := gatewayRef(sv.Credential); ok && rns != g.NS {
				xrefs = append(xrefs, xref{g.NS, rns, rn})
			}
		}
	}
	for _, g := range w.GwAPI {
		for _, l := range g.Listeners {
			if l.RefNS != "" && l.RefNS != g.NS {
				xrefs = append(xrefs, xref{g.NS, l.RefNS, l.RefNm})
			}
		}
	}
	for i, n := 0, r.Intn(5); i < n; i++ {
		g := grantSpec{
			NS: pick(r, namespaces[:3]), Name: fmt.Sprintf("grant-%d", i),
			FromGroup: "gateway.networking.k8s.io", FromKind: "Gateway", FromNS: pick(r, namespaces[:3]),
			ToGroup: "", ToKind: "Secret",
		}
		if r.Intn(2) == 0 {
			g.ToName = pick(r, secretNames)
		}
		if len(xrefs) > 0 && r.Intn(100) < 60 {
			x := pick(r, xrefs)
			g.NS, g.FromNS = x.to, x.from
			if g.ToName != "" && r.Intn(4) != 0 {
				g.ToName = x.name
			}
		}
		switch r.Intn(12) {
		case 0:
			g.FromKind = "HTTPRoute" // decoy: routes are not gateways
		case 1:
			g.ToKind = "ConfigMap" // decoy: not a secret
		case 2:
			g.ToKind = "Service"
		case 3:
			g.FromGroup = "networking.istio.io" // decoy: an Istio Gateway is not a Gateway-API Gateway
		}
		w.Grants = append(w.Grants, g)
	}
	return w
}

// genCredentialName draws a Gateway credentialName in one of the documented or hostile forms.
func genCredentialName(r *rand.Rand, gwNS string) string {
	other := pick(r, namespaces[:3])
	name := pick(r, secretNames)
	switch x := r.Intn(100); {
	case x < 25:
		return name // classic: secret in the proxy's namespace
	case x < 32:
		return "kubernetes://" + name
	case x < 40:
		return "kubernetes://" + other + "/" + name
	case x < 60:
		return "kubernetes-gateway://" + gwNS + "/" + name
	case x < 85:
		return "kubernetes-gateway://" + other + "/" + name
	case x < 90:
		return "kubernetes-gateway://" + other + "/" + name + "/extra"
	case x < 93:
		return "builtin://"
	case x < 96:
		return "configmap://" + other + "/ca-bundle"
	default:
		return other + "/" + name
	}
}

// ---------------------------------------------------------------------------------------
// materialisation

func (w *world) kubeObjects() []runtime.Object {
	w.materialise()
	var out []runtime.Object
	for _, ns := range namespaces {
		out = append(out, &corev1.Namespace{ObjectMeta: metav1.ObjectMeta{Name: ns}})
	}
	for _, s := range w.Secrets {
		o := &corev1.Secret{ObjectMeta: metav1.ObjectMeta{Name: s.Name, Namespace: s.NS}, Data: map[string][]byte{}}
		mt := w.mat["secret:"+s.NS+"/"+s.Name]
		switch s.Form {
		case "tls":
			o.Type = corev1.SecretTypeTLS
			o.Data["tls.crt"] = mt.Cert
			o.Data["tls.key"] = mt.Key
			if s.HasCA {
				o.Data["ca.crt"] = mt.CA
			}
		case "generic":
			o.Type = corev1.SecretTypeOpaque
			o.Data["cert"] = mt.Cert
			o.Data["key"] = mt.Key
			if s.HasCA {
				o.Data["cacert"] = mt.CA
			}
		case "ca-only":
			o.Type = corev1.SecretTypeOpaque
			o.Data["cacert"] = mt.CA
		}
		out = append(out, o)
	}
	for _, cm := range w.CMs {
		out = append(out, &corev1.ConfigMap{
			ObjectMeta: metav1.ObjectMeta{Name: cm[1], Namespace: cm[0]},
			Data:       map[string]string{"ca.crt": string(w.mat["configmap:"+cm[0]+"/"+cm[1]].CA)},
		})
	}
	for _, g := range w.Grants {
		to := gwv1beta1.ReferenceGrantTo{Group: gwv1.Group(g.ToGroup), Kind: gwv1.Kind(g.ToKind)}
		if g.ToName != "" {
			n := gwv1.ObjectName(g.ToName)
			to.Name = &n
		}
		out = append(out, &gwv1beta1.ReferenceGrant{
			ObjectMeta: metav1.ObjectMeta{Name: g.Name, Namespace: g.NS},
			Spec: gwv1beta1.ReferenceGrantSpec{
				From: []gwv1beta1.ReferenceGrantFrom{{Group: gwv1.Group(g.FromGroup), Kind: gwv1.Kind(g.FromKind), Namespace: gwv1.Namespace(g.FromNS)}},
				To:   []gwv1beta1.ReferenceGrantTo{to},
			},
		})
	}
	if len(w.GwAPI) > 0 {
		out = append(out, &gwv1.GatewayClass{
			ObjectMeta: metav1.ObjectMeta{Name: "istio"},
			Spec:       gwv1.GatewayClassSpec{ControllerName: "istio.io/gateway-controller"},
		})
	}
	for _, g := range w.GwAPI {
		gw := &gwv1.Gateway{
			ObjectMeta: metav1.ObjectMeta{Name: g.Name, Namespace: g.NS},
			Spec:       gwv1.GatewaySpec{GatewayClassName: "istio"},
		}
		svc := &corev1.Service{
			ObjectMeta: metav1.ObjectMeta{Name: g.Name + "-istio", Namespace: g.NS},
			Spec: corev1.ServiceSpec{
				ClusterIP: fmt.Sprintf("10.200.%d.%d", w.Index%200+1, len(out)%250+1),
				Selector:  map[string]string{"gateway.networking.k8s.io/gateway-name": g.Name},
			},
		}
		for _, l := range g.Listeners {
			mode := gwv1.TLSModeTerminate
			ref := gwv1.SecretObjectReference{Name: gwv1.ObjectName(l.RefNm)}
			if l.RefNS != "" {
				n := gwv1.Namespace(l.RefNS)
				ref.Namespace = &n
			}
			hn := gwv1.Hostname(fmt.Sprintf("%s.%s.gw.example.com", l.Name, g.Name))
			gw.Spec.Listeners = append(gw.Spec.Listeners, gwv1.Listener{
				Name: gwv1.SectionName(l.Name), Port: gwv1.PortNumber(l.Port), Protocol: gwv1.HTTPSProtocolType, Hostname: &hn,
				TLS: &gwv1.ListenerTLSConfig{Mode: &mode, CertificateRefs: []gwv1.SecretObjectReference{ref}},
			})
			svc.Spec.Ports = append(svc.Spec.Ports, corev1.ServicePort{Name: "https-" + l.Name, Port: int32(l.Port), TargetPort: intstr.FromInt32(int32(l.Port)), Protocol: corev1.ProtocolTCP})
		}
		out = append(out, gw, svc)
	}
	return out
}

func (w *world) configs() []config.Config {
	var out []config.Config
	for _, g := range w.Gateways {
		spec := &networking.Gateway{Selector: g.Selector}
		for i, s := range g.Servers {
			mode := networking.ServerTLSSettings_SIMPLE
			if s.Mode == "MUTUAL" {
				mode = networking.ServerTLSSettings_MUTUAL
			}
			spec.Servers = append(spec.Servers, &networking.Server{
				Port:  &networking.Port{Number: uint32(s.Port), Name: fmt.Sprintf("https-%d", i), Protocol: "HTTPS"},
				Hosts: []string{fmt.Sprintf("s%d.%s.%s.example.com", i, g.Name, g.NS)},
				Tls:   &networking.ServerTLSSettings{Mode: mode, CredentialName: s.Credential},
			})
		}
		out = append(out, config.Config{Meta: config.Meta{GroupVersionKind: gvk.Gateway, Name: g.Name, Namespace: g.NS}, Spec: spec})
	}
	// namespace-private witnesses: a proxy that receives the cluster of private.<ns>.example is
	// being served configuration as a member of <ns>
	for i, ns := range namespaces {
		out = append(out, config.Config{
			Meta: config.Meta{GroupVersionKind: gvk.ServiceEntry, Name: "private", Namespace: ns},
			Spec: &networking.ServiceEntry{
				Hosts:      []string{"private." + ns + ".example"},
				ExportTo:   []string{"."},
				Ports:      []*networking.ServicePort{{Number: 80, Name: "http", Protocol: "HTTP"}},
				Resolution: networking.ServiceEntry_STATIC,
				Endpoints:  []*networking.WorkloadEntry{{Address: fmt.Sprintf("10.77.0.%d", i+1)}},
			},
		})
	}
	out = append(out, config.Config{
		Meta: config.Meta{GroupVersionKind: gvk.ServiceEntry, Name: "public", Namespace: "team-b"},
		Spec: &networking.ServiceEntry{
			Hosts:      []string{"public.example"},
			Ports:      []*networking.ServicePort{{Number: 80, Name: "http", Protocol: "HTTP"}},
			Resolution: networking.ServiceEntry_STATIC,
			Endpoints:  []*networking.WorkloadEntry{{Address: "10.77.1.1"}},
		},
	})
	return out
}

// ---------------------------------------------------------------------------------------
// server

type sarLog struct {
	mu    sync.Mutex
	asked map[string]int
}

type server struct {
	f   *vh.F
	srv *xdsfake.FakeDiscoveryServer
	w   *world
	sar *sarLog
}

func newServer(w *world) *server {
	f := vh.NewF()
	sl := &sarLog{asked: map[string]int{}}
	srv := xdsfake.NewFakeDiscoveryServer(f, xdsfake.FakeOptions{
		KubernetesObjects: w.kubeObjects(),
		Configs:           w.configs(),
		KubeClientModifier: func(c kubelib.Client) {
			cc := c.Kube().(*fake.Clientset)
			cc.Fake.PrependReactor("create", "subjectaccessreviews", func(action k8stesting.Action) (bool, runtime.Object, error) {
				ca, ok := action.(k8stesting.CreateAction)
				if !ok {
					return true, nil, fmt.Errorf("verif: unexpected action")
				}
				sar, ok := ca.GetObject().(*authorizationv1.SubjectAccessReview)
				if !ok || sar.Spec.ResourceAttributes == nil {
					return true, nil, fmt.Errorf("verif: not a resource access review")
				}
				ra := sar.Spec.ResourceAttributes
				verdict := w.SAR[sar.Spec.User+"|"+ra.Namespace]
				// the table speaks about reading core secrets only
				if ra.Resource != "secrets" || ra.Group != "" || !(ra.Verb == "list" || ra.Verb == "get" || ra.Verb == "watch") {
					verdict = "deny"
				}
				if verdict == "" {
					verdict = "deny"
				}
				sl.mu.Lock()
				sl.asked[fmt.Sprintf("%s %s %s in %s -> %s", sar.Spec.User, ra.Verb, ra.Resource, ra.Namespace, verdict)]++
				sl.mu.Unlock()
				if verdict == "error" {
					return true, nil, fmt.Errorf("verif: apiserver unavailable")
				}
				return true, &authorizationv1.SubjectAccessReview{Status: authorizationv1.SubjectAccessReviewStatus{Allowed: verdict == "allow", Reason: "verif table"}}, nil
			})
		},
	})
	srv.Discovery.Authenticators = []security.Authenticator{harnessAuthenticator{}}
	xdsshim.InstallBarrier(srv.Discovery)
	sv := &server{f: f, srv: srv, w: w, sar: sl}
	// Gateway-API conversion and ReferenceGrant indexing run asynchronously (krt) after the
	// first push context exists: wait for whole-process quiescence before any client connects
	sv.waitIdle()
	return sv
}

// waitIdle waits until every accepted notification is committed, the push queue is empty and
// no goroutine of the process is runnable (internal/idle); watchdog => case inconclusive.
func (s *server) waitIdle() {
	ds := s.srv.Discovery
	ok, why := idle.Wait(func() bool {
		p, q := ds.PushQueueStateForVerif()
		return ds.InboundUpdates.Load() == ds.CommittedUpdates.Load() && p == 0 && q == 0
	}, 90*time.Second)
	if !ok {
		vh.Abort("control plane did not become idle: %s", firstLine(why))
	}
}

func (s *server) close() { s.f.Done() }

func sortedKeys[V any](m map[string]V) []string {
	out := make([]string, 0, len(m))
	for k := range m {
		out = append(out, k)
	}
	sort.Strings(out)
	return out
}

func hasPrefixAny(s string, ps ...string) bool {
	for _, p := range ps {
		if strings.HasPrefix(s, p) {
			return true
		}
	}
	return false
}
