package main

import (
	"math/rand"
	"runtime"
	"strings"
	"sync"
	"sync/atomic"
	"time"

	discovery "github.com/envoyproxy/go-control-plane/envoy/service/discovery/v3"

	"istio.io/istio/pilot/pkg/model"
	"istio.io/istio/pilot/pkg/xds"
	"istio.io/istio/pkg/cluster"
	"istio.io/istio/pkg/config"
	"istio.io/istio/pkg/util/sets"
)

// ---------------------------------------------------------------------------------------
// Pushes that do not come from a config update (monitor (b), second half).
//
// DiscoveryServer.ProxyUpdate (pod / WorkloadEntry label change of a connected proxy) and the debug
// push (AdsPushAll) create a PushRequest from the CURRENT global push context with Start = now while
// the debounce goroutine may be computing the NEXT push context (PushContext.InitContext) for a config
// change. The cache's stale-writer protection (token = Start vs time of the last Clear) is only sound
// if such a writer cannot get a Start later than the Clear of that change. The history monitor
// therefore issues these pushes for its connected clients while the history's config changes are being
// ingested, and stretches InitContext - only in time - with a harness-owned ConfigStore wrapper whose
// List sleeps when called from InitContext.
//
// Everything here observes or delays; nothing changes what istio computes. The observations name the
// window ("after the first config-store read of an InitContext, before its snapshot was published")
// for the evidence counters, and let a stale resource be traced to the push that wrote it.

// pushGroup collects what the debounce goroutine did while `old` was the published context, i.e.
// during the push that replaced it: its cache invalidation and its InitContext reads.
type pushGroup struct {
	clear time.Time   // when the discovery server invalidated the cache for this push (zero: not yet)
	lists []time.Time // InitContext's config-store reads
}

type writeRec struct {
	start time.Time // PushRequest.Start of the writer
	ctx   *model.PushContext
}

type window struct {
	old  *model.PushContext
	open time.Time
}

type instr struct {
	env       *model.Environment
	listDelay time.Duration

	mu     sync.Mutex
	groups map[*model.PushContext]*pushGroup
	adds   map[*discovery.Resource]writeRec

	win        atomic.Pointer[window]
	afterClear atomic.Pointer[func()]

	windows            atomic.Int64
	listsDelayed       atomic.Int64
	addsInside         atomic.Int64
	addsInsideAccepted atomic.Int64
	dsClears           atomic.Int64
}

func newInstr(env *model.Environment, listDelay time.Duration) *instr {
	return &instr{env: env, listDelay: listDelay, groups: map[*model.PushContext]*pushGroup{}, adds: map[*discovery.Resource]writeRec{}}
}

func (in *instr) group(old *model.PushContext) *pushGroup {
	g := in.groups[old]
	if g == nil {
		g = &pushGroup{}
		in.groups[old] = g
	}
	return g
}

// insideWindow: an InitContext has started reading the config store and the context it will replace
// is still the published one.
func (in *instr) insideWindow() *window {
	w := in.win.Load()
	if w != nil && in.env.PushContext() == w.old {
		return w
	}
	return nil
}

func calledFromInitContext() bool {
	var pcs [48]uintptr
	n := runtime.Callers(3, pcs[:])
	frames := runtime.CallersFrames(pcs[:n])
	for {
		f, more := frames.Next()
		if strings.HasSuffix(f.Function, "(*PushContext).InitContext") {
			return true
		}
		if !more {
			return false
		}
	}
}

// slowStore is the Environment's config store; List sleeps when PushContext.InitContext is the caller.
type slowStore struct {
	model.ConfigStore
	in *instr
}

func (s *slowStore) List(typ config.GroupVersionKind, namespace string) []config.Config {
	if calledFromInitContext() {
		in := s.in
		old := in.env.PushContext()
		now := time.Now()
		if w := in.win.Load(); w == nil || w.old != old {
			in.win.Store(&window{old: old, open: now})
			in.windows.Add(1)
		}
		in.mu.Lock()
		g := in.group(old)
		g.lists = append(g.lists, now)
		in.mu.Unlock()
		in.listsDelayed.Add(1)
		time.Sleep(in.listDelay)
	}
	return s.ConfigStore.List(typ, namespace)
}

// obsCache is the XdsCache the discovery server and the generators use (the endpoint index keeps the
// inner cache, so the invalidations seen here are the discovery server's).
type obsCache struct {
	model.XdsCache
	in *instr
}

func (c *obsCache) noteClear() {
	in := c.in
	old := in.env.PushContext()
	in.mu.Lock()
	in.group(old).clear = time.Now()
	in.mu.Unlock()
	in.dsClears.Add(1)
}

func (c *obsCache) Clear(s sets.Set[model.ConfigKey]) {
	c.noteClear()
	c.XdsCache.Clear(s)
	c.in.cleared()
}

func (c *obsCache) ClearAll() {
	c.noteClear()
	c.XdsCache.ClearAll()
	c.in.cleared()
}

// cleared runs after an invalidation by the discovery server has completed. Only the deterministic reproduction
// (repro.go) installs a gate here, to park the caller in the gap between invalidation and snapshot publication.
func (in *instr) cleared() {
	if g := in.afterClear.Load(); g != nil {
		(*g)()
	}
}

func (c *obsCache) Add(entry model.XdsCacheEntry, req *model.PushRequest, value *discovery.Resource) {
	in := c.in
	inside := false
	if req != nil && !req.Start.IsZero() {
		if w := in.insideWindow(); w != nil && req.Push == w.old && !req.Start.Before(w.open) {
			inside = true
		}
	}
	c.XdsCache.Add(entry, req, value)
	if req == nil || req.Start.IsZero() || !entry.Cacheable() {
		return
	}
	in.mu.Lock()
	in.adds[value] = writeRec{start: req.Start, ctx: req.Push}
	in.mu.Unlock()
	if inside {
		in.addsInside.Add(1)
		if c.XdsCache.Get(entry) == value {
			in.addsInsideAccepted.Add(1)
		}
	}
}

// writerOf traces a served resource to the push that wrote it into the cache.
func (in *instr) writerOf(r *discovery.Resource) (writeRec, bool) {
	in.mu.Lock()
	defer in.mu.Unlock()
	rec, ok := in.adds[r]
	return rec, ok
}

// Root causes of a stale entry whose writer generated from a push context older than the published one.
const (
	// the cache was invalidated for a change BEFORE the snapshot containing the change was computed: every push
	// created from the previous snapshot during that computation has a Start later than the invalidation
	causeClearedBeforeCompute = "cache-invalidated-before-the-next-snapshot-was-computed"
	// the snapshot was computed first; the writer's push was created in the gap between invalidation and publication
	causeBetweenClearAndPublish = "push-created-between-cache-invalidation-and-snapshot-publication"
)

// staleCause classifies the writer of a stale resource from what was observed of the push that replaced
// the writer's snapshot. "" = the writer is unknown or used the current snapshot.
func (in *instr) staleCause(rec writeRec, current *model.PushContext) (cause string, detail string) {
	if rec.ctx == nil || rec.ctx == current {
		return "", ""
	}
	in.mu.Lock()
	defer in.mu.Unlock()
	g := in.groups[rec.ctx]
	if g == nil || g.clear.IsZero() || rec.start.Before(g.clear) {
		return "", ""
	}
	after := 0
	for _, l := range g.lists {
		if l.After(g.clear) {
			after++
		}
	}
	if len(g.lists) == 0 {
		return "", "" // nothing was observed of the snapshot computation: no attribution
	}
	if after > 0 {
		return causeClearedBeforeCompute, "the discovery server invalidated the cache, then InitContext read the config store " + itoa(after) + " times, then the snapshot was published; the writer's Start lies " +
			rec.start.Sub(g.clear).String() + " after the invalidation"
	}
	return causeBetweenClearAndPublish, "InitContext's " + itoa(len(g.lists)) + " config-store reads preceded the invalidation; the writer's Start lies " + rec.start.Sub(g.clear).String() + " after the invalidation and it still got the previous snapshot"
}

func itoa(n int) string {
	const d = "0123456789"
	if n == 0 {
		return "0"
	}
	s := ""
	for n > 0 {
		s = string(d[n%10]) + s
		n /= 10
	}
	return s
}

// ---------------------------------------------------------------------------------------

// poker issues ProxyUpdate / debug pushes for the connected clients while it is active.
type poker struct {
	s       *server
	in      *instr
	clients []*adsClient
	prefix  []string // connection ID prefix (node ID) per client
	rng     *rand.Rand

	mu     sync.Mutex // held while a push is being issued
	active atomic.Bool
	stop   chan struct{}
	done   chan struct{}
	wake   chan struct{}
	once   sync.Once
	next   int

	proxyUpdates, pushAlls, inside int
}

func startPoker(s *server, clients []*adsClient, rng *rand.Rand) *poker {
	p := &poker{s: s, in: s.in, clients: clients, rng: rng, stop: make(chan struct{}), done: make(chan struct{}), wake: make(chan struct{}, 1)}
	for i, cl := range clients {
		p.prefix = append(p.prefix, nodeOf(i, cl.spec).Id+"-")
	}
	go p.loop()
	return p
}

func (p *poker) loop() {
	defer close(p.done)
	for {
		select {
		case <-p.stop:
			return
		default:
		}
		if !p.active.Load() {
			// parked on a channel: a paused poker must look idle to the quiescence detector
			select {
			case <-p.stop:
				return
			case <-p.wake:
			}
			continue
		}
		p.mu.Lock()
		if p.active.Load() {
			p.pokeOnce()
		}
		p.mu.Unlock()
		time.Sleep(time.Duration(100+p.rng.Intn(900)) * time.Microsecond)
	}
}

func (p *poker) resume() {
	p.active.Store(true)
	select {
	case p.wake <- struct{}{}:
	default:
	}
}

// pause returns when no push is being issued any more.
func (p *poker) pause() {
	p.active.Store(false)
	p.mu.Lock()
	p.mu.Unlock() // nolint: staticcheck (barrier)
}

func (p *poker) close() {
	p.once.Do(func() {
		p.pause()
		close(p.stop)
		<-p.done
	})
}

func (p *poker) pokeOnce() {
	ds := p.s.ds
	pending, processing := ds.PushQueueConnectionsForVerif()
	// a request merged into a queued one inherits the OLDER Start: only poke connections that have nothing queued,
	// and keep at most two pushes in flight (this is background load, not a stress test)
	if len(pending)+len(processing) >= 2 {
		return
	}
	busy := func(prefix string) bool {
		for _, id := range pending {
			if strings.HasPrefix(id, prefix) {
				return true
			}
		}
		for _, id := range processing {
			if strings.HasPrefix(id, prefix) {
				return true
			}
		}
		return false
	}
	before := p.in.insideWindow()
	if len(pending)+len(processing) == 0 && p.rng.Intn(8) == 0 {
		xds.AdsPushAll(ds) // what the debug endpoints' ?push=true does
		p.pushAlls++
	} else {
		k := -1
		for j := 0; j < len(p.clients); j++ {
			c := (p.next + j) % len(p.clients)
			if !busy(p.prefix[c]) {
				k = c
				break
			}
		}
		if k < 0 {
			return
		}
		p.next = k + 1
		sp := p.clients[k].spec
		ds.ProxyUpdate(cluster.ID(sp.Cluster), sp.IPs[0])
		p.proxyUpdates++
	}
	// the request's snapshot and Start were both taken between the two observations
	if after := p.in.insideWindow(); before != nil && after == before {
		p.inside++
	}
}
