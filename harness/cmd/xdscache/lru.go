package main

import (
	"encoding/binary"
	"fmt"
	"math/rand"
	"runtime"
	"sort"
	"sync"
	"sync/atomic"
	"time"

	discovery "github.com/envoyproxy/go-control-plane/envoy/service/discovery/v3"
	"google.golang.org/protobuf/types/known/anypb"

	"istio.io/istio/pilot/pkg/features"
	"istio.io/istio/pilot/pkg/model"
	"istio.io/istio/pkg/config/schema/kind"
	"istio.io/istio/pkg/util/sets"
	"verifharness/internal/vh"
)

// ---------------------------------------------------------------------------------------
// monitor (c): interleavings of Get / Add / Clear / ClearAll / eviction / Flush on the real cache
//
// Protocol of the callers (pilot/pkg/xds: StartPush stamps req.Start after the cache was cleared
// for the new snapshot; generators Get, on a miss read their inputs and Add with that request;
// EndpointIndex / ConfigUpdate change the data first and then Clear): a writer takes its Start
// token, THEN reads the versioned source, THEN Adds a value tagged with the versions it read; an
// updater bumps the versions of the configs it changes, THEN calls Clear(configs) (or ClearAll).
//
// Necessary condition checked over the recorded history (logical clock at call and return): a Get
// called after the return of a Clear that covered a dependency of the returned value must not
// return a value tagged with a version older than that updater's version.

type hEntry struct {
	idx       int
	typ       string
	ukey      uint64
	skey      string
	depsAlt   [2][]int // two alternative dependency sets (mostly identical)
	cacheable bool
}

// cacheEntry is what is handed to the cache: entry identity + the dependency set declared by
// this particular generation.
type cacheEntry struct {
	e    *hEntry
	deps []model.ConfigHash
}

func (c cacheEntry) Type() string { return c.e.typ }
func (c cacheEntry) Key() any {
	if c.e.typ == model.SDSType {
		return c.e.skey
	}
	return c.e.ukey
}
func (c cacheEntry) DependentConfigs() []model.ConfigHash { return c.deps }
func (c cacheEntry) Cacheable() bool                      { return c.e.cacheable }

var _ model.XdsCacheEntry = cacheEntry{}

type lruParams struct {
	Entries   int `json:"entries"`
	Configs   int `json:"configs"`
	MaxSize   int `json:"max_size"` // features.XDSCacheMaxSize for this run (0 = istio default)
	Writers   int `json:"writers"`
	Updaters  int `json:"updaters"`
	Readers   int `json:"readers"`
	Ops       int `json:"ops"`
	FlushUS   int `json:"flush_interval_us"`
	ClearAll  int `json:"clearall_pct"`
	PA        int `json:"peerauthn_pct"`
	YieldMax  int `json:"yield_max"`
	Snapshots int `json:"snapshot_push_pct"` // pushes that read all versions once, right after Start
	PushLen   int `json:"push_len"`
}

// value tag layout: entry(4) op(8) G(8) PA(8) n(1) { cfg(2) ver(8) }*
type tag struct {
	entry int
	op    uint64
	g, pa uint64
	cfgs  []int
	vers  []uint64
}

func encodeTag(t tag) *discovery.Resource {
	b := make([]byte, 0, 29+10*len(t.cfgs))
	b = binary.BigEndian.AppendUint32(b, uint32(t.entry))
	b = binary.BigEndian.AppendUint64(b, t.op)
	b = binary.BigEndian.AppendUint64(b, t.g)
	b = binary.BigEndian.AppendUint64(b, t.pa)
	b = append(b, byte(len(t.cfgs)))
	for i := range t.cfgs {
		b = binary.BigEndian.AppendUint16(b, uint16(t.cfgs[i]))
		b = binary.BigEndian.AppendUint64(b, t.vers[i])
	}
	return &discovery.Resource{Name: fmt.Sprintf("e%d", t.entry), Resource: &anypb.Any{TypeUrl: "verif/tag", Value: b}}
}

func decodeTag(r *discovery.Resource) (tag, bool) {
	b := r.GetResource().GetValue()
	if r.GetResource().GetTypeUrl() != "verif/tag" || len(b) < 29 {
		return tag{}, false
	}
	t := tag{entry: int(binary.BigEndian.Uint32(b)), op: binary.BigEndian.Uint64(b[4:]), g: binary.BigEndian.Uint64(b[12:]), pa: binary.BigEndian.Uint64(b[20:])}
	n := int(b[28])
	if len(b) != 29+10*n {
		return tag{}, false
	}
	for i := 0; i < n; i++ {
		o := 29 + 10*i
		t.cfgs = append(t.cfgs, int(binary.BigEndian.Uint16(b[o:])))
		t.vers = append(t.vers, binary.BigEndian.Uint64(b[o+2:]))
	}
	return t, true
}

type getRec struct {
	entry     int
	call, ret int64
	res       *discovery.Resource
}

type addRec struct {
	entry     int
	op        uint64
	call, ret int64
	startNS   int64
	t         tag
}

type clearRec struct {
	kind      string // "clear" | "clearall" | "peerauthn"
	cfgs      []int
	vers      []uint64 // version of each config after this updater's bump
	g, pa     uint64
	call, ret int64
	beforeNS  int64 // wall clock read after the bumps, before calling Clear
}

type clockSample struct{ mono, wall int64 }

type lruRun struct {
	p       lruParams
	cache   model.XdsCache
	entries []*hEntry
	cfgKeys []model.ConfigKey
	cfgHash []model.ConfigHash
	paKey   model.ConfigKey
	ver     []atomic.Uint64
	g, pa   atomic.Uint64
	clock   atomic.Int64
	opSeq   atomic.Uint64
	base    time.Time

	mu      sync.Mutex
	gets    []getRec
	adds    []addRec
	clears  []clearRec
	samples []clockSample
}

func (r *lruRun) now() (wallNS int64, t time.Time) {
	t = time.Now()
	return t.UnixNano(), t
}

func (r *lruRun) depHashes(cfgs []int) []model.ConfigHash {
	out := make([]model.ConfigHash, len(cfgs))
	for i, c := range cfgs {
		out[i] = r.cfgHash[c]
	}
	return out
}

var cfgKinds = []kind.Kind{kind.ServiceEntry, kind.DestinationRule, kind.VirtualService, kind.EnvoyFilter}

func newLruRun(p lruParams, r *rand.Rand) *lruRun {
	run := &lruRun{p: p, base: time.Now()}
	run.ver = make([]atomic.Uint64, p.Configs)
	for c := 0; c < p.Configs; c++ {
		k := model.ConfigKey{Kind: cfgKinds[c%len(cfgKinds)], Name: fmt.Sprintf("cfg-%d", c), Namespace: fmt.Sprintf("ns%d", c%3)}
		run.cfgKeys = append(run.cfgKeys, k)
		run.cfgHash = append(run.cfgHash, k.HashCode())
	}
	run.paKey = model.ConfigKey{Kind: kind.PeerAuthentication, Name: "default", Namespace: "ns0"}
	types := []string{model.EDSType, model.EDSType, model.CDSType, model.CDSType, model.RDSType, model.SDSType}
	perType := map[string]uint64{}
	for i := 0; i < p.Entries; i++ {
		e := &hEntry{idx: i, typ: types[i%len(types)], cacheable: true}
		// numeric keys deliberately collide across types (never within one): the typed caches must keep them apart
		perType[e.typ]++
		e.ukey = perType[e.typ]
		e.skey = fmt.Sprintf("sds-%d", i)
		nd := 1 + r.Intn(3)
		seen := map[int]bool{}
		for len(e.depsAlt[0]) < nd && len(e.depsAlt[0]) < p.Configs {
			c := r.Intn(p.Configs)
			if !seen[c] {
				seen[c] = true
				e.depsAlt[0] = append(e.depsAlt[0], c)
			}
		}
		sort.Ints(e.depsAlt[0])
		e.depsAlt[1] = e.depsAlt[0]
		if r.Intn(6) == 0 {
			// this key's dependency set differs between generations
			alt := append([]int(nil), e.depsAlt[0][1:]...)
			c := r.Intn(p.Configs)
			if !seen[c] {
				alt = append(alt, c)
			}
			if len(alt) > 0 {
				sort.Ints(alt)
				e.depsAlt[1] = alt
			}
		}
		if i%17 == 16 {
			e.cacheable = false
		}
		run.entries = append(run.entries, e)
	}
	return run
}

func (r *lruRun) stamp() int64 { return r.clock.Add(1) }

func (r *lruRun) doGet(e *hEntry, log *[]getRec) *discovery.Resource {
	ce := cacheEntry{e: e, deps: r.depHashes(e.depsAlt[0])}
	call := r.stamp()
	res := r.cache.Get(ce)
	ret := r.stamp()
	*log = append(*log, getRec{entry: e.idx, call: call, ret: ret, res: res})
	return res
}

// readVersions reads the source for the given dependency set (live read).
func (r *lruRun) readVersions(cfgs []int) []uint64 {
	out := make([]uint64, len(cfgs))
	for i, c := range cfgs {
		out[i] = r.ver[c].Load()
	}
	return out
}

type snapshot struct {
	vers  []uint64
	g, pa uint64
}

func (r *lruRun) takeSnapshot() *snapshot {
	s := &snapshot{vers: make([]uint64, len(r.ver)), g: r.g.Load(), pa: r.pa.Load()}
	for c := range r.ver {
		s.vers[c] = r.ver[c].Load()
	}
	return s
}

func (r *lruRun) doAdd(e *hEntry, start time.Time, snap *snapshot, alt int, log *[]addRec) {
	cfgs := e.depsAlt[alt]
	t := tag{entry: e.idx, op: r.opSeq.Add(1), cfgs: cfgs}
	if snap != nil {
		t.g, t.pa = snap.g, snap.pa
		t.vers = make([]uint64, len(cfgs))
		for i, c := range cfgs {
			t.vers[i] = snap.vers[c]
		}
	} else {
		t.g, t.pa = r.g.Load(), r.pa.Load()
		t.vers = r.readVersions(cfgs)
	}
	ce := cacheEntry{e: e, deps: r.depHashes(cfgs)}
	val := encodeTag(t)
	call := r.stamp()
	r.cache.Add(ce, &model.PushRequest{Start: start}, val)
	ret := r.stamp()
	*log = append(*log, addRec{entry: e.idx, op: t.op, call: call, ret: ret, startNS: start.UnixNano(), t: t})
}

func yield(n int) {
	for i := 0; i < n; i++ {
		runtime.Gosched()
	}
}

func (r *lruRun) writer(seed int64, wg *sync.WaitGroup) {
	defer wg.Done()
	rng := rand.New(rand.NewSource(seed))
	var gets []getRec
	var adds []addRec
	var samples []clockSample
	ops := 0
	for ops < r.p.Ops {
		// one "push": Start first, then (optionally) a snapshot of the source, then entries
		start := time.Now()
		samples = append(samples, clockSample{mono: int64(start.Sub(r.base)), wall: start.UnixNano()})
		var snap *snapshot
		if rng.Intn(100) < r.p.Snapshots {
			snap = r.takeSnapshot()
		}
		n := 1 + rng.Intn(r.p.PushLen)
		for k := 0; k < n && ops < r.p.Ops; k++ {
			e := r.entries[rng.Intn(len(r.entries))]
			ops++
			if r.doGet(e, &gets) != nil {
				continue // served from the cache, like the generators do
			}
			if r.p.YieldMax > 0 {
				yield(rng.Intn(r.p.YieldMax + 1))
			}
			ops++
			r.doAdd(e, start, snap, rng.Intn(2), &adds)
		}
	}
	r.mu.Lock()
	r.gets = append(r.gets, gets...)
	r.adds = append(r.adds, adds...)
	r.samples = append(r.samples, samples...)
	r.mu.Unlock()
}

func (r *lruRun) reader(seed int64, wg *sync.WaitGroup) {
	defer wg.Done()
	rng := rand.New(rand.NewSource(seed))
	var gets []getRec
	for i := 0; i < r.p.Ops; i++ {
		r.doGet(r.entries[rng.Intn(len(r.entries))], &gets)
		if i%64 == 0 {
			runtime.Gosched()
		}
	}
	r.mu.Lock()
	r.gets = append(r.gets, gets...)
	r.mu.Unlock()
}

func (r *lruRun) doUpdate(rng *rand.Rand, log *[]clearRec, samples *[]clockSample) {
	rec := clearRec{kind: "clear"}
	x := rng.Intn(100)
	switch {
	case x < r.p.ClearAll:
		rec.kind = "clearall"
	case x < r.p.ClearAll+r.p.PA:
		rec.kind = "peerauthn"
	}
	nc := 1 + rng.Intn(2)
	if rec.kind == "peerauthn" {
		nc = rng.Intn(2)
	}
	seen := map[int]bool{}
	for len(rec.cfgs) < nc {
		c := rng.Intn(r.p.Configs)
		if !seen[c] {
			seen[c] = true
			rec.cfgs = append(rec.cfgs, c)
		}
	}
	// 1. the data changes
	for _, c := range rec.cfgs {
		rec.vers = append(rec.vers, r.ver[c].Add(1))
	}
	switch rec.kind {
	case "clearall":
		rec.g = r.g.Add(1)
	case "peerauthn":
		rec.pa = r.pa.Add(1)
	}
	if r.p.YieldMax > 0 {
		yield(rng.Intn(r.p.YieldMax/2 + 1))
	}
	// 2. then the cache is invalidated
	t := time.Now()
	rec.beforeNS = t.UnixNano()
	*samples = append(*samples, clockSample{mono: int64(t.Sub(r.base)), wall: rec.beforeNS})
	rec.call = r.stamp()
	if rec.kind == "clearall" {
		r.cache.ClearAll()
	} else {
		s := sets.New[model.ConfigKey]()
		for _, c := range rec.cfgs {
			s.Insert(r.cfgKeys[c])
		}
		if rec.kind == "peerauthn" {
			s.Insert(r.paKey)
		}
		r.cache.Clear(s)
	}
	rec.ret = r.stamp()
	*log = append(*log, rec)
}

func (r *lruRun) updater(seed int64, wg *sync.WaitGroup) {
	defer wg.Done()
	rng := rand.New(rand.NewSource(seed))
	var clears []clearRec
	var samples []clockSample
	// updaters are slower than writers so that the cache fills between invalidations
	n := r.p.Ops / 24
	if n < 8 {
		n = 8
	}
	for i := 0; i < n; i++ {
		r.doUpdate(rng, &clears, &samples)
		yield(8 + rng.Intn(64))
	}
	r.mu.Lock()
	r.clears = append(r.clears, clears...)
	r.samples = append(r.samples, samples...)
	r.mu.Unlock()
}

// ---------------------------------------------------------------------------------------
// checker

type req struct {
	ret      int64
	ver      uint64
	beforeNS int64
}

// requirement lists, each sorted by return stamp
type reqIndex struct {
	byCfg map[int][]req
	g, pa []req
}

func buildReqIndex(clears []clearRec) *reqIndex {
	ix := &reqIndex{byCfg: map[int][]req{}}
	for _, c := range clears {
		for i, cfg := range c.cfgs {
			ix.byCfg[cfg] = append(ix.byCfg[cfg], req{ret: c.ret, ver: c.vers[i], beforeNS: c.beforeNS})
		}
		switch c.kind {
		case "clearall":
			ix.g = append(ix.g, req{ret: c.ret, ver: c.g, beforeNS: c.beforeNS})
		case "peerauthn":
			ix.pa = append(ix.pa, req{ret: c.ret, ver: c.pa, beforeNS: c.beforeNS})
		}
	}
	srt := func(l []req) { sort.Slice(l, func(i, j int) bool { return l[i].ret < l[j].ret }) }
	for _, l := range ix.byCfg {
		srt(l)
	}
	srt(ix.g)
	srt(ix.pa)
	return ix
}

// violated returns the updater requirements that returned before stamp `before` and demand a
// version above have.
func violated(l []req, before int64, have uint64) []req {
	n := sort.Search(len(l), func(i int) bool { return l[i].ret >= before })
	var out []req
	for _, q := range l[:n] {
		if q.ver > have {
			out = append(out, q)
		}
	}
	return out
}

type lruStats struct {
	gets, hits, hitsAfterCoveringClear int
	adds, staleAddsAfterClear          int
	clears, clearAlls, peerAuthns      int
	ties                               int
}

func (r *lruRun) check(c *vh.Ctx, desc string) lruStats {
	var st lruStats
	ix := buildReqIndex(r.clears)
	addByOp := make(map[uint64]*addRec, len(r.adds))
	for i := range r.adds {
		addByOp[r.adds[i].op] = &r.adds[i]
	}
	for _, cl := range r.clears {
		switch cl.kind {
		case "clearall":
			st.clearAlls++
		case "peerauthn":
			st.peerAuthns++
		default:
			st.clears++
		}
	}
	// clock sanity: the wall clock must not have stepped back relative to the monotonic clock
	sort.Slice(r.samples, func(i, j int) bool { return r.samples[i].mono < r.samples[j].mono })
	// (a single low sample is a thread descheduled between the two clock reads of time.Now(), not a step: a step persists)
	clockStepped := false
	off := func(i int) int64 { return r.samples[i].wall - r.samples[i].mono }
	for i := 1; i < len(r.samples); i++ {
		if off(i) < off(i-1)-50_000 && (i+1 >= len(r.samples) || off(i+1) < off(i-1)-50_000) {
			clockStepped = true
		}
	}
	report := func(key, msg string, payload map[string]any) {
		if clockStepped {
			c.Inconclusive("wall clock stepped backwards during the run; " + key)
			return
		}
		payload["params"] = r.p
		c.Violation(key, desc+": "+msg, payload)
	}
	st.adds = len(r.adds)
	for i := range r.adds {
		a := &r.adds[i]
		stale := false
		for j, cfg := range a.t.cfgs {
			if len(violated(ix.byCfg[cfg], a.call, a.t.vers[j])) > 0 {
				stale = true
			}
		}
		if len(violated(ix.g, a.call, a.t.g)) > 0 {
			stale = true
		}
		if stale {
			st.staleAddsAfterClear++
		}
	}
	st.gets = len(r.gets)
	for i := range r.gets {
		g := &r.gets[i]
		if g.res == nil {
			continue
		}
		st.hits++
		e := r.entries[g.entry]
		t, ok := decodeTag(g.res)
		if !ok {
			report("lru:foreign-value", fmt.Sprintf("Get(entry %d, %s) returned a value that no writer of this run produced", g.entry, e.typ), map[string]any{"entry": g.entry})
			continue
		}
		if t.entry != g.entry {
			report("lru:wrong-entry:"+e.typ, fmt.Sprintf("Get(entry %d type %s key %v) returned the value written for entry %d (type %s)", g.entry, e.typ, cacheEntry{e: e}.Key(), t.entry, r.entries[t.entry].typ),
				map[string]any{"asked": g.entry, "got": t.entry})
			continue
		}
		if !e.cacheable {
			report("lru:uncacheable-served", fmt.Sprintf("Get(entry %d) returned a value although the entry is not cacheable", g.entry), map[string]any{"entry": g.entry})
			continue
		}
		w := addByOp[t.op]
		covered := false
		type miss struct {
			what string
			q    []req
			have uint64
		}
		var misses []miss
		for j, cfg := range t.cfgs {
			l := ix.byCfg[cfg]
			if n := sort.Search(len(l), func(i int) bool { return l[i].ret >= g.call }); n > 0 {
				covered = true
			}
			if q := violated(l, g.call, t.vers[j]); len(q) > 0 {
				misses = append(misses, miss{what: fmt.Sprintf("config %s", r.cfgKeys[cfg]), q: q, have: t.vers[j]})
			}
		}
		if n := sort.Search(len(ix.g), func(i int) bool { return ix.g[i].ret >= g.call }); n > 0 {
			covered = true
		}
		if q := violated(ix.g, g.call, t.g); len(q) > 0 {
			misses = append(misses, miss{what: "ClearAll epoch", q: q, have: t.g})
		}
		paMiss := false
		if e.typ == model.EDSType {
			if n := sort.Search(len(ix.pa), func(i int) bool { return ix.pa[i].ret >= g.call }); n > 0 {
				covered = true
			}
			if q := violated(ix.pa, g.call, t.pa); len(q) > 0 {
				misses = append(misses, miss{what: "PeerAuthentication epoch", q: q, have: t.pa})
				paMiss = true
			}
		}
		if covered {
			st.hitsAfterCoveringClear++
		}
		if len(misses) == 0 {
			continue
		}
		// clock tie? the stale writer's Start must be strictly before the covering Clear was called
		strict := false
		var wit req
		for _, m := range misses {
			for _, q := range m.q {
				if w != nil && w.startNS < q.beforeNS {
					strict = true
					wit = q
				}
			}
		}
		if !strict {
			st.ties++
			continue
		}
		m := misses[0]
		key := "lru:stale-after-clear:" + e.typ
		if paMiss && len(misses) == 1 {
			key = "lru:stale-after-peerauthn-clear:eds"
		} else if m.what == "ClearAll epoch" {
			key = "lru:stale-after-clearall:" + e.typ
		}
		report(key, fmt.Sprintf("Get(entry %d, %s) called at logical time %d returned a value tagged %s=%d although an updater that moved it to %d had returned from its Clear at %d; the value was added by op %d (Start %dns before that Clear was called, Add call@%d ret@%d)",
			g.entry, e.typ, g.call, m.what, m.have, wit.ver, wit.ret, t.op, wit.beforeNS-w.startNS, w.call, w.ret),
			map[string]any{"get": map[string]any{"entry": g.entry, "call": g.call, "ret": g.ret}, "value": map[string]any{"op": t.op, "cfgs": t.cfgs, "vers": t.vers, "g": t.g, "pa": t.pa},
				"add": map[string]any{"call": w.call, "ret": w.ret, "start_ns": w.startNS}, "clear": map[string]any{"ret": wit.ret, "ver": wit.ver, "before_ns": wit.beforeNS}})
	}
	return st
}

// ---------------------------------------------------------------------------------------
// quiescent checks: final sweep, Clear(k) => dependants miss, Keys/Snapshot consistency, bound

func (r *lruRun) quiescent(c *vh.Ctx, desc string, rng *rand.Rand) (evictions int) {
	var gets []getRec
	// final sweep: whatever survived all invalidations must be current (recorded as Gets after everything)
	for _, e := range r.entries {
		r.doGet(e, &gets)
	}
	r.gets = append(r.gets, gets...)

	viol := func(key, msg string, payload map[string]any) {
		if payload == nil {
			payload = map[string]any{}
		}
		payload["params"] = r.p
		c.Violation(key, desc+": "+msg, payload)
	}
	limit := r.p.MaxSize
	if limit <= 0 {
		limit = 60000
	}
	checkKeys := func(when string) {
		total := 0
		for _, typ := range []string{model.CDSType, model.EDSType, model.RDSType, model.SDSType} {
			ks := r.cache.Keys(typ)
			total += len(ks)
			if len(ks) > limit {
				viol("lru:size-bound", fmt.Sprintf("%s: %d %s keys cached with a maximum size of %d", when, len(ks), typ, limit), nil)
			}
			present := map[any]bool{}
			for _, k := range ks {
				present[k] = true
			}
			for _, e := range r.entries {
				if e.typ != typ {
					continue
				}
				var scratch []getRec
				k := cacheEntry{e: e}.Key()
				got := r.doGet(e, &scratch) != nil
				if got && !present[k] {
					viol("lru:keys-inconsistent", fmt.Sprintf("%s: Get(%s %v) hits but Keys(%s) does not list it", when, typ, k, typ), nil)
				}
				if !got && present[k] && e.cacheable {
					viol("lru:keys-inconsistent", fmt.Sprintf("%s: Keys(%s) lists %v but Get misses", when, typ, k), nil)
				}
			}
		}
		snap := r.cache.Snapshot()
		if len(snap) != total {
			viol("lru:snapshot-inconsistent", fmt.Sprintf("%s: Snapshot has %d values, Keys list %d", when, len(snap), total), nil)
		}
		for _, v := range snap {
			if v == nil {
				viol("lru:snapshot-inconsistent", when+": Snapshot contains a nil value", nil)
				continue
			}
			if t, ok := decodeTag(v); !ok || t.entry >= len(r.entries) {
				viol("lru:snapshot-inconsistent", when+": Snapshot contains a value no writer produced", nil)
			}
		}
	}
	checkKeys("after the concurrent phase")

	// fill, then Clear(k): every entry depending on k misses
	fill := func() int {
		var adds []addRec
		start := time.Now()
		for _, e := range r.entries {
			r.doAdd(e, start, nil, 0, &adds)
		}
		r.adds = append(r.adds, adds...)
		n := 0
		var scratch []getRec
		for _, e := range r.entries {
			if r.doGet(e, &scratch) != nil {
				n++
			}
		}
		return n
	}
	cached := fill()
	cacheable := 0
	for _, e := range r.entries {
		if e.cacheable {
			cacheable++
		}
	}
	if cached < cacheable && cacheable <= limit {
		// every typed cache holds at most `limit` entries; with room for all, all must be there unless a Clear raced (none does now)
		viol("lru:add-lost-at-quiescence", fmt.Sprintf("after adding all %d cacheable entries with a fresh Start and no concurrent invalidation only %d are served", cacheable, cached), nil)
	}
	perType := map[string]int{}
	for _, e := range r.entries {
		if e.cacheable {
			perType[e.typ]++
		}
	}
	for typ, n := range perType {
		if n > limit {
			evictions += n - len(r.cache.Keys(typ))
		}
	}
	time.Sleep(time.Duration(3*r.p.FlushUS) * time.Microsecond) // let a Flush run over the eviction queue (scheduling only)
	cached = fill()
	for round := 0; round < 6; round++ {
		cfg := rng.Intn(r.p.Configs)
		// which entries are served right now and declare cfg?
		var dependants, others []*hEntry
		var scratch []getRec
		for _, e := range r.entries {
			res := r.doGet(e, &scratch)
			if res == nil {
				continue
			}
			t, _ := decodeTag(res)
			dep := false
			for _, x := range t.cfgs {
				if x == cfg {
					dep = true
				}
			}
			if dep {
				dependants = append(dependants, e)
			} else {
				others = append(others, e)
			}
		}
		var clears []clearRec
		var samples []clockSample
		r.ver[cfg].Add(1)
		rec := clearRec{kind: "clear", cfgs: []int{cfg}, vers: []uint64{r.ver[cfg].Load()}, beforeNS: time.Now().UnixNano()}
		rec.call = r.stamp()
		r.cache.Clear(sets.New(r.cfgKeys[cfg]))
		rec.ret = r.stamp()
		clears = append(clears, rec)
		r.clears = append(r.clears, clears...)
		_ = samples
		for _, e := range dependants {
			if r.doGet(e, &scratch) != nil {
				viol("lru:clear-left-dependant:"+e.typ, fmt.Sprintf("at quiescence, after Clear(%s) entry %d (%s), whose cached value declared that dependency, is still served", r.cfgKeys[cfg], e.idx, e.typ),
					map[string]any{"entry": e.idx, "config": r.cfgKeys[cfg].String()})
			}
		}
		still := 0
		for _, e := range others {
			if r.doGet(e, &scratch) != nil {
				still++
			}
		}
		c.Count("lru_quiescent_dependants_cleared", len(dependants))
		c.Count("lru_quiescent_independent_entries_still_served", still)
		fill()
	}
	checkKeys("after the quiescent phase")
	return evictions
}

// ---------------------------------------------------------------------------------------

func lruParamsFor(i int, r *rand.Rand, ops int) lruParams {
	p := lruParams{Entries: 64, Configs: 12, Writers: 3, Updaters: 3, Readers: 2, Ops: ops, FlushUS: 1000, ClearAll: 8, PA: 8, YieldMax: 8, Snapshots: 30, PushLen: 6}
	switch i % 8 {
	case 0:
	case 1: // LRU eviction heavy
		p.MaxSize, p.Entries, p.FlushUS = 6, 96, 300
	case 2: // a single writer: nothing else advances the cache token between a Clear and a late Add
		p.Writers, p.Updaters, p.Readers, p.YieldMax, p.Snapshots = 1, 2, 5, 32, 60
	case 3: // tiny cache, frequent ClearAll
		p.MaxSize, p.Entries, p.Configs, p.ClearAll = 3, 40, 6, 35
	case 4: // high contention on few keys
		p.Entries, p.Configs, p.Writers, p.Updaters, p.Readers = 8, 3, 4, 2, 2
	case 5: // long-lived snapshots, PeerAuthentication heavy
		p.Snapshots, p.PA, p.PushLen, p.YieldMax = 90, 30, 12, 24
	case 6: // two writers, many updaters
		p.Writers, p.Updaters, p.Readers, p.MaxSize, p.FlushUS = 2, 5, 1, 24, 200
	default:
		p.Entries = 8 + r.Intn(120)
		p.Configs = 2 + r.Intn(20)
		p.MaxSize = []int{0, 0, 2, 5, 10, 30}[r.Intn(6)]
		p.Writers = 1 + r.Intn(4)
		p.Updaters = 1 + r.Intn(3)
		p.Readers = 8 - p.Writers - p.Updaters
		p.FlushUS = []int{100, 1000, 20000}[r.Intn(3)]
		p.ClearAll = r.Intn(30)
		p.PA = r.Intn(20)
		p.YieldMax = r.Intn(40)
		p.Snapshots = r.Intn(100)
		p.PushLen = 1 + r.Intn(12)
	}
	return p
}

func runInterleavings(c *vh.Ctx) {
	n := c.N(20, 300)
	origSize, origFlush := features.XDSCacheMaxSize, features.XDSCacheIndexClearInterval
	defer func() { features.XDSCacheMaxSize, features.XDSCacheIndexClearInterval = origSize, origFlush }()
	for i := 0; i < n; i++ {
		if !c.Mine(i) {
			continue
		}
		c.Case(fmt.Sprintf("lru/%d", i), func() {
			rng := c.Rng("lru", i)
			ops := 20000 // per goroutine; the runs beyond the quick prefix are a little longer (measured: 60000 made thorough take 38 min)
			if i >= 20 {
				ops = 24000
			}
			p := lruParamsFor(i, rng, ops)
			desc := fmt.Sprintf("cache run %d %+v", i, p)
			// the typed caches read these when they are constructed and on ClearAll; no cache of an earlier
			// monitor is alive any more (their servers were shut down), so nothing reads them concurrently
			features.XDSCacheMaxSize = p.MaxSize
			if p.MaxSize == 0 {
				features.XDSCacheMaxSize = origSize
			}
			features.XDSCacheIndexClearInterval = time.Duration(p.FlushUS) * time.Microsecond
			run := newLruRun(p, rng)
			run.cache = model.NewXdsCache()
			stop := make(chan struct{})
			run.cache.Run(stop)
			var wg sync.WaitGroup
			for g := 0; g < p.Writers; g++ {
				wg.Add(1)
				go run.writer(rng.Int63(), &wg)
			}
			for g := 0; g < p.Updaters; g++ {
				wg.Add(1)
				go run.updater(rng.Int63(), &wg)
			}
			for g := 0; g < p.Readers; g++ {
				wg.Add(1)
				go run.reader(rng.Int63(), &wg)
			}
			done := make(chan struct{})
			go func() { wg.Wait(); close(done) }()
			select {
			case <-done:
			case <-time.After(120 * time.Second):
				close(stop)
				c.Inconclusive("cache run did not finish (watchdog)")
				return
			}
			evictions := run.quiescent(c, desc, rng)
			close(stop)
			st := run.check(c, desc)
			c.Count("lru_runs", 1)
			c.Count("lru_gets", st.gets)
			c.Count("lru_hits", st.hits)
			c.Count("lru_hits_after_covering_clear", st.hitsAfterCoveringClear)
			c.Count("lru_adds", st.adds)
			c.Count("lru_outdated_adds_after_clear_returned", st.staleAddsAfterClear)
			c.Count("lru_clears", st.clears)
			c.Count("lru_clearalls", st.clearAlls)
			c.Count("lru_peerauthn_clears", st.peerAuthns)
			c.Count("lru_clock_ties", st.ties)
			c.Count("lru_size_evictions_at_quiescence", evictions)
			c.Max("lru_ops_in_one_run", st.gets+st.adds+st.clears+st.clearAlls+st.peerAuthns)
			c.SetAdd("lru_strata", fmt.Sprintf("size=%d entries=%d w/u/r=%d/%d/%d", p.MaxSize, p.Entries, p.Writers, p.Updaters, p.Readers))
			if st.hitsAfterCoveringClear > 0 && st.staleAddsAfterClear > 0 {
				c.Nontrivial(vh.Hash("lru", i, p))
			}
			if i < 3 {
				c.Sample(map[string]any{"monitor": "lru", "params": p, "gets": st.gets, "hits": st.hits, "hits_after_covering_clear": st.hitsAfterCoveringClear,
					"adds": st.adds, "outdated_adds_after_clear_returned": st.staleAddsAfterClear, "clears": st.clears + st.clearAlls + st.peerAuthns})
			}
		})
	}
}
