package main

import (
	"fmt"
	"math/rand"
	"sort"
	"strings"

	"verifharness/internal/vh"
)

// ---------------------------------------------------------------------------------------
// monitor (a): key completeness over pairs of proxies that differ in exactly one attribute

type pairCase struct {
	World   int
	Profile string
	Variant int
	Attr    int
}

// quickPairCases is the length of the prefix of pairCases that the quick tier evaluates.
var quickPairCases int

// pairCases lists the cases: a prefix that walks every attribute in two worlds on PRNG-chosen profiles and
// base variants, then the full attribute x world x profile product on plain bases (the quick tier ends here,
// so that which key fields it exercises does not depend on the seed), then PRNG-chosen base variants.
func pairCases(c *vh.Ctx) []pairCase {
	var out []pairCase
	pickProfile := func(r *rand.Rand, w int, a attribute) string {
		var ok []string
		for _, pn := range worlds[w].Profiles {
			if a.applies(profiles[pn]) {
				ok = append(ok, pn)
			}
		}
		if len(ok) == 0 {
			return ""
		}
		return ok[r.Intn(len(ok))]
	}
	for ai := range attributes {
		for w := 0; w < 2; w++ {
			r := c.Rng("pair-prefix", len(out))
			pc := pairCase{World: w, Attr: ai, Profile: pickProfile(r, w, attributes[ai])}
			if r.Intn(2) == 0 {
				pc.Variant = r.Intn(len(baseVariants))
			}
			out = append(out, pc)
		}
	}
	for w := range worlds {
		for _, pn := range worlds[w].Profiles {
			for ai := range attributes {
				if attributes[ai].applies(profiles[pn]) {
					out = append(out, pairCase{World: w, Profile: pn, Attr: ai})
				}
			}
		}
	}
	quickPairCases = len(out)
	for k := 0; k < 260; k++ {
		r := c.Rng("pair-random", k)
		w := r.Intn(len(worlds))
		ai := r.Intn(len(attributes))
		out = append(out, pairCase{World: w, Attr: ai, Profile: pickProfile(r, w, attributes[ai]), Variant: 1 + r.Intn(len(baseVariants)-1)})
	}
	return out
}

func runKeys(c *vh.Ctx) {
	cases := pairCases(c)
	n := c.N(quickPairCases, len(cases))
	servers := map[int]*server{}
	defer func() {
		for _, s := range servers {
			s.close()
		}
	}()
	for i := 0; i < n; i++ {
		if !c.Mine(i) {
			continue
		}
		pc := cases[i]
		if pc.Profile == "" {
			continue
		}
		a := attributes[pc.Attr]
		desc := fmt.Sprintf("pair/%d/%s/%s/%s/%s", i, worlds[pc.World].Name, pc.Profile, baseVariants[pc.Variant].Name, a.Name)
		base := profiles[pc.Profile].clone()
		baseVariants[pc.Variant].Apply(&base)
		basePrep(a.Name, &base)
		alt := base.clone()
		a.Apply(&alt)
		if specString(alt) == specString(base) {
			// the variant already has the alternative value: not a pair, nothing is evaluated
			// (one Case = one evaluated pair, so that evaluations and distinct_nontrivial count the same unit)
			c.Count("pairs_degenerate", 1)
			continue
		}
		c.Case(desc, func() {
			s := servers[pc.World]
			if s == nil {
				s = startServer(worlds[pc.World].Opts(), worlds[pc.World].Shards)
				servers[pc.World] = s
			}
			evalPair(c, s, pc, base, alt)
		})
	}
}

func evalPair(c *vh.Ctx, s *server, pc pairCase, base, alt proxySpec) {
	attr := attributes[pc.Attr].Name
	world := worlds[pc.World].Name
	push := s.srv.PushContext()
	hitsSecond, separated := 0, false
	var sep []string
	for dir := 0; dir < 2; dir++ {
		first, second := base, alt
		dirName := "base-then-alt"
		if dir == 1 {
			first, second = alt, base
			dirName = "alt-then-base"
		}
		s.cache.ClearAll()
		p1 := s.srv.SetupProxy(first.build())
		routes1 := s.routeNames(p1, push)
		warm1 := generate(s.warm, p1, push, routes1)
		if warm1.allHits() != 0 {
			vh.Abort("cache not empty after ClearAll: %d hits", warm1.allHits())
		}
		p2 := s.srv.SetupProxy(second.build())
		routes2 := s.routeNames(p2, push)
		served2 := generate(s.warm, p2, push, routes2)
		fresh2 := generate(s.cold, s.srv.SetupProxy(second.build()), push, routes2)
		// and the first proxy again, now served from its own (and possibly the second's) entries
		served1 := generate(s.warm, s.srv.SetupProxy(first.build()), push, routes1)
		fresh1 := generate(s.cold, s.srv.SetupProxy(first.build()), push, routes1)

		report := func(served, fresh, otherFresh *output, who proxySpec, other proxySpec, routes []string, kind string) {
			diffs := compare(served, fresh)
			c.Count("resources_compared", fresh.count())
			if len(diffs) == 0 {
				return
			}
			// is fresh generation itself reproducible? (otherwise the difference is not the cache's)
			again := generate(s.cold, s.srv.SetupProxy(who.build()), push, routes)
			if d2 := compare(again, fresh); len(d2) > 0 {
				c.Inconclusive(fmt.Sprintf("fresh generation is not reproducible for %s %s (%s): cannot attribute the difference to the cache", d2[0].Type, d2[0].Name, d2[0].What))
				return
			}
			byType := map[string][]difference{}
			for _, d := range diffs {
				byType[d.Type] = append(byType[d.Type], d)
			}
			for _, t := range cacheTypes {
				ds := byType[t]
				if len(ds) == 0 {
					continue
				}
				d := ds[0]
				var names []string
				for _, x := range ds {
					names = append(names, x.Name+"("+x.What+")")
				}
				// generic key: resource type + differing attribute. A difference whose input shape and diff shape match an
				// analysed root cause (explain.go) names that cause instead, so that anything else stays visible.
				key := fmt.Sprintf("%s:%s:%s", kind, t, attr)
				cause := explain(pairObservation{s: s, typ: t, served: who, warmedBy: other, diffs: ds, servedOut: served, freshOut: fresh, otherFresh: otherFresh})
				if cause != "" {
					key = fmt.Sprintf("%s:cause=%s:%s:%s", kind, cause, t, attr)
					c.Count("pair_violations_attributed_to_an_analysed_root_cause", 1)
				} else {
					c.Count("pair_violations_without_analysed_root_cause", 1)
				}
				msg := fmt.Sprintf("world %s, %s: proxy [%s] was served %s resources %v that differ from a fresh generation on the same snapshot, after the cache was warmed by proxy [%s] (differs only in %s). %s %s: %s",
					world, dirName, specString(who), strings.ToUpper(t), names, specString(other), attr, d.Name, d.What, d.Diff)
				c.Violation(key, msg, map[string]any{"world": world, "attribute": attr, "direction": dirName, "served_to": who, "cache_warmed_by": other,
					"type": t, "resources": names, "diff": d.Diff, "cause": cause})
			}
		}
		report(served2, fresh2, fresh1, second, first, routes2, "key-incomplete")
		report(served1, fresh1, fresh2, first, second, routes1, "self-serve")

		hitsSecond += served2.allHits()
		for _, t := range cacheTypes {
			c.Count("cache_hits_second_proxy:"+t, served2.hits[t])
			c.Count("cache_lookups_second_proxy:"+t, served2.total[t])
			c.Count("cache_hits_first_proxy_again:"+t, served1.hits[t])
			if served2.hits[t] > 0 {
				c.SetAdd("attribute_shares_cached_"+t, attr)
			}
			if dir == 0 && len(compare(fresh2, fresh1)) > 0 {
				for _, d := range compare(fresh2, fresh1) {
					if d.Type == t {
						separated = true
						sep = append(sep, t)
						c.SetAdd("attribute_changes_fresh_"+t, attr)
						break
					}
				}
			}
		}
		if served1.allHits() == 0 {
			c.Count("pairs_first_proxy_never_hit", 1)
		}
	}
	c.Count("pairs", 1)
	c.SetAdd("pairs_per_attribute", fmt.Sprintf("%s|%s|%s|%s", attr, world, pc.Profile, baseVariants[pc.Variant].Name))
	c.SetAdd("attributes", attr)
	if separated {
		c.Count("pairs_where_attribute_changes_output", 1)
	}
	if hitsSecond > 0 {
		c.Count("pairs_with_cross_proxy_hits", 1)
	}
	if hitsSecond > 0 || separated {
		c.Nontrivial(vh.Hash("pair", world, specString(base), specString(alt)))
	}
	sort.Strings(sep)
	c.Sample(map[string]any{"monitor": "keys", "world": world, "attribute": attr, "base": specString(base), "alt": specString(alt),
		"cross_proxy_cache_hits": hitsSecond, "fresh_outputs_differ_in": sep})
}
