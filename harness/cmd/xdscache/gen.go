package main

import (
	"bytes"
	"fmt"
	"os"
	"sort"
	"strconv"
	"strings"
	"time"

	clusterv3 "github.com/envoyproxy/go-control-plane/envoy/config/cluster/v3"
	discovery "github.com/envoyproxy/go-control-plane/envoy/service/discovery/v3"
	"github.com/google/go-cmp/cmp"
	"google.golang.org/protobuf/proto"
	"google.golang.org/protobuf/testing/protocmp"
	"google.golang.org/protobuf/types/known/anypb"

	"istio.io/istio/pilot/pkg/features"
	"istio.io/istio/pilot/pkg/model"
	"istio.io/istio/pilot/pkg/networking/core"
	"istio.io/istio/pilot/pkg/xds"
	v3 "istio.io/istio/pilot/pkg/xds/v3"
	xdsfake "istio.io/istio/pilot/test/xds"
	"istio.io/istio/pkg/util/sets"
	"verifharness/internal/idle"
	"verifharness/internal/vh"
)

const idleWatchdog = 90 * time.Second

// genset is one set of the three cacheable generators.
type genset struct {
	cds, eds, rds model.XdsResourceGenerator
}

// server is a fake istiod whose discovery server, generators and endpoint index share ONE real
// XdsCache (as bootstrap.NewServer wires them in production; the test fake leaves the endpoint
// index on a second cache instance, which would hide endpoint-driven invalidation), plus a set
// of reference generators on the same environment with caching disabled.
type server struct {
	f     *vh.F
	srv   *xdsfake.FakeDiscoveryServer
	ds    *xds.DiscoveryServer
	cache model.XdsCache
	warm  genset
	cold  genset
	lds   *core.ConfigGeneratorImpl
	// addresses of the east-west gateways of the world (for attributing differences, explain.go)
	gatewayAddrs map[string]bool
	// observation of pushes, invalidations and cache writes (history monitor only, poke.go)
	in *instr
}

func waitIdle(ds *xds.DiscoveryServer) {
	ok, why := idle.Wait(func() bool {
		p, q := ds.PushQueueStateForVerif()
		return ds.InboundUpdates.Load() == ds.CommittedUpdates.Load() && p == 0 && q == 0
	}, idleWatchdog)
	if !ok {
		fmt.Fprintln(os.Stderr, "IDLE-LOST", why)
		vh.Abort("control plane did not become idle: %s", firstLine(why))
	}
}

func firstLine(s string) string {
	if i := strings.IndexByte(s, '\n'); i >= 0 {
		return s[:i]
	}
	return s
}

func startServer(opts xdsfake.FakeOptions, shards func(*model.EndpointIndex)) *server {
	return startServerWith(opts, shards, 0)
}

// startServerWith: initContextListDelay > 0 additionally puts the observing cache wrapper and the slow config store
// (poke.go) in place.
func startServerWith(opts xdsfake.FakeOptions, shards func(*model.EndpointIndex), initContextListDelay time.Duration) *server {
	if !features.EnableXDSCaching || !features.EnableCDSCaching || !features.EnableRDSCaching {
		vh.Abort("xDS caching is disabled by the environment")
	}
	f := vh.NewF()
	s := &server{f: f, gatewayAddrs: map[string]bool{}}
	for _, g := range opts.Gateways {
		s.gatewayAddrs[g.Addr] = true
	}
	ok := false
	defer func() {
		if !ok {
			f.Done()
		}
	}()
	s.srv = xdsfake.NewFakeDiscoveryServer(f, opts)
	s.ds = s.srv.Discovery
	waitIdle(s.ds)
	env := s.srv.Env()
	// One cache for everything: the instance the endpoint index clears. Written while the server is
	// idle; the debounce goroutine's next read of ds.Cache is ordered after this by the push channel.
	s.cache = env.Cache
	if _, disabled := s.cache.(model.DisabledCache); disabled {
		vh.Abort("environment cache is disabled")
	}
	if initContextListDelay > 0 {
		// Both writes happen while the server is idle, like the one below. The endpoint index keeps the inner cache.
		s.in = newInstr(env, initContextListDelay)
		s.cache = &obsCache{XdsCache: s.cache, in: s.in}
		env.ConfigStore = &slowStore{ConfigStore: env.ConfigStore, in: s.in}
	}
	s.ds.Cache = s.cache
	stop := make(chan struct{})
	f.Cleanup(func() { close(stop) })
	s.cache.Run(stop)
	cg := core.NewConfigGenerator(s.cache)
	s.warm = genset{
		cds: &xds.CdsGenerator{ConfigGenerator: cg},
		eds: &xds.EdsGenerator{Cache: s.cache, EndpointIndex: env.EndpointIndex},
		rds: &xds.RdsGenerator{ConfigGenerator: cg},
	}
	s.ds.Generators[v3.ClusterType] = s.warm.cds
	s.ds.Generators[v3.EndpointType] = s.warm.eds
	s.ds.Generators[v3.RouteType] = s.warm.rds
	ncg := core.NewConfigGenerator(model.DisabledCache{})
	s.cold = genset{
		cds: &xds.CdsGenerator{ConfigGenerator: ncg},
		eds: &xds.EdsGenerator{Cache: model.DisabledCache{}, EndpointIndex: env.EndpointIndex},
		rds: &xds.RdsGenerator{ConfigGenerator: ncg},
	}
	s.lds = ncg
	if shards != nil {
		shards(env.EndpointIndex)
	}
	ok = true
	return s
}

func (s *server) close() {
	if s != nil && s.f != nil {
		s.f.Done()
	}
}

// ---------------------------------------------------------------------------------------

var cacheTypes = []string{"cds", "eds", "rds"}

// output is everything the three cacheable generators hand to one proxy.
type output struct {
	order map[string][]string                       // type -> resource names in response order
	res   map[string]map[string][]byte              // type -> name -> type URL + serialized resource
	ptr   map[string]map[string]*discovery.Resource // type -> name -> the object handed out (identifies a cache entry)
	hits  map[string]int
	total map[string]int // resources that went through the cache lookup
}

func newOutput() *output {
	return &output{order: map[string][]string{}, res: map[string]map[string][]byte{}, ptr: map[string]map[string]*discovery.Resource{}, hits: map[string]int{}, total: map[string]int{}}
}

func (o *output) add(typ string, rs model.Resources) {
	if o.res[typ] == nil {
		o.res[typ] = map[string][]byte{}
		o.ptr[typ] = map[string]*discovery.Resource{}
	}
	for _, r := range rs {
		o.ptr[typ][r.Name] = r
		o.order[typ] = append(o.order[typ], r.Name)
		b := append([]byte(r.Resource.GetTypeUrl()+"\x00"), r.Resource.GetValue()...)
		if _, dup := o.res[typ][r.Name]; dup {
			// keep both: a duplicate name is compared as an ordered concatenation
			b = append(append(o.res[typ][r.Name], 0xff), b...)
		}
		o.res[typ][r.Name] = b
	}
}

func (o *output) count() int {
	n := 0
	for _, m := range o.res {
		n += len(m)
	}
	return n
}

func (o *output) allHits() int {
	n := 0
	for _, h := range o.hits {
		n += h
	}
	return n
}

// parseCached reads the "cached:h/t" fragment the generators put in their log details.
func parseCached(info string) (h, t int, ok bool) {
	i := strings.Index(info, "cached:")
	if i < 0 {
		return 0, 0, false
	}
	f := info[i+len("cached:"):]
	if j := strings.IndexAny(f, " ,"); j >= 0 {
		f = f[:j]
	}
	a, b, found := strings.Cut(f, "/")
	if !found {
		return 0, 0, false
	}
	h, e1 := strconv.Atoi(a)
	t, e2 := strconv.Atoi(b)
	return h, t, e1 == nil && e2 == nil
}

// routeNames asks the (never cached) listener generator which routes the proxy would request.
func (s *server) routeNames(p *model.Proxy, push *model.PushContext) []string {
	ls := s.lds.BuildListeners(p, push)
	names := core.ExtractRoutesFromListeners(ls)
	sort.Strings(names)
	out := names[:0]
	for i, n := range names {
		if i == 0 || names[i-1] != n {
			out = append(out, n)
		}
	}
	return out
}

// generate runs CDS, then EDS for the EDS clusters of that CDS answer, then RDS for the given
// route names, the way a connected proxy is served.
func generate(gs genset, p *model.Proxy, push *model.PushContext, routes []string) *output {
	o := newOutput()
	req := func() *model.PushRequest {
		// Start is what stamps cache writes; a request without it is never cached.
		return &model.PushRequest{Forced: true, Push: push, Start: time.Now(), Reason: model.NewReasonStats(model.ProxyRequest)}
	}
	cres, cdet, err := gs.cds.Generate(p, &model.WatchedResource{TypeUrl: v3.ClusterType}, req())
	if err != nil {
		vh.Abort("cds: %v", err)
	}
	o.add("cds", cres)
	if h, t, ok := parseCached(cdet.AdditionalInfo); ok {
		o.hits["cds"], o.total["cds"] = h, t
	}
	edsNames := sets.New[string]()
	for _, r := range cres {
		c := &clusterv3.Cluster{}
		if err := r.Resource.UnmarshalTo(c); err != nil {
			vh.Abort("unmarshal cluster %s: %v", r.Name, err)
		}
		if c.GetType() == clusterv3.Cluster_EDS {
			n := c.GetEdsClusterConfig().GetServiceName()
			if n == "" {
				n = c.Name
			}
			edsNames.Insert(n)
		}
	}
	if len(edsNames) > 0 {
		eres, edet, err := gs.eds.Generate(p, &model.WatchedResource{TypeUrl: v3.EndpointType, ResourceNames: edsNames}, req())
		if err != nil {
			vh.Abort("eds: %v", err)
		}
		o.add("eds", eres)
		if h, t, ok := parseCached(edet.AdditionalInfo); ok {
			o.hits["eds"], o.total["eds"] = h, t
		}
	}
	if len(routes) > 0 {
		rres, rdet, err := gs.rds.Generate(p, &model.WatchedResource{TypeUrl: v3.RouteType, ResourceNames: sets.New(routes...)}, req())
		if err != nil {
			vh.Abort("rds: %v", err)
		}
		o.add("rds", rres)
		if h, t, ok := parseCached(rdet.AdditionalInfo); ok {
			o.hits["rds"], o.total["rds"] = h, t
		}
	}
	return o
}

// difference is one resource that differs between two outputs.
type difference struct {
	Type string
	Name string
	What string // "content" | "missing" | "extra" | "order"
	Diff string
}

// compare reports the differences of got (served with the warm shared cache) against want
// (generated afresh). EDS resource order follows the iteration order of the request's name set and
// is not part of the response contract, so order is only compared for CDS and RDS... and there only
// reported under its own kind.
func compare(got, want *output) []difference {
	var out []difference
	for _, t := range cacheTypes {
		names := map[string]bool{}
		for n := range got.res[t] {
			names[n] = true
		}
		for n := range want.res[t] {
			names[n] = true
		}
		sorted := make([]string, 0, len(names))
		for n := range names {
			sorted = append(sorted, n)
		}
		sort.Strings(sorted)
		for _, n := range sorted {
			g, gok := got.res[t][n]
			w, wok := want.res[t][n]
			switch {
			case !gok:
				out = append(out, difference{Type: t, Name: n, What: "missing"})
			case !wok:
				out = append(out, difference{Type: t, Name: n, What: "extra"})
			case !bytes.Equal(g, w):
				out = append(out, difference{Type: t, Name: n, What: "content", Diff: protoDiff(g, w)})
			}
		}
		if len(out) == 0 && t == "cds" && strings.Join(got.order[t], "\n") != strings.Join(want.order[t], "\n") {
			out = append(out, difference{Type: t, Name: "(response order)", What: "order"})
		}
	}
	return out
}

func decodeRes(b []byte) proto.Message {
	i := bytes.IndexByte(b, 0)
	if i < 0 {
		return nil
	}
	a := &anypb.Any{TypeUrl: string(b[:i]), Value: b[i+1:]}
	m, err := anypb.UnmarshalNew(a, proto.UnmarshalOptions{})
	if err != nil {
		return nil
	}
	return m
}

func protoDiff(got, want []byte) string {
	g, w := decodeRes(got), decodeRes(want)
	if g == nil || w == nil {
		return fmt.Sprintf("(undecodable; %d vs %d bytes)", len(got), len(want))
	}
	d := cmp.Diff(w, g, protocmp.Transform())
	if d == "" {
		return "(semantically equal protobufs, different serialization)"
	}
	// keep only changed lines and a little context
	var keep []string
	for _, l := range strings.Split(d, "\n") {
		if strings.HasPrefix(l, "-") || strings.HasPrefix(l, "+") {
			keep = append(keep, strings.Join(strings.Fields(l), " "))
		}
		if len(keep) >= 12 {
			break
		}
	}
	s := strings.Join(keep, " | ")
	if len(s) > 900 {
		s = s[:900] + "…"
	}
	return "fresh(-) vs served(+): " + s
}

func semanticallyEqual(got, want []byte) bool {
	g, w := decodeRes(got), decodeRes(want)
	return g != nil && w != nil && proto.Equal(g, w)
}

// resourcesOf is used for samples.
func namesOf(rs []*discovery.Resource) []string {
	out := make([]string, 0, len(rs))
	for _, r := range rs {
		out = append(out, r.Name)
	}
	return out
}
