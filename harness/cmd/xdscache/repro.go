package main

import (
	"fmt"
	"os"
	"sort"
	"strings"
	"sync"
	"time"

	clusterv3 "github.com/envoyproxy/go-control-plane/envoy/config/cluster/v3"
	"google.golang.org/protobuf/proto"

	networking "istio.io/api/networking/v1alpha3"
	"istio.io/istio/pilot/pkg/model"
	v3 "istio.io/istio/pilot/pkg/xds/v3"
	xdsfake "istio.io/istio/pilot/test/xds"
	"istio.io/istio/pkg/cluster"
	"istio.io/istio/pkg/config/schema/gvk"
	"istio.io/istio/pkg/security"
	"verifharness/internal/quiet"
	"verifharness/internal/vh"
)

// ---------------------------------------------------------------------------------------
// `xdscache repro <name>`: minimal reproductions of the findings of monitor (a). Each one is the
// smallest world in which two proxies that differ in ONE attribute share a cache entry although the
// generator reads that attribute. Prints the world, both proxies, the resource as generated afresh
// for each proxy and as served to the second proxy from the cache warmed by the first, and what the
// property demands. Exit status 1 = reproduced, 0 = istio behaves as the property demands.

type reproDef struct {
	Name     string
	Cause    string // the root cause, as it appears in the violation key
	About    string
	YAML     string
	Gateways []model.NetworkGateway
	A, B     func(s *proxySpec) // applied to the sidecar-ns1 profile; A warms the cache, B is served
	Type     string             // cds | eds | rds
	Resource string
	Field    string
}

const reproSvcStatic = `
apiVersion: networking.istio.io/v1
kind: ServiceEntry
metadata: {name: static, namespace: ns1}
spec:
  hosts: [static.example.com]
  location: MESH_INTERNAL
  resolution: STATIC
  ports: [{number: 80, name: http, protocol: HTTP}]
  endpoints:
  - {address: 10.1.0.1, network: n1}
  - {address: 10.1.0.3, network: n2, labels: {security.istio.io/tlsMode: istio}}
`

var repros = []reproDef{
	{
		Name:  "eds-ip-family",
		Cause: causeGatewayIPFamily,
		About: "EndpointBuilder.EndpointsByNetworkFilter -> filterGatewaysByIPFamily reads proxy.SupportsIPv4()/SupportsIPv6() to drop east-west gateways the proxy " +
			"cannot reach (and with them the remote-network endpoints), but EndpointBuilder.WriteHash does not write the proxy's IP mode: an IPv4-only and an IPv6-only " +
			"proxy of the same network/cluster/locality share one EDS entry.",
		YAML:     reproSvcStatic,
		Gateways: []model.NetworkGateway{{Network: "n2", Cluster: "c2", Addr: "172.16.2.1", Port: 15443}},
		A:        func(s *proxySpec) {},
		B:        func(s *proxySpec) { s.IPs = []string{"2001:db8::99"} },
		Type:     "eds", Resource: "outbound|80||static.example.com",
		Field: "ClusterLoadAssignment.endpoints[].lb_endpoints[] (the lb_endpoint for the IPv4 east-west gateway 172.16.2.1:15443 that stands for the endpoint on network n2)",
	},
	{
		Name:  "cds-file-credential",
		Cause: causeCredentialSocket,
		About: "ClusterBuilder reads node metadata \"file-credential\" (set by the agent when a foreign workload SDS socket exists and istio-agent serves file certificates " +
			"on its own socket) into fileCredentialSocketExist; constructUpstreamTLS uses it to point file-mounted DestinationRule certificates at SDS cluster " +
			"sds-files-grpc instead of sds-grpc. clusterCache.Key() has no such field.",
		YAML: `
apiVersion: networking.istio.io/v1
kind: ServiceEntry
metadata: {name: ext, namespace: ns1}
spec:
  hosts: [ext.example.com]
  location: MESH_EXTERNAL
  resolution: DNS
  ports: [{number: 8443, name: http-ext, protocol: HTTP}]
---
apiVersion: networking.istio.io/v1
kind: DestinationRule
metadata: {name: ext, namespace: ns1}
spec:
  host: ext.example.com
  trafficPolicy:
    tls: {mode: MUTUAL, clientCertificate: /etc/certs/c.pem, privateKey: /etc/certs/k.pem, caCertificates: /etc/certs/ca.pem}
`,
		A:    func(s *proxySpec) {},
		B:    func(s *proxySpec) { s.Raw[security.CredentialFileMetaDataName] = "true" },
		Type: "cds", Resource: "outbound|8443||ext.example.com",
		Field: "Cluster.transport_socket.typed_config[UpstreamTlsContext].common_tls_context.{tls_certificate_sds_secret_configs[0],combined_validation_context.validation_context_sds_secret_config}.sds_config.api_config_source.grpc_services[0].envoy_grpc.cluster_name",
	},
	{
		Name:  "cds-credential-socket",
		Cause: causeCredentialSocket,
		About: "same root cause as cds-file-credential for node metadata \"credential\" (credentialSocketExist): a DestinationRule credentialName \"sds://...\" is fetched from " +
			"the pod-local cluster sds-external when the proxy announces the socket and over ADS (kubernetes://) otherwise. clusterCache.Key() has no such field.",
		YAML: `
apiVersion: networking.istio.io/v1
kind: ServiceEntry
metadata: {name: ext, namespace: ns1}
spec:
  hosts: [ext.example.com]
  location: MESH_EXTERNAL
  resolution: DNS
  ports: [{number: 8443, name: http-ext, protocol: HTTP}]
---
apiVersion: networking.istio.io/v1
kind: DestinationRule
metadata: {name: ext, namespace: ns1}
spec:
  host: ext.example.com
  workloadSelector: {matchLabels: {app: client}}
  trafficPolicy:
    tls: {mode: SIMPLE, credentialName: "sds://ext-cred"}
`,
		A:    func(s *proxySpec) {},
		B:    func(s *proxySpec) { s.Raw[security.CredentialMetaDataName] = "true" },
		Type: "cds", Resource: "outbound|8443||ext.example.com",
		Field: "Cluster.transport_socket.typed_config[UpstreamTlsContext].common_tls_context.combined_validation_context.validation_context_sds_secret_config.{name,sds_config}",
	},
	{
		Name:  "cds-envoyfilter-proxy-match",
		Cause: causeEnvoyFilterProxyMatch,
		About: "the cluster cache key lists the EnvoyFilters that contribute a CLUSTER patch by namespace/name (MergedEnvoyFilterWrapper.KeysApplyingTo), and the proxy version " +
			"(for match.proxy.proxyVersion); which PATCHES of such a filter apply is decided per patch by model.proxyMatch, which also reads match.proxy.metadata against the " +
			"proxy's raw node metadata. Two proxies that both get at least one CLUSTER patch of a filter but differ in a metadata-conditional patch of the same filter " +
			"share the patched cluster.",
		YAML: reproSvcStatic + `---
apiVersion: networking.istio.io/v1alpha3
kind: EnvoyFilter
metadata: {name: tiers, namespace: istio-system}
spec:
  configPatches:
  - applyTo: CLUSTER
    match: {context: SIDECAR_OUTBOUND, cluster: {service: static.example.com}}
    patch: {operation: MERGE, value: {connect_timeout: 7s}}
  - applyTo: CLUSTER
    match: {context: SIDECAR_OUTBOUND, proxy: {metadata: {TIER: gold}}, cluster: {service: static.example.com}}
    patch: {operation: MERGE, value: {per_connection_buffer_limit_bytes: 12345}}
`,
		A:    func(s *proxySpec) {},
		B:    func(s *proxySpec) { s.Raw["TIER"] = "gold" },
		Type: "cds", Resource: "outbound|80||static.example.com",
		Field: "Cluster.per_connection_buffer_limit_bytes (whatever the metadata-conditional patch sets)",
	},
	{
		Name:  "rds-envoyfilter-proxy-match",
		Cause: causeEnvoyFilterProxyMatch,
		About: "same root cause as cds-envoyfilter-proxy-match in the route cache (route.Cache.EnvoyFilterKeys are filter names as well).",
		YAML: reproSvcStatic + `---
apiVersion: networking.istio.io/v1alpha3
kind: EnvoyFilter
metadata: {name: tiers, namespace: istio-system}
spec:
  configPatches:
  - applyTo: ROUTE_CONFIGURATION
    match: {context: SIDECAR_OUTBOUND}
    patch: {operation: MERGE, value: {request_headers_to_add: [{header: {key: x-any, value: "1"}}]}}
  - applyTo: ROUTE_CONFIGURATION
    match: {context: SIDECAR_OUTBOUND, proxy: {metadata: {TIER: gold}}}
    patch: {operation: MERGE, value: {response_headers_to_add: [{header: {key: x-tier, value: gold}}]}}
`,
		A:    func(s *proxySpec) {},
		B:    func(s *proxySpec) { s.Raw["TIER"] = "gold" },
		Type: "rds", Resource: "80",
		Field: "RouteConfiguration.response_headers_to_add (whatever the metadata-conditional patch sets)",
	},
	{
		Name:  "rds-attempt-count",
		Cause: causeProxyHeaders,
		About: "BuildSidecarOutboundVirtualHosts / buildCatchAllVirtualHost read the proxy's own ProxyConfig (node metadata PROXY_CONFIG, from the pod annotation proxy.istio.io/config) " +
			"through util.GetProxyHeaders: proxyHeaders.attemptCount.disabled decides VirtualHost.include_request_attempt_count. route.Cache.Key() has no field for it.",
		YAML: reproSvcStatic,
		A:    func(s *proxySpec) {},
		B:    func(s *proxySpec) { s.PC = "attempt-count-off" },
		Type: "rds", Resource: "80",
		Field: "RouteConfiguration.virtual_hosts[].include_request_attempt_count",
	},
	{
		Name:  "rds-x-forwarded-host",
		Cause: causeProxyHeaders,
		About: "same root cause as rds-attempt-count for proxyHeaders.xForwardedHost.enabled, which decides RouteAction.append_x_forwarded_host of the catch-all " +
			"(PassthroughCluster) virtual host and of routes with a rewrite.",
		YAML: reproSvcStatic,
		A:    func(s *proxySpec) {},
		B:    func(s *proxySpec) { s.PC = "x-forwarded-host" },
		Type: "rds", Resource: "80",
		Field: "RouteConfiguration.virtual_hosts[name=allow_any].routes[0].route.append_x_forwarded_host",
	},
}

func reproMain(args []string) int {
	if len(args) == 0 || args[0] == "list" {
		fmt.Println("usage: xdscache repro <name>|all")
		for _, r := range repros {
			fmt.Printf("  %-30s cause=%s\n", r.Name, r.Cause)
		}
		fmt.Printf("  %-30s cause=%s\n", reproPushRaceName, causeBetweenClearAndPublish)
		return 2
	}
	quiet.Logs("none")
	rc := 0
	found := false
	if args[0] == "all" || args[0] == reproPushRaceName {
		found = true
		if runReproPushRace() {
			rc = 1
		}
	}
	for _, r := range repros {
		if args[0] == "all" || args[0] == r.Name {
			found = true
			if runRepro(r) {
				rc = 1
			}
		}
	}
	if !found {
		fmt.Fprintln(os.Stderr, "no such reproduction:", args[0])
		return 2
	}
	return rc
}

func runRepro(r reproDef) (reproduced bool) {
	defer func() {
		if p := recover(); p != nil {
			fmt.Printf("repro %s: could not be set up: %v\n", r.Name, p)
		}
	}()
	a, b := profiles["sidecar-ns1"].clone(), profiles["sidecar-ns1"].clone()
	a.Flags, a.Raw, b.Flags, b.Raw = map[string]string{}, map[string]string{}, map[string]string{}, map[string]string{}
	r.A(&a)
	r.B(&b)
	s := startServer(xdsfake.FakeOptions{ConfigString: r.YAML, MeshConfig: meshDefault(), Gateways: r.Gateways, DefaultClusterName: "c1"}, nil)
	defer s.close()
	push := s.srv.PushContext()
	gen := func(gs genset, sp proxySpec) ([]byte, *output) {
		p := s.srv.SetupProxy(sp.build())
		o := generate(gs, p, push, s.routeNames(p, push))
		return o.res[r.Type][r.Resource], o
	}
	fmt.Printf("=== repro %s (cause=%s)\n%s\n\n", r.Name, r.Cause, r.About)
	fmt.Printf("--- world (mesh config: defaults; network gateways: %v)\n%s\n", gwString(r.Gateways), strings.TrimSpace(r.YAML))
	fmt.Printf("--- proxy A (warms the cache): %s\n--- proxy B (served next):     %s\n", specString(a), specString(b))
	fmt.Printf("--- resource: %s %s\n    field:    %s\n\n", strings.ToUpper(r.Type), r.Resource, r.Field)

	freshA, _ := gen(s.cold, a)
	freshB, _ := gen(s.cold, b)
	s.cache.ClearAll()
	_, warmA := gen(s.warm, a)
	servedB, outB := gen(s.warm, b)
	if freshA == nil || freshB == nil || servedB == nil {
		vh.Abort("resource %s %s was not generated (A %v, B %v, served %v)", r.Type, r.Resource, freshA != nil, freshB != nil, servedB != nil)
	}
	fmt.Printf("uncached generation for A vs uncached generation for B (the attribute matters):\n    %s\n", orSame(freshA, freshB, "A(-) vs B(+)"))
	fmt.Printf("cache: A's generation looked up %d %s entries, %d hits; B's looked up %d, %d hits\n", warmA.total[r.Type], r.Type, warmA.hits[r.Type], outB.total[r.Type], outB.hits[r.Type])
	fmt.Printf("served to B from the shared cache vs uncached generation for B:\n    %s\n", orSame(freshB, servedB, "fresh(-) vs served(+)"))
	fmt.Printf("served to B == uncached generation for A: %v\n", string(servedB) == string(freshA))
	fmt.Println("property C06 demands: serving from the cache yields the bytes a fresh generation would yield for that proxy; no proxy receives a cached resource built for a proxy whose relevant attributes differ.")
	if string(servedB) != string(freshB) {
		fmt.Printf("RESULT %s: REPRODUCED - B received the resource built for A\n\n", r.Name)
		return true
	}
	fmt.Printf("RESULT %s: not reproduced - B received what a fresh generation yields\n\n", r.Name)
	return false
}

func orSame(a, b []byte, legend string) string {
	if string(a) == string(b) {
		return "(identical bytes)"
	}
	d := protoDiff(b, a)
	return strings.Replace(d, "fresh(-) vs served(+)", legend, 1)
}

func gwString(g []model.NetworkGateway) string {
	var out []string
	for _, x := range g {
		out = append(out, fmt.Sprintf("%s/%s=%s:%d", x.Network, x.Cluster, x.Addr, x.Port))
	}
	sort.Strings(out)
	if len(out) == 0 {
		return "none"
	}
	return strings.Join(out, " ")
}

// ---------------------------------------------------------------------------------------
// The finding of the history monitor on the unchanged tree, made deterministic: the debounce goroutine is parked
// in the gap between DiscoveryServer.dropCacheForRequest and Environment.SetPushContext (a gate behind the
// harness' cache wrapper, run after the real invalidation has completed; nothing else is changed).

const reproPushRaceName = "push-between-invalidation-and-publication"

const reproPushRaceYAML = `
apiVersion: networking.istio.io/v1
kind: ServiceEntry
metadata: {name: foo, namespace: ns1}
spec:
  hosts: [foo.example.com]
  resolution: STATIC
  ports: [{number: 80, name: http, protocol: HTTP}]
  endpoints: [{address: 10.0.0.1}]
---
apiVersion: networking.istio.io/v1
kind: DestinationRule
metadata: {name: foo, namespace: ns1}
spec:
  host: foo.example.com
  trafficPolicy: {connectionPool: {tcp: {maxConnections: 100}}}
`

func runReproPushRace() (reproduced bool) {
	defer func() {
		if p := recover(); p != nil {
			fmt.Printf("repro %s: could not be set up: %v\n", reproPushRaceName, p)
		}
	}()
	const res = "outbound|80||foo.example.com"
	fmt.Printf("=== repro %s (cause=%s)\n", reproPushRaceName, causeBetweenClearAndPublish)
	fmt.Println("DiscoveryServer.initPushContext computes the next snapshot, invalidates the cache (dropCacheForRequest) and only then publishes the snapshot (SetPushContext). " +
		"DiscoveryServer.ProxyUpdate (pod / WorkloadEntry label change of a connected proxy; likewise the debug push) builds PushRequest{Push: s.globalPushContext(), Start: time.Now()}. " +
		"A ProxyUpdate that runs in the gap gets the PREVIOUS snapshot with a Start LATER than the invalidation: its generation misses, rebuilds the resource from the old config, " +
		"and lruCache.Add accepts it (token >= cache token). Nothing invalidates the entry until the same config changes again.")
	fmt.Printf("\n--- world\n%s\n", strings.TrimSpace(reproPushRaceYAML))
	s := startServerWith(xdsfake.FakeOptions{ConfigString: reproPushRaceYAML, MeshConfig: meshDefault(), DefaultClusterName: "c1", DebounceTime: 3 * time.Millisecond}, nil, time.Microsecond)
	defer s.close()
	a, b := profiles["sidecar-ns1"].clone(), profiles["sidecar-ns1"].clone()
	b.IPs = []string{"10.99.0.9"}
	clA, clB := connectClient(s, 0, a), connectClient(s, 1, b)
	defer func() {
		for _, cl := range []*adsClient{clA, clB} {
			cl.st.Cancel()
			close(cl.quit)
		}
	}()
	waitIdle(s.ds)
	fmt.Printf("--- connected proxies A [%s] and B [%s]; C is a proxy that connects later (same attributes as B)\n", specString(a), specString(b))
	maxConn := func(gs genset, sp proxySpec) string {
		push := s.srv.PushContext()
		o := generate(gs, s.srv.SetupProxy(sp.build()), push, nil)
		c := &clusterv3.Cluster{}
		m := decodeRes(o.res["cds"][res])
		if m == nil {
			vh.Abort("cluster %s not generated", res)
		}
		proto.Merge(c, m)
		return fmt.Sprint(c.GetCircuitBreakers().GetThresholds()[0].GetMaxConnections().GetValue())
	}
	fmt.Printf("step 0: CDS %s circuit_breakers.thresholds[0].max_connections as served = %s\n", res, maxConn(s.warm, b))

	entered, release := make(chan struct{}), make(chan struct{})
	var once sync.Once
	gate := func() {
		once.Do(func() {
			close(entered)
			<-release
		})
	}
	old := s.srv.Env().PushContext()
	s.in.afterClear.Store(&gate)
	cur := s.srv.Store().Get(gvk.DestinationRule, "foo", "ns1")
	if cur == nil {
		vh.Abort("DestinationRule not found")
	}
	upd := cur.DeepCopy()
	upd.Spec.(*networking.DestinationRule).TrafficPolicy.ConnectionPool.Tcp.MaxConnections = 200
	if _, err := s.srv.Store().Update(upd); err != nil {
		vh.Abort("update: %v", err)
	}
	select {
	case <-entered:
	case <-time.After(30 * time.Second):
		vh.Abort("the push of the DestinationRule update did not reach the invalidation")
	}
	fmt.Println("step 1: DestinationRule foo updated to maxConnections 200; the push computed the new snapshot, invalidated the cache and is parked before SetPushContext; published snapshot is still the previous one:", s.srv.Env().PushContext() == old)
	before := clA.responses(v3.ClusterType)
	s.ds.ProxyUpdate(cluster.ID(a.Cluster), a.IPs[0])
	for deadline := time.Now().Add(30 * time.Second); clA.responses(v3.ClusterType) == before; time.Sleep(time.Millisecond) {
		if time.Now().After(deadline) {
			vh.Abort("A was not pushed after ProxyUpdate")
		}
	}
	for {
		if p, q := s.ds.PushQueueStateForVerif(); p == 0 && q == 0 {
			break
		}
		time.Sleep(time.Millisecond)
	}
	fmt.Println("step 2: DiscoveryServer.ProxyUpdate(A) was served from the previous snapshot (legitimate: the new one is not published)")
	close(release)
	waitIdle(s.ds)
	fmt.Println("step 3: the push proceeds: snapshot published and pushed to A and B; published snapshot is new:", s.srv.Env().PushContext() != old)
	c := b.clone()
	c.IPs = []string{"10.99.0.10"}
	served, fresh := maxConn(s.warm, c), maxConn(s.cold, c)
	fmt.Printf("step 4: proxy C connects: max_connections served from the cache = %s, uncached generation on the same snapshot = %s\n", served, fresh)
	fmt.Println("property C06 demands: once a configuration change has been accepted no resource derived from the older state is handed out for a newer snapshot, under any interleaving of generation, invalidation and insertion.")
	if served != fresh {
		fmt.Printf("RESULT %s: REPRODUCED - the cluster built from the DestinationRule before its update is served for the new snapshot\n\n", reproPushRaceName)
		return true
	}
	fmt.Printf("RESULT %s: not reproduced\n\n", reproPushRaceName)
	return false
}
