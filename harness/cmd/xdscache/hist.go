package main

import (
	"crypto/sha256"
	"fmt"
	"math/rand"
	"runtime"
	"sort"
	"strings"
	"sync"
	"time"

	clusterv3 "github.com/envoyproxy/go-control-plane/envoy/config/cluster/v3"
	corev3 "github.com/envoyproxy/go-control-plane/envoy/config/core/v3"
	listenerv3 "github.com/envoyproxy/go-control-plane/envoy/config/listener/v3"
	discovery "github.com/envoyproxy/go-control-plane/envoy/service/discovery/v3"

	"istio.io/istio/pilot/pkg/config/kube/crd"
	"istio.io/istio/pilot/pkg/model"
	"istio.io/istio/pilot/pkg/networking/core"
	netutil "istio.io/istio/pilot/pkg/networking/util"
	"istio.io/istio/pilot/pkg/serviceregistry/provider"
	v3 "istio.io/istio/pilot/pkg/xds/v3"
	xdsfake "istio.io/istio/pilot/test/xds"
	"istio.io/istio/pkg/cluster"
	"istio.io/istio/pkg/config"
	"istio.io/istio/pkg/config/host"
	"istio.io/istio/pkg/util/sets"
	"verifharness/internal/vh"
	"verifharness/internal/xdsshim"
)

// ---------------------------------------------------------------------------------------
// monitor (b): staleness across histories
//
// The history world is the mesh world plus two registry services. Every mutable object is a slot
// with alternative specs; an operation moves a slot to another variant (create / update / delete
// through the real config store) or reports new endpoints of a registry service through
// DiscoveryServer.EDSUpdate. ADS clients stay connected, so the server pushes - and fills the cache -
// while later operations of the same burst invalidate it.

// histVariantsYAML: further variants of objects of meshYAML (variant 0) and of objects that do not
// exist initially. Documents of one object appear in variant order.
const histVariantsYAML = `
apiVersion: networking.istio.io/v1
kind: ServiceEntry
metadata: {name: static, namespace: ns1}
spec:
  hosts: [static.example.com]
  addresses: [10.10.0.1]
  location: MESH_INTERNAL
  resolution: STATIC
  ports:
  - {number: 80, name: http, protocol: HTTP}
  - {number: 9000, name: tcp, protocol: TCP}
  endpoints:
  - {address: 10.1.0.1, labels: {version: v1, tier: a, security.istio.io/tlsMode: istio}, locality: r1/z1/s1, network: n1}
  - {address: 10.1.0.5, labels: {version: v1, tier: b, security.istio.io/tlsMode: istio}, locality: r1/z1/s1, network: n1}
  - {address: 10.1.0.3, labels: {version: v1, tier: b, security.istio.io/tlsMode: istio}, locality: r2/z1/s1, network: n2}
  - {address: 10.1.0.4, labels: {version: v2, tier: a}, locality: r2/z2/s1, network: n2, weight: 3}
---
apiVersion: networking.istio.io/v1
kind: ServiceEntry
metadata: {name: static, namespace: ns1}
spec:
  hosts: [static.example.com]
  addresses: [10.10.0.1]
  location: MESH_INTERNAL
  resolution: STATIC
  ports:
  - {number: 80, name: http, protocol: HTTP}
  - {number: 9000, name: tcp, protocol: TCP}
  endpoints:
  - {address: 10.1.0.1, labels: {version: v2, tier: a, security.istio.io/tlsMode: istio}, locality: r1/z1/s1, network: n1}
  - {address: 10.1.0.2, labels: {version: v2, tier: b}, locality: r1/z2/s1, network: n1, weight: 5}
  - {address: 10.1.0.3, labels: {version: v1, tier: b, security.istio.io/tlsMode: istio}, locality: r2/z1/s1, network: n2}
---
apiVersion: networking.istio.io/v1
kind: ServiceEntry
metadata: {name: static, namespace: ns1}
spec:
  hosts: [static.example.com]
  addresses: [10.10.0.1]
  location: MESH_INTERNAL
  resolution: STATIC
  ports:
  - {number: 80, name: http, protocol: HTTP}
  - {number: 8082, name: http-alt, protocol: HTTP}
  endpoints:
  - {address: 10.1.0.1, labels: {version: v1, tier: a, security.istio.io/tlsMode: istio}, locality: r1/z1/s1, network: n1}
  - {address: 10.1.0.2, labels: {version: v2, tier: b, security.istio.io/tlsMode: istio}, locality: r1/z2/s1, network: n1}
---
apiVersion: networking.istio.io/v1
kind: ServiceEntry
metadata: {name: shared, namespace: ns2}
spec:
  hosts: [shared.example.com]
  location: MESH_INTERNAL
  resolution: STATIC
  ports: [{number: 8081, name: http, protocol: HTTP}]
  endpoints:
  - {address: 10.2.0.1, labels: {version: v1}, locality: r1/z1/s1, network: n1}
  - {address: 10.2.0.3, labels: {version: v1, security.istio.io/tlsMode: istio}, locality: r1/z2/s1, network: n1}
---
apiVersion: networking.istio.io/v1
kind: ServiceEntry
metadata: {name: dns, namespace: ns1}
spec:
  hosts: [dns.example.com]
  location: MESH_EXTERNAL
  resolution: DNS
  ports: [{number: 8080, name: http, protocol: HTTP}]
  endpoints:
  - {address: a.dns.example.com, locality: r1/z1/s1, labels: {tier: b}}
  - {address: c.dns.example.com, locality: r1/z1/s1, labels: {tier: a}}
---
apiVersion: networking.istio.io/v1
kind: DestinationRule
metadata: {name: static, namespace: ns1}
spec:
  host: static.example.com
  trafficPolicy:
    outlierDetection: {consecutive5xxErrors: 5, baseEjectionTime: 30s}
    loadBalancer:
      localityLbSetting: {enabled: true, failoverPriority: [tier]}
  subsets:
  - {name: v1, labels: {version: v1, tier: a}}
  - {name: v2, labels: {version: v2}}
---
apiVersion: networking.istio.io/v1
kind: DestinationRule
metadata: {name: static, namespace: ns1}
spec:
  host: static.example.com
  trafficPolicy:
    connectionPool: {tcp: {maxConnections: 9}}
  subsets:
  - {name: v1, labels: {version: v1}}
  - {name: v2, labels: {version: v2, tier: b}}
---
apiVersion: networking.istio.io/v1
kind: DestinationRule
metadata: {name: static, namespace: ns1}
spec:
  host: static.example.com
  trafficPolicy:
    tls: {mode: ISTIO_MUTUAL}
    outlierDetection: {consecutive5xxErrors: 2}
  subsets:
  - {name: v1, labels: {version: v1}}
  - {name: v2, labels: {version: v2}}
  - {name: v3, labels: {tier: a}}
---
apiVersion: networking.istio.io/v1
kind: DestinationRule
metadata: {name: static-special, namespace: ns1}
spec:
  host: static.example.com
  workloadSelector: {matchLabels: {app: special}}
  trafficPolicy:
    connectionPool: {tcp: {maxConnections: 5}}
  subsets:
  - {name: v1, labels: {version: v1}}
  - {name: v2, labels: {version: v2, tier: a}}
---
apiVersion: networking.istio.io/v1
kind: DestinationRule
metadata: {name: shared, namespace: ns2}
spec:
  host: shared.example.com
  exportTo: ["*"]
  trafficPolicy:
    tls: {mode: DISABLE}
---
apiVersion: networking.istio.io/v1
kind: DestinationRule
metadata: {name: dns, namespace: ns1}
spec:
  host: dns.example.com
  trafficPolicy:
    connectionPool: {tcp: {maxConnections: 4}}
---
apiVersion: networking.istio.io/v1
kind: VirtualService
metadata: {name: static, namespace: ns1}
spec:
  hosts: [static.example.com]
  http:
  - timeout: 2s
    route:
    - {destination: {host: static.example.com, subset: v1}, weight: 50}
    - {destination: {host: static.example.com, subset: v2}, weight: 50}
---
apiVersion: networking.istio.io/v1
kind: VirtualService
metadata: {name: static, namespace: ns1}
spec:
  hosts: [static.example.com]
  http:
  - route: [{destination: {host: static.example.com, subset: v1}}]
---
apiVersion: networking.istio.io/v1
kind: VirtualService
metadata: {name: dns, namespace: ns1}
spec:
  hosts: [dns.example.com]
  exportTo: ["."]
  http:
  - timeout: 5s
    retries: {attempts: 2}
    route: [{destination: {host: dns.example.com}}]
---
apiVersion: networking.istio.io/v1
kind: Sidecar
metadata: {name: scoped, namespace: ns1}
spec:
  workloadSelector: {labels: {app: scoped}}
  egress:
  - hosts: ["ns1/static.example.com", "ns1/dns.example.com"]
---
apiVersion: networking.istio.io/v1
kind: Sidecar
metadata: {name: default, namespace: ns2}
spec:
  egress:
  - hosts: ["./*"]
---
apiVersion: security.istio.io/v1
kind: PeerAuthentication
metadata: {name: default, namespace: ns2}
spec:
  mtls: {mode: PERMISSIVE}
---
apiVersion: security.istio.io/v1
kind: PeerAuthentication
metadata: {name: default, namespace: ns2}
spec:
  mtls: {mode: DISABLE}
---
apiVersion: security.istio.io/v1
kind: PeerAuthentication
metadata: {name: default, namespace: ns1}
spec:
  mtls: {mode: STRICT}
---
apiVersion: security.istio.io/v1
kind: PeerAuthentication
metadata: {name: default, namespace: ns1}
spec:
  mtls: {mode: DISABLE}
---
apiVersion: security.istio.io/v1
kind: PeerAuthentication
metadata: {name: default, namespace: istio-system}
spec:
  mtls: {mode: STRICT}
---
apiVersion: security.istio.io/v1
kind: PeerAuthentication
metadata: {name: default, namespace: istio-system}
spec:
  mtls: {mode: PERMISSIVE}
---
apiVersion: networking.istio.io/v1alpha3
kind: EnvoyFilter
metadata: {name: patched, namespace: ns1}
spec:
  workloadSelector: {labels: {app: patched}}
  configPatches:
  - applyTo: CLUSTER
    match: {context: SIDECAR_OUTBOUND, cluster: {service: static.example.com}}
    patch: {operation: MERGE, value: {connect_timeout: 9s}}
  - applyTo: VIRTUAL_HOST
    match: {context: SIDECAR_OUTBOUND}
    patch: {operation: MERGE, value: {request_headers_to_add: [{header: {key: x-patched, value: "2"}}]}}
---
apiVersion: networking.istio.io/v1alpha3
kind: EnvoyFilter
metadata: {name: root, namespace: istio-system}
spec:
  configPatches:
  - applyTo: CLUSTER
    match: {context: ANY, cluster: {service: dns.example.com}}
    patch: {operation: MERGE, value: {connect_timeout: 13s}}
  - applyTo: ROUTE_CONFIGURATION
    match: {context: SIDECAR_OUTBOUND}
    patch: {operation: MERGE, value: {response_headers_to_add: [{header: {key: x-root, value: "2"}}]}}
---
apiVersion: networking.istio.io/v1alpha3
kind: EnvoyFilter
metadata: {name: extra, namespace: ns1}
spec:
  configPatches:
  - applyTo: CLUSTER
    match: {context: SIDECAR_OUTBOUND, cluster: {service: shared.example.com}}
    patch: {operation: MERGE, value: {connect_timeout: 2s}}
`

type slot struct {
	Key      string // kind/ns/name
	Variants []config.Config
	Initial  int // -1: absent in the initial world
}

func cfgSlotKey(c config.Config) string {
	return c.GroupVersionKind.Kind + "/" + c.Namespace + "/" + c.Name
}

func parseYAML(y string) []config.Config {
	cfgs, _, err := crd.ParseInputs(y)
	if err != nil {
		vh.Abort("parse world: %v", err)
	}
	t0 := time.Unix(1700000000, 0)
	for i := range cfgs {
		cfgs[i].CreationTimestamp = t0
	}
	return cfgs
}

// buildSlots: every object of the initial world is a slot (variant 0); histVariantsYAML adds variants.
func buildSlots() []*slot {
	by := map[string]*slot{}
	var order []*slot
	for _, c := range parseYAML(meshYAML) {
		s := &slot{Key: cfgSlotKey(c), Variants: []config.Config{c}}
		by[s.Key] = s
		order = append(order, s)
	}
	for _, c := range parseYAML(histVariantsYAML) {
		s := by[cfgSlotKey(c)]
		if s == nil {
			s = &slot{Key: cfgSlotKey(c), Initial: -1}
			by[s.Key] = s
			order = append(order, s)
		}
		s.Variants = append(s.Variants, c)
	}
	return order
}

// histOp is one operation of a history (plain data, replayable).
type histOp struct {
	Slot    string   `json:"slot,omitempty"`
	To      int      `json:"to"` // variant index, -1 = delete
	Service string   `json:"service,omitempty"`
	Shard   string   `json:"shard,omitempty"`
	Eps     []string `json:"endpoints,omitempty"` // indices into the endpoint pool, with health suffix
	Gap     int      `json:"gap"`                 // scheduler yields before the op
	Instant bool     `json:"instant,omitempty"`   // check EDS right after EDSUpdate returned (from an idle control plane)
}

var histRegistryServices = []string{"plain", "node"}

// endpoint pool of the registry services
var histPool = []regEp{
	{addr: "10.5.1.1", port: "http", loc: "r1/z1/s1", net: "n1", node: "node-a", labels: map[string]string{"version": "v1", "tier": "a"}},
	{addr: "10.5.1.2", port: "http", loc: "r1/z2/s1", net: "n1", node: "node-b", labels: map[string]string{"version": "v2", "tier": "b"}},
	{addr: "10.5.1.3", port: "http", loc: "r1/z1/s1", net: "n1", node: "node-a", labels: map[string]string{"version": "v2"}},
	{addr: "10.5.2.1", port: "http", loc: "r2/z1/s1", net: "n2", node: "node-c", labels: map[string]string{"version": "v1", "tier": "b"}},
	{addr: "10.5.2.2", port: "http", loc: "r2/z1/s1", net: "n2", node: "node-c", labels: map[string]string{"version": "v2"}},
	{addr: "10.5.2.3", port: "http", loc: "r2/z2/s1", net: "n2", node: "node-a", labels: map[string]string{"version": "v1"}},
}

func genHistory(r *rand.Rand, slots []*slot, nOps int) [][]histOp {
	state := map[string]int{}
	for _, s := range slots {
		state[s.Key] = s.Initial
	}
	mutable := slots // every object may be rewritten, deleted and created again
	var bursts [][]histOp
	total := 0
	for total < nOps {
		bl := 1 + r.Intn(5)
		var burst []histOp
		for k := 0; k < bl; k++ {
			op := histOp{Gap: []int{0, 0, 1, 4, 30, 200}[r.Intn(6)]}
			if r.Intn(4) == 0 {
				op.Service = histRegistryServices[r.Intn(len(histRegistryServices))]
				op.Shard = []string{"c1", "c2"}[r.Intn(2)]
				n := r.Intn(4)
				for _, idx := range r.Perm(len(histPool))[:n] {
					h := []string{"", "", "", ":unhealthy", ":draining"}[r.Intn(5)]
					op.Eps = append(op.Eps, fmt.Sprintf("%d%s", idx, h))
				}
				sort.Strings(op.Eps)
				op.Instant = r.Intn(2) == 0
			} else {
				s := mutable[r.Intn(len(mutable))]
				cur := state[s.Key]
				// choose a different state: another variant or absent
				var cands []int
				for v := -1; v < len(s.Variants); v++ {
					if v != cur {
						cands = append(cands, v)
					}
				}
				op.Slot, op.To = s.Key, cands[r.Intn(len(cands))]
				state[s.Key] = op.To
			}
			burst = append(burst, op)
			total++
		}
		bursts = append(bursts, burst)
	}
	return bursts
}

func (s *server) applyOp(op histOp, slots map[string]*slot, state map[string]int) {
	yield(op.Gap)
	if op.Service != "" {
		var eps []*model.IstioEndpoint
		for _, e := range op.Eps {
			idxs, health, _ := strings.Cut(e, ":")
			var idx int
			fmt.Sscanf(idxs, "%d", &idx)
			re := histPool[idx]
			switch health {
			case "unhealthy":
				re.health = model.UnHealthy
			case "draining":
				re.health = model.Draining
			}
			eps = append(eps, re.istio(op.Shard))
		}
		s.ds.EDSUpdate(model.ShardKey{Cluster: cluster.ID(op.Shard), Provider: provider.Kubernetes}, op.Service+".reg.example.com", "ns1", eps)
		return
	}
	sl := slots[op.Slot]
	cur := state[op.Slot]
	st := s.srv.Store()
	var err error
	switch {
	case op.To == -1:
		v := sl.Variants[0]
		err = st.Delete(v.GroupVersionKind, v.Name, v.Namespace, nil)
	case cur == -1:
		_, err = st.Create(sl.Variants[op.To].DeepCopy())
	default:
		_, err = st.Update(sl.Variants[op.To].DeepCopy())
	}
	if err != nil {
		vh.Abort("apply %+v: %v", op, err)
	}
	state[op.Slot] = op.To
}

// ---------------------------------------------------------------------------------------
// connected clients

type adsClient struct {
	spec   proxySpec
	st     *xdsshim.SotwStream
	respCh chan *discovery.DiscoveryResponse
	quit   chan struct{}
	mu     sync.Mutex
	nResp  map[string]int
	eds    string
	rds    string
}

func nodeOf(i int, s proxySpec) *corev3.Node {
	labels := map[string]any{}
	for k, v := range s.Labels {
		labels[k] = v
	}
	meta := map[string]any{
		"LABELS": labels, "CLUSTER_ID": s.Cluster, "NETWORK": s.Network, "NODE_NAME": s.Node, "ISTIO_VERSION": s.Version,
		"SERVICE_ACCOUNT": s.SA, "WORKLOAD_NAME": "client",
	}
	n := xdsshim.Node(s.Type, s.IPs[0], fmt.Sprintf("client-%d", i), s.NS, meta)
	if l := netutil.ConvertLocality(s.Locality); l != nil {
		n.Locality = l
	}
	return n
}

func connectClient(s *server, i int, spec proxySpec) *adsClient {
	cl := &adsClient{spec: spec, respCh: make(chan *discovery.DiscoveryResponse, 4096), quit: make(chan struct{}), nResp: map[string]int{}}
	cl.st = xdsshim.NewSotw(nil, func(r *discovery.DiscoveryResponse) error {
		select {
		case cl.respCh <- r:
		default: // never block the server's stream goroutine
		}
		return nil
	})
	cl.st.Serve(s.ds)
	node := nodeOf(i, spec)
	go func() {
		for {
			var r *discovery.DiscoveryResponse
			select {
			case r = <-cl.respCh:
			case <-cl.quit:
				return
			}
			cl.mu.Lock()
			cl.nResp[r.TypeUrl]++
			cl.mu.Unlock()
			switch r.TypeUrl {
			case v3.ClusterType:
				var names []string
				for _, a := range r.Resources {
					c := &clusterv3.Cluster{}
					if a.UnmarshalTo(c) == nil && c.GetType() == clusterv3.Cluster_EDS {
						n := c.GetEdsClusterConfig().GetServiceName()
						if n == "" {
							n = c.Name
						}
						names = append(names, n)
					}
				}
				sort.Strings(names)
				if j := strings.Join(names, ","); j != cl.eds && len(names) > 0 {
					cl.eds = j
					cl.st.Request(&discovery.DiscoveryRequest{TypeUrl: v3.EndpointType, ResourceNames: names})
				}
			case v3.ListenerType:
				var ls []*listenerv3.Listener
				for _, a := range r.Resources {
					l := &listenerv3.Listener{}
					if a.UnmarshalTo(l) == nil {
						ls = append(ls, l)
					}
				}
				names := core.ExtractRoutesFromListeners(ls)
				sort.Strings(names)
				if j := strings.Join(names, ","); j != cl.rds && len(names) > 0 {
					cl.rds = j
					cl.st.Request(&discovery.DiscoveryRequest{TypeUrl: v3.RouteType, ResourceNames: names})
				}
			}
		}
	}()
	cl.st.Request(&discovery.DiscoveryRequest{TypeUrl: v3.ClusterType, Node: node})
	cl.st.Request(&discovery.DiscoveryRequest{TypeUrl: v3.ListenerType})
	return cl
}

func (cl *adsClient) responses(t string) int {
	cl.mu.Lock()
	defer cl.mu.Unlock()
	return cl.nResp[t]
}

// ---------------------------------------------------------------------------------------

func histWorld() xdsfake.FakeOptions {
	svcs, cfgs := registryWorld()
	var keep []*model.Service
	for _, s := range svcs {
		for _, n := range histRegistryServices {
			if string(s.Hostname) == n+".reg.example.com" {
				keep = append(keep, s)
			}
		}
	}
	var keepCfg []config.Config
	for _, c := range cfgs {
		if c.Name == "plain" || c.Name == "plain-special" {
			keepCfg = append(keepCfg, c)
		}
	}
	return xdsfake.FakeOptions{ConfigString: meshYAML, Configs: keepCfg, Services: keep, MeshConfig: meshDefault(), Gateways: netGateways, DefaultClusterName: "c1",
		DebounceTime: 3 * time.Millisecond}
}

func histCheckSpecs() (connected, extra []proxySpec) {
	mk := func(profile string, f func(*proxySpec)) proxySpec {
		s := profiles[profile].clone()
		if f != nil {
			f(&s)
		}
		return s
	}
	connected = []proxySpec{
		mk("sidecar-ns1", nil),
		mk("sidecar-ns1", func(s *proxySpec) {
			s.Labels["app"] = "special"
			s.Locality = "r2/z1/s1"
			s.Network = "n2"
			s.Cluster = "c2"
		}),
		mk("sidecar-ns2", nil),
		mk("router", nil),
	}
	extra = []proxySpec{
		mk("sidecar-ns1", func(s *proxySpec) { s.Labels["app"] = "scoped" }),
		mk("sidecar-ns1", func(s *proxySpec) { s.Labels["app"] = "patched"; s.Labels["tier"] = "b" }),
		mk("sidecar-ns1", func(s *proxySpec) { s.Node = "node-b"; s.Locality = "r1/z2/s1" }),
	}
	return
}

func hashBytes(b []byte) [32]byte { return sha256.Sum256(b) }

func runHistories(c *vh.Ctx) {
	n := c.N(4, 60)
	for i := 0; i < n; i++ {
		if !c.Mine(i) {
			continue
		}
		c.Case(fmt.Sprintf("hist/%d", i), func() { oneHistory(c, i) })
	}
}

func oneHistory(c *vh.Ctx, i int) {
	r := c.Rng("hist", i)
	slotList := buildSlots()
	slots := map[string]*slot{}
	state := map[string]int{}
	for _, s := range slotList {
		slots[s.Key] = s
		state[s.Key] = s.Initial
	}
	bursts := genHistory(r, slotList, c.N(60, 90))
	// InitContext is stretched by 4 ms per config-store read (see poke.go): the window in which a push created from the
	// published snapshot can interleave with the computation of the next one is as wide as on a large mesh
	s := startServerWith(histWorld(), nil, 4*time.Millisecond)
	defer s.close()
	connected, extra := histCheckSpecs()
	var clients []*adsClient
	for k, sp := range connected {
		clients = append(clients, connectClient(s, k, sp))
	}
	defer func() {
		for _, cl := range clients {
			cl.st.Cancel()
			close(cl.quit)
		}
	}()
	// initial endpoints of the registry services
	for _, op := range []histOp{
		{Service: "plain", Shard: "c1", Eps: []string{"0", "1", "2"}}, {Service: "plain", Shard: "c2", Eps: []string{"3", "4"}},
		{Service: "node", Shard: "c1", Eps: []string{"0", "1"}}, {Service: "node", Shard: "c2", Eps: []string{"5"}},
	} {
		s.applyOp(op, slots, state)
	}
	waitIdle(s.ds)
	for _, cl := range clients {
		if cl.responses(v3.ClusterType) == 0 || cl.responses(v3.EndpointType) == 0 {
			vh.Abort("client %s was not served CDS/EDS (cds=%d eds=%d rds=%d)", specString(cl.spec), cl.responses(v3.ClusterType), cl.responses(v3.EndpointType), cl.responses(v3.RouteType))
		}
	}
	specs := append(append([]proxySpec(nil), connected...), extra...)
	type key struct {
		proxy int
		typ   string
		name  string
	}
	earlier := map[key]map[[32]byte]int{} // fresh outputs seen at earlier checkpoints -> checkpoint
	prevFresh := map[int]*output{}
	var applied []histOp
	nontrivialCheckpoints, checkpoints, hitsTotal := 0, 0, 0
	keysFromPushes := 0

	checkpoint := func(cp int, burst []histOp) {
		waitIdle(s.ds)
		push := s.srv.PushContext()
		if cp == 0 {
			// what the real pushes left in the cache before the harness generated anything
			for _, t := range cacheTypes {
				keysFromPushes += len(s.cache.Keys(t))
			}
		}
		fresh := map[int]*output{}
		served := map[int]*output{}
		routes := map[int][]string{}
		for pi, sp := range specs {
			p := s.srv.SetupProxy(sp.build())
			routes[pi] = s.routeNames(p, push)
			served[pi] = generate(s.warm, p, push, routes[pi])
			fresh[pi] = generate(s.cold, s.srv.SetupProxy(sp.build()), push, routes[pi])
		}
		if cp == 0 {
			// the first generation of the harness can only have been served entries written by the server's own pushes
			c.Count("hist_hits_on_entries_written_by_server_pushes", served[0].allHits())
		}
		cpHits, cpChanged := 0, false
		for pi, sp := range specs {
			cpHits += served[pi].allHits()
			for _, t := range cacheTypes {
				c.Count("hist_cache_hits:"+t, served[pi].hits[t])
				c.Count("hist_cache_lookups:"+t, served[pi].total[t])
			}
			c.Count("hist_resources_compared", fresh[pi].count())
			if pf := prevFresh[pi]; pf != nil && len(compare(fresh[pi], pf)) > 0 {
				cpChanged = true
				c.Count("hist_proxy_outputs_changed_by_burst", 1)
			}
			diffs := compare(served[pi], fresh[pi])
			if len(diffs) > 0 {
				again := generate(s.cold, s.srv.SetupProxy(sp.build()), push, routes[pi])
				if d2 := compare(again, fresh[pi]); len(d2) > 0 {
					c.Inconclusive(fmt.Sprintf("fresh generation is not reproducible for %s %s", d2[0].Type, d2[0].Name))
					diffs = nil
				}
			}
			seenKey := map[string]bool{}
			for _, d := range diffs {
				// classify: an older state of this proxy's resource (stale), another proxy's current resource (shared), or neither
				class := "differs"
				got := served[pi].res[d.Type][d.Name]
				if got != nil {
					h := hashBytes(got)
					if at, ok := earlier[key{pi, d.Type, d.Name}][h]; ok {
						class = "stale"
						d.Diff = fmt.Sprintf("served bytes equal this proxy's fresh resource at checkpoint %d; %s", at, d.Diff)
					} else {
						for pj := range specs {
							if pj != pi && fresh[pj].res[d.Type][d.Name] != nil && hashBytes(fresh[pj].res[d.Type][d.Name]) == h {
								class = "shared-across-proxies"
								d.Diff = fmt.Sprintf("served bytes equal the fresh resource of proxy [%s]; %s", specString(specs[pj]), d.Diff)
								break
							}
						}
					}
				} else if d.What == "missing" {
					class = "stale"
				}
				k := fmt.Sprintf("hist:%s:%s", class, d.Type)
				// trace the served object to the push that wrote it into the cache: a writer that generated from an OLDER snapshot
				// than the published one names the observed order of invalidation / snapshot computation / publication
				if rec, ok := s.in.writerOf(served[pi].ptr[d.Type][d.Name]); ok && got != nil {
					if cause, detail := s.in.staleCause(rec, push); cause != "" {
						k = fmt.Sprintf("hist:cause=%s:%s:%s", cause, class, d.Type)
						d.Diff = detail + "; " + d.Diff
					}
				}
				if seenKey[k] {
					continue
				}
				seenKey[k] = true
				c.Violation(k, fmt.Sprintf("history %d checkpoint %d (after burst %s): proxy [%s] served from the warm shared cache gets %s %s (%s) different from uncached generation on the same snapshot: %s",
					i, cp, opsString(burst), specString(sp), strings.ToUpper(d.Type), d.Name, d.What, d.Diff),
					map[string]any{"history": i, "checkpoint": cp, "proxy": sp, "type": d.Type, "resource": d.Name, "what": d.What, "diff": d.Diff, "last_burst": burst, "ops_so_far": applied})
			}
			for _, t := range cacheTypes {
				for name, b := range fresh[pi].res[t] {
					kk := key{pi, t, name}
					if earlier[kk] == nil {
						earlier[kk] = map[[32]byte]int{}
					}
					if _, ok := earlier[kk][hashBytes(b)]; !ok {
						earlier[kk][hashBytes(b)] = cp
					}
				}
			}
			_ = sp
		}
		prevFresh = fresh
		if checkpoints > 0 {
			// the unit of evaluation (and of non-triviality) of this monitor is the checkpoint; the Case counted the first one
			c.AddEvaluations(1)
		}
		checkpoints++
		hitsTotal += cpHits
		if cpHits > 0 && cpChanged {
			nontrivialCheckpoints++
			c.Nontrivial(vh.Hash("hist", i, cp, burst))
		}
	}

	// instant: the endpoint index promises to clear the cache in sync with a shard update, so as soon as
	// EDSUpdate has returned, serving from the cache must equal fresh generation. The control plane was idle
	// before the update, so the snapshot cannot be superseded meanwhile (the update only causes an endpoint
	// push); the lookups use a zero Start, which makes them read-only (the cache ignores such Adds).
	prevInstant := map[string][]byte{}
	instant := func(op histOp) {
		push := s.srv.PushContext()
		hostn := host.Name(op.Service + ".reg.example.com")
		names := sets.New(model.BuildSubsetKey(model.TrafficDirectionOutbound, "", hostn, 80))
		if op.Service == "plain" {
			names.Insert(model.BuildSubsetKey(model.TrafficDirectionOutbound, "v1", hostn, 80))
			names.Insert(model.BuildSubsetKey(model.TrafficDirectionOutbound, "v2", hostn, 80))
		}
		for _, pi := range []int{0, 1, 6} {
			sp := specs[pi]
			gen := func(gs genset) map[string][]byte {
				p := s.srv.SetupProxy(sp.build())
				res, _, err := gs.eds.Generate(p, &model.WatchedResource{TypeUrl: v3.EndpointType, ResourceNames: names},
					&model.PushRequest{Forced: true, Push: push, Reason: model.NewReasonStats(model.ProxyRequest)})
				if err != nil {
					vh.Abort("eds: %v", err)
				}
				o := newOutput()
				o.add("eds", res)
				return o.res["eds"]
			}
			served, fresh := gen(s.warm), gen(s.cold)
			c.Count("hist_instant_eds_checks", 1)
			for n, fb := range fresh {
				k := fmt.Sprintf("%d|%s", pi, n)
				if pb, ok := prevInstant[k]; ok && string(pb) != string(fb) {
					c.Count("hist_instant_eds_checks_where_endpoints_changed", 1)
				}
				prevInstant[k] = fb
				if sb := served[n]; string(sb) != string(fb) {
					if again := gen(s.cold); string(again[n]) != string(fb) {
						c.Inconclusive("fresh EDS generation is not reproducible for " + n)
						continue
					}
					c.Violation("hist:eds-stale-after-endpoint-update", fmt.Sprintf("history %d: right after EDSUpdate(%s@%s=%v) returned, proxy [%s] is served %s from the cache different from fresh generation: %s",
						i, op.Service, op.Shard, op.Eps, specString(sp), n, protoDiff(sb, fb)),
						map[string]any{"history": i, "op": op, "proxy": sp, "resource": n, "ops_so_far": applied})
				}
			}
		}
	}

	checkpoint(0, nil)
	// From here on ProxyUpdate / debug pushes for the connected clients run concurrently with the ingestion of every burst.
	pk := startPoker(s, clients, c.Rng("hist-poke", i))
	defer pk.close()
	for bi, burst := range bursts {
		pk.resume()
		for _, op := range burst {
			if op.Instant {
				pk.pause() // the instant check needs an idle control plane before the endpoint update
				waitIdle(s.ds)
				// make sure the affected entries are cached (read-write generation at an idle point follows the protocol)
				pc := s.srv.PushContext()
				for _, pi := range []int{0, 1, 6} {
					p := s.srv.SetupProxy(specs[pi].build())
					generate(s.warm, p, pc, nil)
				}
			}
			s.applyOp(op, slots, state)
			if op.Instant {
				instant(op)
				pk.resume()
			}
			applied = append(applied, op)
			if op.Slot != "" {
				c.SetAdd("hist_op_kinds", strings.SplitN(op.Slot, "/", 2)[0]+map[bool]string{true: ":delete", false: ":write"}[op.To == -1])
			} else {
				c.SetAdd("hist_op_kinds", "registry-endpoints")
			}
		}
		runtime.Gosched()
		// keep pushing until every change of the burst is in a published snapshot, then let the control plane settle
		for deadline := time.Now().Add(idleWatchdog); s.ds.InboundUpdates.Load() != s.ds.CommittedUpdates.Load(); time.Sleep(200 * time.Microsecond) {
			if time.Now().After(deadline) { // watchdog only: the case is abandoned, never judged
				vh.Abort("updates of the burst were not committed")
			}
		}
		pk.pause()
		checkpoint(bi+1, burst)
	}
	pk.close()
	pushes := 0
	for _, cl := range clients {
		pushes += cl.responses(v3.ClusterType) + cl.responses(v3.EndpointType) + cl.responses(v3.RouteType)
	}
	c.Count("hist_histories", 1)
	c.Count("hist_pushes_from_published_snapshot:proxy-update", pk.proxyUpdates)
	c.Count("hist_pushes_from_published_snapshot:debug-push-all", pk.pushAlls)
	c.Count("hist_pushes_issued_with_start_inside_an_initcontext_window", pk.inside)
	c.Count("hist_initcontext_windows", int(s.in.windows.Load()))
	c.Count("hist_initcontext_config_store_reads_delayed", int(s.in.listsDelayed.Load()))
	c.Count("hist_cache_adds_from_replaced_snapshot_inside_an_initcontext_window", int(s.in.addsInside.Load()))
	c.Count("hist_cache_adds_accepted_inside_an_initcontext_window", int(s.in.addsInsideAccepted.Load()))
	c.Count("hist_cache_invalidations_by_discovery_server", int(s.in.dsClears.Load()))
	c.Count("hist_ops", len(applied))
	c.Count("hist_checkpoints", checkpoints)
	c.Count("hist_nontrivial_checkpoints", nontrivialCheckpoints)
	c.Count("hist_responses_to_connected_clients", pushes)
	c.Count("hist_cache_keys_written_by_server_pushes_before_first_checkpoint", keysFromPushes)
	if i < 2 {
		c.Sample(map[string]any{"monitor": "hist", "history": i, "ops": len(applied), "checkpoints": checkpoints, "cache_hits": hitsTotal, "first_ops": opsString(applied[:min(6, len(applied))])})
	}
}

func opsString(ops []histOp) string {
	var out []string
	for _, o := range ops {
		if o.Service != "" {
			out = append(out, fmt.Sprintf("eds(%s@%s=%v)", o.Service, o.Shard, o.Eps))
		} else {
			out = append(out, fmt.Sprintf("%s->%d", o.Slot, o.To))
		}
	}
	return "[" + strings.Join(out, " ") + "]"
}
