package main

import (
	"fmt"
	"sort"
	"strings"

	meshconfig "istio.io/api/mesh/v1alpha1"
	networking "istio.io/api/networking/v1alpha3"
	typev1beta1 "istio.io/api/type/v1beta1"
	"istio.io/istio/pilot/pkg/model"
	netutil "istio.io/istio/pilot/pkg/networking/util"
	"istio.io/istio/pilot/pkg/serviceregistry/provider"
	xdsfake "istio.io/istio/pilot/test/xds"
	"istio.io/istio/pkg/cluster"
	"istio.io/istio/pkg/config"
	"istio.io/istio/pkg/config/host"
	"istio.io/istio/pkg/config/mesh"
	"istio.io/istio/pkg/config/protocol"
	"istio.io/istio/pkg/config/schema/gvk"
	"istio.io/istio/pkg/network"
	"istio.io/istio/pkg/security"
	"istio.io/istio/pkg/spiffe"
	"istio.io/istio/pkg/util/protomarshal"
)

// ---------------------------------------------------------------------------------------
// worlds

// meshYAML is the "mesh" world template: ServiceEntries (static with localities/networks/labels, DNS,
// external TLS, per-namespace duplicates, private), DestinationRules (subsets, outlier detection +
// failover priority, workloadSelector overrides, file-based MUTUAL, credentialName (Kubernetes secret and sds:// socket), ISTIO_MUTUAL),
// (the DNS service with failoverPriority keeps its endpoints in one locality: with two localities CDS generation panics in
// loadbalancer.applyFailoverPriorityPerLocality, index out of range - reported, outside this property.)
// VirtualServices (subset routing, source-label match, namespace-private, gateway-bound), Sidecars
// (workload-selected, namespace default), PeerAuthentications, EnvoyFilters (workload-selected, root
// namespace with unconditional, proxy-version-conditional and proxy-metadata-conditional patches of one class in ONE
// filter), AuthorizationPolicy, Gateway.
const meshYAML = `
apiVersion: networking.istio.io/v1
kind: ServiceEntry
metadata: {name: static, namespace: ns1}
spec:
  hosts: [static.example.com]
  addresses: [10.10.0.1]
  location: MESH_INTERNAL
  resolution: STATIC
  ports:
  - {number: 80, name: http, protocol: HTTP}
  - {number: 9000, name: tcp, protocol: TCP}
  endpoints:
  - {address: 10.1.0.1, labels: {version: v1, tier: a, security.istio.io/tlsMode: istio}, locality: r1/z1/s1, network: n1}
  - {address: 10.1.0.2, labels: {version: v2, tier: b, security.istio.io/tlsMode: istio}, locality: r1/z2/s1, network: n1}
  - {address: 10.1.0.3, labels: {version: v1, tier: b, security.istio.io/tlsMode: istio}, locality: r2/z1/s1, network: n2}
  - {address: 10.1.0.4, labels: {version: v2, tier: a}, locality: r2/z2/s1, network: n2, weight: 3}
---
apiVersion: networking.istio.io/v1
kind: ServiceEntry
metadata: {name: dns, namespace: ns1}
spec:
  hosts: [dns.example.com]
  location: MESH_EXTERNAL
  resolution: DNS
  ports: [{number: 8080, name: http, protocol: HTTP}]
  endpoints:
  - {address: a.dns.example.com, locality: r1/z1/s1, labels: {tier: a}}
  - {address: b.dns.example.com, locality: r2/z1/s1, labels: {tier: b}}
---
apiVersion: networking.istio.io/v1
kind: ServiceEntry
metadata: {name: dns2, namespace: ns1}
spec:
  hosts: [dns2.example.com]
  location: MESH_EXTERNAL
  resolution: DNS
  ports: [{number: 8080, name: http, protocol: HTTP}]
  endpoints:
  - {address: a.dns2.example.com, locality: r1/z1/s1, labels: {tier: a}}
  - {address: b.dns2.example.com, locality: r1/z1/s1, labels: {tier: b}}
---
apiVersion: networking.istio.io/v1
kind: ServiceEntry
metadata: {name: ext, namespace: ns1}
spec:
  hosts: [ext.example.com]
  location: MESH_EXTERNAL
  resolution: DNS
  ports:
  - {number: 443, name: tls, protocol: TLS}
  - {number: 8443, name: http-ext, protocol: HTTP}
---
apiVersion: networking.istio.io/v1
kind: ServiceEntry
metadata: {name: ext2, namespace: ns1}
spec:
  hosts: [ext2.example.com]
  location: MESH_EXTERNAL
  resolution: DNS
  ports: [{number: 8444, name: http-ext2, protocol: HTTP}]
---
apiVersion: networking.istio.io/v1
kind: ServiceEntry
metadata: {name: shared, namespace: ns2}
spec:
  hosts: [shared.example.com]
  location: MESH_INTERNAL
  resolution: STATIC
  ports: [{number: 8081, name: http, protocol: HTTP}]
  endpoints:
  - {address: 10.2.0.1, labels: {version: v1, security.istio.io/tlsMode: istio}, locality: r1/z1/s1, network: n1}
  - {address: 10.2.0.2, labels: {version: v1}, locality: r2/z1/s1, network: n2}
---
apiVersion: networking.istio.io/v1
kind: ServiceEntry
metadata: {name: private, namespace: ns2}
spec:
  hosts: [private.example.com]
  exportTo: ["."]
  resolution: STATIC
  ports: [{number: 80, name: http, protocol: HTTP}]
  endpoints: [{address: 10.2.1.1}]
---
apiVersion: networking.istio.io/v1
kind: ServiceEntry
metadata: {name: dup, namespace: ns1}
spec:
  hosts: [dup.example.com]
  exportTo: ["."]
  resolution: STATIC
  ports: [{number: 80, name: http, protocol: HTTP}]
  endpoints: [{address: 10.3.0.1}]
---
apiVersion: networking.istio.io/v1
kind: ServiceEntry
metadata: {name: dup, namespace: ns2}
spec:
  hosts: [dup.example.com]
  exportTo: ["."]
  resolution: STATIC
  ports: [{number: 80, name: http, protocol: HTTP}]
  endpoints: [{address: 10.3.0.2}]
---
apiVersion: networking.istio.io/v1
kind: DestinationRule
metadata: {name: static, namespace: ns1}
spec:
  host: static.example.com
  trafficPolicy:
    outlierDetection: {consecutive5xxErrors: 5, baseEjectionTime: 30s}
    loadBalancer:
      localityLbSetting: {enabled: true, failoverPriority: [tier]}
  subsets:
  - {name: v1, labels: {version: v1}}
  - name: v2
    labels: {version: v2}
    trafficPolicy: {connectionPool: {tcp: {maxConnections: 7}}}
---
apiVersion: networking.istio.io/v1
kind: DestinationRule
metadata: {name: static-special, namespace: ns1}
spec:
  host: static.example.com
  workloadSelector: {matchLabels: {app: special}}
  trafficPolicy:
    connectionPool: {tcp: {maxConnections: 3}}
    tls: {mode: DISABLE}
  subsets:
  - {name: v1, labels: {version: v1, tier: a}}
  - {name: v2, labels: {version: v2}}
---
apiVersion: networking.istio.io/v1
kind: DestinationRule
metadata: {name: dns, namespace: ns1}
spec:
  host: dns.example.com
  trafficPolicy:
    outlierDetection: {consecutive5xxErrors: 3}
    loadBalancer:
      localityLbSetting: {enabled: true}
---
apiVersion: networking.istio.io/v1
kind: DestinationRule
metadata: {name: dns2, namespace: ns1}
spec:
  host: dns2.example.com
  trafficPolicy:
    outlierDetection: {consecutive5xxErrors: 3}
    loadBalancer:
      localityLbSetting: {enabled: true, failoverPriority: [tier]}
---
apiVersion: networking.istio.io/v1
kind: DestinationRule
metadata: {name: ext, namespace: ns1}
spec:
  host: ext.example.com
  trafficPolicy:
    portLevelSettings:
    - port: {number: 8443}
      tls: {mode: MUTUAL, clientCertificate: /etc/certs/c.pem, privateKey: /etc/certs/k.pem, caCertificates: /etc/certs/ca.pem}
---
apiVersion: networking.istio.io/v1
kind: DestinationRule
metadata: {name: ext-cred, namespace: ns1}
spec:
  host: ext.example.com
  workloadSelector: {matchLabels: {app: egress}}
  trafficPolicy:
    portLevelSettings:
    - port: {number: 8443}
      tls: {mode: SIMPLE, credentialName: ext-cred}
---
apiVersion: networking.istio.io/v1
kind: DestinationRule
metadata: {name: ext2-sds, namespace: ns1}
spec:
  host: ext2.example.com
  workloadSelector: {matchLabels: {app: client}}
  trafficPolicy:
    tls: {mode: SIMPLE, credentialName: "sds://ext2-cred"}
---
apiVersion: networking.istio.io/v1
kind: DestinationRule
metadata: {name: shared, namespace: ns2}
spec:
  host: shared.example.com
  exportTo: ["*"]
  trafficPolicy:
    tls: {mode: ISTIO_MUTUAL}
---
apiVersion: networking.istio.io/v1
kind: VirtualService
metadata: {name: static, namespace: ns1}
spec:
  hosts: [static.example.com]
  http:
  - match: [{headers: {x-canary: {exact: "1"}}}]
    route: [{destination: {host: static.example.com, subset: v2}}]
  - route:
    - {destination: {host: static.example.com, subset: v1}, weight: 80}
    - {destination: {host: static.example.com, subset: v2}, weight: 20}
---
apiVersion: networking.istio.io/v1
kind: VirtualService
metadata: {name: shared, namespace: ns2}
spec:
  hosts: [shared.example.com]
  exportTo: ["."]
  http:
  - match: [{sourceLabels: {app: special}}]
    headers: {request: {set: {x-src: special}}}
    route: [{destination: {host: shared.example.com}}]
  - route: [{destination: {host: shared.example.com}}]
---
apiVersion: networking.istio.io/v1
kind: VirtualService
metadata: {name: dns, namespace: ns1}
spec:
  hosts: [dns.example.com]
  exportTo: ["."]
  http:
  - timeout: 3s
    route: [{destination: {host: dns.example.com}}]
---
apiVersion: networking.istio.io/v1
kind: Gateway
metadata: {name: gw, namespace: istio-system}
spec:
  selector: {istio: ingressgateway}
  servers:
  - port: {number: 80, name: http, protocol: HTTP}
    hosts: ["*.example.com"]
---
apiVersion: networking.istio.io/v1
kind: VirtualService
metadata: {name: gw-static, namespace: istio-system}
spec:
  hosts: [static.example.com]
  gateways: [gw]
  http:
  - route: [{destination: {host: static.example.com, subset: v1}}]
---
apiVersion: networking.istio.io/v1
kind: Sidecar
metadata: {name: scoped, namespace: ns1}
spec:
  workloadSelector: {labels: {app: scoped}}
  outboundTrafficPolicy: {mode: REGISTRY_ONLY}
  egress:
  - hosts: ["ns1/static.example.com", "ns2/*"]
---
apiVersion: networking.istio.io/v1
kind: Sidecar
metadata: {name: default, namespace: ns2}
spec:
  egress:
  - hosts: ["./*", "ns1/static.example.com", "ns1/ext.example.com"]
---
apiVersion: security.istio.io/v1
kind: PeerAuthentication
metadata: {name: default, namespace: ns2}
spec:
  mtls: {mode: STRICT}
---
apiVersion: security.istio.io/v1
kind: PeerAuthentication
metadata: {name: strict-workload, namespace: ns1}
spec:
  selector: {matchLabels: {app: strict}}
  mtls: {mode: STRICT}
---
apiVersion: security.istio.io/v1
kind: AuthorizationPolicy
metadata: {name: authz, namespace: ns1}
spec:
  selector: {matchLabels: {app: authz}}
  action: DENY
  rules:
  - from: [{source: {namespaces: [ns2]}}]
---
apiVersion: networking.istio.io/v1alpha3
kind: EnvoyFilter
metadata: {name: patched, namespace: ns1}
spec:
  workloadSelector: {labels: {app: patched}}
  configPatches:
  - applyTo: CLUSTER
    match: {context: SIDECAR_OUTBOUND, cluster: {service: static.example.com}}
    patch: {operation: MERGE, value: {connect_timeout: 7s}}
  - applyTo: VIRTUAL_HOST
    match: {context: SIDECAR_OUTBOUND}
    patch: {operation: MERGE, value: {request_headers_to_add: [{header: {key: x-patched, value: "1"}}]}}
---
apiVersion: networking.istio.io/v1alpha3
kind: EnvoyFilter
metadata: {name: root, namespace: istio-system}
spec:
  configPatches:
  - applyTo: CLUSTER
    match: {context: ANY, proxy: {proxyVersion: '^1\.2[0-8].*'}, cluster: {service: dns.example.com}}
    patch: {operation: MERGE, value: {connect_timeout: 11s}}
  - applyTo: CLUSTER
    match: {context: ANY, proxy: {metadata: {VERIF_TIER: gold}}, cluster: {service: static.example.com}}
    patch: {operation: MERGE, value: {per_connection_buffer_limit_bytes: 12345}}
  - applyTo: ROUTE_CONFIGURATION
    match: {context: SIDECAR_OUTBOUND}
    patch: {operation: MERGE, value: {request_headers_to_add: [{header: {key: x-mesh, value: "1"}}]}}
  - applyTo: ROUTE_CONFIGURATION
    match: {context: SIDECAR_OUTBOUND, proxy: {metadata: {VERIF_TIER: gold}}}
    patch: {operation: MERGE, value: {request_headers_to_add: [{header: {key: x-tier, value: gold}}]}}
  - applyTo: ROUTE_CONFIGURATION
    match: {context: SIDECAR_OUTBOUND, proxy: {proxyVersion: '^1\.3.*'}}
    patch: {operation: MERGE, value: {response_headers_to_add: [{header: {key: x-new, value: "1"}}]}}
`

type worldTemplate struct {
	Name string
	Opts func() xdsfake.FakeOptions
	// shards reported directly to the endpoint index after start (registry world)
	Shards func(idx *model.EndpointIndex)
	// base proxy profiles that make sense in this world
	Profiles []string
}

var netGateways = []model.NetworkGateway{
	{Network: "n1", Cluster: "c1", Addr: "172.16.1.1", Port: 15443},
	{Network: "n2", Cluster: "c2", Addr: "172.16.2.1", Port: 15443},
	// an IPv6 address of the same gateway: which gateways a proxy can use depends on its IP family
	{Network: "n2", Cluster: "c2", Addr: "2001:db8:2::1", Port: 15443},
}

func meshDefault() *meshconfig.MeshConfig { return mesh.DefaultMeshConfig() }

func meshRegistryOnly() *meshconfig.MeshConfig {
	m := mesh.DefaultMeshConfig()
	m.OutboundTrafficPolicy = &meshconfig.MeshConfig_OutboundTrafficPolicy{Mode: meshconfig.MeshConfig_OutboundTrafficPolicy_REGISTRY_ONLY}
	m.ServiceSettings = []*meshconfig.MeshConfig_ServiceSettings{{
		Settings: &meshconfig.MeshConfig_ServiceSettings_Settings{ClusterLocal: true},
		Hosts:    []string{"shared.example.com", "local.reg.example.com"},
	}}
	return m
}

var worlds = []worldTemplate{
	{
		Name: "mesh",
		Opts: func() xdsfake.FakeOptions {
			return xdsfake.FakeOptions{ConfigString: meshYAML, MeshConfig: meshDefault(), Gateways: netGateways, DefaultClusterName: "c1"}
		},
		Profiles: []string{"sidecar-ns1", "sidecar-ns2", "router"},
	},
	{
		Name: "registry",
		Opts: func() xdsfake.FakeOptions {
			svcs, cfgs := registryWorld()
			return xdsfake.FakeOptions{Services: svcs, Configs: cfgs, MeshConfig: meshRegistryOnly(), Gateways: netGateways, DefaultClusterName: "c1"}
		},
		Shards:   registryShards,
		Profiles: []string{"sidecar-ns1", "router"},
	},
	{
		Name: "mesh-registry-only",
		Opts: func() xdsfake.FakeOptions {
			return xdsfake.FakeOptions{ConfigString: meshYAML, MeshConfig: meshRegistryOnly(), Gateways: netGateways, DefaultClusterName: "c1"}
		},
		Profiles: []string{"sidecar-ns1", "sidecar-ns2", "router"},
	},
}

// registryWorld: services known through a service registry (as Kubernetes services are) with shards
// reported by two clusters; node-local, cluster-local (mesh config), persistent-session services.
func registryWorld() ([]*model.Service, []config.Config) {
	mk := func(name string, nodeLocal bool, ports map[int]string) *model.Service {
		s := &model.Service{
			Hostname:       host.Name(name + ".reg.example.com"),
			DefaultAddress: "0.0.0.0",
			Resolution:     model.ClientSideLB,
			Attributes: model.ServiceAttributes{
				Name: name, Namespace: "ns1", ServiceRegistry: provider.Kubernetes, Labels: map[string]string{},
			},
		}
		s.Attributes.NodeLocal = nodeLocal
		nums := make([]int, 0, len(ports))
		for n := range ports {
			nums = append(nums, n)
		}
		sort.Ints(nums)
		for _, n := range nums {
			p := protocol.HTTP
			if ports[n] == "tcp" {
				p = protocol.TCP
			}
			s.Ports = append(s.Ports, &model.Port{Name: ports[n], Port: n, Protocol: p})
		}
		return s
	}
	svcs := []*model.Service{
		mk("plain", false, map[int]string{80: "http", 9000: "tcp"}),
		mk("local", false, map[int]string{80: "http"}),
		mk("node", true, map[int]string{80: "http"}),
		mk("prio", false, map[int]string{8080: "http"}),
	}
	// a hostname inside the proxies' DNS domain: short names become route domains
	kube := mk("kube", false, map[int]string{80: "http"})
	kube.Hostname = "kube.ns1.svc.cluster.local"
	kube.DefaultAddress = "10.20.0.1"
	svcs = append(svcs, kube)
	dr := func(name, hostn string, spec *networking.DestinationRule) config.Config {
		spec.Host = hostn
		return config.Config{Meta: config.Meta{GroupVersionKind: gvk.DestinationRule, Name: name, Namespace: "ns1"}, Spec: spec}
	}
	cfgs := []config.Config{
		dr("plain", "plain.reg.example.com", &networking.DestinationRule{
			Subsets: []*networking.Subset{{Name: "v1", Labels: map[string]string{"version": "v1"}}, {Name: "v2", Labels: map[string]string{"version": "v2"}}},
		}),
		dr("prio", "prio.reg.example.com", &networking.DestinationRule{
			TrafficPolicy: &networking.TrafficPolicy{
				OutlierDetection: &networking.OutlierDetection{ConsecutiveErrors: 5},
				LoadBalancer: &networking.LoadBalancerSettings{LocalityLbSetting: &networking.LocalityLoadBalancerSetting{
					FailoverPriority: []string{"tier", "topology.istio.io/network"},
				}},
			},
		}),
		dr("plain-special", "plain.reg.example.com", &networking.DestinationRule{
			WorkloadSelector: &typev1beta1.WorkloadSelector{MatchLabels: map[string]string{"app": "special"}},
			Subsets: []*networking.Subset{
				{Name: "v1", Labels: map[string]string{"version": "v1", "tier": "a"}},
				{Name: "v2", Labels: map[string]string{"version": "v2"}},
			},
			TrafficPolicy: &networking.TrafficPolicy{ConnectionPool: &networking.ConnectionPoolSettings{Tcp: &networking.ConnectionPoolSettings_TCPSettings{MaxConnections: 3}}},
		}),
		{
			Meta: config.Meta{GroupVersionKind: gvk.VirtualService, Name: "plain", Namespace: "ns1"},
			Spec: &networking.VirtualService{
				Hosts: []string{"plain.reg.example.com"},
				Http: []*networking.HTTPRoute{{Route: []*networking.HTTPRouteDestination{
					{Destination: &networking.Destination{Host: "plain.reg.example.com", Subset: "v1"}, Weight: 50},
					{Destination: &networking.Destination{Host: "plain.reg.example.com", Subset: "v2"}, Weight: 50},
				}}},
			},
		},
	}
	return svcs, cfgs
}

type regEp struct {
	addr, port, loc, net, node string
	labels                     map[string]string
	sameClusterOnly            bool
	health                     model.HealthStatus
}

func (e regEp) istio(clusterID string) *model.IstioEndpoint {
	ie := &model.IstioEndpoint{
		Addresses: []string{e.addr}, ServicePortName: e.port, EndpointPort: 8080, Labels: e.labels, Namespace: "ns1",
		WorkloadName: "w-" + e.addr, Network: network.ID(e.net), NodeName: e.node, HealthStatus: e.health,
		Locality: model.Locality{Label: e.loc, ClusterID: cluster.ID(clusterID)}, TLSMode: model.IstioMutualTLSModeLabel,
		ServiceAccount: "spiffe://cluster.local/ns/ns1/sa/w",
	}
	if e.sameClusterOnly {
		ie.DiscoverabilityPolicy = model.DiscoverableFromSameCluster
	}
	return ie
}

var registryEndpoints = map[string]map[string][]regEp{ // service -> cluster -> endpoints
	"plain": {
		"c1": {
			{addr: "10.5.1.1", port: "http", loc: "r1/z1/s1", net: "n1", node: "node-a", labels: map[string]string{"version": "v1", "tier": "a"}},
			{addr: "10.5.1.2", port: "http", loc: "r1/z2/s1", net: "n1", node: "node-b", labels: map[string]string{"version": "v2", "tier": "b"}},
			{addr: "10.5.1.3", port: "tcp", loc: "r1/z1/s1", net: "n1", node: "node-a", labels: map[string]string{"version": "v1"}},
		},
		"c2": {
			{addr: "10.5.2.1", port: "http", loc: "r2/z1/s1", net: "n2", node: "node-c", labels: map[string]string{"version": "v1", "tier": "b"}},
			{addr: "10.5.2.2", port: "http", loc: "r2/z1/s1", net: "n2", node: "node-c", labels: map[string]string{"version": "v2"}, sameClusterOnly: true},
		},
	},
	"local": {
		"c1": {{addr: "10.6.1.1", port: "http", loc: "r1/z1/s1", net: "n1", node: "node-a", labels: map[string]string{"version": "v1"}}},
		"c2": {{addr: "10.6.2.1", port: "http", loc: "r2/z1/s1", net: "n2", node: "node-c", labels: map[string]string{"version": "v1"}}},
	},
	"node": {
		"c1": {
			{addr: "10.7.1.1", port: "http", loc: "r1/z1/s1", net: "n1", node: "node-a", labels: map[string]string{"version": "v1"}},
			{addr: "10.7.1.2", port: "http", loc: "r1/z1/s1", net: "n1", node: "node-b", labels: map[string]string{"version": "v1"}},
		},
		"c2": {{addr: "10.7.2.1", port: "http", loc: "r2/z1/s1", net: "n2", node: "node-a", labels: map[string]string{"version": "v1"}}},
	},
	"kube": {
		"c1": {{addr: "10.9.1.1", port: "http", loc: "r1/z1/s1", net: "n1", node: "node-a", labels: map[string]string{"version": "v1"}}},
	},
	"prio": {
		"c1": {
			{addr: "10.8.1.1", port: "http", loc: "r1/z1/s1", net: "n1", node: "node-a", labels: map[string]string{"tier": "a", "topology.istio.io/network": "n1"}},
			{addr: "10.8.1.2", port: "http", loc: "r1/z2/s1", net: "n1", node: "node-b", labels: map[string]string{"tier": "b", "topology.istio.io/network": "n1"}, health: model.UnHealthy},
		},
		"c2": {{addr: "10.8.2.1", port: "http", loc: "r2/z1/s1", net: "n2", node: "node-c", labels: map[string]string{"tier": "a", "topology.istio.io/network": "n2"}}},
	},
}

func regHost(s string) string {
	if s == "kube" {
		return "kube.ns1.svc.cluster.local"
	}
	return s + ".reg.example.com"
}

func registryShards(idx *model.EndpointIndex) {
	svcs := make([]string, 0, len(registryEndpoints))
	for s := range registryEndpoints {
		svcs = append(svcs, s)
	}
	sort.Strings(svcs)
	for _, s := range svcs {
		for _, cl := range []string{"c1", "c2"} {
			var eps []*model.IstioEndpoint
			for _, e := range registryEndpoints[s][cl] {
				eps = append(eps, e.istio(cl))
			}
			idx.UpdateServiceEndpoints(model.ShardKey{Cluster: cluster.ID(cl), Provider: provider.Kubernetes}, regHost(s), "ns1", eps, false)
		}
	}
}

// ---------------------------------------------------------------------------------------
// proxies

// proxySpec is a plain-data description of a connecting proxy; build() turns it into the
// model.Proxy the server would construct from the node metadata.
type proxySpec struct {
	Type      string            `json:"type"`
	NS        string            `json:"ns"`
	DNSDomain string            `json:"dns_domain,omitempty"`
	Labels    map[string]string `json:"labels"`
	IPs       []string          `json:"ips"`
	Cluster   string            `json:"cluster"`
	Network   string            `json:"network"`
	Locality  string            `json:"locality"`
	Node      string            `json:"node"`
	Version   string            `json:"version"`
	SA        string            `json:"sa"`
	View      []string          `json:"view,omitempty"`
	Flags     map[string]string `json:"flags,omitempty"` // typed metadata toggles by their ISTIO_META name
	Raw       map[string]string `json:"raw,omitempty"`   // additional untyped node metadata
	PC        string            `json:"proxy_config,omitempty"`
}

func (s proxySpec) clone() proxySpec {
	c := s
	c.Labels = cloneMap(s.Labels)
	c.Flags = cloneMap(s.Flags)
	c.Raw = cloneMap(s.Raw)
	c.IPs = append([]string(nil), s.IPs...)
	c.View = append([]string(nil), s.View...)
	return c
}

func cloneMap(m map[string]string) map[string]string {
	o := make(map[string]string, len(m))
	for k, v := range m {
		o[k] = v
	}
	return o
}

var profiles = map[string]proxySpec{
	"sidecar-ns1": {
		Type: "sidecar", NS: "ns1", Labels: map[string]string{"app": "client", "tier": "a"}, IPs: []string{"10.99.0.1"},
		Cluster: "c1", Network: "n1", Locality: "r1/z1/s1", Node: "node-a", Version: "1.27.0", SA: "client",
	},
	"sidecar-ns2": {
		Type: "sidecar", NS: "ns2", Labels: map[string]string{"app": "client", "tier": "a"}, IPs: []string{"10.99.0.2"},
		Cluster: "c1", Network: "n1", Locality: "r1/z1/s1", Node: "node-a", Version: "1.27.0", SA: "client",
	},
	"router": {
		Type: "router", NS: "istio-system", Labels: map[string]string{"istio": "ingressgateway", "app": "client", "tier": "a"}, IPs: []string{"10.99.0.3"},
		Cluster: "c1", Network: "n1", Locality: "r1/z1/s1", Node: "node-a", Version: "1.27.0", SA: "gw",
	},
}

func (s proxySpec) build() *model.Proxy {
	labels := cloneMap(s.Labels)
	md := &model.NodeMetadata{
		Namespace: s.NS, Labels: labels, ClusterID: cluster.ID(s.Cluster), Network: network.ID(s.Network), NodeName: s.Node,
		IstioVersion: s.Version, ServiceAccount: s.SA, WorkloadName: "client", Raw: map[string]any{},
	}
	if len(s.View) > 0 {
		md.RequestedNetworkView = append([]string(nil), s.View...)
	}
	flagNames := make([]string, 0, len(s.Flags))
	for k := range s.Flags {
		flagNames = append(flagNames, k)
	}
	sort.Strings(flagNames)
	for _, k := range flagNames {
		v := s.Flags[k]
		md.Raw[k] = v
		switch k {
		case "DNS_CAPTURE":
			md.DNSCapture = model.StringBool(v == "true")
		case "DNS_AUTO_ALLOCATE":
			md.DNSAutoAllocate = model.StringBool(v == "true")
		case "HTTP10":
			md.HTTP10 = v
		case "ENABLE_HBONE":
			md.EnableHBONE = model.StringBool(v == "true")
		case "DISABLE_HBONE_SEND":
			md.DisableHBONESend = model.StringBool(v == "true")
		case "ENABLE_SELF_DISCOVERY":
			md.EnableSelfDiscovery = model.StringBool(v == "true")
		case "INTERCEPTION_MODE":
			md.InterceptionMode = model.TrafficInterceptionMode(v)
		case "TLS_CLIENT_CERTS":
			md.TLSClientCertChain = v + "/cert-chain.pem"
			md.TLSClientKey = v + "/key.pem"
			md.TLSClientRootCert = v + "/root-cert.pem"
		case "IDLE_TIMEOUT":
			md.IdleTimeout = v
		default:
			panic("unknown flag " + k)
		}
	}
	for k, v := range s.Raw {
		md.Raw[k] = v
	}
	if s.PC != "" {
		pc := &meshconfig.ProxyConfig{}
		if err := protomarshal.ApplyYAML(proxyConfigs[s.PC], pc); err != nil {
			panic(fmt.Sprintf("proxy config %s: %v", s.PC, err))
		}
		md.ProxyConfig = (*model.NodeMetaProxyConfig)(pc)
	}
	typ := model.SidecarProxy
	if s.Type == "router" {
		typ = model.Router
	}
	dns := s.DNSDomain
	if dns == "" {
		dns = s.NS + ".svc.cluster.local"
	}
	return &model.Proxy{
		Type: typ, ID: "client." + s.NS, ConfigNamespace: s.NS, IPAddresses: append([]string(nil), s.IPs...), Labels: labels, Metadata: md,
		Locality: netutil.ConvertLocality(s.Locality), DNSDomain: dns,
		VerifiedIdentity: &spiffe.Identity{TrustDomain: "cluster.local", Namespace: s.NS, ServiceAccount: s.SA},
	}
}

var proxyConfigs = map[string]string{
	"attempt-count-off": "proxyHeaders: {attemptCount: {disabled: true}}",
	"preserve-case":     "proxyHeaders: {preserveHttp1HeaderCase: true}",
	"x-forwarded-host":  "proxyHeaders: {xForwardedHost: {enabled: true}}",
}

// ---------------------------------------------------------------------------------------
// the fixed list of attributes generation reads; each has one or more alternative values

type attribute struct {
	Name  string
	Only  string // "sidecar" / "router" / "" (any)
	Apply func(s *proxySpec)
}

func setLabel(k, v string) func(*proxySpec) {
	return func(s *proxySpec) { s.Labels[k] = v }
}

func setFlag(k, v string) func(*proxySpec) {
	return func(s *proxySpec) { s.Flags[k] = v }
}

var attributes = []attribute{
	{Name: "namespace", Only: "sidecar", Apply: func(s *proxySpec) {
		if s.NS == "ns1" {
			s.NS = "ns2"
		} else {
			s.NS = "ns1"
		}
	}},
	{Name: "label:dr-workload-selector", Apply: setLabel("app", "special")},
	{Name: "label:dr-credential-selector", Apply: setLabel("app", "egress")},
	{Name: "label:sidecar-selector", Only: "sidecar", Apply: setLabel("app", "scoped")},
	{Name: "label:peerauthn-selector", Apply: setLabel("app", "strict")},
	{Name: "label:envoyfilter-selector", Apply: setLabel("app", "patched")},
	{Name: "label:authz-selector", Apply: setLabel("app", "authz")},
	{Name: "label:failover-priority", Apply: setLabel("tier", "b")},
	{Name: "label:failover-priority-absent", Apply: func(s *proxySpec) { delete(s.Labels, "tier") }},
	{Name: "network:other", Apply: func(s *proxySpec) { s.Network = "n2" }},
	{Name: "network:unset", Apply: func(s *proxySpec) { s.Network = "" }},
	{Name: "cluster-id", Apply: func(s *proxySpec) { s.Cluster = "c2" }},
	{Name: "locality:region", Apply: func(s *proxySpec) { s.Locality = "r2/z1/s1" }},
	{Name: "locality:zone", Apply: func(s *proxySpec) { s.Locality = "r1/z2/s1" }},
	{Name: "locality:unset", Apply: func(s *proxySpec) { s.Locality = "" }},
	{Name: "node-name", Apply: func(s *proxySpec) { s.Node = "node-b" }},
	{Name: "proxy-type", Only: "sidecar", Apply: func(s *proxySpec) { s.Type = "router" }},
	{Name: "version:1.29.2", Apply: func(s *proxySpec) { s.Version = "1.29.2" }},
	{Name: "version:1.30.0", Apply: func(s *proxySpec) { s.Version = "1.30.0" }},
	{Name: "ip-mode:v6", Apply: func(s *proxySpec) { s.IPs = []string{"2001:db8::99"} }},
	{Name: "ip-mode:dual", Apply: func(s *proxySpec) { s.IPs = append(s.IPs, "2001:db8::99") }},
	{Name: "meta:DNS_CAPTURE", Only: "sidecar", Apply: setFlag("DNS_CAPTURE", "true")},
	{Name: "meta:DNS_AUTO_ALLOCATE", Only: "sidecar", Apply: func(s *proxySpec) {
		// differs only in auto allocation: both proxies capture DNS (set on the base by the pair builder)
		s.Flags["DNS_AUTO_ALLOCATE"] = "true"
	}},
	{Name: "meta:HTTP10", Apply: setFlag("HTTP10", "1")},
	{Name: "meta:TLS_CLIENT_CERTS", Apply: setFlag("TLS_CLIENT_CERTS", "/etc/istio/client-certs")},
	{Name: "meta:ENABLE_HBONE", Apply: setFlag("ENABLE_HBONE", "true")},
	{Name: "meta:DISABLE_HBONE_SEND", Apply: setFlag("DISABLE_HBONE_SEND", "true")},
	{Name: "meta:ENABLE_SELF_DISCOVERY", Apply: setFlag("ENABLE_SELF_DISCOVERY", "true")},
	{Name: "meta:INTERCEPTION_MODE", Only: "sidecar", Apply: setFlag("INTERCEPTION_MODE", "NONE")},
	{Name: "meta:IDLE_TIMEOUT", Apply: setFlag("IDLE_TIMEOUT", "30s")},
	{Name: "meta:REQUESTED_NETWORK_VIEW", Apply: func(s *proxySpec) { s.View = []string{"n1"} }},
	{Name: "meta:credential-socket", Apply: func(s *proxySpec) { s.Raw[security.CredentialMetaDataName] = "true" }},
	{Name: "meta:file-credential-socket", Apply: func(s *proxySpec) { s.Raw[security.CredentialFileMetaDataName] = "true" }},
	{Name: "meta:envoyfilter-proxy-match", Apply: func(s *proxySpec) { s.Raw["VERIF_TIER"] = "gold" }},
	{Name: "proxy-config:attempt-count", Apply: func(s *proxySpec) { s.PC = "attempt-count-off" }},
	{Name: "proxy-config:preserve-http1-case", Apply: func(s *proxySpec) { s.PC = "preserve-case" }},
	{Name: "proxy-config:x-forwarded-host", Apply: func(s *proxySpec) { s.PC = "x-forwarded-host" }},
	{Name: "service-account", Apply: func(s *proxySpec) { s.SA = "other" }},
	{Name: "dns-domain", Apply: func(s *proxySpec) { s.DNSDomain = s.NS + ".svc.other.local" }},
}

// basePrep adapts the base of a pair so that the attribute's alternative is a one-attribute change.
func basePrep(attr string, s *proxySpec) {
	switch attr {
	case "meta:DNS_AUTO_ALLOCATE":
		s.Flags["DNS_CAPTURE"] = "true"
	case "label:dr-credential-selector":
		// the credentialName DestinationRule only makes a difference when a credential socket may exist
	}
}

func (a attribute) applies(s proxySpec) bool {
	return a.Only == "" || a.Only == s.Type
}

// baseVariants returns PRNG-free variations of a profile that broaden the context in which the
// attribute is flipped (e.g. flipping the version on a proxy selected by an EnvoyFilter).
var baseVariants = []struct {
	Name  string
	Apply func(s *proxySpec)
}{
	{"plain", func(s *proxySpec) {}},
	{"ef-selected", func(s *proxySpec) { s.Labels["app"] = "patched" }},
	{"dr-selected", func(s *proxySpec) { s.Labels["app"] = "special" }},
	{"egress-credential", func(s *proxySpec) { s.Labels["app"] = "egress"; s.Raw[security.CredentialMetaDataName] = "true" }},
	{"sidecar-scoped", func(s *proxySpec) { s.Labels["app"] = "scoped" }},
	{"remote-cluster", func(s *proxySpec) { s.Cluster = "c2"; s.Network = "n2"; s.Locality = "r2/z1/s1"; s.Node = "node-c" }},
	{"gold", func(s *proxySpec) { s.Raw["VERIF_TIER"] = "gold"; s.Version = "1.30.0" }},
	{"egress", func(s *proxySpec) { s.Labels["app"] = "egress" }},
	{"dns-capture", func(s *proxySpec) { s.Flags["DNS_CAPTURE"] = "true"; s.Flags["DNS_AUTO_ALLOCATE"] = "true" }},
}

func specString(s proxySpec) string {
	var b strings.Builder
	fmt.Fprintf(&b, "%s/%s labels=%v ips=%v cluster=%s net=%s loc=%s node=%s ver=%s sa=%s", s.Type, s.NS, sortedKV(s.Labels), s.IPs, s.Cluster, s.Network, s.Locality, s.Node, s.Version, s.SA)
	if len(s.View) > 0 {
		fmt.Fprintf(&b, " view=%v", s.View)
	}
	if len(s.Flags) > 0 {
		fmt.Fprintf(&b, " flags=%v", sortedKV(s.Flags))
	}
	if len(s.Raw) > 0 {
		fmt.Fprintf(&b, " raw=%v", sortedKV(s.Raw))
	}
	if s.PC != "" {
		fmt.Fprintf(&b, " pc=%s", s.PC)
	}
	if s.DNSDomain != "" {
		fmt.Fprintf(&b, " dns=%s", s.DNSDomain)
	}
	return b.String()
}

func sortedKV(m map[string]string) []string {
	out := make([]string, 0, len(m))
	for k, v := range m {
		out = append(out, k+"="+v)
	}
	sort.Strings(out)
	return out
}
