package main

import (
	"encoding/json"
	"reflect"
	"sort"
	"strings"

	"google.golang.org/protobuf/encoding/protojson"

	networking "istio.io/api/networking/v1alpha3"
	"istio.io/istio/pilot/pkg/model"
	"istio.io/istio/pkg/config/schema/gvk"
	"istio.io/istio/pkg/security"
)

// ---------------------------------------------------------------------------------------
// Root causes of key-completeness violations that have been analysed down to the generator input
// missing from the cache key. A violation is attributed to one of them only if BOTH the shape of the
// input (which attribute the two proxies differ in, what the world contains) AND the shape of the
// difference (served == what the other proxy gets; the difference is confined to the fields that
// input controls) match; everything else keeps the generic key key-incomplete:<type>:<attribute>.

const (
	// EndpointBuilder.filterGatewaysByIPFamily reads the proxy's IP mode; WriteHash does not write it.
	causeGatewayIPFamily = "eds-key-lacks-proxy-ip-family-read-by-network-gateway-filter"
	// ClusterBuilder.{credentialSocketExist,fileCredentialSocketExist} (node metadata "credential" /
	// "file-credential") choose the SDS cluster of DestinationRule TLS; clusterCache.Key has neither.
	causeCredentialSocket = "cds-key-lacks-credential-socket-metadata"
	// util.GetProxyHeaders(node ProxyConfig) feeds include_request_attempt_count / append_x_forwarded_host;
	// route.Cache.Key has no field for them.
	causeProxyHeaders = "rds-key-lacks-proxy-config-proxy-headers"
	// EnvoyFilter patches are selected per patch by match.proxy.metadata; the keys name the filter only.
	causeEnvoyFilterProxyMatch = "envoyfilter-key-is-per-filter-but-proxy-metadata-match-is-per-patch"
)

// pairObservation is what a recogniser may look at.
type pairObservation struct {
	s          *server
	typ        string
	served     proxySpec // the proxy that was served from the cache
	warmedBy   proxySpec
	diffs      []difference // of typ, served vs fresh for `served`
	servedOut  *output      // what `served` got from the warm cache
	freshOut   *output      // uncached generation for `served`
	otherFresh *output      // uncached generation for `warmedBy`
}

// explain returns the root cause of the differences, or "".
func explain(o pairObservation) string {
	// common to every explanation "a resource built for the other proxy was served": the served bytes
	// are exactly what the other proxy gets from uncached generation.
	for _, d := range o.diffs {
		if d.What != "content" || string(o.servedOut.res[d.Type][d.Name]) != string(o.otherFresh.res[d.Type][d.Name]) {
			return ""
		}
	}
	what := specDelta(o.served, o.warmedBy)
	switch {
	case o.typ == "eds" && what.only("ips") && ipFamily(o.served.IPs) != ipFamily(o.warmedBy.IPs) && len(o.s.gatewayAddrs) > 0:
		if allEqualAfter(o, func(v any) any { return dropGatewayEndpoints(v, o.s.gatewayAddrs) }) {
			return causeGatewayIPFamily
		}
	case o.typ == "cds" && what.onlyRaw(security.CredentialFileMetaDataName):
		if allEqualAfter(o, func(v any) any {
			return rewrite(v, func(k string, x any) (any, bool) {
				if k == "clusterName" && x == "sds-files-grpc" {
					return "sds-grpc", true
				}
				return x, true
			})
		}) {
			return causeCredentialSocket
		}
	case o.typ == "cds" && what.onlyRaw(security.CredentialMetaDataName):
		// only the SDS secret configs (name + source) of the TLS context may differ
		if allEqualAfter(o, func(v any) any {
			return rewrite(v, func(k string, x any) (any, bool) {
				if k == "validationContextSdsSecretConfig" || k == "tlsCertificateSdsSecretConfigs" {
					return nil, false
				}
				return x, true
			})
		}) {
			return causeCredentialSocket
		}
	case o.typ == "rds" && what.only("proxy_config") && proxyHeadersOnly(o.served.PC) && proxyHeadersOnly(o.warmedBy.PC):
		if allEqualAfter(o, func(v any) any {
			return rewrite(v, func(k string, x any) (any, bool) {
				if k == "includeRequestAttemptCount" || k == "appendXForwardedHost" {
					return nil, false
				}
				return x, true
			})
		}) {
			return causeProxyHeaders
		}
	case (o.typ == "cds" || o.typ == "rds") && what.onlyRawAny():
		if envoyFilterMixesProxyMatch(o.s, o.typ, o.served, o.warmedBy, what.rawKeys) {
			return causeEnvoyFilterProxyMatch
		}
	}
	return ""
}

// ---------------------------------------------------------------------------------------
// what two proxy specs differ in

type delta struct {
	fields  []string // json field names of proxySpec that differ
	rawKeys []string // keys of Raw that differ
}

func specDelta(a, b proxySpec) delta {
	var d delta
	ja, jb := map[string]any{}, map[string]any{}
	ba, _ := json.Marshal(a)
	bb, _ := json.Marshal(b)
	_ = json.Unmarshal(ba, &ja)
	_ = json.Unmarshal(bb, &jb)
	keys := map[string]bool{}
	for k := range ja {
		keys[k] = true
	}
	for k := range jb {
		keys[k] = true
	}
	for k := range keys {
		if !reflect.DeepEqual(ja[k], jb[k]) {
			d.fields = append(d.fields, k)
		}
	}
	sort.Strings(d.fields)
	rk := map[string]bool{}
	for k, v := range a.Raw {
		if b.Raw[k] != v {
			rk[k] = true
		}
	}
	for k, v := range b.Raw {
		if a.Raw[k] != v {
			rk[k] = true
		}
	}
	for k := range rk {
		d.rawKeys = append(d.rawKeys, k)
	}
	sort.Strings(d.rawKeys)
	return d
}

func (d delta) only(field string) bool { return len(d.fields) == 1 && d.fields[0] == field }
func (d delta) onlyRawAny() bool       { return d.only("raw") && len(d.rawKeys) > 0 }
func (d delta) onlyRaw(key string) bool {
	return d.only("raw") && len(d.rawKeys) == 1 && d.rawKeys[0] == key
}

func ipFamily(ips []string) string {
	v4, v6 := false, false
	for _, ip := range ips {
		if strings.Contains(ip, ":") {
			v6 = true
		} else {
			v4 = true
		}
	}
	switch {
	case v4 && v6:
		return "dual"
	case v6:
		return "v6"
	default:
		return "v4"
	}
}

// proxyHeadersOnly: the named ProxyConfig of the harness sets nothing but proxyHeaders.
func proxyHeadersOnly(pc string) bool {
	return pc == "" || strings.HasPrefix(strings.TrimSpace(proxyConfigs[pc]), "proxyHeaders:")
}

// ---------------------------------------------------------------------------------------
// structural comparison after a cause-specific normalisation

func toTree(b []byte) any {
	m := decodeRes(b)
	if m == nil {
		return nil
	}
	js, err := protojson.Marshal(m) // resolves Any (typed_config) through the global registry
	if err != nil {
		return nil
	}
	var v any
	if json.Unmarshal(js, &v) != nil {
		return nil
	}
	return v
}

// allEqualAfter: every differing resource is equal once both sides went through norm.
func allEqualAfter(o pairObservation, norm func(any) any) bool {
	for _, d := range o.diffs {
		g, w := toTree(o.servedOut.res[d.Type][d.Name]), toTree(o.freshOut.res[d.Type][d.Name])
		if g == nil || w == nil || !reflect.DeepEqual(norm(g), norm(w)) {
			return false
		}
	}
	return len(o.diffs) > 0
}

// rewrite walks a JSON tree; f decides for every object member whether it stays and with which value.
func rewrite(v any, f func(key string, val any) (any, bool)) any {
	switch x := v.(type) {
	case map[string]any:
		out := make(map[string]any, len(x))
		for k, val := range x {
			nv, keep := f(k, val)
			if keep {
				out[k] = rewrite(nv, f)
			}
		}
		return out
	case []any:
		out := make([]any, 0, len(x))
		for _, e := range x {
			out = append(out, rewrite(e, f))
		}
		return out
	}
	return v
}

// dropGatewayEndpoints removes from a ClusterLoadAssignment the lb_endpoints that stand for an
// east-west gateway, the localities left empty by that, and what is derived from the number of
// endpoints in a locality (weights, failover priority).
func dropGatewayEndpoints(v any, gw map[string]bool) any {
	cla, ok := v.(map[string]any)
	if !ok {
		return v
	}
	eps, _ := cla["endpoints"].([]any)
	var keptLocs []any
	for _, l := range eps {
		loc, _ := l.(map[string]any)
		lbs, _ := loc["lbEndpoints"].([]any)
		var kept []any
		for _, e := range lbs {
			em, _ := e.(map[string]any)
			addr := dig(em, "endpoint", "address", "socketAddress", "address")
			if s, _ := addr.(string); gw[s] {
				continue
			}
			kept = append(kept, e)
		}
		if len(kept) == 0 {
			continue
		}
		nl := map[string]any{}
		for k, x := range loc {
			if k != "loadBalancingWeight" && k != "priority" {
				nl[k] = x
			}
		}
		nl["lbEndpoints"] = kept
		keptLocs = append(keptLocs, nl)
	}
	out := map[string]any{}
	for k, x := range cla {
		out[k] = x
	}
	out["endpoints"] = keptLocs
	return out
}

func dig(m map[string]any, path ...string) any {
	var cur any = m
	for _, p := range path {
		mm, ok := cur.(map[string]any)
		if !ok {
			return nil
		}
		cur = mm[p]
	}
	return cur
}

// ---------------------------------------------------------------------------------------
// EnvoyFilter shape: some filter attached to both proxies has, for the resource class, one patch whose
// proxy match reads a metadata key the two proxies differ in and applies to exactly one of them, and
// another patch of the class that applies to both (which puts the filter's name into both keys).

var efClasses = map[string][]networking.EnvoyFilter_ApplyTo{
	"cds": {networking.EnvoyFilter_CLUSTER},
	"rds": {networking.EnvoyFilter_ROUTE_CONFIGURATION, networking.EnvoyFilter_VIRTUAL_HOST, networking.EnvoyFilter_HTTP_ROUTE},
}

func envoyFilterMixesProxyMatch(s *server, typ string, a, b proxySpec, rawKeys []string) bool {
	differ := map[string]bool{}
	for _, k := range rawKeys {
		differ[k] = true
	}
	inClass := func(at networking.EnvoyFilter_ApplyTo) bool {
		for _, c := range efClasses[typ] {
			if c == at {
				return true
			}
		}
		return false
	}
	// the documented proxy match, evaluated on the specs: metadata equality (the version is equal in the pair
	// and part of both keys, so a version-conditional patch applies to both or to neither)
	metaMatch := func(sp proxySpec, pm *networking.EnvoyFilter_ProxyMatch) bool {
		for k, v := range pm.GetMetadata() {
			if sp.Raw[k] != v && sp.Flags[k] != v {
				return false
			}
		}
		return true
	}
	root := s.srv.Env().Mesh().GetRootNamespace()
	for _, cfg := range s.srv.Env().List(gvk.EnvoyFilter, model.NamespaceAll) {
		ef, ok := cfg.Spec.(*networking.EnvoyFilter)
		if !ok || (cfg.Namespace != root && cfg.Namespace != a.NS) {
			continue
		}
		if sel := ef.GetWorkloadSelector().GetLabels(); len(sel) > 0 {
			attached := true
			for k, v := range sel {
				if a.Labels[k] != v {
					attached = false
				}
			}
			if !attached {
				continue
			}
		}
		splits, common := false, false
		for _, cp := range ef.ConfigPatches {
			if !inClass(cp.ApplyTo) {
				continue
			}
			pm := cp.GetMatch().GetProxy()
			reads := false
			for k := range pm.GetMetadata() {
				if differ[k] {
					reads = true
				}
			}
			ma, mb := metaMatch(a, pm), metaMatch(b, pm)
			switch {
			case reads && ma != mb:
				splits = true
			case ma && mb:
				common = true // may still be version-conditional; then it is in both or in neither
			}
		}
		if splits && common {
			return true
		}
	}
	return false
}
