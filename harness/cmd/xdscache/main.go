// Engine xdscache: property C06 — the xDS response cache is invisible: never stale, never
// shared across proxies whose relevant attributes differ.
package main

import (
	"os"

	"verifharness/internal/quiet"
	"verifharness/internal/vh"
)

func main() {
	if len(os.Args) > 1 && os.Args[1] == "repro" {
		os.Exit(reproMain(os.Args[2:]))
	}
	vh.Main(vh.Prop{
		ID:    "C06",
		Level: "exploration",
		Rule: "Three monitors; the case name says which; one evaluation = one proxy pair / one history checkpoint / one cache run. " +
			"(pair) two proxies differing in exactly one attribute of a fixed list (namespace, selector labels, network, cluster, locality, node, type, version, IP family, metadata flags incl. credential sockets and EnvoyFilter proxy-match metadata, proxy config, identity, DNS domain) " +
			"in a world template (mesh / registry / mesh-registry-only; multi-network with IPv4 and IPv6 east-west gateways) x base profile x base variant: with the real shared XdsCache warmed by one, the other's CDS+EDS+RDS must equal generation by uncached generators on the same snapshot, both orders, " +
			"plus each proxy re-served from its own entries; quick = every attribute in two worlds on PRNG-chosen profiles/variants plus the full attribute x world x profile product on plain bases, thorough adds 260 PRNG base variants. " +
			"A difference is keyed key-incomplete:<type>:<attribute>; when input shape and diff shape match a root cause analysed down to the missing key field (explain.go, reproductions: xdscache repro list) the key is key-incomplete:cause=<root cause>:<type>:<attribute> instead. " +
			"(hist) PRNG histories of config/endpoint changes through the real ingestion with connected ADS clients being pushed concurrently, while a harness goroutine keeps issuing pushes created from the PUBLISHED snapshot with Start=now " +
			"for those clients (DiscoveryServer.ProxyUpdate as for a pod/WorkloadEntry label change, xds.AdsPushAll as the debug ?push=true) so that they interleave with the computation of the next snapshot; PushContext.InitContext is stretched in time only " +
			"(harness config store whose List sleeps 4 ms when InitContext is the caller; counters report how many such pushes had their Start inside an InitContext window and how many cache writes from the replaced snapshot were accepted there); " +
			"at every quiescent point every check proxy (connected ones and never-connected ones) served from the warm shared cache == uncached generation, " +
			"and right after EDSUpdate returned on an idle control plane EDS from the cache == uncached EDS. A stale resource is traced to the push that wrote it (cache wrapper) and the key names the observed order of invalidation / snapshot computation / publication. " +
			"(lru) 8 goroutines on model.NewXdsCache() following the callers' protocol (Start token, then read versioned source, then Add; updater bumps then Clear/ClearAll), version-tagged values, " +
			"checked over the recorded history with a logical clock, plus index invariants at quiescence; strata: key-space/size ratios (LRU eviction), single writer, flush interval. " +
			"Non-trivial: pair whose second proxy got >=1 cache hit or whose attribute changes fresh output; history checkpoint with >=1 cache hit on an entry and >=1 resource changed since the previous checkpoint; " +
			"cache run with >=1 hit returned after a covering Clear and >=1 late Add of an outdated value attempted. Distinct by hash of the pair / op list / run parameters.",
		Assumptions: []string{
			"reference = istio's own generators on the same environment and push context with model.DisabledCache (the oracle compares cache on/off, it does not judge generation itself)",
			"the fake server is rewired so that discovery server, generators and endpoint index share one XdsCache as in bootstrap.NewServer",
			"in (hist) the discovery server and the generators reach that cache through an observing wrapper and the Environment's ConfigStore is wrapped by a store that delays List calls made by InitContext: both only record and delay, neither changes a result",
			"fresh generation must be reproducible for a difference to count (otherwise the case is inconclusive and left to C17)",
			"cache tokens are wall-clock nanoseconds inside istio: a stale value whose writer's Start is not strictly before the covering Clear's call time is classified as a clock tie (inconclusive); a run during which the wall clock stepped back reports nothing",
			"the (lru) monitor treats the documented mechanism 'PeerAuthentication change => all EDS entries dropped' as part of the protocol: EDS entries carry a PeerAuthentication epoch although they do not declare the dependency",
			"SDS entries are exercised only in (lru); the pair and history monitors cover CDS, EDS and RDS of sidecars and routers (gateway routes are not cached by istio)",
		},
		Anchors: []string{
			"pilot/pkg/model/typed_xds_cache.go", "pilot/pkg/model/xds_cache.go", "pilot/pkg/xds/endpoints/endpoint_builder.go",
			"pilot/pkg/networking/core/cluster_cache.go", "pilot/pkg/networking/core/route/route_cache.go",
		},
		MinNontrivial: func(t string) int { return map[string]int{"quick": 250, "thorough": 1500}[t] },
		Batches:       func(t string) int { return map[string]int{"quick": 6, "thorough": 8}[t] },
		Parallel:      func(t string) int { return map[string]int{"quick": 6, "thorough": 8}[t] },
		TimeoutSec:    func(t string) int { return map[string]int{"quick": 420, "thorough": 2400}[t] },
		Run:           run,
	})
}

func run(c *vh.Ctx) {
	quiet.Logs("error")
	only := os.Getenv("XDSCACHE_ONLY") // development aid: run one monitor
	if only == "" || only == "keys" {
		runKeys(c)
	}
	if only == "" || only == "hist" {
		runHistories(c)
	}
	if only == "" || only == "lru" {
		runInterleavings(c)
	}
}
