package main

// Worlds of the extension strata. The legacy world ("") is the one the engine was registered with and is
// left exactly as it was (same server configuration, node, case names, PRNG stream). The others add
//   ecds : a sidecar on a server whose EnvoyFilters / WasmPlugin make the ECDS generator produce resources
//   sds  : a router on an authenticated (TLS peer) stream that is entitled to kubernetes:// secrets
//   amb  : a ztunnel node on a server with the ambient index (delta only): Address and Authorization
//   grpc : a proxyless gRPC node (Metadata.Generator = "grpc"): every type is requested by name
//   api  : a node with Metadata.Generator = "api": config-store kinds as wildcard types

import (
	"crypto/ecdsa"
	"crypto/elliptic"
	"crypto/rand"
	"crypto/x509"
	"crypto/x509/pkix"
	"encoding/pem"
	"fmt"
	"math/big"
	"time"

	corev3 "github.com/envoyproxy/go-control-plane/envoy/config/core/v3"
	corev1 "k8s.io/api/core/v1"
	metav1 "k8s.io/apimachinery/pkg/apis/meta/v1"
	"k8s.io/apimachinery/pkg/runtime"
	"k8s.io/apimachinery/pkg/util/intstr"

	securityapi "istio.io/api/security/v1beta1"
	securityclient "istio.io/client-go/pkg/apis/security/v1"
	"istio.io/istio/pilot/pkg/features"
	"istio.io/istio/pilot/pkg/model"
	"istio.io/istio/pilot/pkg/xds"
	xdsfake "istio.io/istio/pilot/test/xds"
	"istio.io/istio/pkg/config/schema/kind"
	"istio.io/istio/pkg/security"
	"istio.io/istio/pkg/util/sets"
	"verifharness/internal/vh"
	"verifharness/internal/xdsshim"
)

type warmStep struct {
	t  string
	ns []string // names (non-wildcard types)
	// managed (Address) types: explicit subscribe list
	sub []int
}

type world struct {
	name       string
	serverKind string   // which server serves it
	protos     []string // protocols driven
	types      []string // every type of the world, in the order the auto-ACK rounds walk them
	enumTypes  []string // types that get an enumerated stratum of their own
	recordTys  []string // types whose server record is compared with the client's last request
	pushKinds  []string // push letters besides the forced one
	node       func(conID int) *corev3.Node
	cred       *credential
	warm       map[string][]warmStep // warm-up variant -> conformant opening conversation ("bare" is implicit)
	warmOrder  []string
	randomMix  []string // type multiset for PRNG sequences
	randStream string
	cds, eds   string // the pair with the documented "EDS is answered again after a CDS (re)open" dependency
	health     bool   // the alphabet also has the workload health probe letters; only sequences with a probe are enumerated
}

// edsOf returns the short name of the type that gets a forced response after t was (re)opened, or "".
func (w *world) edsOf(t string) string {
	if w.cds != "" && t == w.cds {
		return w.eds
	}
	return ""
}

// ---------------------------------------------------------------------------------------
// universes of the new types

const (
	extA   = "verif-ext-a"
	extB   = "verif-ext-b"
	extC   = "extensions.istio.io/trafficextension/default.verif-wasm~istio-translated-wasmplugin"
	extNX  = "verif-ext-nx"
	sdsNS  = "istio-system"
	sdsSA  = "gw"
	podIP1 = "/10.30.0.1"
	svcVIP = "/10.96.0.10"
	podIP3 = "/10.30.0.3"
	addrNX = "/10.99.99.99"
)

// aNames is the universe of names a ztunnel client of this harness mentions for the Address type. They are
// all in "network/ip" form: the generator adds names in uid / "namespace/hostname" form to the record by
// itself, so what the client mentions and what the generator adds never overlap.
var aNames = []string{"*", podIP1, svcVIP, addrNX, podIP3}

var aShort = []string{"*", "ip1", "vip", "nx", "ip3"}

func aExists(i int) bool { return i == 1 || i == 2 || i == 4 }

func init() {
	typeURLs["ECDS"] = "type.googleapis.com/envoy.config.core.v3.TypedExtensionConfig"
	typeURLs["SDS"] = "type.googleapis.com/envoy.extensions.transport_sockets.tls.v3.Secret"
	typeURLs["WADS"] = "type.googleapis.com/istio.workload.Address"
	typeURLs["WAUTH"] = "type.googleapis.com/istio.security.Authorization"
	typeURLs["SE"] = "networking.istio.io/v1/ServiceEntry"
	wildcard["WAUTH"] = true
	wildcard["SE"] = true
	managed["WADS"] = true
	// name sets use indices 0, {0,1} and 3: index 1 is the WasmPlugin-derived resource so that both producers are subscribed
	names["ECDS"] = []string{extA, extC, extB, extNX}
	names["SDS"] = []string{"kubernetes://verif-s1", "kubernetes://verif-s2", "kubernetes://verif-s3", "kubernetes://verif-nx"}
	// proxyless gRPC asks for everything by name; LDS and CDS stay wildcard *types* for the server
	names["GLDS"] = []string{"a.example.com:8081", "b.example.com:8082", "c.example.com:8083", "nx.example.com:9999"}
	names["GCDS"] = names["EDS"]
	names["GRDS"] = []string{"outbound|8081||a.example.com", "outbound|8082||b.example.com", "outbound|8083||c.example.com", "outbound|9999||nx.example.com"}
	names["GEDS"] = names["EDS"]
	typeURLs["GLDS"] = typeURLs["LDS"]
	typeURLs["GCDS"] = typeURLs["CDS"]
	typeURLs["GRDS"] = typeURLs["RDS"]
	typeURLs["GEDS"] = typeURLs["EDS"]
	// named subscriptions to a type the server treats as wildcard: any change of the name set is a change
	namedWildcard["GLDS"] = true
	namedWildcard["GCDS"] = true
}

const extConfig = `
---
apiVersion: networking.istio.io/v1alpha3
kind: EnvoyFilter
metadata: {name: verif-ext, namespace: istio-system}
spec:
  configPatches:
  - applyTo: EXTENSION_CONFIG
    patch:
      operation: ADD
      value:
        name: verif-ext-a
        typed_config:
          "@type": type.googleapis.com/envoy.extensions.filters.http.lua.v3.Lua
          default_source_code: {inline_string: "function envoy_on_request(h) end"}
  - applyTo: EXTENSION_CONFIG
    patch:
      operation: ADD
      value:
        name: verif-ext-b
        typed_config:
          "@type": type.googleapis.com/envoy.extensions.filters.http.lua.v3.Lua
          default_source_code: {inline_string: "function envoy_on_response(h) end"}
---
apiVersion: extensions.istio.io/v1alpha1
kind: WasmPlugin
metadata: {name: verif-wasm, namespace: default}
spec:
  url: https://wasm.verif.example/filter.wasm
  phase: AUTHN
`

func legacyNode(conID int) *corev3.Node {
	return xdsshim.Node("sidecar", fmt.Sprintf("10.9.%d.%d", conID/250%250, conID%250+1), fmt.Sprintf("app-%d", conID), "default", nil)
}

var worlds = map[string]*world{
	"": {
		name: "", serverKind: "legacy", protos: []string{"sotw", "delta"},
		types: []string{"CDS", "EDS", "LDS", "RDS", "NDS"}, recordTys: []string{"EDS", "RDS"},
		node: legacyNode, cds: "CDS", eds: "EDS",
	},
	// the legacy world once more, with the workload health probe as a letter that may stand anywhere, first included
	"hp": {
		name: "hp", serverKind: "legacy", protos: []string{"sotw", "delta"}, health: true,
		types: []string{"CDS", "EDS", "LDS", "RDS", "NDS"}, enumTypes: []string{"EDS", "RDS", "CDS", "LDS", "NDS"}, recordTys: []string{"EDS", "RDS"},
		node: legacyNode, cds: "CDS", eds: "EDS",
		warm: map[string][]warmStep{"warmed": {
			{t: "CDS"}, {t: "EDS", ns: namesOfLit("EDS", 2)}, {t: "LDS"}, {t: "RDS", ns: namesOfLit("RDS", 2)},
		}},
		warmOrder:  []string{"warmed"},
		randomMix:  []string{"EDS", "RDS", "CDS", "LDS", "NDS", "EDS", "RDS"},
		randStream: "random-hp",
	},
	"ecds": {
		name: "ecds", serverKind: "ext", protos: []string{"sotw", "delta"},
		types: []string{"CDS", "EDS", "LDS", "RDS", "NDS", "ECDS"}, enumTypes: []string{"ECDS"}, recordTys: []string{"EDS", "RDS", "ECDS"},
		pushKinds: []string{"ef", "se"}, cds: "CDS", eds: "EDS",
		node: func(conID int) *corev3.Node {
			return xdsshim.Node("sidecar", fmt.Sprintf("10.10.%d.%d", conID/250%250, conID%250+1), fmt.Sprintf("app-%d", conID), "default", nil)
		},
		warm: map[string][]warmStep{"warmed": {
			{t: "CDS"}, {t: "EDS", ns: namesOfLit("EDS", 2)}, {t: "LDS"}, {t: "RDS", ns: namesOfLit("RDS", 2)}, {t: "ECDS", ns: []string{extA, extC}},
		}},
		warmOrder:  []string{"warmed"},
		randomMix:  []string{"ECDS", "ECDS", "ECDS", "EDS", "RDS", "CDS", "LDS"},
		randStream: "random-ecds",
	},
	"sds": {
		name: "sds", serverKind: "ext", protos: []string{"sotw", "delta"},
		types: []string{"CDS", "EDS", "LDS", "RDS", "SDS"}, enumTypes: []string{"SDS"}, recordTys: []string{"EDS", "RDS", "SDS"},
		pushKinds: []string{"secret", "se"}, cds: "CDS", eds: "EDS",
		node: func(conID int) *corev3.Node {
			return xdsshim.Node("router", fmt.Sprintf("10.11.%d.%d", conID/250%250, conID%250+1), fmt.Sprintf("app-%d", conID), sdsNS,
				map[string]any{"CLUSTER_ID": "Kubernetes", "SERVICE_ACCOUNT": sdsSA})
		},
		cred: &credential{Identities: []string{"spiffe://cluster.local/ns/" + sdsNS + "/sa/" + sdsSA}},
		warm: map[string][]warmStep{"warmed": {
			{t: "CDS"}, {t: "EDS", ns: namesOfLit("EDS", 2)}, {t: "SDS", ns: []string{"kubernetes://verif-s1", "kubernetes://verif-s2"}}, {t: "LDS"},
		}},
		warmOrder:  []string{"warmed"},
		randomMix:  []string{"SDS", "SDS", "SDS", "EDS", "CDS", "LDS"},
		randStream: "random-sds",
	},
	"amb": {
		name: "amb", serverKind: "amb", protos: []string{"delta"},
		types: []string{"WADS", "WAUTH"}, enumTypes: []string{"WADS", "WAUTH"}, recordTys: []string{"WADS"},
		pushKinds: []string{"addr", "authz"},
		node: func(conID int) *corev3.Node {
			return xdsshim.Node("ztunnel", fmt.Sprintf("10.12.%d.%d", conID/250%250, conID%250+1), fmt.Sprintf("app-%d", conID), "istio-system",
				map[string]any{"CLUSTER_ID": "Kubernetes", "NODE_NAME": "node-1"})
		},
		warm: map[string][]warmStep{
			"warmed-wild": {{t: "WADS"}, {t: "WAUTH"}},
			"warmed-od":   {{t: "WADS", sub: []int{1}}, {t: "WAUTH"}},
		},
		warmOrder:  []string{"warmed-wild", "warmed-od"},
		randomMix:  []string{"WADS", "WADS", "WADS", "WAUTH"},
		randStream: "random-amb",
	},
	"grpc": {
		// no gRPC client speaks delta xDS to istiod: SotW only
		name: "grpc", serverKind: "ext", protos: []string{"sotw"},
		types: []string{"GLDS", "GCDS", "GRDS", "GEDS"}, enumTypes: []string{"GLDS", "GCDS"}, recordTys: []string{"GLDS", "GCDS", "GRDS", "GEDS"},
		pushKinds: []string{"se"}, cds: "GCDS", eds: "GEDS",
		node: func(conID int) *corev3.Node {
			return xdsshim.Node("sidecar", fmt.Sprintf("10.13.%d.%d", conID/250%250, conID%250+1), fmt.Sprintf("app-%d", conID), "default",
				map[string]any{"GENERATOR": "grpc"})
		},
		warm: map[string][]warmStep{"warmed": {
			{t: "GLDS", ns: namesOfLit("GLDS", 2)}, {t: "GRDS", ns: namesOfLit("GRDS", 2)}, {t: "GCDS", ns: namesOfLit("GCDS", 2)}, {t: "GEDS", ns: namesOfLit("GEDS", 2)},
		}},
		warmOrder:  []string{"warmed"},
		randomMix:  []string{"GLDS", "GCDS", "GRDS", "GEDS"},
		randStream: "random-grpc",
	},
	"api": {
		name: "api", serverKind: "ext", protos: []string{"sotw", "delta"},
		types: []string{"SE"}, enumTypes: []string{"SE"},
		pushKinds: []string{"se"},
		// the api generator serves cluster-wide config to a verified root-namespace identity only
		node: func(conID int) *corev3.Node {
			return xdsshim.Node("sidecar", fmt.Sprintf("10.14.%d.%d", conID/250%250, conID%250+1), fmt.Sprintf("app-%d", conID), sdsNS,
				map[string]any{"GENERATOR": "api", "CLUSTER_ID": "Kubernetes", "SERVICE_ACCOUNT": sdsSA})
		},
		cred:       &credential{Identities: []string{"spiffe://cluster.local/ns/" + sdsNS + "/sa/" + sdsSA}},
		warm:       map[string][]warmStep{"warmed": {{t: "SE"}}},
		warmOrder:  []string{"warmed"},
		randomMix:  []string{"SE"},
		randStream: "random-api",
	},
}

// namesOfLit is namesOf for use in package-level initialisers (names of the legacy types are literals there).
func namesOfLit(t string, idx int) []string {
	base := map[string][]string{
		"EDS":  {"outbound|8081||a.example.com", "outbound|8082||b.example.com", "outbound|8083||c.example.com", "outbound|9999||nx.example.com"},
		"RDS":  {"8081", "8082", "8083", "9999"},
		"GLDS": {"a.example.com:8081", "b.example.com:8082", "c.example.com:8083", "nx.example.com:9999"},
	}
	base["GCDS"], base["GEDS"], base["GRDS"] = base["EDS"], base["EDS"], base["EDS"]
	var out []string
	for _, i := range nameSets[idx] {
		out = append(out, base[t][i])
	}
	return out
}

// ---------------------------------------------------------------------------------------
// servers

func selfSigned(cn string) (keyPEM, certPEM []byte) {
	k, err := ecdsa.GenerateKey(elliptic.P256(), rand.Reader)
	if err != nil {
		vh.Abort("keygen: %v", err)
	}
	tpl := &x509.Certificate{
		SerialNumber: big.NewInt(time.Now().UnixNano()), Subject: pkix.Name{CommonName: cn},
		NotBefore: time.Now().Add(-time.Hour), NotAfter: time.Now().Add(10 * 365 * 24 * time.Hour),
		KeyUsage: x509.KeyUsageDigitalSignature, ExtKeyUsage: []x509.ExtKeyUsage{x509.ExtKeyUsageServerAuth}, DNSNames: []string{cn},
	}
	der, err := x509.CreateCertificate(rand.Reader, tpl, tpl, &k.PublicKey, k)
	if err != nil {
		vh.Abort("cert: %v", err)
	}
	kb, err := x509.MarshalPKCS8PrivateKey(k)
	if err != nil {
		vh.Abort("key marshal: %v", err)
	}
	return pem.EncodeToMemory(&pem.Block{Type: "PRIVATE KEY", Bytes: kb}), pem.EncodeToMemory(&pem.Block{Type: "CERTIFICATE", Bytes: der})
}

func extKubeObjects() []runtime.Object {
	out := []runtime.Object{
		&corev1.Namespace{ObjectMeta: metav1.ObjectMeta{Name: sdsNS}},
		&corev1.Namespace{ObjectMeta: metav1.ObjectMeta{Name: "default"}},
	}
	for _, n := range []string{"verif-s1", "verif-s2", "verif-s3"} {
		k, crt := selfSigned(n + ".verif.example")
		out = append(out, &corev1.Secret{
			ObjectMeta: metav1.ObjectMeta{Name: n, Namespace: sdsNS},
			Type:       corev1.SecretTypeTLS,
			Data:       map[string][]byte{"tls.crt": crt, "tls.key": k},
		})
	}
	return out
}

func ambPod(name, ip, node string, labels map[string]string) *corev1.Pod {
	return &corev1.Pod{
		ObjectMeta: metav1.ObjectMeta{Name: name, Namespace: "default", Labels: labels, CreationTimestamp: metav1.NewTime(time.Unix(1600000000, 0))},
		Spec:       corev1.PodSpec{ServiceAccountName: "sa-" + name, NodeName: node},
		Status: corev1.PodStatus{
			PodIP: ip, PodIPs: []corev1.PodIP{{IP: ip}}, Phase: corev1.PodRunning,
			Conditions: []corev1.PodCondition{{Type: corev1.PodReady, Status: corev1.ConditionTrue}},
		},
	}
}

func ambKubeObjects() []runtime.Object {
	return []runtime.Object{
		&corev1.Namespace{ObjectMeta: metav1.ObjectMeta{Name: "istio-system"}},
		&corev1.Namespace{ObjectMeta: metav1.ObjectMeta{Name: "default"}},
		ambPod("p1", "10.30.0.1", "node-2", map[string]string{"app": "a"}),
		ambPod("p2", "10.30.0.2", "node-2", map[string]string{"app": "a"}),
		ambPod("p3", "10.30.0.3", "node-1", map[string]string{"app": "c"}),
		&corev1.Service{
			ObjectMeta: metav1.ObjectMeta{Name: "svc", Namespace: "default", CreationTimestamp: metav1.NewTime(time.Unix(1600000000, 0))},
			Spec: corev1.ServiceSpec{
				ClusterIP: "10.96.0.10", ClusterIPs: []string{"10.96.0.10"}, Selector: map[string]string{"app": "a"}, Type: corev1.ServiceTypeClusterIP,
				Ports: []corev1.ServicePort{{Name: "http", Port: 80, TargetPort: intstr.FromInt32(8080), Protocol: corev1.ProtocolTCP}},
			},
		},
		&securityclient.AuthorizationPolicy{
			ObjectMeta: metav1.ObjectMeta{Name: "allow-ns", Namespace: "default"},
			Spec: securityapi.AuthorizationPolicy{
				Action: securityapi.AuthorizationPolicy_ALLOW,
				Rules:  []*securityapi.Rule{{From: []*securityapi.Rule_From{{Source: &securityapi.Source{Namespaces: []string{"default"}}}}}},
			},
		},
		&securityclient.AuthorizationPolicy{
			ObjectMeta: metav1.ObjectMeta{Name: "deny-port", Namespace: "default"},
			Spec: securityapi.AuthorizationPolicy{
				Action: securityapi.AuthorizationPolicy_DENY,
				Rules:  []*securityapi.Rule{{To: []*securityapi.Rule_To{{Operation: &securityapi.Operation{Ports: []string{"9999"}}}}}},
			},
		},
	}
}

func newServerKind(k string) *server {
	f := vh.NewF()
	// plain package variable read when a server is built and when a ztunnel connects; servers of different
	// kinds are never alive at the same time in one child
	features.EnableAmbient = k == "amb"
	var srv *xdsfake.FakeDiscoveryServer
	switch k {
	case "legacy":
		srv = xdsfake.NewFakeDiscoveryServer(f, xdsfake.FakeOptions{ConfigString: serverConfig})
	case "ext":
		srv = xdsfake.NewFakeDiscoveryServer(f, xdsfake.FakeOptions{
			ConfigString: serverConfig + extConfig, KubernetesObjects: extKubeObjects(), DisableSecretAuthorization: true,
		})
		srv.Discovery.Authenticators = []security.Authenticator{harnessAuthenticator{}}
	case "amb":
		srv = xdsfake.NewFakeDiscoveryServer(f, xdsfake.FakeOptions{KubernetesObjects: ambKubeObjects()})
	default:
		vh.Abort("unknown server kind %q", k)
	}
	xdsshim.InstallBarrier(srv.Discovery)
	return &server{f: f, srv: srv, kind: k}
}

// ---------------------------------------------------------------------------------------
// server-initiated pushes

func pushRequest(kindName string) *model.PushRequest {
	switch kindName {
	case "", "forced":
		return &model.PushRequest{Forced: true, Reason: model.NewReasonStats(model.DebugTrigger)}
	case "se":
		return &model.PushRequest{
			ConfigsUpdated: sets.New(model.ConfigKey{Kind: kind.ServiceEntry, Name: "a.example.com", Namespace: "default"}),
			Reason:         model.NewReasonStats(model.ServiceUpdate),
		}
	case "ef":
		return &model.PushRequest{
			ConfigsUpdated: sets.New(model.ConfigKey{Kind: kind.EnvoyFilter, Name: "verif-ext", Namespace: "istio-system"}),
			Reason:         model.NewReasonStats(model.ConfigUpdate),
		}
	case "secret":
		return &model.PushRequest{
			ConfigsUpdated: sets.New(model.ConfigKey{Kind: kind.Secret, Name: "verif-s1", Namespace: sdsNS}),
			Reason:         model.NewReasonStats(model.SecretTrigger),
		}
	case "addr":
		return &model.PushRequest{
			ConfigsUpdated:   sets.New(model.ConfigKey{Kind: kind.Address, Name: "Kubernetes//Pod/default/p1", Namespace: "default"}),
			AddressesUpdated: sets.New("Kubernetes//Pod/default/p1"),
			Reason:           model.NewReasonStats(model.AmbientUpdate),
		}
	case "authz":
		return &model.PushRequest{
			ConfigsUpdated: sets.New(model.ConfigKey{Kind: kind.AuthorizationPolicy, Name: "allow-ns", Namespace: "default"}),
			Reason:         model.NewReasonStats(model.AmbientUpdate),
		}
	}
	vh.Abort("unknown push kind %q", kindName)
	return nil
}

func doPush(ds *xds.DiscoveryServer, kindName string) { ds.ConfigUpdate(pushRequest(kindName)) }
