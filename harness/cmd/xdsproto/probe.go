package main

// `xdsproto probe <what>`: small direct looks at the worlds of the extension strata (which resource names
// the servers really produce), used while qualifying the universes; `xdsproto seq <case name>` runs one
// sequence given in the notation of the case names and prints what the server answered step by step.

import (
	"fmt"
	"os"
	"regexp"
	"sort"

	"google.golang.org/protobuf/encoding/protojson"

	"istio.io/istio/pilot/pkg/model"
	"istio.io/istio/pkg/util/sets"
	"verifharness/internal/quiet"
)

// maybeProbe is called first thing in main.
func maybeProbe() {
	if len(os.Args) >= 3 && os.Args[1] == "probe" {
		quiet.Logs("warn")
		probe(os.Args[2])
		os.Exit(0)
	}
}

func probe(what string) {
	switch what {
	case "ecds":
		s := newServerKind("ext")
		defer s.f.Done()
		p := s.srv.SetupProxy(&model.Proxy{Type: model.SidecarProxy, ID: "probe.default", ConfigNamespace: "default", IPAddresses: []string{"10.9.9.9"},
			Metadata: &model.NodeMetadata{Namespace: "default"}})
		re := regexp.MustCompile(`"configDiscovery":\{[^}]*\}[^}]*\}`)
		re2 := regexp.MustCompile(`"name":"([^"]+)","configDiscovery"`)
		refs := map[string]bool{}
		for _, l := range s.srv.Listeners(p) {
			b, _ := protojson.Marshal(l)
			for _, m := range re2.FindAllStringSubmatch(string(b), -1) {
				refs[m[1]] = true
			}
			_ = re
		}
		var rl []string
		for r := range refs {
			rl = append(rl, r)
		}
		sort.Strings(rl)
		fmt.Println("config_discovery references in LDS:", rl)
		for ph, tes := range s.srv.PushContext().TrafficExtensions(p) {
			for _, te := range tes {
				fmt.Println("traffic extension", ph, te.Namespace, te.Name, te.ResourceName)
			}
		}
		cand := append([]string{extA, extB, extC, extNX, "extensions.istio.io/wasmplugin/default.verif-wasm"}, rl...)
		res, _, err := s.srv.Discovery.Generators[typeURLs["ECDS"]].Generate(p, &model.WatchedResource{TypeUrl: typeURLs["ECDS"], ResourceNames: sets.New(cand...)},
			&model.PushRequest{Forced: true, Push: s.srv.PushContext()})
		fmt.Println("ECDS generate err:", err)
		for _, r := range res {
			fmt.Println("ECDS resource:", r.Name)
		}
	default:
		fmt.Println("unknown probe")
	}
}
