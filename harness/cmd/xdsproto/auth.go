package main

// Authenticated streams (same construction as cmd/sdsauth): the shim builds a plaintext peer, so a stream
// that istiod is to treat as mTLS-authenticated is the shim stream with Context() overridden by one whose
// peer carries credentials.TLSInfo; the identity "proved by the handshake" travels as a context value that
// the harness authenticator returns. Entitlement itself is C11's subject, not this engine's.

import (
	"context"
	"crypto/tls"
	"errors"
	"net"

	"google.golang.org/grpc/credentials"
	"google.golang.org/grpc/peer"

	"istio.io/istio/pkg/security"
	"verifharness/internal/xdsshim"
)

type credential struct {
	Identities []string
}

type credKey struct{}

type harnessAuthenticator struct{}

func (harnessAuthenticator) AuthenticatorType() string { return "verif-harness" }

func (harnessAuthenticator) Authenticate(ctx security.AuthContext) (*security.Caller, error) {
	if ctx.GrpcContext == nil {
		return nil, errors.New("harness authenticator: no grpc context")
	}
	cred, _ := ctx.GrpcContext.Value(credKey{}).(*credential)
	if cred == nil {
		return nil, errors.New("harness authenticator: no client credential")
	}
	return &security.Caller{AuthSource: security.AuthSourceClientCertificate, Identities: append([]string(nil), cred.Identities...)}, nil
}

type sotwWrap struct {
	*xdsshim.SotwStream
	ctx context.Context
}

func (w sotwWrap) Context() context.Context { return w.ctx }

type deltaWrap struct {
	*xdsshim.DeltaStream
	ctx context.Context
}

func (w deltaWrap) Context() context.Context { return w.ctx }

func tlsContext(inner context.Context, ip string) context.Context {
	return peer.NewContext(inner, &peer.Peer{
		Addr:     &net.TCPAddr{IP: net.ParseIP(ip), Port: 40000},
		AuthInfo: credentials.TLSInfo{State: tls.ConnectionState{HandshakeComplete: true}},
	})
}
