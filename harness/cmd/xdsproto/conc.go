package main

// Concurrent stratum (case names conc-ext/... and conc-amb/...): a protocol-conformant, auto-ACKing client
// runs a PRNG conversation (opens, subscription changes, occasional NACKs) while a pusher goroutine issues
// forced and keyed ConfigUpdates at PRNG points of the client's send counter, with no barrier between
// them: requests race pushes inside the server's stream loop, ACKs for an older nonce arrive after a newer
// push, unsubscribes race pushes. Nothing is classified per stimulus here. The oracle is only:
//   - no crash (stream handler panic; a panic elsewhere takes the child down and is attributed to the case)
//   - bounded responses: #responses <= 2*#client non-ACK requests + #pushes*#types (+ one per type), and
//     once pusher and driver have stopped and the control plane is idle the tail stays below K per type
//     and the exchange reaches whole-process quiescence (internal/idle + accepted == committed updates +
//     empty push queue); afterwards plain ACK rounds are silent as in the sequential strata
//   - the server's record equals the client's last request for every type whose last client message was
//     not a NACK
//   - nonces of one type are pairwise distinct on the stream.
// The schedule is not deterministic; the witness carries the script and the observed response list.

import (
	"fmt"
	"math/rand"
	"runtime"
	"sort"
	"strings"
	"sync"
	"sync/atomic"
	"time"

	discovery "github.com/envoyproxy/go-control-plane/envoy/service/discovery/v3"
	"google.golang.org/genproto/googleapis/rpc/status"

	"verifharness/internal/idle"
	"verifharness/internal/vh"
	"verifharness/internal/xdsshim"
)

var (
	concQuick    = map[string]int{"conc-ext": 360, "conc-amb": 180}
	concThorough = map[string]int{"conc-ext": 6000, "conc-amb": 3000}
)

const concTailPerType = 3 // K

// scheduler yields after an op / a push: spreads the script over the time the pushes take to travel through
// debounce and push queue (iteration counts, not durations; they only shape the schedule)
var yields = []int{0, 1, 3, 20, 200, 1000, 4000}

type concOp struct {
	T     string
	Names []string // non-managed: the client's names for the type become Names (nil for wildcard types)
	Sub   []int    // managed
	Unsub []int
	Yield int // scheduler yields after the op
}

type concPush struct {
	After int // fire once the client has sent this many messages (or has finished)
	Kind  string
	Yield int
}

type concCase struct {
	wn     string
	idx    int
	w      *world
	proto  string
	ops    []concOp
	pushes []concPush
	nackAt map[int]bool // indices (arrival order) of the responses the client rejects
}

func (cc *concCase) name() string {
	return fmt.Sprintf("%s/%s/%s/%d", cc.wn, worldLabel(cc.w), cc.proto, cc.idx)
}

func (cc *concCase) script() map[string]any {
	var ops, pushes []string
	for _, o := range cc.ops {
		if managed[o.T] {
			ops = append(ops, letter{Type: o.T, Sub: o.Sub, Unsub: o.Unsub, Nonce: "-"}.String())
		} else {
			ops = append(ops, fmt.Sprintf("%s%v", o.T, shortNames(o.Names)))
		}
	}
	for _, p := range cc.pushes {
		pushes = append(pushes, fmt.Sprintf("%s@%d", pushLabel(p.Kind), p.After))
	}
	var nacks []int
	for k := range cc.nackAt {
		nacks = append(nacks, k)
	}
	sort.Ints(nacks)
	return map[string]any{"case": cc.name(), "ops": ops, "pushes": pushes, "nack_responses": nacks}
}

func genConc(r *rand.Rand, wn string, idx int) *concCase {
	cc := &concCase{wn: wn, idx: idx, nackAt: map[int]bool{}}
	if wn == "conc-amb" {
		cc.w = worlds["amb"]
	} else {
		cc.w = worlds[[]string{"ecds", "sds", "ecds", "sds", "grpc"}[r.Intn(5)]]
	}
	cc.proto = cc.w.protos[r.Intn(len(cc.w.protos))]
	w := cc.w
	held := map[string]map[string]bool{}
	mode := map[string]string{}
	// a conformant opening: every type at most once, in the world's order, most of them
	for _, t := range w.types {
		if r.Intn(6) == 0 {
			continue
		}
		op := concOp{T: t, Yield: yields[r.Intn(len(yields))]}
		switch {
		case managed[t]:
			if r.Intn(2) == 0 {
				mode[t] = "wild"
				if r.Intn(2) == 0 {
					op.Sub = []int{0}
				}
			} else {
				mode[t] = "od"
				op.Sub = [][]int{{1}, {2}, {1, 2}, {4}, {3}}[r.Intn(5)]
				held[t] = map[string]bool{}
				for _, i := range op.Sub {
					held[t][aNames[i]] = true
				}
			}
		case !wildcard[t]:
			op.Names = namesOf(t, 1+r.Intn(3))
			held[t] = map[string]bool{}
			for _, n := range op.Names {
				held[t][n] = true
			}
		}
		cc.ops = append(cc.ops, op)
	}
	// subscription changes
	var changeable []string
	for _, t := range w.types {
		if managed[t] || !wildcard[t] {
			changeable = append(changeable, t)
		}
	}
	for i, n := 0, 2+r.Intn(10); i < n && len(changeable) > 0; i++ {
		t := changeable[r.Intn(len(changeable))]
		op := concOp{T: t, Yield: yields[r.Intn(len(yields))]}
		if managed[t] {
			if mode[t] == "" {
				mode[t] = "od"
				held[t] = map[string]bool{}
				op.Sub = []int{1}
				held[t][aNames[1]] = true
				cc.ops = append(cc.ops, op)
				continue
			}
			if mode[t] == "wild" {
				continue // a wildcard Address client has nothing to change
			}
			for _, i := range []int{1, 2, 3, 4} {
				switch {
				case held[t][aNames[i]] && r.Intn(3) == 0:
					op.Unsub = append(op.Unsub, i)
					delete(held[t], aNames[i])
				case !held[t][aNames[i]] && r.Intn(3) == 0:
					op.Sub = append(op.Sub, i)
					held[t][aNames[i]] = true
				}
			}
			if len(op.Sub)+len(op.Unsub) == 0 {
				continue
			}
			cc.ops = append(cc.ops, op)
			continue
		}
		op.Names = namesOf(t, r.Intn(len(nameSets)))
		if namedWildcard[t] && len(op.Names) == 0 {
			continue // a gRPC client never asks for "everything"
		}
		cc.ops = append(cc.ops, op)
	}
	// pushes at PRNG points of the client's send counter
	np := 1 + r.Intn(6)
	for i := 0; i < np; i++ {
		p := concPush{After: r.Intn(2*len(cc.ops) + 4), Yield: yields[r.Intn(len(yields))]}
		if k := r.Intn(len(w.pushKinds) + 2); k >= 2 {
			p.Kind = w.pushKinds[k-2]
		}
		cc.pushes = append(cc.pushes, p)
	}
	sort.SliceStable(cc.pushes, func(i, j int) bool { return cc.pushes[i].After < cc.pushes[j].After })
	for i, n := 0, r.Intn(3); i < n; i++ {
		cc.nackAt[r.Intn(12)] = true
	}
	return cc
}

// concClient is the conformant client: all sends go through mu, so what the client believes (names, latest
// processed nonce) and what it puts on the wire stay consistent.
type concClient struct {
	cl    *client
	proto string
	mu    sync.Mutex
	nonce map[string]string // latest nonce the client has processed, per type
	nack  map[string]bool   // last message of the type was a NACK
	sends atomic.Int64      // messages handed to the stream (requests, ACKs, NACKs)
	reqs  atomic.Int64      // of which opens / subscription changes
	recvd atomic.Int64      // responses queued for the acker
	procd atomic.Int64      // responses the acker has dealt with
	ackQ  chan respRec
	lost  atomic.Bool // acker queue overflow
	// evidence that requests really raced pushes
	racingReqs     atomic.Int64 // opens / changes sent while responses were still waiting to be processed by the client
	supersededAcks atomic.Int64 // ACKs for a nonce that a later response of the same type had already superseded on the wire
	first          bool
	nd             func() *discovery.DiscoveryRequest
	dead           atomic.Bool
}

func errDetail() *status.Status {
	return &status.Status{Code: 3, Message: "rejected by conformant client"}
}

// runConcurrent returns true when the server must be abandoned (panic observed).
func runConcurrent(c *vh.Ctx, s *server, cc *concCase, conID int) bool {
	w := cc.w
	ds := s.srv.Discovery
	idleCond := func() bool {
		p, q := ds.PushQueueStateForVerif()
		return ds.InboundUpdates.Load() == ds.CommittedUpdates.Load() && p == 0 && q == 0
	}
	if ok, why := idle.Wait(idleCond, 60*time.Second); !ok {
		c.Inconclusive("process did not become idle before the conversation: " + firstLine(why))
		return false
	}
	cl := newClient(c, s, w, cc.proto, conID)
	defer cl.close()
	k := &concClient{cl: cl, proto: cc.proto, nonce: map[string]string{}, nack: map[string]bool{}, ackQ: make(chan respRec, 8192), first: true}
	cl.onResp = func(rr respRec) {
		k.recvd.Add(1)
		select {
		case k.ackQ <- rr:
		default:
			k.lost.Store(true)
		}
	}
	node := w.node(conID)
	// wire: must be called with k.mu held
	sendSotw := func(t string, names []string, nack bool) bool {
		r := &discovery.DiscoveryRequest{TypeUrl: typeURLs[t], ResourceNames: names, ResponseNonce: k.nonce[t]}
		if r.ResponseNonce != "" {
			r.VersionInfo = "v"
		}
		if nack {
			r.ErrorDetail = errDetail()
		}
		if k.first {
			r.Node = node
			k.first = false
		}
		k.sends.Add(1)
		return cl.sotw.Request(r)
	}
	sendDelta := func(t string, sub, unsub []string, nonce string, nack bool) bool {
		r := &discovery.DeltaDiscoveryRequest{TypeUrl: typeURLs[t], ResourceNamesSubscribe: sub, ResourceNamesUnsubscribe: unsub, ResponseNonce: nonce}
		if nack {
			r.ErrorDetail = errDetail()
		}
		if k.first {
			r.Node = node
			k.first = false
		}
		k.sends.Add(1)
		return cl.delta.Request(r)
	}
	sortedNames := func(st *typeState) []string {
		var ns []string
		for n := range st.names {
			ns = append(ns, n)
		}
		sort.Strings(ns)
		return ns
	}

	// acker: ACK (or, where the script says so, NACK) every response in arrival order
	ackerDone := make(chan struct{})
	ackerQuit := make(chan struct{})
	go func() {
		defer close(ackerDone)
		n := 0
		for {
			var rr respRec
			select {
			case rr = <-k.ackQ:
			case <-ackerQuit:
				return
			}
			t := cl.short(rr.TypeURL)
			st := cl.ts[t]
			k.mu.Lock()
			if st != nil && !k.dead.Load() {
				for _, later := range cl.responsesSince(n + 1) {
					if later.TypeURL == rr.TypeURL {
						k.supersededAcks.Add(1)
						break
					}
				}
				k.nonce[t] = rr.Nonce
				st.nonces = append(st.nonces, rr.Nonce)
				nack := cc.nackAt[n]
				ok := true
				if cc.proto == "sotw" {
					// a SotW client that holds no names of a non-wildcard type has no watch to ACK for
					if wildcard[t] || len(st.names) > 0 {
						var ns []string
						if !wildcard[t] {
							ns = sortedNames(st)
						}
						ok = sendSotw(t, ns, nack)
						k.nack[t] = nack
					}
				} else {
					ok = sendDelta(t, nil, nil, rr.Nonce, nack)
					k.nack[t] = nack
				}
				if !ok {
					k.dead.Store(true)
				}
			}
			k.mu.Unlock()
			n++
			k.procd.Add(1)
		}
	}()
	// the queue itself is never closed: responses keep arriving (on the server's stream goroutine) during the
	// final ACK rounds
	stopAcker := func() {
		close(ackerQuit)
		<-ackerDone
	}

	reopenAt := map[string]int{} // SotW: responses of the type seen when it was last re-opened (driver only, read after join)
	// pusher
	var pushesDone atomic.Int64
	driverDone := make(chan struct{})
	pusherDone := make(chan struct{})
	go func() {
		defer close(pusherDone)
		for _, p := range cc.pushes {
			for k.sends.Load() < int64(p.After) {
				select {
				case <-driverDone:
				default:
					runtime.Gosched()
					continue
				}
				break
			}
			doPush(ds, p.Kind)
			pushesDone.Add(1)
			for i := 0; i < p.Yield; i++ {
				runtime.Gosched()
			}
		}
	}()
	// driver: the script, back to back
	go func() {
		defer close(driverDone)
		for _, op := range cc.ops {
			if k.dead.Load() {
				return
			}
			st := cl.ts[op.T]
			k.mu.Lock()
			if k.recvd.Load() > k.procd.Load() {
				k.racingReqs.Add(1)
			}
			ok := true
			switch {
			case managed[op.T]:
				var sub, unsub []string
				for _, i := range op.Sub {
					sub = append(sub, aNames[i])
				}
				for _, i := range op.Unsub {
					unsub = append(unsub, aNames[i])
				}
				if !st.hasRecord {
					st.hasRecord = true
					st.mode = "od"
					if len(op.Sub) == 0 || op.Sub[0] == 0 {
						st.mode = "wild"
					}
				}
				for _, i := range op.Sub {
					if i != 0 {
						st.names[aNames[i]] = true
					}
				}
				for _, i := range op.Unsub {
					delete(st.names, aNames[i])
				}
				ok = sendDelta(op.T, sub, unsub, "", false)
				k.reqs.Add(1)
				k.nack[op.T] = false
			case cc.proto == "sotw":
				if !wildcard[op.T] && len(st.names) == 0 && len(op.Names) > 0 && k.nonce[op.T] != "" {
					// re-open after an unsubscribe while holding a nonce of the earlier watch
					reopenAt[op.T] = typeResponses(cl, op.T)
				}
				st.names = map[string]bool{}
				for _, n := range op.Names {
					st.names[n] = true
				}
				// the server's record exists while the client holds names (or the type is wildcard)
				st.hasRecord = wildcard[op.T] || len(op.Names) > 0
				ok = sendSotw(op.T, op.Names, false)
				k.reqs.Add(1)
				k.nack[op.T] = false
			default:
				var sub, unsub []string
				want := map[string]bool{}
				for _, n := range op.Names {
					want[n] = true
					if !st.names[n] {
						sub = append(sub, n)
					}
				}
				for _, n := range sortedNames(st) {
					if !want[n] {
						unsub = append(unsub, n)
					}
				}
				if st.hasRecord && len(sub)+len(unsub) == 0 {
					break // a spontaneous request that changes nothing is not conformant
				}
				if !st.hasRecord && !wildcard[op.T] && len(sub) == 0 {
					break // opening a named type with no names would be a wildcard subscription
				}
				st.hasRecord = true
				st.names = want
				ok = sendDelta(op.T, sub, unsub, "", false)
				k.reqs.Add(1)
				k.nack[op.T] = false
			}
			k.mu.Unlock()
			if !ok {
				k.dead.Store(true)
				return
			}
			for i := 0; i < op.Yield; i++ {
				runtime.Gosched()
			}
		}
	}()
	join := func(ch chan struct{}, what string) bool {
		select {
		case <-ch:
			return true
		case <-time.After(60 * time.Second):
			c.Inconclusive(what + " did not finish")
			return false
		}
	}
	if !join(driverDone, "driver") || !join(pusherDone, "pusher") {
		k.dead.Store(true)
		return false
	}
	reportPanic := func(where string) bool {
		if p := cl.panicked(); p != "" {
			c.Violation("panic:"+vh.TopIstioFrame(p), fmt.Sprintf("server stream handler panicked (%s, concurrent pushes) %s: %s", cc.proto, where, firstLine(p)),
				map[string]any{"script": cc.script(), "stack": firstN(p, 30)})
			return true
		}
		return false
	}
	nTypes := len(w.types)
	// pusher and driver have stopped: wait for the control plane, then for the whole process (server stream
	// goroutine, acker) to come to rest. The tail of responses after the control plane went idle is bounded.
	if !xdsshim.WaitControlPlaneIdle(ds, 60*time.Second) {
		c.Inconclusive("control plane did not become idle after the pusher stopped")
		stopAcker()
		return false
	}
	k.mu.Lock()
	nothingSent := k.first
	k.mu.Unlock()
	if nothingSent {
		// the script sent nothing: there was no stream
		stopAcker()
		c.Count("conc_empty_scripts", 1)
		return false
	}
	// the driver has only handed its requests over; the echo of a barrier sent now implies the server has
	// processed all of them (one goroutine handles the requests of a connection in order), so what arrives
	// afterwards can only answer ACKs
	k.mu.Lock()
	b := ""
	if !k.dead.Load() {
		b = cl.doBarrier()
	}
	k.mu.Unlock()
	if b != "" {
		stopAcker()
		if b == "panic" {
			return reportPanic("during the conversation")
		}
		c.Inconclusive("barrier after the script: " + b)
		return false
	}
	r0 := int(k.recvd.Load())
	settled := false
	why := ""
	for i := 0; i < 30 && !settled; i++ {
		settled, why = idle.Wait(func() bool { return idleCond() && k.procd.Load() == k.recvd.Load() && len(k.ackQ) == 0 }, 2*time.Second)
		if tail := int(k.recvd.Load()) - r0; tail > concTailPerType*nTypes {
			c.Violation("request-response-loop:conc:"+cc.proto, fmt.Sprintf("%d responses after pusher and client script had stopped and the control plane was idle (bound %d) in %s", tail, concTailPerType*nTypes, cc.name()),
				map[string]any{"script": cc.script(), "responses": tailTypes(cl, r0)})
			k.dead.Store(true)
			stopAcker()
			return reportPanic("during the tail")
		}
		if cl.panicked() != "" {
			break
		}
	}
	stopAcker()
	if reportPanic("during the conversation") {
		return true
	}
	if k.lost.Load() {
		c.Inconclusive("acker queue overflow")
		return false
	}
	if k.dead.Load() {
		c.Inconclusive("stream closed by server: " + errString(cl))
		return false
	}
	if !settled {
		c.Inconclusive("process did not come to rest: " + firstLine(why))
		return false
	}
	c.Max("conc_tail_responses", int(k.recvd.Load())-r0)
	if b := cl.doBarrier(); b != "" {
		if b == "panic" {
			return reportPanic("at the final barrier")
		}
		c.Inconclusive("final barrier: " + b)
		return false
	}
	total := cl.respLen()
	reqs, pushes := int(k.reqs.Load()), int(pushesDone.Load())
	bound := 2*reqs + pushes*nTypes + nTypes
	c.Count("conc_conversations", 1)
	c.Count("conc_conversations:"+worldLabel(w)+":"+cc.proto, 1)
	c.Count("conc_client_requests", reqs)
	c.Count("conc_pushes", pushes)
	c.Count("conc_responses", total)
	c.Count("conc_acks_sent", int(k.sends.Load())-reqs)
	c.Count("conc_requests_sent_while_responses_unprocessed", int(k.racingReqs.Load()))
	c.Count("conc_acks_for_superseded_nonce", int(k.supersededAcks.Load()))
	if k.racingReqs.Load()+k.supersededAcks.Load() > 0 {
		c.Count("conc_conversations_with_observed_race", 1)
	}
	c.Max("conc_responses_per_conversation", total)
	if total > bound {
		c.Violation("unbounded-responses:conc:"+cc.proto, fmt.Sprintf("%d responses to %d client requests and %d pushes over %d types (bound %d) in %s", total, reqs, pushes, nTypes, bound, cc.name()),
			map[string]any{"script": cc.script(), "responses": tailTypes(cl, 0)})
	}
	// stale-looking traffic the races produced (evidence that requests really raced pushes)
	seqText := cc.name() + " " + fmt.Sprint(cc.script())
	for t, n := range reopenAt {
		cl.ts[t].reopenedSilent = typeResponses(cl, t) == n
	}
	checkRecord(c, ds, cl, cc.proto, seqText, conID, func(t string) bool { return !k.nack[t] })
	// plain ACK rounds must be silent (same bound as the sequential strata)
	quiet := false
	for round := 0; round < 4; round++ {
		before := cl.respLen()
		k.mu.Lock()
		for _, t := range w.types {
			st := cl.ts[t]
			if !st.hasRecord || k.nonce[t] == "" {
				continue
			}
			if cc.proto == "sotw" {
				var ns []string
				if !wildcard[t] {
					ns = sortedNames(st)
				}
				sendSotw(t, ns, false)
			} else {
				sendDelta(t, nil, nil, k.nonce[t], false)
			}
		}
		k.mu.Unlock()
		if b := cl.doBarrier(); b != "" {
			if b == "panic" {
				return reportPanic("during the ACK rounds")
			}
			c.Inconclusive("barrier during ack rounds: " + b)
			return false
		}
		got := cl.responsesSince(before)
		for _, r := range got {
			k.nonce[cl.short(r.TypeURL)] = r.Nonce
		}
		c.Count("ack_rounds", 1)
		if len(got) == 0 {
			quiet = true
			break
		}
	}
	if !quiet {
		c.Violation("request-response-loop:"+cc.proto, "server kept answering plain ACKs for 4 rounds after "+cc.name(), map[string]any{"script": cc.script()})
	}
	if reportPanic("at the end") {
		return true
	}
	checkNonces(c, cl, cc.proto, cc.name())
	if reqs >= 2 && pushes >= 1 && total >= 2 {
		c.Nontrivial(vh.Hash(cc.name(), fmt.Sprint(cc.script())))
	}
	if conID%41 == 0 {
		c.Sample(map[string]any{"script": cc.script(), "responses_seen": total, "client_requests": reqs, "pushes": pushes})
	}
	return false
}

func typeResponses(cl *client, t string) int {
	n := 0
	for _, r := range cl.responsesSince(0) {
		if r.TypeURL == typeURLs[t] {
			n++
		}
	}
	return n
}

func tailTypes(cl *client, from int) string {
	var out []string
	for _, r := range cl.responsesSince(from) {
		out = append(out, cl.short(r.TypeURL))
	}
	if len(out) > 60 {
		out = append(out[:60], "...")
	}
	return strings.Join(out, " ")
}
