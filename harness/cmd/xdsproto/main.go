// Engine xdsproto: property C04 — xDS request/ACK/NACK handling answers exactly when the
// protocol requires. A hostile client on the stream shim drives the real DiscoveryServer in
// closed loop; an executable protocol model classifies every stimulus as must-respond,
// must-be-silent or unspecified and the barrier makes "silence" a decided fact.
package main

import (
	"fmt"
	"math/rand"
	"sort"
	"strings"
	"sync"
	"time"

	discovery "github.com/envoyproxy/go-control-plane/envoy/service/discovery/v3"
	"google.golang.org/genproto/googleapis/rpc/status"

	"istio.io/istio/pilot/pkg/model"
	v3 "istio.io/istio/pilot/pkg/xds/v3"
	xdsfake "istio.io/istio/pilot/test/xds"
	"verifharness/internal/quiet"
	"verifharness/internal/vh"
	"verifharness/internal/xdsshim"
)

func main() {
	vh.Main(vh.Prop{
		ID:    "C04",
		Level: "exploration",
		Rule: "Closed loop between the real DiscoveryServer (Stream / StreamDeltas on a stream shim) and a hostile client. Enumerated stratum: every request sequence up to length L " +
			"(quick L=2, thorough L=3) over the per-type alphabet {names in {},{n1},{n1,n2},{nx}} x nonce {empty,current,stale,garbage} x error_detail {no,yes} plus a server push letter, " +
			"for EDS, RDS (non-wildcard) and CDS, LDS, NDS (wildcard), on a bare stream and on a conformantly warmed stream, SotW and delta; random stratum: PRNG sequences of length 4-12 mixing types and pushes. " +
			"After each stimulus a barrier request decides whether the server answered. Non-trivial: a sequence containing at least one must-respond and one must-be-silent stimulus; distinct by the sequence text.",
		Assumptions: []string{
			"the executable protocol model is our reading of the xDS protocol as restated by the property (first request / added names / reconnect => respond; ACK, NACK, stale nonce => silent); anything else is unspecified and only counted towards the loop bound",
			"requests and pushes of one connection are handled in order by one goroutine, so the barrier echo implies earlier responses were delivered (probed)",
			"a recovered panic in the stream handler is reported as a crash: istiod installs no recover interceptor",
		},
		Anchors:          []string{"pkg/xds/server.go", "pilot/pkg/xds/delta.go", "pilot/pkg/xds/ads.go"},
		CrashIsViolation: true,
		MinNontrivial:    func(t string) int { return map[string]int{"quick": 200, "thorough": 5000}[t] },
		Batches:          func(t string) int { return map[string]int{"quick": 6, "thorough": 14}[t] },
		Parallel:         func(t string) int { return map[string]int{"quick": 6, "thorough": 14}[t] },
		TimeoutSec:       func(t string) int { return map[string]int{"quick": 600, "thorough": 3000}[t] },
		Exhaustive:       func(string) bool { return false },
		Run:              run,
	})
}

// ---------------------------------------------------------------------------------------
// universe

var typeURLs = map[string]string{
	"CDS": v3.ClusterType,
	"LDS": v3.ListenerType,
	"EDS": v3.EndpointType,
	"RDS": v3.RouteType,
	"NDS": v3.NameTableType,
}

var wildcard = map[string]bool{"CDS": true, "LDS": true, "NDS": true}

// existing resource names per non-wildcard type (from serverConfig) and one that does not exist
var names = map[string][]string{
	"EDS": {"outbound|8081||a.example.com", "outbound|8082||b.example.com", "outbound|8083||c.example.com", "outbound|9999||nx.example.com"},
	"RDS": {"8081", "8082", "8083", "9999"},
}

const serverConfig = `
apiVersion: networking.istio.io/v1
kind: ServiceEntry
metadata: {name: a, namespace: default}
spec:
  hosts: [a.example.com]
  ports: [{number: 8081, name: http, protocol: HTTP}]
  resolution: STATIC
  endpoints: [{address: 10.1.0.1}]
---
apiVersion: networking.istio.io/v1
kind: ServiceEntry
metadata: {name: b, namespace: default}
spec:
  hosts: [b.example.com]
  ports: [{number: 8082, name: http, protocol: HTTP}]
  resolution: STATIC
  endpoints: [{address: 10.1.0.2}]
---
apiVersion: networking.istio.io/v1
kind: ServiceEntry
metadata: {name: c, namespace: default}
spec:
  hosts: [c.example.com]
  ports: [{number: 8083, name: http, protocol: HTTP}]
  resolution: STATIC
  endpoints: [{address: 10.1.0.3}]
`

// letter is one client stimulus.
type letter struct {
	Push  bool   // server-initiated forced push instead of a request
	Type  string // short type
	Names int    // index into nameSets (non-wildcard types)
	Nonce string // empty | current | stale | garbage
	Err   bool   // error_detail present
}

var nameSets = [][]int{{}, {0}, {0, 1}, {3}} // indices into names[type]; 3 = nonexistent

func (l letter) String() string {
	if l.Push {
		return "push"
	}
	s := l.Type
	if !wildcard[l.Type] {
		s += fmt.Sprint(nameSets[l.Names])
	}
	s += "/" + l.Nonce
	if l.Err {
		s += "/nack"
	}
	return s
}

func alphabet(t string) []letter {
	out := []letter{{Push: true}}
	ns := []int{0}
	if !wildcard[t] {
		ns = []int{0, 1, 2, 3}
	}
	for _, n := range ns {
		for _, nonce := range []string{"empty", "current", "stale", "garbage"} {
			for _, e := range []bool{false, true} {
				out = append(out, letter{Type: t, Names: n, Nonce: nonce, Err: e})
			}
		}
	}
	return out
}

type seqCase struct {
	proto  string // sotw | delta
	warmed bool
	seq    []letter
}

func (s seqCase) String() string {
	parts := make([]string, len(s.seq))
	for i, l := range s.seq {
		parts[i] = l.String()
	}
	w := "bare"
	if s.warmed {
		w = "warmed"
	}
	return s.proto + "/" + w + "/" + strings.Join(parts, ",")
}

func enumerate(maxLen int) []seqCase {
	var out []seqCase
	for _, proto := range []string{"sotw", "delta"} {
		for _, warmed := range []bool{false, true} {
			for _, t := range []string{"EDS", "RDS", "CDS", "LDS", "NDS"} {
				alpha := alphabet(t)
				var rec func(prefix []letter)
				rec = func(prefix []letter) {
					if len(prefix) > 0 {
						// sequences consisting only of pushes carry no information
						allPush := true
						for _, l := range prefix {
							if !l.Push {
								allPush = false
							}
						}
						if !allPush {
							out = append(out, seqCase{proto, warmed, append([]letter(nil), prefix...)})
						}
					}
					if len(prefix) == maxLen {
						return
					}
					for _, l := range alpha {
						rec(append(prefix, l))
					}
				}
				rec(nil)
			}
		}
	}
	return out
}

func randomSeq(r *rand.Rand) seqCase {
	sc := seqCase{proto: []string{"sotw", "delta"}[r.Intn(2)], warmed: r.Intn(2) == 0}
	n := 4 + r.Intn(9)
	ts := []string{"EDS", "RDS", "CDS", "LDS", "NDS", "EDS", "RDS"}
	for i := 0; i < n; i++ {
		if r.Intn(8) == 0 {
			sc.seq = append(sc.seq, letter{Push: true})
			continue
		}
		t := ts[r.Intn(len(ts))]
		l := letter{Type: t, Err: r.Intn(5) == 0}
		if !wildcard[t] {
			l.Names = r.Intn(len(nameSets))
		}
		switch x := r.Intn(10); {
		case x < 5:
			l.Nonce = "current"
		case x < 7:
			l.Nonce = "empty"
		case x < 9:
			l.Nonce = "stale"
		default:
			l.Nonce = "garbage"
		}
		sc.seq = append(sc.seq, l)
	}
	return sc
}

// ---------------------------------------------------------------------------------------
// server holder (rebuilt after a recovered panic: locks may be left held)

type server struct {
	f   *vh.F
	srv *xdsfake.FakeDiscoveryServer
}

func newServer() *server {
	f := vh.NewF()
	srv := xdsfake.NewFakeDiscoveryServer(f, xdsfake.FakeOptions{ConfigString: serverConfig})
	xdsshim.InstallBarrier(srv.Discovery)
	return &server{f: f, srv: srv}
}

// ---------------------------------------------------------------------------------------

func run(c *vh.Ctx) {
	quiet.Logs("error")
	var s *server
	taints := 0
	var conID int
	exec := func(idx int, sc seqCase) {
		c.Case(sc.String(), func() {
			if s == nil {
				s = newServer()
			}
			conID++
			tainted := runSequence(c, s, sc, conID)
			if tainted {
				// do not run cleanups: a recovered panic may have left locks held
				s = nil
				taints++
			}
		})
	}
	tooMany := func() bool {
		if taints >= 25 {
			// every abandoned server leaks its goroutines; the panics are already reported
			c.Count("batches_cut_short_after_25_panics", 1)
			return true
		}
		return false
	}
	maxLen := c.N(2, 3)
	cases := enumerate(maxLen)
	for i, sc := range cases {
		if c.Mine(i) && !tooMany() {
			exec(i, sc)
		}
	}
	c.Count("enumerated_sequences_total", 0)
	nr := c.N(300, 8000)
	for i := 0; i < nr; i++ {
		if c.Mine(i) && !tooMany() {
			exec(i, randomSeq(c.Rng("random", i)))
		}
	}
	if s != nil {
		s.f.Done()
	}
}

// ---------------------------------------------------------------------------------------
// per-stream client + protocol model

type typeState struct {
	// client side knowledge
	nonces []string // nonces received for this type on this stream, in order
	// model of what the server must have on record
	hasRecord bool
	names     map[string]bool // SotW: last names; delta: cumulative subscription
	forceNext bool            // documented EDS-after-CDS forced response pending
	// unknown: a non-conformant message whose effect on the subscription the property does not fix
	// (an unsubscribe or subscription change carried by a stale/garbage-nonce request or by a NACK) has been
	// sent; until the type is re-opened with an empty nonce, nothing is asserted about it.
	unknown bool
}

type client struct {
	c       *vh.Ctx
	proto   string
	sotw    *xdsshim.SotwStream
	delta   *xdsshim.DeltaStream
	mu      sync.Mutex
	resp    []respRec // every response in arrival order
	barrier chan string
	seq     int
	ts      map[string]*typeState
}

type respRec struct {
	TypeURL string
	Nonce   string
	Names   []string
	Removed []string
}

func shortOf(url string) string {
	for k, v := range typeURLs {
		if v == url {
			return k
		}
	}
	return url
}

func newClient(c *vh.Ctx, s *server, proto string, conID int) *client {
	cl := &client{c: c, proto: proto, barrier: make(chan string, 16), ts: map[string]*typeState{}}
	for t := range typeURLs {
		cl.ts[t] = &typeState{names: map[string]bool{}}
	}
	if proto == "sotw" {
		cl.sotw = xdsshim.NewSotw(nil, func(r *discovery.DiscoveryResponse) error {
			if r.TypeUrl == xdsshim.BarrierType {
				cl.barrier <- r.Nonce
				return nil
			}
			rr := respRec{TypeURL: r.TypeUrl, Nonce: r.Nonce}
			rr.Names = resourceNames(r)
			cl.mu.Lock()
			cl.resp = append(cl.resp, rr)
			cl.mu.Unlock()
			return nil
		})
		cl.sotw.Serve(s.srv.Discovery)
	} else {
		cl.delta = xdsshim.NewDelta(nil, func(r *discovery.DeltaDiscoveryResponse) error {
			if r.TypeUrl == xdsshim.BarrierType {
				cl.barrier <- r.Nonce
				return nil
			}
			rr := respRec{TypeURL: r.TypeUrl, Nonce: r.Nonce, Removed: r.RemovedResources}
			for _, rs := range r.Resources {
				rr.Names = append(rr.Names, rs.Name)
			}
			cl.mu.Lock()
			cl.resp = append(cl.resp, rr)
			cl.mu.Unlock()
			return nil
		})
		cl.delta.Serve(s.srv.Discovery)
	}
	return cl
}

func (cl *client) done() <-chan struct{} {
	if cl.sotw != nil {
		return cl.sotw.Done()
	}
	return cl.delta.Done()
}

func (cl *client) panicked() string {
	select {
	case <-cl.done():
	default:
		return ""
	}
	if cl.sotw != nil {
		return cl.sotw.Panicked()
	}
	return cl.delta.Panicked()
}

// doBarrier sends a barrier request and waits for its echo. Returns "" on success, "panic" if
// the server handler panicked, "lost" on watchdog.
func (cl *client) doBarrier() string {
	cl.seq++
	name := fmt.Sprintf("b-%d", cl.seq)
	ok := false
	if cl.proto == "sotw" {
		ok = cl.sotw.Request(&discovery.DiscoveryRequest{TypeUrl: xdsshim.BarrierType, ResourceNames: []string{name}})
	} else {
		req := &discovery.DeltaDiscoveryRequest{TypeUrl: xdsshim.BarrierType, ResourceNamesSubscribe: []string{name}}
		if cl.seq > 1 {
			req.ResourceNamesUnsubscribe = []string{fmt.Sprintf("b-%d", cl.seq-1)}
		}
		ok = cl.delta.Request(req)
	}
	if !ok {
		// the request could not be handed over: the stream ended; wait for the handler to return
		select {
		case <-cl.done():
		case <-time.After(30 * time.Second):
		}
		if cl.panicked() != "" {
			return "panic"
		}
		return "closed"
	}
	select {
	case <-cl.barrier:
		return ""
	case <-cl.done():
		if cl.panicked() != "" {
			return "panic"
		}
		return "closed"
	case <-time.After(60 * time.Second):
		return "lost"
	}
}

func resourceNames(r *discovery.DiscoveryResponse) []string {
	var out []string
	for _, a := range r.Resources {
		out = append(out, xdsshim.ResourceName(a))
	}
	return out
}

func (cl *client) responsesSince(i int) []respRec {
	cl.mu.Lock()
	defer cl.mu.Unlock()
	return append([]respRec(nil), cl.resp[i:]...)
}

func (cl *client) respLen() int {
	cl.mu.Lock()
	defer cl.mu.Unlock()
	return len(cl.resp)
}

func (cl *client) close() {
	if cl.sotw != nil {
		cl.sotw.Cancel()
	} else {
		cl.delta.Cancel()
	}
}

type expectation int

const (
	unspecified expectation = iota
	mustRespond
	mustBeSilent
)

func (e expectation) String() string { return [...]string{"unspecified", "must-respond", "must-be-silent"}[e] }

func namesOf(t string, idx int) []string {
	var out []string
	for _, i := range nameSets[idx] {
		out = append(out, names[t][i])
	}
	return out
}

func anyExisting(t string, ns []string) bool {
	for _, n := range ns {
		if n != names[t][3] {
			return true
		}
	}
	return false
}

// runSequence returns true when the server must be abandoned (panic observed).
func runSequence(c *vh.Ctx, s *server, sc seqCase, conID int) bool {
	ds := s.srv.Discovery
	if !xdsshim.WaitControlPlaneIdle(ds, 60*time.Second) {
		c.Inconclusive("control plane did not become idle before the sequence")
		return false
	}
	cl := newClient(c, s, sc.proto, conID)
	defer cl.close()
	nd := xdsshim.Node("sidecar", fmt.Sprintf("10.9.%d.%d", conID/250%250, conID%250+1), fmt.Sprintf("app-%d", conID), "default", nil)
	first := true // node must be set on the first request of the stream
	conformant := true
	lastWasNack := map[string]bool{}
	sawRespond, sawSilent := false, false
	totalSteps := 0

	send := func(t string, ns []string, nonce string, nack bool) bool {
		url := typeURLs[t]
		var ed *status.Status
		if nack {
			ed = &status.Status{Code: 3, Message: "rejected by hostile client"}
		}
		if sc.proto == "sotw" {
			r := &discovery.DiscoveryRequest{TypeUrl: url, ResourceNames: ns, ResponseNonce: nonce, ErrorDetail: ed}
			if nonce != "" {
				r.VersionInfo = "v"
			}
			if first {
				r.Node = nd
				first = false
			}
			return cl.sotw.Request(r)
		}
		// delta: translate "the client's names become ns" into subscribe/unsubscribe diffs
		st := cl.ts[t]
		r := &discovery.DeltaDiscoveryRequest{TypeUrl: url, ResponseNonce: nonce, ErrorDetail: ed}
		want := map[string]bool{}
		for _, n := range ns {
			want[n] = true
		}
		for _, n := range ns {
			if !st.names[n] {
				r.ResourceNamesSubscribe = append(r.ResourceNamesSubscribe, n)
			}
		}
		var cur []string
		for n := range st.names {
			cur = append(cur, n)
		}
		sort.Strings(cur)
		for _, n := range cur {
			if !want[n] {
				r.ResourceNamesUnsubscribe = append(r.ResourceNamesUnsubscribe, n)
			}
		}
		if wildcard[t] && !st.hasRecord {
			r.ResourceNamesSubscribe = nil // wildcard by subscribing to nothing
		}
		if first {
			r.Node = nd
			first = false
		}
		return cl.delta.Request(r)
	}

	panicReported := false
	checkPanic := func(where string) bool {
		if p := cl.panicked(); p != "" {
			if !panicReported {
				panicReported = true
				top := vh.TopIstioFrame(p)
				c.Violation("panic:"+top, fmt.Sprintf("server stream handler panicked (%s) after %s: %s", sc.proto, where, firstLine(p)),
					map[string]any{"sequence": sc.String(), "stack": firstN(p, 30)})
			}
			return true
		}
		return false
	}

	// step executes one request and decides respond/silent through the barrier.
	step := func(t string, ns []string, nonceKind string, nack bool, hostile bool) (ok bool, tainted bool) {
		st := cl.ts[t]
		totalSteps++
		// resolve nonce
		nonce := ""
		effKind := nonceKind
		switch nonceKind {
		case "current":
			if len(st.nonces) > 0 {
				nonce = st.nonces[len(st.nonces)-1]
			} else {
				effKind = "empty"
			}
		case "stale":
			if len(st.nonces) > 1 {
				nonce = st.nonces[len(st.nonces)-2]
				if nonce == st.nonces[len(st.nonces)-1] {
					nonce = "stale-" + nonce
				}
			} else {
				nonce = "never-sent-nonce"
				effKind = "garbage"
			}
		case "garbage":
			nonce = "garbage-nonce"
		}
		// classify by the protocol model
		exp := unspecified
		addedExisting := false
		var added []string
		for _, n := range ns {
			if !st.names[n] {
				added = append(added, n)
				if !wildcard[t] && n != names[t][3] {
					addedExisting = true
				}
			}
		}
		removedAny := false
		nsSet := map[string]bool{}
		for _, n := range ns {
			nsSet[n] = true
		}
		for n := range st.names {
			if !nsSet[n] {
				removedAny = true
			}
		}
		isFirst := !st.hasRecord
		unsub := !wildcard[t] && len(ns) == 0
		wasUnknown := st.unknown
		switch {
		case st.unknown && !nack:
			exp = unspecified
		case nack:
			exp = mustBeSilent
		case sc.proto == "sotw" && unsub:
			exp = unspecified // unsubscribe: the property does not fix the reaction
		case isFirst:
			if wildcard[t] || anyExisting(t, ns) {
				exp = mustRespond
			}
			if sc.proto == "delta" && unsub {
				exp = unspecified // a delta first request without names on a non-wildcard type is a wildcard subscription: unspecified here
			}
		case effKind == "stale" || effKind == "garbage":
			exp = mustBeSilent
		case effKind == "empty":
			// SotW: empty nonce on a type that already has a record is outside the property's cases.
			// delta: a spontaneous request; responds iff it adds names.
			if sc.proto == "delta" && addedExisting {
				exp = mustRespond
			}
		case effKind == "current":
			switch {
			case st.forceNext && len(added) == 0 && (sc.proto == "sotw" || !removedAny):
				exp = unspecified // documented forced response to let clusters finish warming
			case len(added) == 0 && !removedAny:
				exp = mustBeSilent // plain ACK
			case addedExisting && sc.proto == "sotw":
				exp = mustRespond
			default:
				exp = unspecified // removal only / adding a name that does not exist / delta ACK that changes the subscription
			}
		}
		// conformance bookkeeping (closed loop: a conformant client never presents a stale nonce,
		// never NACKs without having received a response, and uses an empty nonce only to open a type)
		if effKind == "stale" || effKind == "garbage" || (nack && len(st.nonces) == 0) || (effKind == "empty" && !isFirst && sc.proto == "sotw") {
			conformant = false
		}
		if sc.proto == "delta" && effKind == "current" && (len(added) > 0 || removedAny) {
			conformant = false // delta subscription changes travel in spontaneous requests
		}
		if sc.proto == "delta" && effKind == "empty" && !isFirst && len(added) == 0 && !removedAny {
			conformant = false
		}
		before := cl.respLen()
		if !send(t, ns, nonce, nack) {
			if checkPanic(fmt.Sprintf("%s names=%v nonce=%s nack=%v", t, ns, effKind, nack)) {
				return false, true
			}
			c.Inconclusive("stream closed by server: " + errString(cl))
			return false, false
		}
		switch cl.doBarrier() {
		case "":
		case "panic":
			checkPanic(fmt.Sprintf("%s names=%v nonce=%s nack=%v", t, ns, effKind, nack))
			return false, true
		case "closed":
			if checkPanic("request") {
				return false, true
			}
			c.Inconclusive("stream closed by server: " + errString(cl))
			return false, false
		default:
			c.Inconclusive("barrier lost")
			return false, false
		}
		got := cl.responsesSince(before)
		nT := 0
		var gotNames []string
		for _, r := range got {
			if r.TypeURL == typeURLs[t] {
				nT++
				gotNames = append(gotNames, r.Names...)
			}
			ts := cl.ts[shortOf(r.TypeURL)]
			if ts != nil {
				ts.nonces = append(ts.nonces, r.Nonce)
			}
		}
		c.Count("stimuli", 1)
		c.Count("stimuli_"+exp.String(), 1)
		c.SetAdd("stimulus_classes", fmt.Sprintf("%s/%s/first=%v/nonce=%s/nack=%v/added=%v/removed=%v => %s", sc.proto, t, isFirst, effKind, nack, len(added) > 0, removedAny, exp))
		what := fmt.Sprintf("%s %s names=%v nonce=%s(%s) nack=%v [first=%v added=%v] in %s", sc.proto, t, shortNames(ns), nonceKind, effKind, nack, isFirst, shortNames(added), sc.String())
		switch exp {
		case mustRespond:
			sawRespond = true
			if nT == 0 {
				c.Violation(fmt.Sprintf("silent-on-must-respond:%s:%s:first=%v:nonce=%s", sc.proto, t, isFirst, effKind),
					"server stayed silent on a stimulus that requires a response: "+what, map[string]any{"sequence": sc.String()})
			} else if !wildcard[t] {
				// the response must carry the newly requested existing resources
				have := map[string]bool{}
				for _, n := range gotNames {
					have[n] = true
				}
				for _, n := range added {
					if n != names[t][3] && !have[n] {
						c.Violation(fmt.Sprintf("response-misses-new-name:%s:%s", sc.proto, t),
							fmt.Sprintf("response does not contain newly requested resource %s: got %v; %s", n, shortNames(gotNames), what), map[string]any{"sequence": sc.String()})
					}
				}
			}
		case mustBeSilent:
			sawSilent = true
			if nT > 0 {
				c.Violation(fmt.Sprintf("response-on-must-be-silent:%s:%s:nonce=%s:nack=%v", sc.proto, t, effKind, nack),
					fmt.Sprintf("server answered (%d responses) a stimulus on which it must stay silent: %s", nT, what), map[string]any{"sequence": sc.String()})
			}
		}
		if nT > 1 {
			c.Violation(fmt.Sprintf("multiple-responses:%s:%s", sc.proto, t), fmt.Sprintf("%d responses of one type to one request: %s", nT, what), map[string]any{"sequence": sc.String()})
		}
		// advance the model of the server's record
		_ = wasUnknown
		if !wildcard[t] && (nack || effKind == "stale" || effKind == "garbage") && (len(added) > 0 || removedAny || isFirst) {
			st.unknown = true
		}
		if nack {
			lastWasNack[t] = true
			return true, false
		}
		if st.unknown && sc.proto == "sotw" && effKind == "empty" && !unsub {
			st.unknown = false // INIT: the record is the request's names whatever it was before
			isFirst = true
		}
		if st.unknown {
			return true, false
		}
		lastWasNack[t] = false
		accepted := false // did the request update the subscription per protocol?
		switch {
		case isFirst, effKind == "empty", effKind == "current":
			accepted = true
		}
		if accepted {
			if sc.proto == "sotw" {
				if unsub {
					st.hasRecord = false
					st.names = map[string]bool{}
					st.forceNext = false
				} else {
					if isFirst || effKind == "empty" {
						st.forceNext = false
						if t == "CDS" && cl.ts["EDS"].hasRecord {
							cl.ts["EDS"].forceNext = true
						}
					} else if effKind == "current" {
						st.forceNext = false
					}
					st.hasRecord = true
					st.names = nsSet
				}
			} else {
				if isFirst && t == "CDS" && cl.ts["EDS"].hasRecord {
					cl.ts["EDS"].forceNext = true
				}
				if !isFirst && len(added) == 0 && !removedAny {
					st.forceNext = false
				}
				st.hasRecord = true
				st.names = nsSet
			}
		}
		return true, false
	}

	// optional conformant warm-up: CDS, EDS{n1,n2}, LDS, RDS{n1,n2}, each ACKed
	if sc.warmed {
		for _, w := range []struct {
			t  string
			ns []string
		}{{"CDS", nil}, {"EDS", namesOf("EDS", 2)}, {"LDS", nil}, {"RDS", namesOf("RDS", 2)}} {
			if ok, tainted := step(w.t, w.ns, "empty", false, false); !ok {
				return tainted
			}
			if ok, tainted := step(w.t, w.ns, "current", false, false); !ok {
				return tainted
			}
		}
	}
	for _, l := range sc.seq {
		if l.Push {
			before := cl.respLen()
			ds.ConfigUpdate(&model.PushRequest{Forced: true, Reason: model.NewReasonStats(model.DebugTrigger)})
			if !xdsshim.WaitControlPlaneIdle(ds, 60*time.Second) {
				c.Inconclusive("push did not quiesce")
				return false
			}
			if first {
				continue // nothing has been sent on this stream yet: there is no connection to push to
			}
			if b := cl.doBarrier(); b != "" {
				if b == "panic" {
					checkPanic("push")
					return true
				}
				c.Inconclusive("barrier after push: " + b)
				return false
			}
			per := map[string]int{}
			for _, r := range cl.responsesSince(before) {
				t := shortOf(r.TypeURL)
				per[t]++
				if ts := cl.ts[t]; ts != nil {
					ts.nonces = append(ts.nonces, r.Nonce)
				}
			}
			c.Count("pushes", 1)
			for t, n := range per {
				if n > 2 {
					c.Violation("push-response-burst:"+sc.proto+":"+t, fmt.Sprintf("%d responses of type %s to one push in %s", n, t, sc.String()), nil)
				}
			}
			continue
		}
		var ns []string
		if !wildcard[l.Type] {
			ns = namesOf(l.Type, l.Names)
		}
		if first && l.Push {
			continue
		}
		ok, tainted := step(l.Type, ns, l.Nonce, l.Err, true)
		if !ok {
			return tainted
		}
	}
	// (4) record equals the last request, for conformant sequences whose last message per type was not a NACK
	if !first {
		for _, con := range ds.Clients() {
			if con.Proxy() == nil || !strings.Contains(con.Proxy().ID, fmt.Sprintf("app-%d.", conID)) {
				continue
			}
			wrs := con.Proxy().DeepCloneWatchedResources()
			for _, t := range []string{"EDS", "RDS"} {
				st := cl.ts[t]
				if !conformant || lastWasNack[t] || st.unknown {
					continue
				}
				wr, haveWr := wrs[typeURLs[t]]
				var rec []string
				if haveWr {
					rec = wr.ResourceNames.UnsortedList()
					sort.Strings(rec)
				}
				var want []string
				for n := range st.names {
					want = append(want, n)
				}
				sort.Strings(want)
				c.Count("record_checks", 1)
				if strings.Join(rec, ",") != strings.Join(want, ",") {
					c.Violation("record-mismatch:"+sc.proto+":"+t, fmt.Sprintf("server records %v for %s but the conformant client last asked for %v in %s", shortNames(rec), t, shortNames(want), sc.String()),
						map[string]any{"sequence": sc.String()})
				}
			}
		}
	}
	// (2) no loop: an auto-ACKing conformant client reaches silence within 3 rounds
	if !first {
		quiet := false
		for round := 0; round < 4; round++ {
			before := cl.respLen()
			sent := 0
			for _, t := range []string{"CDS", "EDS", "LDS", "RDS", "NDS"} {
				st := cl.ts[t]
				if !st.hasRecord || len(st.nonces) == 0 || st.unknown {
					continue
				}
				var ns []string
				for n := range st.names {
					ns = append(ns, n)
				}
				sort.Strings(ns)
				if !send(t, ns, st.nonces[len(st.nonces)-1], false) {
					if checkPanic("auto-ack") {
						return true
					}
					c.Inconclusive("stream closed during ack rounds: " + errString(cl))
					return false
				}
				sent++
			}
			if b := cl.doBarrier(); b != "" {
				if b == "panic" {
					checkPanic("auto-ack")
					return true
				}
				c.Inconclusive("barrier during ack rounds: " + b)
				return false
			}
			got := cl.responsesSince(before)
			for _, r := range got {
				if ts := cl.ts[shortOf(r.TypeURL)]; ts != nil {
					ts.nonces = append(ts.nonces, r.Nonce)
					ts.forceNext = false
				}
			}
			c.Count("ack_rounds", 1)
			if len(got) == 0 {
				quiet = true
				break
			}
		}
		if !quiet {
			c.Violation("request-response-loop:"+sc.proto, "server kept answering plain ACKs for 4 rounds after "+sc.String(), map[string]any{"sequence": sc.String()})
		}
	}
	if checkPanic("end of sequence") {
		return true
	}
	c.Count("sequences", 1)
	c.Count("steps", totalSteps)
	if sawRespond && sawSilent {
		c.Nontrivial(vh.Hash(sc.String()))
	}
	if len(sc.seq) >= 2 && conID%97 == 0 {
		c.Sample(map[string]any{"sequence": sc.String(), "responses_seen": len(cl.responsesSince(0)), "conformant": conformant})
	}
	return false
}

func errString(cl *client) string {
	var d <-chan struct{}
	var e func() error
	if cl.sotw != nil {
		d, e = cl.sotw.Done(), cl.sotw.Err
	} else {
		d, e = cl.delta.Done(), cl.delta.Err
	}
	select {
	case <-d:
		return fmt.Sprint(e())
	case <-time.After(2 * time.Second):
		return "stream still open"
	}
}

func shortNames(ns []string) []string {
	out := make([]string, len(ns))
	for i, n := range ns {
		out[i] = strings.TrimSuffix(strings.TrimPrefix(n, "outbound|"), ".example.com")
	}
	return out
}

func firstLine(s string) string {
	if i := strings.IndexByte(s, '\n'); i >= 0 {
		return s[:i]
	}
	return s
}

func firstN(s string, n int) string {
	l := strings.Split(s, "\n")
	if len(l) > n {
		l = l[:n]
	}
	return strings.Join(l, "\n")
}
