// Engine xdsproto: property C04 — xDS request/ACK/NACK handling answers exactly when the
// protocol requires. A hostile client on the stream shim drives the real DiscoveryServer in
// closed loop; an executable protocol model classifies every stimulus as must-respond,
// must-be-silent or unspecified and the barrier makes "silence" a decided fact.
package main

import (
	"context"
	"fmt"
	"math/rand"
	"os"
	"runtime"
	"runtime/debug"
	"sort"
	"strconv"
	"strings"
	"sync"
	"time"

	discovery "github.com/envoyproxy/go-control-plane/envoy/service/discovery/v3"
	"google.golang.org/genproto/googleapis/rpc/status"

	"istio.io/istio/pilot/pkg/xds"
	v3 "istio.io/istio/pilot/pkg/xds/v3"
	xdsfake "istio.io/istio/pilot/test/xds"
	"istio.io/istio/pkg/util/sets"
	"verifharness/internal/idle"
	"verifharness/internal/quiet"
	"verifharness/internal/vh"
	"verifharness/internal/xdsshim"
)

func main() {
	maybeProbe()
	vh.Main(vh.Prop{
		ID:    "C04",
		Level: "exploration",
		Rule: "Closed loop between the real DiscoveryServer (Stream / StreamDeltas on a stream shim) and a hostile client. Enumerated stratum: every request sequence up to length L " +
			"(quick L=2, thorough L=3) over the per-type alphabet {names in {},{n1},{n1,n2},{nx}} x nonce {empty,current,stale,garbage} x error_detail {no,yes} plus a server push letter, " +
			"for EDS, RDS (non-wildcard) and CDS, LDS, NDS (wildcard), on a bare stream and on a conformantly warmed stream, SotW and delta; random stratum: PRNG sequences of length 4-12 mixing types and pushes. " +
			"After each stimulus a barrier request decides whether the server answered. Non-trivial: a sequence containing at least one must-respond and one must-be-silent stimulus; distinct by the sequence text. " +
			"Extension strata (same construction, own case-name prefixes): ecds/ (sidecar, ECDS from EnvoyFilter EXTENSION_CONFIG patches and a WasmPlugin), sds/ (router on an authenticated stream, kubernetes:// secrets), " +
			"amb/ (ztunnel node, delta only: istio.workload.Address with explicit subscribe/unsubscribe letters over {*,pod ip,service vip,node-local pod ip,unknown ip} in wildcard and on-demand mode, and istio.security.Authorization), " +
			"grpc/ (Metadata.Generator=grpc, SotW, every type by name), api/ (Metadata.Generator=api, ServiceEntry kind as a wildcard type); forced and keyed push letters; hp/ (the legacy world with the workload health probe, healthy/unhealthy, with/without node, as a letter that may stand anywhere, first included; only sequences with a probe); thorough enumerates length 3 of the extension strata over the alphabet without the garbage nonce (not for Address on a wildcard-warmed stream; hp/: only sequences led by a probe), quick only those of length 3 that start with an unsubscribe of the warmed ECDS / SDS type (every way of re-opening a type whose record the server has deleted). " +
			"conc/: a conformant auto-ACKing client runs a PRNG conversation while a pusher goroutine issues forced and keyed ConfigUpdates at PRNG points without any barrier; judged only on crash, bounded responses, silence within K ACK rounds once the control plane is idle, final record = last request, nonce uniqueness.",
		Assumptions: []string{
			"the executable protocol model is our reading of the xDS protocol as restated by the property (first request / added names / reconnect => respond; ACK, NACK, stale nonce => silent); anything else is unspecified and only counted towards the loop bound",
			"requests and pushes of one connection are handled in order by one goroutine, so the barrier echo implies earlier responses were delivered (probed)",
			"a recovered panic in the stream handler is reported as a crash: istiod installs no recover interceptor",
			"generator-managed Address subscriptions: the generator adds names (uid / namespace/hostname form) to the record by itself, so the record clause compares the record restricted to the names the client can mention (network/ip form) and the Wildcard flag; switching between wildcard and named mode after the opening request, explicit names on a wildcard subscription, re-subscription of a name already on record and unsubscribe-only requests are unspecified",
			"features.EnableAmbient is switched on in-process for the ambient server only (the flags derived from it at init keep their non-ambient defaults)",
			"SotW nonces are scoped to the stream: while the server has sent nothing for a type since its record was (re)created there is no current nonce and 'stale' is undefined, so a stale/garbage nonce is unspecified there; a nonce presented after the client itself re-opened the type with an empty nonce (and got no reply) is unspecified too (self-contradicting client). A re-open that carries the nonce the client holds keeps its must-respond obligations",
			"a barrier that is not echoed while two consecutive stop-the-world snapshots (internal/idle) show every goroutine of the process parked where only another goroutine can wake it will never be echoed: the server has stopped processing the stream (decided logically, not by a timeout)",
			"every sequence ends with the client cancelling the stream; the handler must return without a panic (requests still buffered in the server are processed on the way out)",
			"concurrent stratum: schedules are not reproducible; a witness carries the script, and the message order can be replayed as a sequential case with stale-nonce letters",
		},
		Anchors:          []string{"pkg/xds/server.go", "pilot/pkg/xds/delta.go", "pilot/pkg/xds/ads.go"},
		CrashIsViolation: true,
		MinNontrivial:    func(t string) int { return map[string]int{"quick": 200, "thorough": 5000}[t] },
		Batches:          func(t string) int { return map[string]int{"quick": 6, "thorough": 14}[t] },
		Parallel:         parallel,
		TimeoutSec:       func(t string) int { return map[string]int{"quick": 600, "thorough": 3000}[t] },
		Exhaustive:       func(string) bool { return false },
		Run:              run,
	})
}

// parallel: children alive at once; XDSPROTO_PAR lowers it while developing next to other agents (the batch
// partition, and with it every case, stays the same).
func parallel(t string) int {
	n := map[string]int{"quick": 6, "thorough": 14}[t]
	if v, err := strconv.Atoi(os.Getenv("XDSPROTO_PAR")); err == nil && v > 0 && v < n {
		n = v
	}
	return n
}

// ---------------------------------------------------------------------------------------
// universe

var typeURLs = map[string]string{
	"CDS": v3.ClusterType,
	"LDS": v3.ListenerType,
	"EDS": v3.EndpointType,
	"RDS": v3.RouteType,
	"NDS": v3.NameTableType,
}

var wildcard = map[string]bool{"CDS": true, "LDS": true, "NDS": true}

// managed: the generator keeps the record's names itself (Address); letters carry explicit subscribe /
// unsubscribe lists. namedWildcard: a type the server treats as wildcard but this world's client requests
// by name (proxyless gRPC LDS / CDS): an empty name list is not an unsubscribe.
var (
	managed       = map[string]bool{}
	namedWildcard = map[string]bool{}
)

// existing resource names per non-wildcard type (from serverConfig) and one that does not exist
var names = map[string][]string{
	"EDS": {"outbound|8081||a.example.com", "outbound|8082||b.example.com", "outbound|8083||c.example.com", "outbound|9999||nx.example.com"},
	"RDS": {"8081", "8082", "8083", "9999"},
}

const serverConfig = `
apiVersion: networking.istio.io/v1
kind: ServiceEntry
metadata: {name: a, namespace: default}
spec:
  hosts: [a.example.com]
  ports: [{number: 8081, name: http, protocol: HTTP}]
  resolution: STATIC
  endpoints: [{address: 10.1.0.1}]
---
apiVersion: networking.istio.io/v1
kind: ServiceEntry
metadata: {name: b, namespace: default}
spec:
  hosts: [b.example.com]
  ports: [{number: 8082, name: http, protocol: HTTP}]
  resolution: STATIC
  endpoints: [{address: 10.1.0.2}]
---
apiVersion: networking.istio.io/v1
kind: ServiceEntry
metadata: {name: c, namespace: default}
spec:
  hosts: [c.example.com]
  ports: [{number: 8083, name: http, protocol: HTTP}]
  resolution: STATIC
  endpoints: [{address: 10.1.0.3}]
`

// letter is one client stimulus.
type letter struct {
	Push  bool   // server-initiated push instead of a request
	Kind  string // push kind ("" = forced, the only one of the legacy strata)
	Type  string // short type
	Names int    // index into nameSets (non-wildcard types)
	Nonce string // empty | current | stale | garbage
	Err   bool   // error_detail present
	// managed types (Address): indices into aNames
	Sub, Unsub []int
	// workload health probe (type istio.v1.HealthInformation, as istio-agent sends it: no names, error_detail when
	// unhealthy); Node: the probe carries the node (it never counts as the stream's first request)
	Health bool
	Node   bool
}

var nameSets = [][]int{{}, {0}, {0, 1}, {3}} // indices into names[type]; 3 = nonexistent

func (l letter) String() string {
	if l.Push {
		if l.Kind != "" {
			return "push:" + l.Kind
		}
		return "push"
	}
	if l.Health {
		s := "HEALTH/ok"
		if l.Err {
			s = "HEALTH/bad"
		}
		if l.Node {
			s += "/node"
		}
		return s
	}
	s := l.Type
	switch {
	case managed[l.Type]:
		s += "("
		for _, i := range l.Sub {
			s += "+" + aShort[i]
		}
		for _, i := range l.Unsub {
			s += "-" + aShort[i]
		}
		s += ")"
	case !wildcard[l.Type]:
		s += fmt.Sprint(nameSets[l.Names])
	}
	s += "/" + l.Nonce
	if l.Err {
		s += "/nack"
	}
	return s
}

func alphabet(t string) []letter {
	out := []letter{{Push: true}}
	ns := []int{0}
	if !wildcard[t] {
		ns = []int{0, 1, 2, 3}
	}
	for _, n := range ns {
		for _, nonce := range []string{"empty", "current", "stale", "garbage"} {
			for _, e := range []bool{false, true} {
				out = append(out, letter{Type: t, Names: n, Nonce: nonce, Err: e})
			}
		}
	}
	return out
}

type seqCase struct {
	proto  string // sotw | delta
	warmed bool
	seq    []letter
	// extension strata
	world string // "" = legacy
	warm  string // bare | <warm-up variant of the world>
}

func (s seqCase) String() string {
	parts := make([]string, len(s.seq))
	for i, l := range s.seq {
		parts[i] = l.String()
	}
	if s.world != "" {
		return s.world + "/" + s.proto + "/" + s.warm + "/" + strings.Join(parts, ",")
	}
	w := "bare"
	if s.warmed {
		w = "warmed"
	}
	return s.proto + "/" + w + "/" + strings.Join(parts, ",")
}

func enumerate(maxLen int) []seqCase {
	var out []seqCase
	for _, proto := range []string{"sotw", "delta"} {
		for _, warmed := range []bool{false, true} {
			for _, t := range []string{"EDS", "RDS", "CDS", "LDS", "NDS"} {
				alpha := alphabet(t)
				var rec func(prefix []letter)
				rec = func(prefix []letter) {
					if len(prefix) > 0 {
						// sequences consisting only of pushes carry no information
						allPush := true
						for _, l := range prefix {
							if !l.Push {
								allPush = false
							}
						}
						if !allPush {
							out = append(out, seqCase{proto: proto, warmed: warmed, seq: append([]letter(nil), prefix...)})
						}
					}
					if len(prefix) == maxLen {
						return
					}
					for _, l := range alpha {
						rec(append(prefix, l))
					}
				}
				rec(nil)
			}
		}
	}
	return out
}

func randomSeq(r *rand.Rand) seqCase {
	sc := seqCase{proto: []string{"sotw", "delta"}[r.Intn(2)], warmed: r.Intn(2) == 0}
	n := 4 + r.Intn(9)
	ts := []string{"EDS", "RDS", "CDS", "LDS", "NDS", "EDS", "RDS"}
	for i := 0; i < n; i++ {
		if r.Intn(8) == 0 {
			sc.seq = append(sc.seq, letter{Push: true})
			continue
		}
		t := ts[r.Intn(len(ts))]
		l := letter{Type: t, Err: r.Intn(5) == 0}
		if !wildcard[t] {
			l.Names = r.Intn(len(nameSets))
		}
		switch x := r.Intn(10); {
		case x < 5:
			l.Nonce = "current"
		case x < 7:
			l.Nonce = "empty"
		case x < 9:
			l.Nonce = "stale"
		default:
			l.Nonce = "garbage"
		}
		sc.seq = append(sc.seq, l)
	}
	return sc
}

// ---------------------------------------------------------------------------------------
// extension strata: alphabets

// aCombos are the (subscribe, unsubscribe) lists of the Address letters; withErr marks the ones that are
// also sent with error_detail.
var aCombos = []struct {
	sub, unsub []int
	withErr    bool
}{
	{nil, nil, true},            // no names: wildcard open / plain ACK / spontaneous request without change
	{[]int{0}, nil, false},      // +*
	{[]int{1}, nil, true},       // +ip1
	{[]int{1, 2}, nil, false},   // +ip1 +vip
	{[]int{3}, nil, false},      // +nx
	{[]int{0}, []int{0}, false}, // +* -* : the documented way to open a subscription to nothing
	{nil, []int{1}, true},       // -ip1
	{nil, []int{0}, false},      // -*
	{[]int{4}, nil, false},      // +ip3 (a pod on the ztunnel's own node: the generator subscribes it by itself)
}

var healthLetters = []letter{{Health: true}, {Health: true, Err: true}, {Health: true, Node: true}, {Health: true, Err: true, Node: true}}

func hasHealth(seq []letter) bool {
	for _, l := range seq {
		if l.Health {
			return true
		}
	}
	return false
}

func alphabetWorld(w *world, t string, nonces []string) []letter {
	out := []letter{{Push: true}}
	for _, k := range w.pushKinds {
		out = append(out, letter{Push: true, Kind: k})
	}
	if w.health {
		out = append(out, healthLetters...)
	}
	if managed[t] {
		for _, cb := range aCombos {
			for _, nonce := range nonces {
				out = append(out, letter{Type: t, Sub: cb.sub, Unsub: cb.unsub, Nonce: nonce})
				if cb.withErr {
					out = append(out, letter{Type: t, Sub: cb.sub, Unsub: cb.unsub, Nonce: nonce, Err: true})
				}
			}
		}
		return out
	}
	ns := []int{0}
	if !wildcard[t] {
		ns = []int{0, 1, 2, 3}
	}
	for _, n := range ns {
		for _, nonce := range nonces {
			for _, e := range []bool{false, true} {
				out = append(out, letter{Type: t, Names: n, Nonce: nonce, Err: e})
			}
		}
	}
	return out
}

var allNonces = []string{"empty", "current", "stale", "garbage"}

const healthType = "type.googleapis.com/istio.v1.HealthInformation"

// enumerateWorld lists every sequence of length <= fullLen over the full alphabet and, beyond that up to
// maxLen, over the alphabet without the garbage nonce (on the server side garbage and stale take the same
// branch; what differs is only what the client had received before).
func enumerateWorld(w *world, fullLen, maxLen int) []seqCase {
	var out []seqCase
	for _, proto := range w.protos {
		for _, warm := range append([]string{"bare"}, w.warmOrder...) {
			for _, t := range w.enumTypes {
				full := alphabetWorld(w, t, allNonces)
				reduced := alphabetWorld(w, t, allNonces[:3])
				var rec func(prefix []letter, alpha []letter, limit int)
				rec = func(prefix []letter, alpha []letter, limit int) {
					if len(prefix) > 0 {
						allPush := true
						for _, l := range prefix {
							if !l.Push {
								allPush = false
							}
						}
						// the health world repeats the legacy alphabet: only sequences with a probe are new
						if !allPush && (!w.health || hasHealth(prefix)) {
							out = append(out, seqCase{world: w.name, proto: proto, warm: warm, seq: append([]letter(nil), prefix...)})
						}
					}
					if len(prefix) == limit {
						return
					}
					for _, l := range alpha {
						rec(append(prefix, l), alpha, limit)
					}
				}
				rec(nil, full, fullLen)
				if maxLen == fullLen && warm != "bare" && !wildcard[t] && !managed[t] && !namedWildcard[t] && !w.health {
					// quick tier only (thorough enumerates all of length 3): the length-3 sequences that start with an
					// unsubscribe of the warmed type, i.e. every way of re-opening a type whose record the server has
					// deleted while the client still holds its nonce
					unsubscribe := letter{Type: t, Names: 0, Nonce: "current"}
					for _, l2 := range reduced {
						for _, l3 := range reduced {
							if l2.Push && l3.Push {
								continue
							}
							out = append(out, seqCase{world: w.name, proto: proto, warm: warm, seq: []letter{unsubscribe, l2, l3}})
						}
					}
				}
				// budget: length 3 is skipped for Address on a wildcard-warmed stream (nearly everything there is
				// unspecified), and in the health world it is restricted to sequences led by a probe (the case the
				// receive loops treat specially; probes further in are covered up to length 2 and by the PRNG stream)
				if maxLen > fullLen && !(managed[t] && warm == "warmed-wild") {
					// only the sequences longer than fullLen are new
					var rec2 func(prefix []letter)
					rec2 = func(prefix []letter) {
						if w.health && len(prefix) == 1 && !prefix[0].Health {
							return
						}
						if len(prefix) > fullLen {
							allPush := true
							for _, l := range prefix {
								if !l.Push {
									allPush = false
								}
							}
							if !allPush && (!w.health || hasHealth(prefix)) {
								out = append(out, seqCase{world: w.name, proto: proto, warm: warm, seq: append([]letter(nil), prefix...)})
							}
						}
						if len(prefix) == maxLen {
							return
						}
						for _, l := range reduced {
							rec2(append(prefix, l))
						}
					}
					rec2(nil)
				}
			}
		}
	}
	return out
}

func randomSeqWorld(r *rand.Rand, w *world) seqCase {
	sc := seqCase{world: w.name, proto: w.protos[r.Intn(len(w.protos))]}
	warms := append([]string{"bare"}, w.warmOrder...)
	sc.warm = warms[r.Intn(len(warms))]
	n := 4 + r.Intn(9)
	for i := 0; i < n; i++ {
		if r.Intn(7) == 0 {
			l := letter{Push: true}
			if k := r.Intn(len(w.pushKinds) + 1); k > 0 {
				l.Kind = w.pushKinds[k-1]
			}
			sc.seq = append(sc.seq, l)
			continue
		}
		if w.health && (r.Intn(6) == 0 || (i == 0 && r.Intn(3) == 0)) {
			sc.seq = append(sc.seq, healthLetters[r.Intn(len(healthLetters))])
			continue
		}
		t := w.randomMix[r.Intn(len(w.randomMix))]
		l := letter{Type: t, Err: r.Intn(6) == 0}
		switch {
		case managed[t]:
			if r.Intn(3) > 0 {
				cb := aCombos[r.Intn(len(aCombos))]
				l.Sub, l.Unsub = cb.sub, cb.unsub
			} else {
				// free combination over the universe
				for i := range aNames {
					switch r.Intn(5) {
					case 0:
						l.Sub = append(l.Sub, i)
					case 1:
						l.Unsub = append(l.Unsub, i)
					}
				}
			}
		case !wildcard[t]:
			l.Names = r.Intn(len(nameSets))
		}
		switch x := r.Intn(10); {
		case x < 4:
			l.Nonce = "current"
		case x < 7:
			l.Nonce = "empty"
		case x < 9:
			l.Nonce = "stale"
		default:
			l.Nonce = "garbage"
		}
		sc.seq = append(sc.seq, l)
	}
	return sc
}

// parseCase is the inverse of seqCase.String (replay and ad-hoc reproduction run a sequence directly
// instead of walking the enumeration).
func parseCase(s string) (seqCase, bool) {
	var sc seqCase
	parts := strings.SplitN(s, "/", 2)
	if len(parts) != 2 {
		return sc, false
	}
	if w, ok := worlds[parts[0]]; ok && w.name != "" {
		sc.world = w.name
		s = parts[1]
	}
	parts = strings.SplitN(s, "/", 3)
	if len(parts) != 3 || (parts[0] != "sotw" && parts[0] != "delta") {
		return sc, false
	}
	sc.proto = parts[0]
	if sc.world == "" {
		switch parts[1] {
		case "bare":
		case "warmed":
			sc.warmed = true
		default:
			return sc, false
		}
	} else {
		sc.warm = parts[1]
		if sc.warm != "bare" && worlds[sc.world].warm[sc.warm] == nil {
			return sc, false
		}
	}
	for _, ls := range strings.Split(parts[2], ",") {
		l, ok := parseLetter(ls)
		if !ok {
			return sc, false
		}
		sc.seq = append(sc.seq, l)
	}
	return sc, len(sc.seq) > 0
}

func parseLetter(s string) (letter, bool) {
	var l letter
	if s == "push" {
		return letter{Push: true}, true
	}
	if strings.HasPrefix(s, "push:") {
		return letter{Push: true, Kind: s[5:]}, true
	}
	for _, h := range healthLetters {
		if h.String() == s {
			return h, true
		}
	}
	f := strings.Split(s, "/")
	if len(f) < 2 || len(f) > 3 {
		return l, false
	}
	l.Nonce = f[1]
	if len(f) == 3 {
		if f[2] != "nack" {
			return l, false
		}
		l.Err = true
	}
	head := f[0]
	switch {
	case strings.Contains(head, "("):
		i := strings.Index(head, "(")
		l.Type = head[:i]
		body := strings.TrimSuffix(head[i+1:], ")")
		for len(body) > 0 {
			sign := body[0]
			body = body[1:]
			j := strings.IndexAny(body, "+-")
			if j < 0 {
				j = len(body)
			}
			idx := -1
			for k, n := range aShort {
				if n == body[:j] {
					idx = k
				}
			}
			if idx < 0 {
				return l, false
			}
			if sign == '+' {
				l.Sub = append(l.Sub, idx)
			} else {
				l.Unsub = append(l.Unsub, idx)
			}
			body = body[j:]
		}
	case strings.Contains(head, "["):
		i := strings.Index(head, "[")
		l.Type = head[:i]
		l.Names = -1
		for k, ns := range nameSets {
			if fmt.Sprint(ns) == head[i:] {
				l.Names = k
			}
		}
		if l.Names < 0 {
			return l, false
		}
	default:
		l.Type = head
	}
	if typeURLs[l.Type] == "" {
		return l, false
	}
	return l, true
}

// ---------------------------------------------------------------------------------------
// server holder (rebuilt after a recovered panic: locks may be left held)

type server struct {
	f    *vh.F
	srv  *xdsfake.FakeDiscoveryServer
	kind string
}

func newServer() *server { return newServerKind("legacy") }

// ---------------------------------------------------------------------------------------

func run(c *vh.Ctx) {
	quiet.Logs("error")
	var s *server
	taints := 0
	var conID int
	// serverFor hands out the server of the kind a world needs; servers of different kinds are never alive
	// at the same time (the ambient switch is a package variable, and the quiescence detector of the
	// concurrent stratum looks at every goroutine of the process).
	serverFor := func(kind string) *server {
		if s != nil && s.kind != kind {
			s.f.Done()
			s = nil
		}
		if s == nil {
			s = newServerKind(kind)
		}
		return s
	}
	exec := func(idx int, sc seqCase) {
		c.Case(sc.String(), func() {
			conID++
			tainted := runSequence(c, serverFor(worlds[sc.world].serverKind), sc, conID)
			if tainted {
				// do not run cleanups: a recovered panic may have left locks held
				s = nil
				taints++
			}
		})
	}
	tooMany := func() bool {
		if taints >= 25 {
			// every abandoned server leaks its goroutines; the panics are already reported
			c.Count("batches_cut_short_after_25_panics", 1)
			return true
		}
		return false
	}
	finish := func() {
		if s != nil {
			s.f.Done()
		}
	}
	// replay / ad-hoc reproduction of one sequence: run it directly
	if c.Only != "" {
		if sc, ok := parseCase(c.Only); ok && sc.String() == c.Only {
			exec(0, sc)
			finish()
			return
		}
	}
	only := strataFilter()
	maxLen := c.N(2, 3)
	if only[""] {
		cases := enumerate(maxLen)
		for i, sc := range cases {
			if c.Mine(i) && !tooMany() {
				exec(i, sc)
			}
		}
		c.Count("enumerated_sequences_total", 0)
		nr := c.N(300, 8000)
		for i := 0; i < nr; i++ {
			if c.Mine(i) && !tooMany() {
				exec(i, randomSeq(c.Rng("random", i)))
			}
		}
	}
	// extension strata, grouped by server kind: ext (ecds, sds, grpc, api), then the concurrent stratum on
	// ext, then amb and the concurrent stratum on amb
	for _, wn := range []string{"hp", "ecds", "sds", "grpc", "api", "conc-ext", "amb", "conc-amb"} {
		if !only[wn] {
			continue
		}
		if strings.HasPrefix(wn, "conc-") {
			nc := c.N(concQuick[wn], concThorough[wn])
			for i := 0; i < nc; i++ {
				if c.Mine(i) && !tooMany() {
					cc := genConc(c.Rng(wn, i), wn, i)
					c.Case(cc.name(), func() {
						conID++
						if runConcurrent(c, serverFor(cc.w.serverKind), cc, conID) {
							s = nil
							taints++
						}
					})
				}
			}
			continue
		}
		w := worlds[wn]
		cases := enumerateWorld(w, 2, maxLen)
		for i, sc := range cases {
			if c.Mine(i) && !tooMany() {
				exec(i, sc)
			}
		}
		nr := c.N(150, 2500)
		for i := 0; i < nr; i++ {
			if c.Mine(i) && !tooMany() {
				exec(i, randomSeqWorld(c.Rng(w.randStream, i), w))
			}
		}
	}
	finish()
}

// strataFilter: development aid (XDSPROTO_ONLY=legacy,ecds,...); unset = everything.
func strataFilter() map[string]bool {
	all := []string{"", "hp", "ecds", "sds", "grpc", "api", "conc-ext", "amb", "conc-amb"}
	out := map[string]bool{}
	v := os.Getenv("XDSPROTO_ONLY")
	if v == "" {
		for _, a := range all {
			out[a] = true
		}
		return out
	}
	for _, f := range strings.Split(v, ",") {
		if f == "legacy" {
			f = ""
		}
		out[f] = true
	}
	return out
}

// ---------------------------------------------------------------------------------------
// per-stream client + protocol model

type typeState struct {
	// client side knowledge
	nonces []string // nonces received for this type on this stream, in order
	// model of what the server must have on record
	hasRecord bool
	names     map[string]bool // SotW: last names; delta: cumulative subscription
	forceNext bool            // documented EDS-after-CDS forced response pending
	// unknown: a non-conformant message whose effect on the subscription the property does not fix
	// (an unsubscribe or subscription change carried by a stale/garbage-nonce request or by a NACK) has been
	// sent; until the type is re-opened with an empty nonce, nothing is asserted about it.
	unknown bool
	// managed types: "wild" | "od" (on-demand, explicit names) once opened
	mode string
	// reopenedSilent: the last request that made the server create its record anew (first request of the type after
	// an unsubscribe, or a SotW request with an empty nonce) was not answered although the client holds a nonce of
	// an earlier response of this type on the stream; cleared by the next response. Only used to give violations
	// that follow such a state a key of their own (root cause recognisable from the input shape).
	reopenedSilent bool
	// noRespSinceOpen: the server has (re)created its record for the type (first request, or a SotW request with an
	// empty nonce) and has not sent a response of the type since. There is then no current nonce for the watch, and
	// "stale" (a nonce superseded by a newer one) is not defined either: on SotW, where the server takes the nonce a
	// client presents when it (re)opens a watch as the stream's last one, a request with a nonce other than the
	// client's latest is unspecified in this state instead of must-be-silent.
	noRespSinceOpen bool
	// openedNonceless: a SotW client that holds a nonce of the type (re)opened it with an EMPTY nonce - declaring that
	// it holds none - and the server sent nothing in reply. A later request presenting the nonce from before that
	// (re)open contradicts the client's own declaration: it is neither "current" nor "stale" in the property's sense,
	// so it is unspecified (and makes the type unknown if it carries a subscription change). Cleared by the next
	// response of the type. A conformant client re-opens with the nonce it holds; that path stays must-respond.
	openedNonceless bool
}

func (st *typeState) causeSuffix() string {
	if st.reopenedSilent {
		return ":after-unanswered-reopen"
	}
	return ""
}

type client struct {
	c       *vh.Ctx
	w       *world
	proto   string
	sotw    *xdsshim.SotwStream
	delta   *xdsshim.DeltaStream
	mu      sync.Mutex
	resp    []respRec // every response in arrival order
	barrier chan string
	seq     int
	ts      map[string]*typeState
	// authenticated streams are served by the client itself (the shim's Serve would pass the plaintext peer)
	ownDone  chan struct{}
	ownErr   error
	ownPanic string
	// concurrent stratum: called on the server's stream goroutine for every non-barrier response
	onResp func(respRec)
}

type respRec struct {
	TypeURL string
	Nonce   string
	Names   []string
	Removed []string
	Aliases []string
}

func shortOf(url string) string {
	for k, v := range typeURLs {
		if v == url {
			return k
		}
	}
	return url
}

// short maps a type URL to the short name it has in the client's world (several short names may share one
// URL across worlds, never inside one).
func (cl *client) short(url string) string {
	for _, t := range cl.w.types {
		if typeURLs[t] == url {
			return t
		}
	}
	return url
}

func newClient(c *vh.Ctx, s *server, w *world, proto string, conID int) *client {
	cl := &client{c: c, w: w, proto: proto, barrier: make(chan string, 16), ts: map[string]*typeState{}}
	for _, t := range w.types {
		cl.ts[t] = &typeState{names: map[string]bool{}}
	}
	var parent context.Context
	if w.cred != nil {
		parent = context.WithValue(context.Background(), credKey{}, w.cred)
	}
	ip := fmt.Sprintf("10.200.%d.%d", conID/250%250, conID%250+1)
	own := func(serve func() error, cancel func()) {
		cl.ownDone = make(chan struct{})
		go func() {
			defer close(cl.ownDone)
			defer cancel() // gRPC cancels the stream context when the handler returns
			defer func() {
				if r := recover(); r != nil {
					cl.ownPanic = fmt.Sprintf("%v\n%s", r, debug.Stack())
				}
			}()
			cl.ownErr = serve()
		}()
	}
	if proto == "sotw" {
		cl.sotw = xdsshim.NewSotw(parent, func(r *discovery.DiscoveryResponse) error {
			if r.TypeUrl == xdsshim.BarrierType {
				cl.barrier <- r.Nonce
				return nil
			}
			rr := respRec{TypeURL: r.TypeUrl, Nonce: r.Nonce}
			rr.Names = resourceNames(r)
			cl.mu.Lock()
			cl.resp = append(cl.resp, rr)
			cl.mu.Unlock()
			if cl.onResp != nil {
				cl.onResp(rr)
			}
			return nil
		})
		if w.cred != nil {
			wr := sotwWrap{cl.sotw, tlsContext(cl.sotw.Context(), ip)}
			own(func() error { return s.srv.Discovery.Stream(wr) }, cl.sotw.Cancel)
		} else {
			cl.sotw.Serve(s.srv.Discovery)
		}
	} else {
		cl.delta = xdsshim.NewDelta(parent, func(r *discovery.DeltaDiscoveryResponse) error {
			if r.TypeUrl == xdsshim.BarrierType {
				cl.barrier <- r.Nonce
				return nil
			}
			rr := respRec{TypeURL: r.TypeUrl, Nonce: r.Nonce, Removed: r.RemovedResources}
			for _, rs := range r.Resources {
				rr.Names = append(rr.Names, rs.Name)
				rr.Aliases = append(rr.Aliases, rs.Aliases...)
			}
			cl.mu.Lock()
			cl.resp = append(cl.resp, rr)
			cl.mu.Unlock()
			if cl.onResp != nil {
				cl.onResp(rr)
			}
			return nil
		})
		if w.cred != nil {
			wr := deltaWrap{cl.delta, tlsContext(cl.delta.Context(), ip)}
			own(func() error { return s.srv.Discovery.StreamDeltas(wr) }, cl.delta.Cancel)
		} else {
			cl.delta.Serve(s.srv.Discovery)
		}
	}
	return cl
}

func (cl *client) done() <-chan struct{} {
	if cl.ownDone != nil {
		return cl.ownDone
	}
	if cl.sotw != nil {
		return cl.sotw.Done()
	}
	return cl.delta.Done()
}

func (cl *client) panicked() string {
	select {
	case <-cl.done():
	default:
		return ""
	}
	if cl.ownDone != nil {
		return cl.ownPanic
	}
	if cl.sotw != nil {
		return cl.sotw.Panicked()
	}
	return cl.delta.Panicked()
}

// doBarrier sends a barrier request and waits for its echo. Returns "" on success, "panic" if
// the server handler panicked, "lost" on watchdog.
func (cl *client) doBarrier() string {
	cl.seq++
	name := fmt.Sprintf("b-%d", cl.seq)
	ok := false
	if cl.proto == "sotw" {
		ok = cl.sotw.Request(&discovery.DiscoveryRequest{TypeUrl: xdsshim.BarrierType, ResourceNames: []string{name}})
	} else {
		req := &discovery.DeltaDiscoveryRequest{TypeUrl: xdsshim.BarrierType, ResourceNamesSubscribe: []string{name}}
		if cl.seq > 1 {
			req.ResourceNamesUnsubscribe = []string{fmt.Sprintf("b-%d", cl.seq-1)}
		}
		ok = cl.delta.Request(req)
	}
	if !ok {
		// the request could not be handed over: the stream ended; wait for the handler to return
		select {
		case <-cl.done():
		case <-time.After(30 * time.Second):
		}
		if cl.panicked() != "" {
			return "panic"
		}
		return "closed"
	}
	deadline := time.Now().Add(60 * time.Second)
	wait := 100 * time.Millisecond
	for {
		select {
		case <-cl.barrier:
			return ""
		case <-cl.done():
			if cl.panicked() != "" {
				return "panic"
			}
			return "closed"
		case <-time.After(wait):
		}
		// No echo yet. If the whole process is at rest (every goroutine parked where only another goroutine can wake
		// it, no timer waits: two consecutive stop-the-world snapshots of internal/idle) the echo can never come: the
		// server is not processing this stream's requests. That is a decided fact, not a timeout.
		if processAtRest() {
			select {
			case <-cl.barrier:
				return ""
			default:
			}
			select {
			case <-cl.done():
				continue
			default:
			}
			return "stuck"
		}
		if time.Now().After(deadline) {
			return "lost"
		}
		if wait < 500*time.Millisecond {
			wait *= 2
		}
	}
}

var idleBuf = make([]byte, 1<<20)

// processAtRest: two idle snapshots in a row (the caller is excluded by the snapshot itself).
func processAtRest() bool {
	for i := 0; i < 2; i++ {
		if ok, _, _ := idle.Snapshot(&idleBuf); !ok {
			return false
		}
		runtime.Gosched()
	}
	return true
}

func resourceNames(r *discovery.DiscoveryResponse) []string {
	var out []string
	for _, a := range r.Resources {
		out = append(out, xdsshim.ResourceName(a))
	}
	return out
}

func (cl *client) responsesSince(i int) []respRec {
	cl.mu.Lock()
	defer cl.mu.Unlock()
	return append([]respRec(nil), cl.resp[i:]...)
}

func (cl *client) respLen() int {
	cl.mu.Lock()
	defer cl.mu.Unlock()
	return len(cl.resp)
}

func (cl *client) close() {
	if cl.sotw != nil {
		cl.sotw.Cancel()
	} else {
		cl.delta.Cancel()
	}
}

type expectation int

const (
	unspecified expectation = iota
	mustRespond
	mustBeSilent
)

func (e expectation) String() string {
	return [...]string{"unspecified", "must-respond", "must-be-silent"}[e]
}

func namesOf(t string, idx int) []string {
	var out []string
	for _, i := range nameSets[idx] {
		out = append(out, names[t][i])
	}
	return out
}

func anyExisting(t string, ns []string) bool {
	for _, n := range ns {
		if n != names[t][3] {
			return true
		}
	}
	return false
}

func worldLabel(w *world) string {
	if w.name == "" {
		return "legacy"
	}
	return w.name
}

// resolveNonce turns a nonce kind into the nonce sent and the kind it effectively is given what this stream
// has received for the type.
func resolveNonce(st *typeState, nonceKind string) (nonce, effKind string) {
	effKind = nonceKind
	switch nonceKind {
	case "current":
		if len(st.nonces) > 0 {
			nonce = st.nonces[len(st.nonces)-1]
		} else {
			effKind = "empty"
		}
	case "stale":
		if len(st.nonces) > 1 {
			nonce = st.nonces[len(st.nonces)-2]
			if nonce == st.nonces[len(st.nonces)-1] {
				nonce = "stale-" + nonce
			}
		} else {
			nonce = "never-sent-nonce"
			effKind = "garbage"
		}
	case "garbage":
		nonce = "garbage-nonce"
	}
	return nonce, effKind
}

// runSequence returns true when the server must be abandoned (panic observed).
func runSequence(c *vh.Ctx, s *server, sc seqCase, conID int) (abandon bool) {
	w := worlds[sc.world]
	wl := worldLabel(w)
	ds := s.srv.Discovery
	if !xdsshim.WaitControlPlaneIdle(ds, 60*time.Second) {
		c.Inconclusive("control plane did not become idle before the sequence")
		return false
	}
	cl := newClient(c, s, w, sc.proto, conID)
	var checkPanic func(where string) bool
	// every sequence ends with the client going away: the handler must return, without a panic (requests still
	// buffered in the server are processed on the way out)
	defer func() {
		cl.close()
		select {
		case <-cl.done():
		case <-time.After(30 * time.Second):
			c.Inconclusive("stream handler did not return after the client went away")
			return
		}
		if checkPanic != nil && checkPanic("the client went away") {
			abandon = true
		}
	}()
	nd := w.node(conID)
	first := true   // node must be set on the first request of the stream
	probeMark := -1 // responses seen when a health probe led the stream (nothing real sent yet), -1 = none pending
	conformant := true
	lastWasNack := map[string]bool{}
	sawRespond, sawSilent := false, false
	totalSteps := 0

	send := func(t string, ns []string, nonce string, nack bool) bool {
		url := typeURLs[t]
		var ed *status.Status
		if nack {
			ed = &status.Status{Code: 3, Message: "rejected by hostile client"}
		}
		if sc.proto == "sotw" {
			r := &discovery.DiscoveryRequest{TypeUrl: url, ResourceNames: ns, ResponseNonce: nonce, ErrorDetail: ed}
			if nonce != "" {
				r.VersionInfo = "v"
			}
			if first {
				r.Node = nd
				first = false
			}
			return cl.sotw.Request(r)
		}
		// delta: translate "the client's names become ns" into subscribe/unsubscribe diffs
		st := cl.ts[t]
		r := &discovery.DeltaDiscoveryRequest{TypeUrl: url, ResponseNonce: nonce, ErrorDetail: ed}
		want := map[string]bool{}
		for _, n := range ns {
			want[n] = true
		}
		for _, n := range ns {
			if !st.names[n] {
				r.ResourceNamesSubscribe = append(r.ResourceNamesSubscribe, n)
			}
		}
		var cur []string
		for n := range st.names {
			cur = append(cur, n)
		}
		sort.Strings(cur)
		for _, n := range cur {
			if !want[n] {
				r.ResourceNamesUnsubscribe = append(r.ResourceNamesUnsubscribe, n)
			}
		}
		if wildcard[t] && !st.hasRecord {
			r.ResourceNamesSubscribe = nil // wildcard by subscribing to nothing
		}
		if first {
			r.Node = nd
			first = false
		}
		return cl.delta.Request(r)
	}
	// sendManaged: a delta request with explicit subscribe / unsubscribe lists
	sendManaged := func(t string, sub, unsub []string, nonce string, nack bool) bool {
		r := &discovery.DeltaDiscoveryRequest{TypeUrl: typeURLs[t], ResponseNonce: nonce, ResourceNamesSubscribe: sub, ResourceNamesUnsubscribe: unsub}
		if nack {
			r.ErrorDetail = &status.Status{Code: 3, Message: "rejected by hostile client"}
		}
		if first {
			r.Node = nd
			first = false
		}
		return cl.delta.Request(r)
	}

	panicReported := false
	checkPanic = func(where string) bool {
		if p := cl.panicked(); p != "" {
			if !panicReported {
				panicReported = true
				top := vh.TopIstioFrame(p)
				c.Violation("panic:"+top, fmt.Sprintf("server stream handler panicked (%s) after %s: %s", sc.proto, where, firstLine(p)),
					map[string]any{"sequence": sc.String(), "stack": firstN(p, 30)})
			}
			return true
		}
		return false
	}

	// exchange hands one request to the server and decides through the barrier what it answered.
	exchange := func(where string, sendFn func() bool) (got []respRec, ok bool, tainted bool) {
		before := cl.respLen()
		if !sendFn() {
			if checkPanic(where) {
				return nil, false, true
			}
			c.Inconclusive("stream closed by server: " + errString(cl))
			return nil, false, false
		}
		switch cl.doBarrier() {
		case "":
		case "panic":
			checkPanic(where)
			return nil, false, true
		case "closed":
			if checkPanic("request") {
				return nil, false, true
			}
			c.Inconclusive("stream closed by server: " + errString(cl))
			return nil, false, false
		case "stuck":
			c.Violation("request-never-processed:"+sc.proto, fmt.Sprintf("the server does not process the requests of the stream any more (whole process at rest, barrier not echoed) after %s in %s", where, sc.String()),
				map[string]any{"sequence": sc.String()})
			return nil, false, false
		default:
			c.Inconclusive("barrier lost")
			return nil, false, false
		}
		if probeMark >= 0 {
			// responses that arrived after a probe that led the stream and before this request was sent
			if before > probeMark {
				c.Violation("response-to-health-probe:"+sc.proto, fmt.Sprintf("%d discovery responses after a health probe at the head of the stream in %s", before-probeMark, sc.String()), map[string]any{"sequence": sc.String()})
			}
			probeMark = -1
		}
		return cl.responsesSince(before), true, false
	}

	// step executes one request and decides respond/silent through the barrier.
	step := func(t string, ns []string, nonceKind string, nack bool, hostile bool) (ok bool, tainted bool) {
		st := cl.ts[t]
		totalSteps++
		nonce, effKind := resolveNonce(st, nonceKind)
		// classify by the protocol model
		exp := unspecified
		addedExisting := false
		var added []string
		for _, n := range ns {
			if !st.names[n] {
				added = append(added, n)
				if !wildcard[t] && n != names[t][3] {
					addedExisting = true
				}
			}
		}
		removedAny := false
		nsSet := map[string]bool{}
		for _, n := range ns {
			nsSet[n] = true
		}
		for n := range st.names {
			if !nsSet[n] {
				removedAny = true
			}
		}
		isFirst := !st.hasRecord
		unsub := !wildcard[t] && !namedWildcard[t] && len(ns) == 0
		wasUnknown := st.unknown
		switch {
		case st.unknown && !nack:
			exp = unspecified
		case nack:
			exp = mustBeSilent
		case sc.proto == "sotw" && unsub:
			exp = unspecified // unsubscribe: the property does not fix the reaction
		case isFirst:
			if wildcard[t] || anyExisting(t, ns) {
				exp = mustRespond
			}
			if sc.proto == "delta" && unsub {
				exp = unspecified // a delta first request without names on a non-wildcard type is a wildcard subscription: unspecified here
			}
		case effKind == "stale" || effKind == "garbage":
			exp = mustBeSilent
			if sc.proto == "sotw" && st.noRespSinceOpen {
				exp = unspecified
			}
		case effKind == "empty":
			// SotW: empty nonce on a type that already has a record is outside the property's cases.
			// delta: a spontaneous request; responds iff it adds names.
			if sc.proto == "delta" && addedExisting {
				exp = mustRespond
			}
		case effKind == "current":
			switch {
			case st.openedNonceless:
				exp = unspecified // the client itself declared it holds no nonce when it (re)opened the type
			case st.forceNext && len(added) == 0 && (sc.proto == "sotw" || !removedAny):
				exp = unspecified // documented forced response to let clusters finish warming
			case len(added) == 0 && !removedAny:
				exp = mustBeSilent // plain ACK
			case addedExisting && sc.proto == "sotw":
				exp = mustRespond
			default:
				exp = unspecified // removal only / adding a name that does not exist / delta ACK that changes the subscription
			}
		}
		// conformance bookkeeping (closed loop: a conformant client never presents a stale nonce,
		// never NACKs without having received a response, and uses an empty nonce only to open a type)
		if effKind == "stale" || effKind == "garbage" || (nack && len(st.nonces) == 0) || (effKind == "empty" && !isFirst && sc.proto == "sotw") {
			conformant = false
		}
		if sc.proto == "delta" && effKind == "current" && (len(added) > 0 || removedAny) {
			conformant = false // delta subscription changes travel in spontaneous requests
		}
		if sc.proto == "delta" && effKind == "empty" && !isFirst && len(added) == 0 && !removedAny {
			conformant = false
		}
		where := fmt.Sprintf("%s names=%v nonce=%s nack=%v", t, ns, effKind, nack)
		got, ok, tainted := exchange(where, func() bool { return send(t, ns, nonce, nack) })
		if !ok {
			return false, tainted
		}
		nT := 0
		var gotNames []string
		for _, r := range got {
			if r.TypeURL == typeURLs[t] {
				nT++
				gotNames = append(gotNames, r.Names...)
			}
			ts := cl.ts[cl.short(r.TypeURL)]
			if ts != nil {
				ts.nonces = append(ts.nonces, r.Nonce)
				ts.reopenedSilent, ts.noRespSinceOpen, ts.openedNonceless = false, false, false
			}
		}
		c.Count("stimuli", 1)
		c.Count("stimuli_"+exp.String(), 1)
		c.Count("stim:"+wl+":"+t+":"+exp.String(), 1)
		if trace {
			fmt.Fprintf(os.Stderr, "TRACE %s names=%v nonce=%s(%s) nack=%v first=%v => expect %s, got %s\n", t, shortNames(ns), nonceKind, effKind, nack, isFirst, exp, traceResp(cl, got))
		}
		c.SetAdd("stimulus_classes", fmt.Sprintf("%s/%s/first=%v/nonce=%s/nack=%v/added=%v/removed=%v => %s", sc.proto, t, isFirst, effKind, nack, len(added) > 0, removedAny, exp))
		what := fmt.Sprintf("%s %s names=%v nonce=%s(%s) nack=%v [first=%v added=%v] in %s", sc.proto, t, shortNames(ns), nonceKind, effKind, nack, isFirst, shortNames(added), sc.String())
		switch exp {
		case mustRespond:
			sawRespond = true
			if nT == 0 {
				c.Violation(fmt.Sprintf("silent-on-must-respond:%s:%s:first=%v:nonce=%s", sc.proto, t, isFirst, effKind)+st.causeSuffix(),
					"server stayed silent on a stimulus that requires a response: "+what, map[string]any{"sequence": sc.String()})
			} else if !wildcard[t] {
				// the response must carry the newly requested existing resources
				have := map[string]bool{}
				for _, n := range gotNames {
					have[n] = true
				}
				for _, n := range added {
					if n != names[t][3] && !have[n] {
						c.Violation(fmt.Sprintf("response-misses-new-name:%s:%s", sc.proto, t),
							fmt.Sprintf("response does not contain newly requested resource %s: got %v; %s", n, shortNames(gotNames), what), map[string]any{"sequence": sc.String()})
					}
				}
			}
		case mustBeSilent:
			sawSilent = true
			if nT > 0 {
				c.Violation(fmt.Sprintf("response-on-must-be-silent:%s:%s:nonce=%s:nack=%v", sc.proto, t, effKind, nack),
					fmt.Sprintf("server answered (%d responses) a stimulus on which it must stay silent: %s", nT, what), map[string]any{"sequence": sc.String()})
			}
		}
		if nT > 1 {
			c.Violation(fmt.Sprintf("multiple-responses:%s:%s", sc.proto, t), fmt.Sprintf("%d responses of one type to one request: %s", nT, what), map[string]any{"sequence": sc.String()})
		}
		// advance the model of the server's record
		_ = wasUnknown
		if nT == 0 && !nack && !unsub && (isFirst || (sc.proto == "sotw" && effKind == "empty")) && len(st.nonces) > 0 {
			st.reopenedSilent = true
		}
		if nT == 0 && !nack && !unsub && (isFirst || wasUnknown || (sc.proto == "sotw" && effKind == "empty")) {
			st.noRespSinceOpen = true
		}
		if !wildcard[t] && (nack || effKind == "stale" || effKind == "garbage" || (effKind == "current" && st.openedNonceless)) && (len(added) > 0 || removedAny || isFirst) {
			st.unknown = true
		}
		if nT == 0 && !nack && !unsub && sc.proto == "sotw" && effKind == "empty" && len(st.nonces) > 0 {
			st.openedNonceless = true
			conformant = false // a conformant client re-opens a type with the nonce it holds for it
		}
		if st.unknown && !nack {
			// a request for a type whose record is not known may have created it anew: for the CDS-like type of the
			// world that arms the documented forced EDS response (never the case for the legacy CDS, which is wildcard
			// and therefore never unknown)
			if e := cl.ts[w.edsOf(t)]; e != nil && e.hasRecord {
				e.forceNext = true
			}
		}
		if nack {
			lastWasNack[t] = true
			return true, false
		}
		if st.unknown && sc.proto == "sotw" && effKind == "empty" && !unsub {
			st.unknown = false // INIT: the record is the request's names whatever it was before
			isFirst = true
		}
		if st.unknown {
			return true, false
		}
		lastWasNack[t] = false
		accepted := false // did the request update the subscription per protocol?
		switch {
		case isFirst, effKind == "empty", effKind == "current":
			accepted = true
		}
		if accepted {
			eds := cl.ts[w.edsOf(t)]
			if sc.proto == "sotw" {
				if unsub {
					st.hasRecord = false
					st.names = map[string]bool{}
					st.forceNext = false
				} else {
					if isFirst || effKind == "empty" {
						st.forceNext = false
						if eds != nil && eds.hasRecord {
							eds.forceNext = true
						}
					} else if effKind == "current" {
						st.forceNext = false
					}
					st.hasRecord = true
					st.names = nsSet
				}
			} else {
				if isFirst && eds != nil && eds.hasRecord {
					eds.forceNext = true
				}
				if !isFirst && len(added) == 0 && !removedAny {
					st.forceNext = false
				}
				st.hasRecord = true
				st.names = nsSet
			}
		}
		return true, false
	}

	// stepManaged: one Address request with explicit subscribe / unsubscribe lists (delta only).
	stepManaged := func(t string, subIdx, unsubIdx []int, nonceKind string, nack bool) (ok bool, tainted bool) {
		st := cl.ts[t]
		totalSteps++
		nonce, effKind := resolveNonce(st, nonceKind)
		var sub, unsub []string
		subStar, unsubStar := false, false
		var added []string // names (other than *) the request adds to what the client holds
		addedExisting := false
		for _, i := range subIdx {
			sub = append(sub, aNames[i])
			if i == 0 {
				subStar = true
				continue
			}
			if !st.names[aNames[i]] {
				added = append(added, aNames[i])
				if aExists(i) {
					addedExisting = true
				}
			}
		}
		removedAny, removesUnheld := false, false
		for _, i := range unsubIdx {
			unsub = append(unsub, aNames[i])
			if i == 0 {
				unsubStar = true
				continue
			}
			if st.names[aNames[i]] {
				removedAny = true
			} else {
				removesUnheld = true
			}
		}
		anyNames := len(subIdx)+len(unsubIdx) > 0
		isFirst := !st.hasRecord
		wildOpen := len(unsubIdx) == 0 && (len(subIdx) == 0 || (len(subIdx) == 1 && subStar))
		nothingOpen := len(subIdx) == 1 && subStar && len(unsubIdx) == 1 && unsubStar // +* -*: subscribe to nothing (documented in delta.go)
		namedOpen := len(unsubIdx) == 0 && !subStar && len(subIdx) > 0
		exp := unspecified
		switch {
		case st.unknown && !nack:
		case nack:
			exp = mustBeSilent
		case isFirst:
			// first request of the type on this stream, whatever the nonce (reconnect)
			if wildOpen || (namedOpen && addedExisting) {
				exp = mustRespond
			}
		case effKind == "stale" || effKind == "garbage":
			exp = mustBeSilent
		case effKind == "empty":
			// spontaneous request: the property fixes only "adds names to the subscription on record". Names
			// on a wildcard subscription, mode switches (*), re-subscriptions and pure removals are not fixed.
			if st.mode == "od" && !subStar && !unsubStar && addedExisting {
				exp = mustRespond
			}
		case effKind == "current":
			if !anyNames {
				exp = mustBeSilent // plain ACK
			}
		}
		if effKind == "stale" || effKind == "garbage" || (nack && len(st.nonces) == 0) {
			conformant = false
		}
		if effKind == "current" && anyNames {
			conformant = false // delta subscription changes travel in spontaneous requests
		}
		if effKind == "empty" && !isFirst && !anyNames {
			conformant = false
		}
		if removesUnheld || (isFirst && len(unsubIdx) > 0 && !nothingOpen) || (subStar && unsubStar && !nothingOpen) {
			conformant = false
		}
		where := fmt.Sprintf("%s sub=%v unsub=%v nonce=%s nack=%v", t, sub, unsub, effKind, nack)
		got, ok, tainted := exchange(where, func() bool { return sendManaged(t, sub, unsub, nonce, nack) })
		if !ok {
			return false, tainted
		}
		nT := 0
		carried := map[string]bool{}
		for _, r := range got {
			if r.TypeURL == typeURLs[t] {
				nT++
				for _, n := range r.Names {
					carried[n] = true
				}
				for _, n := range r.Aliases {
					carried[n] = true
				}
			}
			if ts := cl.ts[cl.short(r.TypeURL)]; ts != nil {
				ts.nonces = append(ts.nonces, r.Nonce)
				ts.reopenedSilent, ts.noRespSinceOpen, ts.openedNonceless = false, false, false
			}
		}
		c.Count("stimuli", 1)
		c.Count("stimuli_"+exp.String(), 1)
		c.Count("stim:"+wl+":"+t+":"+exp.String(), 1)
		if trace {
			fmt.Fprintf(os.Stderr, "TRACE %s sub=%v unsub=%v nonce=%s(%s) nack=%v first=%v mode=%q => expect %s, got %s\n", t, sub, unsub, nonceKind, effKind, nack, isFirst, st.mode, exp, traceResp(cl, got))
		}
		c.SetAdd("stimulus_classes", fmt.Sprintf("%s/%s/first=%v/mode=%s/nonce=%s/nack=%v/sub*=%v/unsub*=%v/added=%v/removed=%v => %s",
			sc.proto, t, isFirst, st.mode, effKind, nack, subStar, unsubStar, len(added) > 0, removedAny, exp))
		what := fmt.Sprintf("%s %s sub=%v unsub=%v nonce=%s(%s) nack=%v [first=%v mode=%q added=%v] in %s", sc.proto, t, sub, unsub, nonceKind, effKind, nack, isFirst, st.mode, added, sc.String())
		switch exp {
		case mustRespond:
			sawRespond = true
			if nT == 0 {
				c.Violation(fmt.Sprintf("silent-on-must-respond:%s:%s:first=%v:nonce=%s", sc.proto, t, isFirst, effKind),
					"server stayed silent on a stimulus that requires a response: "+what, map[string]any{"sequence": sc.String()})
			} else if !wildOpen {
				// the response must carry the newly requested existing resources (by name or alias)
				for _, i := range subIdx {
					n := aNames[i]
					if i != 0 && aExists(i) && !st.names[n] && !carried[n] {
						c.Violation(fmt.Sprintf("response-misses-new-name:%s:%s", sc.proto, t),
							fmt.Sprintf("response carries no resource named or aliased %s; %s", n, what), map[string]any{"sequence": sc.String()})
					}
				}
			}
		case mustBeSilent:
			sawSilent = true
			if nT > 0 {
				c.Violation(fmt.Sprintf("response-on-must-be-silent:%s:%s:nonce=%s:nack=%v", sc.proto, t, effKind, nack),
					fmt.Sprintf("server answered (%d responses) a stimulus on which it must stay silent: %s", nT, what), map[string]any{"sequence": sc.String()})
			}
		}
		if nT > 1 {
			c.Violation(fmt.Sprintf("multiple-responses:%s:%s", sc.proto, t), fmt.Sprintf("%d responses of one type to one request: %s", nT, what), map[string]any{"sequence": sc.String()})
		}
		// advance the model
		if (nack || effKind == "stale" || effKind == "garbage") && (anyNames || isFirst) {
			st.unknown = true
		}
		if nack {
			lastWasNack[t] = true
			return true, false
		}
		if st.unknown {
			return true, false
		}
		lastWasNack[t] = false
		apply := func() {
			for _, i := range subIdx {
				if i != 0 {
					st.names[aNames[i]] = true
				}
			}
			for _, i := range unsubIdx {
				if i != 0 {
					delete(st.names, aNames[i])
				}
			}
		}
		switch {
		case isFirst:
			st.hasRecord = true
			switch {
			case wildOpen:
				st.mode = "wild"
			case nothingOpen:
				st.mode = "od"
			case namedOpen:
				st.mode = "od"
				apply()
			default:
				st.unknown = true // an opening request that mixes * with names or carries unsubscribes
			}
		case subStar || unsubStar:
			st.unknown = true // switching between wildcard and named mode after the opening request
		case st.mode == "od":
			apply()
		}
		return true, false
	}

	// optional conformant warm-up, each step ACKed (legacy: CDS, EDS{n1,n2}, LDS, RDS{n1,n2})
	var warm []warmStep
	if sc.world == "" {
		if sc.warmed {
			warm = []warmStep{{t: "CDS"}, {t: "EDS", ns: namesOf("EDS", 2)}, {t: "LDS"}, {t: "RDS", ns: namesOf("RDS", 2)}}
		}
	} else if sc.warm != "bare" {
		warm = w.warm[sc.warm]
	}
	for _, ws := range warm {
		if managed[ws.t] {
			if ok, tainted := stepManaged(ws.t, ws.sub, nil, "empty", false); !ok {
				return tainted
			}
			if ok, tainted := stepManaged(ws.t, nil, nil, "current", false); !ok {
				return tainted
			}
			continue
		}
		if ok, tainted := step(ws.t, ws.ns, "empty", false, false); !ok {
			return tainted
		}
		if ok, tainted := step(ws.t, ws.ns, "current", false, false); !ok {
			return tainted
		}
	}
	for _, l := range sc.seq {
		if l.Push {
			before := cl.respLen()
			doPush(ds, l.Kind)
			if !xdsshim.WaitControlPlaneIdle(ds, 60*time.Second) {
				c.Inconclusive("push did not quiesce")
				return false
			}
			if first {
				continue // nothing has been sent on this stream yet: there is no connection to push to
			}
			if b := cl.doBarrier(); b != "" {
				if b == "panic" {
					checkPanic("push")
					return true
				}
				c.Inconclusive("barrier after push: " + b)
				return false
			}
			per := map[string]int{}
			if trace {
				fmt.Fprintf(os.Stderr, "TRACE push:%s => got %s\n", pushLabel(l.Kind), traceResp(cl, cl.responsesSince(before)))
			}
			for _, r := range cl.responsesSince(before) {
				t := cl.short(r.TypeURL)
				per[t]++
				if ts := cl.ts[t]; ts != nil {
					ts.nonces = append(ts.nonces, r.Nonce)
					ts.reopenedSilent, ts.noRespSinceOpen, ts.openedNonceless = false, false, false
				}
			}
			c.Count("pushes", 1)
			if sc.world != "" {
				c.Count("pushes:"+wl+":"+pushLabel(l.Kind), 1)
				for t, n := range per {
					c.Count("push_responses:"+wl+":"+pushLabel(l.Kind)+":"+t, n)
				}
			}
			for t, n := range per {
				if n > 2 {
					c.Violation("push-response-burst:"+sc.proto+":"+t, fmt.Sprintf("%d responses of type %s to one push in %s", n, t, sc.String()), nil)
				}
			}
			continue
		}
		if l.Health {
			// a health probe is never answered with a discovery response and changes no subscription: the model is
			// not touched, every other stimulus keeps its classification
			var ed *status.Status
			if l.Err {
				ed = &status.Status{Code: 13, Message: "application is not healthy"}
			}
			sendProbe := func() bool {
				if sc.proto == "sotw" {
					r := &discovery.DiscoveryRequest{TypeUrl: healthType, ErrorDetail: ed}
					if l.Node {
						r.Node = nd
					}
					return cl.sotw.Request(r)
				}
				r := &discovery.DeltaDiscoveryRequest{TypeUrl: healthType, ErrorDetail: ed}
				if l.Node {
					r.Node = nd
				}
				return cl.delta.Request(r)
			}
			c.Count("health_probes", 1)
			if first {
				// nothing real has been sent: the probe is skipped by the server, there is nothing to wait for yet
				c.Count("health_probes_leading_the_stream", 1)
				if probeMark < 0 {
					probeMark = cl.respLen()
				}
				if !sendProbe() {
					if checkPanic("health probe") {
						return true
					}
					c.Inconclusive("stream closed by server: " + errString(cl))
					return false
				}
				continue
			}
			got, ok, tainted := exchange("health probe", sendProbe)
			if !ok {
				return tainted
			}
			if trace {
				fmt.Fprintf(os.Stderr, "TRACE %s => expect no discovery response, got %s\n", l.String(), traceResp(cl, got))
			}
			if len(got) > 0 {
				c.Violation("response-to-health-probe:"+sc.proto, fmt.Sprintf("%d discovery responses to a health probe in %s", len(got), sc.String()), map[string]any{"sequence": sc.String()})
				for _, r := range got {
					if ts := cl.ts[cl.short(r.TypeURL)]; ts != nil {
						ts.nonces = append(ts.nonces, r.Nonce)
					}
				}
			}
			continue
		}
		if managed[l.Type] {
			ok, tainted := stepManaged(l.Type, l.Sub, l.Unsub, l.Nonce, l.Err)
			if !ok {
				return tainted
			}
			continue
		}
		var ns []string
		if !wildcard[l.Type] {
			ns = namesOf(l.Type, l.Names)
		}
		if first && l.Push {
			continue
		}
		ok, tainted := step(l.Type, ns, l.Nonce, l.Err, true)
		if !ok {
			return tainted
		}
	}
	// (4) record equals the last request, for conformant sequences whose last message per type was not a NACK
	if !first {
		checkRecord(c, ds, cl, sc.proto, sc.String(), conID, func(t string) bool {
			return conformant && !lastWasNack[t] && !cl.ts[t].unknown
		})
	}
	// (2) no loop: an auto-ACKing conformant client reaches silence within 3 rounds
	if !first {
		quiet := false
		for round := 0; round < 4; round++ {
			before := cl.respLen()
			sent := 0
			for _, t := range w.types {
				st := cl.ts[t]
				if !st.hasRecord || len(st.nonces) == 0 || st.unknown {
					continue
				}
				var ns []string
				for n := range st.names {
					ns = append(ns, n)
				}
				sort.Strings(ns)
				okSend := false
				if managed[t] {
					okSend = sendManaged(t, nil, nil, st.nonces[len(st.nonces)-1], false)
				} else {
					okSend = send(t, ns, st.nonces[len(st.nonces)-1], false)
				}
				if !okSend {
					if checkPanic("auto-ack") {
						return true
					}
					c.Inconclusive("stream closed during ack rounds: " + errString(cl))
					return false
				}
				sent++
			}
			if b := cl.doBarrier(); b != "" {
				if b == "panic" {
					checkPanic("auto-ack")
					return true
				}
				c.Inconclusive("barrier during ack rounds: " + b)
				return false
			}
			got := cl.responsesSince(before)
			for _, r := range got {
				if ts := cl.ts[cl.short(r.TypeURL)]; ts != nil {
					ts.nonces = append(ts.nonces, r.Nonce)
					ts.forceNext = false
					ts.reopenedSilent, ts.noRespSinceOpen, ts.openedNonceless = false, false, false
				}
			}
			c.Count("ack_rounds", 1)
			if len(got) == 0 {
				quiet = true
				break
			}
		}
		if !quiet {
			c.Violation("request-response-loop:"+sc.proto, "server kept answering plain ACKs for 4 rounds after "+sc.String(), map[string]any{"sequence": sc.String()})
		}
	}
	if checkPanic("end of sequence") {
		return true
	}
	checkNonces(c, cl, sc.proto, sc.String())
	c.Count("sequences", 1)
	c.Count("steps", totalSteps)
	if sc.world != "" {
		c.Count("sequences:"+wl, 1)
	}
	if sawRespond && sawSilent {
		c.Nontrivial(vh.Hash(sc.String()))
	}
	if len(sc.seq) >= 2 && conID%97 == 0 {
		c.Sample(map[string]any{"sequence": sc.String(), "responses_seen": len(cl.responsesSince(0)), "conformant": conformant})
	}
	return false
}

var trace = os.Getenv("XDSPROTO_TRACE") != ""

func traceResp(cl *client, got []respRec) string {
	if len(got) == 0 {
		return "silence"
	}
	var out []string
	for _, r := range got {
		out = append(out, fmt.Sprintf("%s{names=%v aliases=%v removed=%v}", cl.short(r.TypeURL), shortNames(r.Names), r.Aliases, r.Removed))
	}
	return strings.Join(out, " ")
}

func pushLabel(k string) string {
	if k == "" {
		return "forced"
	}
	return k
}

// checkRecord compares the server's record (DeepCloneWatchedResources) of the client's connection with what
// the client model last asked for, for the types of the world where the record is meaningful and for which
// eligible(t) holds.
func checkRecord(c *vh.Ctx, ds *xds.DiscoveryServer, cl *client, proto, seqText string, conID int, eligible func(t string) bool) {
	for _, con := range ds.Clients() {
		if con.Proxy() == nil || !strings.Contains(con.Proxy().ID, fmt.Sprintf("app-%d.", conID)) {
			continue
		}
		wrs := con.Proxy().DeepCloneWatchedResources()
		if trace {
			for _, t := range cl.w.types {
				if wr, ok := wrs[typeURLs[t]]; ok {
					fmt.Fprintf(os.Stderr, "TRACE record %s: names=%v wildcard=%v eligible=%v\n", t, shortNames(sets.SortedList(wr.ResourceNames)), wr.Wildcard, eligible(t))
				}
			}
		}
		for _, t := range cl.w.recordTys {
			st := cl.ts[t]
			if !eligible(t) {
				continue
			}
			wr, haveWr := wrs[typeURLs[t]]
			var rec []string
			if haveWr {
				rec = wr.ResourceNames.UnsortedList()
				sort.Strings(rec)
			}
			var want []string
			for n := range st.names {
				want = append(want, n)
			}
			sort.Strings(want)
			c.Count("record_checks", 1)
			if cl.w.name != "" {
				c.Count("record_checks:"+worldLabel(cl.w)+":"+t, 1)
			}
			if managed[t] {
				// the generator adds names in uid / namespace/hostname form by itself: compare the part of the
				// record the client can talk about, and the kind of subscription
				if !st.hasRecord {
					if haveWr {
						c.Violation("record-mismatch:"+proto+":"+t, fmt.Sprintf("server has a record for %s although the client never opened it in %s", t, seqText), map[string]any{"sequence": seqText})
					}
					continue
				}
				if !haveWr {
					c.Violation("record-mismatch:"+proto+":"+t, fmt.Sprintf("server has no record for %s (client mode %s, names %v) in %s", t, st.mode, want, seqText), map[string]any{"sequence": seqText})
					continue
				}
				if wr.Wildcard != (st.mode == "wild") {
					c.Violation("record-mismatch:"+proto+":"+t+":wildcard-flag", fmt.Sprintf("server records Wildcard=%v for %s but the conformant client opened it in mode %q in %s", wr.Wildcard, t, st.mode, seqText),
						map[string]any{"sequence": seqText})
				}
				if st.mode == "od" {
					var mine []string
					extra := 0
					for _, n := range rec {
						inUniverse := false
						for _, a := range aNames {
							if a == n {
								inUniverse = true
							}
						}
						if inUniverse {
							mine = append(mine, n)
						} else {
							extra++
						}
					}
					c.Max("managed_record_generator_added_names", extra)
					if strings.Join(mine, ",") != strings.Join(want, ",") {
						c.Violation("record-mismatch:"+proto+":"+t, fmt.Sprintf("server records %v (of the names a client can mention) for %s but the conformant client last asked for %v in %s", mine, t, want, seqText),
							map[string]any{"sequence": seqText})
					}
				}
				continue
			}
			if strings.Join(rec, ",") != strings.Join(want, ",") {
				c.Violation("record-mismatch:"+proto+":"+t+st.causeSuffix(), fmt.Sprintf("server records %v for %s but the conformant client last asked for %v in %s", shortNames(rec), t, shortNames(want), seqText),
					map[string]any{"sequence": seqText})
			}
		}
	}
}

// checkNonces: the nonces of the responses of one type on one stream are pairwise distinct (otherwise
// "current" and "stale" could not be told apart). A nonce shared by two types is only counted.
func checkNonces(c *vh.Ctx, cl *client, proto, seqText string) {
	perType := map[string]map[string]bool{}
	all := map[string]string{}
	for _, r := range cl.responsesSince(0) {
		t := cl.short(r.TypeURL)
		if perType[t] == nil {
			perType[t] = map[string]bool{}
		}
		c.Count("nonces_checked", 1)
		if r.Nonce == "" {
			c.Count("responses_without_nonce", 1)
			continue
		}
		if perType[t][r.Nonce] {
			c.Violation("duplicate-nonce:"+proto+":"+t, fmt.Sprintf("nonce %q used for two responses of type %s on one stream in %s", r.Nonce, t, seqText), map[string]any{"sequence": seqText})
		}
		perType[t][r.Nonce] = true
		if o, ok := all[r.Nonce]; ok && o != t {
			c.Count("nonce_shared_across_types", 1)
		}
		all[r.Nonce] = t
	}
}

func errString(cl *client) string {
	var e func() error
	switch {
	case cl.ownDone != nil:
		e = func() error { return cl.ownErr }
	case cl.sotw != nil:
		e = cl.sotw.Err
	default:
		e = cl.delta.Err
	}
	select {
	case <-cl.done():
		return fmt.Sprint(e())
	case <-time.After(2 * time.Second):
		return "stream still open"
	}
}

func shortNames(ns []string) []string {
	out := make([]string, len(ns))
	for i, n := range ns {
		out[i] = strings.TrimSuffix(strings.TrimPrefix(n, "outbound|"), ".example.com")
	}
	return out
}

func firstLine(s string) string {
	if i := strings.IndexByte(s, '\n'); i >= 0 {
		return s[:i]
	}
	return s
}

func firstN(s string, n int) string {
	l := strings.Split(s, "\n")
	if len(l) > n {
		l = l[:n]
	}
	return strings.Join(l, "\n")
}
