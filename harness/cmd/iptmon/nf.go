package main

// Reference netfilter interpreter for the subset of iptables-restore text that
// istio-iptables emits. Written from the iptables(8) / iptables-extensions(8) manual
// pages and the documented netfilter hook order; it never calls istio code.
//
// Two kinds of failure are distinguished:
//   - errUnknown : the text uses something this interpreter does not model. The case is
//     abandoned as inconclusive (never a silent pass).
//   - errRejected: the text is something iptables-restore / the kernel is documented to
//     refuse (jump to a chain that does not exist, REDIRECT outside nat, owner match
//     reachable from PREROUTING, an IPv6 literal in the IPv4 rule set, ...). A rule set
//     that cannot be loaded captures nothing, so this is reported as a violation.

import (
	"fmt"
	"net/netip"
	"strconv"
	"strings"
)

type nfErrKind int

const (
	errUnknown nfErrKind = iota
	errRejected
)

type nfError struct {
	kind nfErrKind
	what string // stable short reason
	msg  string
}

func (e *nfError) Error() string { return e.msg }

func unknownf(what, format string, a ...any) *nfError {
	return &nfError{kind: errUnknown, what: what, msg: "unknown: " + fmt.Sprintf(format, a...)}
}

func rejectedf(what, format string, a ...any) *nfError {
	return &nfError{kind: errRejected, what: what, msg: "rejected: " + fmt.Sprintf(format, a...)}
}

type matchKind uint8

const (
	mProto matchKind = iota
	mSrc
	mDst
	mIn
	mOut
	mDport
	mSport
	mMultiD
	mMultiS
	mMultiAny
	mUID
	mGID
	mMark
	mConnmark
	mCtstate
	mSrcType
	mDstType
)

var matchKindName = map[matchKind]string{
	mProto: "-p", mSrc: "-s", mDst: "-d", mIn: "-i", mOut: "-o", mDport: "--dport", mSport: "--sport",
	mMultiD: "multiport--dports", mMultiS: "multiport--sports", mMultiAny: "multiport--ports",
	mUID: "owner--uid-owner", mGID: "owner--gid-owner", mMark: "mark--mark", mConnmark: "connmark--mark",
	mCtstate: "conntrack--ctstate", mSrcType: "addrtype--src-type", mDstType: "addrtype--dst-type",
}

const (
	ctNew uint8 = 1 << iota
	ctEstablished
	ctRelated
	ctInvalid
	ctUntracked
)

var ctNames = map[string]uint8{"NEW": ctNew, "ESTABLISHED": ctEstablished, "RELATED": ctRelated, "INVALID": ctInvalid, "UNTRACKED": ctUntracked}

type match struct {
	kind   matchKind
	neg    bool
	proto  string
	pfx    netip.Prefix
	iface  string
	wild   bool // iface ends in '+'
	ports  [][2]uint16
	idLo   uint32
	idHi   uint32
	val    uint32
	mask   uint32
	states uint8
	atype  string
}

type targetKind uint8

const (
	tAccept targetKind = iota
	tDrop
	tReturn
	tChain
	tRedirect
	tTproxy
	tMark
	tConnmark
	tCT
	tNone // rule without -j: counts only
)

type rule struct {
	table, chain string
	matches      []match
	tk           targetKind
	target       string
	port         uint16 // REDIRECT --to-ports / TPROXY --on-port
	val, mask    uint32 // MARK / TPROXY mark
	xor          bool   // --set-xmark
	cmOp         string // save | restore | set
	zone         int
	text         string
	hasProtoPort bool // rule has non-negated -p tcp|udp (needed by --dport, multiport, TPROXY)
}

type nfTable struct {
	name   string
	chains map[string][]*rule
	user   map[string]bool
}

type ruleset struct {
	fam    int // 4 or 6
	tables map[string]*nfTable
	nRules int
	evals  int64           // rule match attempts (evidence)
	seen   map[string]bool // option / target kinds parsed (evidence)
}

var builtinChains = map[string][]string{
	"raw":    {"PREROUTING", "OUTPUT"},
	"mangle": {"PREROUTING", "INPUT", "FORWARD", "OUTPUT", "POSTROUTING"},
	"nat":    {"PREROUTING", "INPUT", "OUTPUT", "POSTROUTING"},
	"filter": {"INPUT", "FORWARD", "OUTPUT"},
}

func isBuiltin(table, chain string) bool {
	for _, c := range builtinChains[table] {
		if c == chain {
			return true
		}
	}
	return false
}

var reservedTargets = map[string]bool{"ACCEPT": true, "DROP": true, "RETURN": true, "QUEUE": true}

func parseU32(s string) (uint32, error) {
	v, err := strconv.ParseUint(s, 0, 32)
	return uint32(v), err
}

func parseValMask(s string) (uint32, uint32, error) {
	mask := uint32(0xffffffff)
	vs := s
	if i := strings.IndexByte(s, '/'); i >= 0 {
		vs = s[:i]
		m, err := parseU32(s[i+1:])
		if err != nil {
			return 0, 0, err
		}
		mask = m
	}
	v, err := parseU32(vs)
	return v, mask, err
}

func parsePortRange(s string) ([2]uint16, error) {
	lo, hi := s, s
	if i := strings.IndexByte(s, ':'); i >= 0 {
		lo, hi = s[:i], s[i+1:]
		if lo == "" {
			lo = "0"
		}
		if hi == "" {
			hi = "65535"
		}
	}
	a, err := strconv.ParseUint(lo, 10, 16)
	if err != nil {
		return [2]uint16{}, err
	}
	b, err := strconv.ParseUint(hi, 10, 16)
	if err != nil {
		return [2]uint16{}, err
	}
	if a > b {
		return [2]uint16{}, fmt.Errorf("inverted range")
	}
	return [2]uint16{uint16(a), uint16(b)}, nil
}

func (rs *ruleset) parsePrefix(s string) (netip.Prefix, *nfError) {
	var p netip.Prefix
	if strings.Contains(s, "/") {
		pp, err := netip.ParsePrefix(s)
		if err != nil {
			return p, rejectedf("bad-address", "bad address %q: %v", s, err)
		}
		p = pp
	} else {
		a, err := netip.ParseAddr(s)
		if err != nil {
			return p, rejectedf("bad-address", "bad address %q: %v", s, err)
		}
		p = netip.PrefixFrom(a, a.BitLen())
	}
	if p.Addr().Zone() != "" {
		return p, unknownf("addr-zone", "zoned address %q", s)
	}
	if (rs.fam == 4) != p.Addr().Is4() {
		return p, rejectedf("address-family", "address %q in the IPv%d rule set", s, rs.fam)
	}
	return p.Masked(), nil // iptables masks host bits off
}

// load applies iptables-restore text (--noflush semantics on an empty kernel state).
func (rs *ruleset) load(text string) *nfError {
	var cur *nfTable
	for ln, line := range strings.Split(text, "\n") {
		line = strings.TrimSpace(line)
		if line == "" || strings.HasPrefix(line, "#") {
			continue
		}
		if strings.ContainsAny(line, "\"'`\\") {
			return unknownf("quoting", "line %d uses quoting: %s", ln+1, line)
		}
		if strings.HasPrefix(line, "*") {
			if cur != nil {
				return rejectedf("table-not-committed", "line %d: table %s opened before COMMIT of %s", ln+1, line, cur.name)
			}
			name := strings.TrimSpace(line[1:])
			if _, ok := builtinChains[name]; !ok {
				return unknownf("table", "line %d: table %q", ln+1, name)
			}
			t := rs.tables[name]
			if t == nil {
				t = &nfTable{name: name, chains: map[string][]*rule{}, user: map[string]bool{}}
				for _, c := range builtinChains[name] {
					t.chains[c] = nil
				}
				rs.tables[name] = t
			}
			cur = t
			continue
		}
		if line == "COMMIT" {
			if cur == nil {
				return rejectedf("commit-without-table", "line %d: COMMIT without table", ln+1)
			}
			cur = nil
			continue
		}
		if cur == nil {
			return rejectedf("rule-outside-table", "line %d: %q outside a table", ln+1, line)
		}
		tok := strings.Fields(line)
		switch tok[0] {
		case "-N", "--new-chain":
			if len(tok) != 2 {
				return unknownf("new-chain-syntax", "line %d: %s", ln+1, line)
			}
			if _, ok := cur.chains[tok[1]]; ok {
				return rejectedf("chain-exists", "line %d: chain %s already exists in %s", ln+1, tok[1], cur.name)
			}
			if reservedTargets[tok[1]] || len(tok[1]) > 28 || strings.HasPrefix(tok[1], "-") || strings.HasPrefix(tok[1], "!") {
				return rejectedf("bad-chain-name", "line %d: invalid chain name %q", ln+1, tok[1])
			}
			cur.chains[tok[1]] = nil
			cur.user[tok[1]] = true
		case "-A", "--append", "-I", "--insert":
			if len(tok) < 2 {
				return unknownf("rule-syntax", "line %d: %s", ln+1, line)
			}
			chain := tok[1]
			rest := tok[2:]
			pos := -1
			if tok[0] == "-I" || tok[0] == "--insert" {
				pos = 1
				if len(rest) > 0 {
					if n, err := strconv.Atoi(rest[0]); err == nil {
						pos = n
						rest = rest[1:]
					}
				}
			}
			existing, ok := cur.chains[chain]
			if !ok {
				return rejectedf("no-such-chain", "line %d: chain %s does not exist in table %s", ln+1, chain, cur.name)
			}
			r, e := rs.parseRule(cur, chain, rest)
			if e != nil {
				e.msg = fmt.Sprintf("line %d (%s): %s", ln+1, line, e.msg)
				return e
			}
			r.text = line
			if pos < 0 {
				cur.chains[chain] = append(existing, r)
			} else {
				if pos < 1 || pos > len(existing)+1 {
					return rejectedf("insert-index", "line %d: insert position %d into chain %s of length %d", ln+1, pos, chain, len(existing))
				}
				n := make([]*rule, 0, len(existing)+1)
				n = append(n, existing[:pos-1]...)
				n = append(n, r)
				n = append(n, existing[pos-1:]...)
				cur.chains[chain] = n
			}
			rs.nRules++
		default:
			return unknownf("command", "line %d: command %q", ln+1, tok[0])
		}
	}
	if cur != nil {
		return rejectedf("missing-commit", "table %s not committed", cur.name)
	}
	return nil
}

func (rs *ruleset) parseRule(t *nfTable, chain string, tok []string) (*rule, *nfError) {
	r := &rule{table: t.name, chain: chain, tk: tNone}
	mods := map[string]bool{}
	lastMarkMod := ""
	neg := false
	need := func(i int, opt string) (string, *nfError) {
		if i+1 >= len(tok) {
			return "", rejectedf("missing-argument", "option %s needs an argument", opt)
		}
		return tok[i+1], nil
	}
	noNeg := func(opt string) *nfError {
		if neg {
			return unknownf("negation", "'!' before %s", opt)
		}
		return nil
	}
	for i := 0; i < len(tok); i++ {
		o := tok[i]
		if o == "!" {
			if neg {
				return nil, rejectedf("double-negation", "double '!'")
			}
			neg = true
			continue
		}
		switch o {
		case "-p", "--protocol":
			v, e := need(i, o)
			if e != nil {
				return nil, e
			}
			i++
			v = strings.ToLower(v)
			switch v {
			case "tcp", "udp", "icmp", "ipv6-icmp", "icmpv6", "all":
			default:
				return nil, unknownf("protocol", "protocol %q", v)
			}
			if v == "icmpv6" {
				v = "ipv6-icmp"
			}
			r.matches = append(r.matches, match{kind: mProto, neg: neg, proto: v})
			if !neg && (v == "tcp" || v == "udp") {
				r.hasProtoPort = true
			}
			rs.seen["-p"] = true
		case "-s", "--source", "--src", "-d", "--destination", "--dst":
			v, e := need(i, o)
			if e != nil {
				return nil, e
			}
			i++
			p, e := rs.parsePrefix(v)
			if e != nil {
				return nil, e
			}
			k := mSrc
			if o == "-d" || o == "--destination" || o == "--dst" {
				k = mDst
			}
			r.matches = append(r.matches, match{kind: k, neg: neg, pfx: p})
			rs.seen[matchKindName[k]+negTag(neg)] = true
		case "-i", "--in-interface", "-o", "--out-interface":
			v, e := need(i, o)
			if e != nil {
				return nil, e
			}
			i++
			k := mIn
			if o == "-o" || o == "--out-interface" {
				k = mOut
			}
			// iptables refuses these on the built-in chains of the opposite side
			if k == mOut && (chain == "PREROUTING" || chain == "INPUT") {
				return nil, rejectedf("iface-direction", "-o in chain %s", chain)
			}
			if k == mIn && (chain == "OUTPUT" || chain == "POSTROUTING") {
				return nil, rejectedf("iface-direction", "-i in chain %s", chain)
			}
			m := match{kind: k, neg: neg, iface: v}
			if strings.HasSuffix(v, "+") {
				m.wild = true
				m.iface = strings.TrimSuffix(v, "+")
			}
			if v == "" || len(v) > 15 {
				return nil, rejectedf("iface-name", "interface name %q", v)
			}
			r.matches = append(r.matches, m)
			rs.seen[matchKindName[k]+negTag(neg)] = true
		case "-m", "--match":
			if e := noNeg(o); e != nil {
				return nil, e
			}
			v, e := need(i, o)
			if e != nil {
				return nil, e
			}
			i++
			switch v {
			case "tcp", "udp", "multiport", "owner", "mark", "connmark", "conntrack", "state", "addrtype", "comment":
			default:
				return nil, unknownf("match-module", "match module %q", v)
			}
			if (v == "tcp" || v == "udp") && !r.protoIs(v) {
				return nil, rejectedf("module-needs-proto", "-m %s without -p %s", v, v)
			}
			mods[v] = true
			if v == "mark" || v == "connmark" {
				if lastMarkMod != "" && lastMarkMod != v {
					return nil, unknownf("mark-and-connmark", "both -m mark and -m connmark in one rule")
				}
				lastMarkMod = v
			}
			rs.seen["-m "+v] = true
			continue // keep neg=false
		case "--dport", "--destination-port", "--sport", "--source-port":
			v, e := need(i, o)
			if e != nil {
				return nil, e
			}
			i++
			if !r.hasProtoPort {
				return nil, rejectedf("port-without-proto", "%s without -p tcp|udp", o)
			}
			pr, err := parsePortRange(v)
			if err != nil {
				return nil, rejectedf("bad-port", "port %q: %v", v, err)
			}
			k := mDport
			if o == "--sport" || o == "--source-port" {
				k = mSport
			}
			r.matches = append(r.matches, match{kind: k, neg: neg, ports: [][2]uint16{pr}})
			rs.seen[matchKindName[k]+negTag(neg)] = true
		case "--dports", "--destination-ports", "--sports", "--source-ports", "--ports":
			v, e := need(i, o)
			if e != nil {
				return nil, e
			}
			i++
			if !mods["multiport"] {
				return nil, rejectedf("option-without-module", "%s without -m multiport", o)
			}
			if !r.hasProtoPort {
				return nil, rejectedf("port-without-proto", "multiport without -p tcp|udp")
			}
			var prs [][2]uint16
			n := 0
			for _, ps := range strings.Split(v, ",") {
				pr, err := parsePortRange(ps)
				if err != nil {
					return nil, rejectedf("bad-port", "port %q: %v", ps, err)
				}
				prs = append(prs, pr)
				n++
				if pr[0] != pr[1] {
					n++
				}
			}
			if n > 15 {
				return nil, rejectedf("multiport-too-many", "multiport with %d port slots", n)
			}
			k := mMultiD
			switch o {
			case "--sports", "--source-ports":
				k = mMultiS
			case "--ports":
				k = mMultiAny
			}
			r.matches = append(r.matches, match{kind: k, neg: neg, ports: prs})
			rs.seen[matchKindName[k]+negTag(neg)] = true
		case "--uid-owner", "--gid-owner":
			v, e := need(i, o)
			if e != nil {
				return nil, e
			}
			i++
			if !mods["owner"] {
				return nil, rejectedf("option-without-module", "%s without -m owner", o)
			}
			lo, hi := v, v
			if j := strings.IndexByte(v, '-'); j > 0 {
				lo, hi = v[:j], v[j+1:]
			}
			a, err1 := strconv.ParseUint(lo, 10, 32)
			b, err2 := strconv.ParseUint(hi, 10, 32)
			if err1 != nil || err2 != nil {
				// a user/group name: resolution depends on the pod's passwd database
				return nil, unknownf("owner-name", "non-numeric owner %q", v)
			}
			k := mUID
			if o == "--gid-owner" {
				k = mGID
			}
			r.matches = append(r.matches, match{kind: k, neg: neg, idLo: uint32(a), idHi: uint32(b)})
			rs.seen[matchKindName[k]+negTag(neg)] = true
		case "--mark":
			v, e := need(i, o)
			if e != nil {
				return nil, e
			}
			i++
			if lastMarkMod == "" {
				return nil, rejectedf("option-without-module", "--mark without -m mark|connmark")
			}
			val, mask, err := parseValMask(v)
			if err != nil {
				return nil, rejectedf("bad-mark", "mark %q", v)
			}
			k := mMark
			if lastMarkMod == "connmark" {
				k = mConnmark
			}
			r.matches = append(r.matches, match{kind: k, neg: neg, val: val, mask: mask})
			rs.seen[matchKindName[k]+negTag(neg)] = true
		case "--ctstate", "--state":
			v, e := need(i, o)
			if e != nil {
				return nil, e
			}
			i++
			if (o == "--ctstate" && !mods["conntrack"]) || (o == "--state" && !mods["state"]) {
				return nil, rejectedf("option-without-module", "%s without its module", o)
			}
			var st uint8
			for _, s := range strings.Split(v, ",") {
				b, ok := ctNames[s]
				if !ok {
					return nil, unknownf("ctstate", "conntrack state %q", s)
				}
				st |= b
			}
			r.matches = append(r.matches, match{kind: mCtstate, neg: neg, states: st})
			rs.seen[matchKindName[mCtstate]+negTag(neg)] = true
		case "--src-type", "--dst-type":
			v, e := need(i, o)
			if e != nil {
				return nil, e
			}
			i++
			if !mods["addrtype"] {
				return nil, rejectedf("option-without-module", "%s without -m addrtype", o)
			}
			if v != "LOCAL" {
				return nil, unknownf("addrtype", "addrtype %q", v)
			}
			k := mSrcType
			if o == "--dst-type" {
				k = mDstType
			}
			r.matches = append(r.matches, match{kind: k, neg: neg, atype: v})
			rs.seen[matchKindName[k]+negTag(neg)] = true
		case "--comment":
			if e := noNeg(o); e != nil {
				return nil, e
			}
			if _, e := need(i, o); e != nil {
				return nil, e
			}
			i++
			if !mods["comment"] {
				return nil, rejectedf("option-without-module", "--comment without -m comment")
			}
		case "-j", "--jump":
			if e := noNeg(o); e != nil {
				return nil, e
			}
			v, e := need(i, o)
			if e != nil {
				return nil, e
			}
			i++
			if r.tk != tNone {
				return nil, rejectedf("two-targets", "two -j in one rule")
			}
			r.target = v
			switch v {
			case "ACCEPT":
				r.tk = tAccept
			case "DROP":
				r.tk = tDrop
			case "RETURN":
				r.tk = tReturn
			case "REDIRECT":
				r.tk = tRedirect
				if t.name != "nat" {
					return nil, rejectedf("target-table", "REDIRECT in table %s", t.name)
				}
			case "TPROXY":
				r.tk = tTproxy
				r.mask = 0xffffffff
				if t.name != "mangle" {
					return nil, rejectedf("target-table", "TPROXY in table %s", t.name)
				}
			case "MARK":
				r.tk = tMark
				if t.name != "mangle" {
					return nil, rejectedf("target-table", "MARK in table %s", t.name)
				}
			case "CONNMARK":
				r.tk = tConnmark
			case "CT":
				r.tk = tCT
				if t.name != "raw" {
					return nil, rejectedf("target-table", "CT in table %s", t.name)
				}
			default:
				if _, ok := t.chains[v]; ok && t.user[v] {
					r.tk = tChain
				} else if isBuiltin(t.name, v) {
					return nil, rejectedf("jump-to-builtin", "jump to built-in chain %s", v)
				} else if strings.HasPrefix(v, "ISTIO") || v != strings.ToUpper(v) {
					return nil, rejectedf("no-such-target-chain", "jump to chain %s which does not exist in table %s", v, t.name)
				} else {
					return nil, unknownf("target", "target %q", v)
				}
			}
			rs.seen["-j "+targetClass(r)] = true
		case "--to-ports", "--to-port":
			if e := noNeg(o); e != nil {
				return nil, e
			}
			v, e := need(i, o)
			if e != nil {
				return nil, e
			}
			i++
			if r.tk != tRedirect {
				return nil, rejectedf("option-without-target", "%s without -j REDIRECT", o)
			}
			if !r.hasProtoPort {
				return nil, rejectedf("port-without-proto", "REDIRECT --to-ports without -p tcp|udp")
			}
			n, err := strconv.ParseUint(v, 10, 16)
			if err != nil || n == 0 {
				return nil, unknownf("redirect-port", "REDIRECT port spec %q", v)
			}
			r.port = uint16(n)
		case "--on-port":
			if e := noNeg(o); e != nil {
				return nil, e
			}
			v, e := need(i, o)
			if e != nil {
				return nil, e
			}
			i++
			if r.tk != tTproxy {
				return nil, rejectedf("option-without-target", "--on-port without -j TPROXY")
			}
			n, err := strconv.ParseUint(v, 10, 16)
			if err != nil {
				return nil, rejectedf("bad-port", "--on-port %q", v)
			}
			r.port = uint16(n)
		case "--tproxy-mark":
			if e := noNeg(o); e != nil {
				return nil, e
			}
			v, e := need(i, o)
			if e != nil {
				return nil, e
			}
			i++
			if r.tk != tTproxy {
				return nil, rejectedf("option-without-target", "--tproxy-mark without -j TPROXY")
			}
			val, mask, err := parseValMask(v)
			if err != nil {
				return nil, rejectedf("bad-mark", "--tproxy-mark %q", v)
			}
			r.val, r.mask = val, mask
		case "--set-mark", "--set-xmark":
			if e := noNeg(o); e != nil {
				return nil, e
			}
			v, e := need(i, o)
			if e != nil {
				return nil, e
			}
			i++
			val, mask, err := parseValMask(v)
			if err != nil {
				return nil, rejectedf("bad-mark", "%s %q", o, v)
			}
			switch r.tk {
			case tMark:
				r.val, r.mask, r.xor = val, mask, o == "--set-xmark"
				r.cmOp = "set"
			case tConnmark:
				r.val, r.mask, r.xor = val, mask, o == "--set-xmark"
				r.cmOp = "set"
			default:
				return nil, rejectedf("option-without-target", "%s without -j MARK|CONNMARK", o)
			}
		case "--save-mark", "--restore-mark":
			if e := noNeg(o); e != nil {
				return nil, e
			}
			if r.tk != tConnmark {
				return nil, rejectedf("option-without-target", "%s without -j CONNMARK", o)
			}
			if r.cmOp != "" {
				return nil, rejectedf("connmark-two-ops", "two CONNMARK operations")
			}
			r.cmOp = strings.TrimSuffix(strings.TrimPrefix(o, "--"), "-mark")
		case "--zone":
			if e := noNeg(o); e != nil {
				return nil, e
			}
			v, e := need(i, o)
			if e != nil {
				return nil, e
			}
			i++
			if r.tk != tCT {
				return nil, rejectedf("option-without-target", "--zone without -j CT")
			}
			n, err := strconv.Atoi(v)
			if err != nil {
				return nil, rejectedf("bad-zone", "--zone %q", v)
			}
			r.zone = n
		default:
			return nil, unknownf("option", "option %q", o)
		}
		neg = false
	}
	if neg {
		return nil, rejectedf("dangling-negation", "dangling '!'")
	}
	switch r.tk {
	case tRedirect:
		if r.port == 0 {
			return nil, unknownf("redirect-no-port", "REDIRECT without --to-ports")
		}
	case tTproxy:
		if r.port == 0 {
			return nil, rejectedf("tproxy-no-port", "TPROXY without --on-port")
		}
		if !r.hasProtoPort {
			return nil, rejectedf("tproxy-no-proto", "TPROXY without -p tcp|udp")
		}
	case tMark:
		if r.cmOp == "" {
			return nil, rejectedf("mark-no-op", "MARK without --set-mark")
		}
	case tConnmark:
		if r.cmOp == "" {
			return nil, rejectedf("connmark-no-op", "CONNMARK without operation")
		}
	}
	return r, nil
}

func negTag(n bool) string {
	if n {
		return "!"
	}
	return ""
}

func targetClass(r *rule) string {
	if r.tk == tChain {
		return "<chain>"
	}
	return r.target
}

func (r *rule) protoIs(p string) bool {
	for _, m := range r.matches {
		if m.kind == mProto && !m.neg && m.proto == p {
			return true
		}
	}
	return false
}

var hooksTraversed = map[string]bool{"PREROUTING": true, "OUTPUT": true}

// validate performs the load-time checks the kernel applies per hook: which matches and
// targets may be reached from which built-in chain, and loop freedom.
func (rs *ruleset) validate() *nfError {
	for _, t := range rs.tables {
		for _, hook := range builtinChains[t.name] {
			if len(t.chains[hook]) > 0 && !hooksTraversed[hook] {
				return unknownf("hook-not-modelled", "rules in %s/%s, a hook this interpreter does not traverse", t.name, hook)
			}
			onPath := map[string]bool{}
			var walk func(chain string, depth int) *nfError
			walk = func(chain string, depth int) *nfError {
				if onPath[chain] {
					return rejectedf("chain-loop", "loop through chain %s in table %s", chain, t.name)
				}
				onPath[chain] = true
				defer delete(onPath, chain)
				for _, r := range t.chains[chain] {
					for _, m := range r.matches {
						if (m.kind == mUID || m.kind == mGID) && hook != "OUTPUT" && hook != "POSTROUTING" {
							return rejectedf("owner-hook", "owner match reachable from %s/%s: %s", t.name, hook, r.text)
						}
					}
					switch r.tk {
					case tRedirect:
						if hook != "PREROUTING" && hook != "OUTPUT" {
							return rejectedf("target-hook", "REDIRECT reachable from %s: %s", hook, r.text)
						}
					case tTproxy:
						if hook != "PREROUTING" {
							return rejectedf("target-hook", "TPROXY reachable from %s: %s", hook, r.text)
						}
					case tCT:
						if hook != "PREROUTING" && hook != "OUTPUT" {
							return rejectedf("target-hook", "CT reachable from %s: %s", hook, r.text)
						}
					case tChain:
						if e := walk(r.target, depth+1); e != nil {
							return e
						}
					}
				}
				return nil
			}
			if e := walk(hook, 0); e != nil {
				return e
			}
		}
	}
	return nil
}

// ---------------------------------------------------------------------------------------
// evaluation

type packet struct {
	fam      int
	out      bool // locally generated (OUTPUT path) vs arriving (PREROUTING path)
	proto    string
	src, dst netip.Addr
	sport    uint16
	dport    uint16
	iif, oif string
	hasOwner bool
	uid, gid uint32
	mark     uint32
	connmark uint32
	ct       uint8
	srcLocal bool
	dstLocal bool
}

type verdict uint8

const (
	vContinue verdict = iota // fell off a user chain or RETURN
	vAccept
	vDrop
)

type hookResult struct {
	natPort    uint16
	tproxyPort uint16
	zone       int
	dropped    bool
	trace      []string // matched rules, only when tracing
}

type evalCtx struct {
	rs    *ruleset
	p     *packet
	res   *hookResult
	trace bool
}

func (m *match) hit(p *packet) bool {
	var r bool
	switch m.kind {
	case mProto:
		r = m.proto == "all" || m.proto == p.proto
	case mSrc:
		r = m.pfx.Contains(p.src)
	case mDst:
		r = m.pfx.Contains(p.dst)
	case mIn:
		r = ifaceMatch(m, p.iif)
	case mOut:
		r = ifaceMatch(m, p.oif)
	case mDport:
		r = portIn(m.ports, p.dport)
	case mSport:
		r = portIn(m.ports, p.sport)
	case mMultiD:
		r = portIn(m.ports, p.dport)
	case mMultiS:
		r = portIn(m.ports, p.sport)
	case mMultiAny:
		r = portIn(m.ports, p.dport) || portIn(m.ports, p.sport)
	case mUID:
		if !p.hasOwner {
			return m.neg // xt_owner: a packet without socket matches iff every test is inverted
		}
		r = p.uid >= m.idLo && p.uid <= m.idHi
	case mGID:
		if !p.hasOwner {
			return m.neg
		}
		r = p.gid >= m.idLo && p.gid <= m.idHi
	case mMark:
		r = p.mark&m.mask == m.val
	case mConnmark:
		r = p.connmark&m.mask == m.val
	case mCtstate:
		r = p.ct&m.states != 0
	case mSrcType:
		r = p.srcLocal
	case mDstType:
		r = p.dstLocal
	}
	return r != m.neg
}

func ifaceMatch(m *match, name string) bool {
	if name == "" {
		return false
	}
	if m.wild {
		return strings.HasPrefix(name, m.iface)
	}
	return name == m.iface
}

func portIn(prs [][2]uint16, p uint16) bool {
	for _, pr := range prs {
		if p >= pr[0] && p <= pr[1] {
			return true
		}
	}
	return false
}

func (c *evalCtx) chain(t *nfTable, name string, depth int) verdict {
	if depth > 32 {
		panic(unknownf("depth", "jump depth exceeded"))
	}
rules:
	for _, r := range t.chains[name] {
		c.rs.evals++
		for i := range r.matches {
			if !r.matches[i].hit(c.p) {
				continue rules
			}
		}
		if c.trace {
			c.res.trace = append(c.res.trace, t.name+": "+r.text)
		}
		switch r.tk {
		case tNone:
		case tAccept:
			return vAccept
		case tDrop:
			return vDrop
		case tReturn:
			return vContinue
		case tChain:
			if v := c.chain(t, r.target, depth+1); v != vContinue {
				return v
			}
		case tRedirect:
			c.res.natPort = r.port
			return vAccept
		case tTproxy:
			c.p.mark = (c.p.mark &^ r.mask) ^ r.val
			c.res.tproxyPort = r.port
			return vAccept
		case tMark:
			if r.xor {
				c.p.mark = (c.p.mark &^ r.mask) ^ r.val
			} else {
				c.p.mark = (c.p.mark &^ r.mask) | r.val
			}
		case tConnmark:
			switch r.cmOp {
			case "save":
				c.p.connmark = c.p.mark
			case "restore":
				c.p.mark = c.p.connmark
			case "set":
				if r.xor {
					c.p.connmark = (c.p.connmark &^ r.mask) ^ r.val
				} else {
					c.p.connmark = (c.p.connmark &^ r.mask) | r.val
				}
			}
		case tCT:
			c.res.zone = r.zone
		}
	}
	return vContinue
}

// hook runs one built-in chain of one table; the built-in policy is ACCEPT.
func (c *evalCtx) hook(table, chain string) verdict {
	t := c.rs.tables[table]
	if t == nil {
		return vAccept
	}
	if v := c.chain(t, chain, 0); v == vDrop {
		c.res.dropped = true
		return vDrop
	}
	return vAccept
}
