package main

// Boundary-value packets for one configuration. Packets are generated in IPv4 terms and
// mapped to their IPv6 image with phi(); ranges that exist only in IPv6 get native packets.

import (
	"math/rand"
	"net/netip"
	"sort"
)

type owner struct {
	has      bool
	uid, gid uint32
}

type pktPair struct {
	p4 packet
	p6 *packet // image of p4 (nil when there is none or IPv6 is off)
}

func (c *capCfg) owners() []owner {
	used := func(v uint32) bool {
		return inU32(c.ProxyUIDs, v) || inU32(c.ProxyGIDs, v) || inU32(c.OGInc, v) || inU32(c.OGExc, v)
	}
	appID := uint32(1000)
	for used(appID) {
		appID++
	}
	app2 := appID + 1
	for used(app2) {
		app2++
	}
	var o []owner
	add := func(uid, gid uint32) {
		for _, x := range o {
			if x.has && x.uid == uid && x.gid == gid {
				return
			}
		}
		o = append(o, owner{true, uid, gid})
	}
	add(appID, appID)
	add(0, 0)
	for _, u := range c.ProxyUIDs {
		add(u, appID)
	}
	for _, g := range c.ProxyGIDs {
		add(appID, g)
	}
	add(c.ProxyUIDs[0], c.ProxyGIDs[0])
	for _, g := range c.OGInc {
		add(app2, g)
	}
	for _, g := range c.OGExc {
		add(app2, g)
	}
	o = append(o, owner{has: false})
	return o
}

func addrAdd(a netip.Addr, up bool) (netip.Addr, bool) {
	var n netip.Addr
	if up {
		n = a.Next()
	} else {
		n = a.Prev()
	}
	return n, n.IsValid()
}

func lastOf(p netip.Prefix) netip.Addr {
	b := p.Masked().Addr().AsSlice()
	for i := p.Bits(); i < len(b)*8; i++ {
		b[i/8] |= 1 << (7 - uint(i%8))
	}
	a, _ := netip.AddrFromSlice(b)
	return a
}

// boundaries: first and last address inside, the neighbours just outside, and one interior.
func boundaries(r *rand.Rand, p netip.Prefix) []netip.Addr {
	first, last := p.Masked().Addr(), lastOf(p)
	out := []netip.Addr{first, last, randIn(r, p)}
	if a, ok := addrAdd(first, false); ok {
		out = append(out, a)
	}
	if a, ok := addrAdd(last, true); ok {
		out = append(out, a)
	}
	return out
}

func uniqAddrs(l []netip.Addr) []netip.Addr {
	seen := map[netip.Addr]bool{}
	var out []netip.Addr
	for _, a := range l {
		if a.IsValid() && !a.IsUnspecified() && !a.IsMulticast() && !seen[a] {
			seen[a] = true
			out = append(out, a)
		}
	}
	return out
}

func (c *capCfg) isLocal(a netip.Addr) bool {
	return a.IsLoopback() || a == c.Pod4 || a == c.Pod6
}

func isImagePfx(p netip.Prefix) bool {
	b := p.Addr().As16()
	if p.Bits() < 96 || b[0] != 0xfd {
		return false
	}
	for i := 1; i < 12; i++ {
		if b[i] != 0 {
			return false
		}
	}
	return true
}

func (c *capCfg) dsts4(r *rand.Rand) []netip.Addr {
	var l []netip.Addr
	for _, p := range c.OutInc4 {
		l = append(l, boundaries(r, p)...)
	}
	for _, p := range c.OutExc4 {
		l = append(l, boundaries(r, p)...)
	}
	for _, a := range c.DNS4 {
		l = append(l, a)
		if n, ok := addrAdd(a, true); ok {
			l = append(l, n)
		}
	}
	// images of v6 ranges that have a v4 pre-image are covered through OutInc4/OutExc4 already
	l = append(l, c.Pod4, lo4, netip.MustParseAddr("127.0.0.6"), netip.MustParseAddr("127.0.0.53"),
		netip.MustParseAddr("203.0.113.9"), netip.MustParseAddr("8.8.8.8"), netip.MustParseAddr("10.96.0.10"))
	if c.includeHasLoopback() {
		l = append(l, netip.MustParseAddr("127.1.2.3"), netip.MustParseAddr("127.1.2.4"))
	}
	return uniqAddrs(l)
}

func (c *capCfg) dsts6native(r *rand.Rand) []netip.Addr {
	var l []netip.Addr
	for _, p := range c.OutInc6 {
		if !isImagePfx(p) {
			l = append(l, boundaries(r, p)...)
		}
	}
	for _, p := range c.OutExc6 {
		if !isImagePfx(p) {
			l = append(l, boundaries(r, p)...)
		}
	}
	for _, a := range c.DNS6 {
		l = append(l, a)
		if n, ok := addrAdd(a, true); ok {
			l = append(l, n)
		}
	}
	if len(l) > 0 {
		l = append(l, netip.MustParseAddr("2001:db8:ffff::9"))
	}
	return uniqAddrs(l)
}

func (c *capCfg) dports() []uint16 {
	set := map[uint16]bool{53: true, 80: true, c.ProxyPort: true, c.CapturePort: true, c.TunnelPort: true, dnsAgentPort: true}
	for _, l := range [][]uint16{c.InbPorts, c.InbExclude, c.OutPortsInc, c.OutPortsExc} {
		for _, p := range l {
			set[p] = true
			if p > 1 {
				set[p-1] = true
			}
			if p < 65535 {
				set[p+1] = true
			}
		}
	}
	set[c.TunnelPort-1], set[c.TunnelPort+1] = true, true
	set[52], set[54] = true, true
	var out []uint16
	for p := range set {
		out = append(out, p)
	}
	sort.Slice(out, func(i, j int) bool { return out[i] < out[j] })
	return out
}

func image(p packet) (packet, bool) {
	q := p
	q.fam = 6
	var ok1, ok2 bool
	q.src, ok1 = phi(p.src)
	q.dst, ok2 = phi(p.dst)
	if p.dst.IsLoopback() && p.dst != lo4 {
		ok2 = false // IPv6 has a single loopback address; ::6 is only ever a source
	}
	return q, ok1 && ok2
}

const (
	outCap    = 16000
	nativeCap = 2000
)

// genPackets returns the v4 packets with their v6 images and the v6-native packets.
func (c *capCfg) genPackets(r *rand.Rand) (pairs []pktPair, natives []packet) {
	owners := c.owners()
	dports := c.dports()
	protos := []string{"tcp", "udp"}
	ext4 := netip.MustParseAddr("203.0.113.7")
	bind4 := netip.MustParseAddr("127.0.0.6")

	special := func(p *packet) {
		switch r.Intn(40) {
		case 0:
			p.ct = ctEstablished
		case 1:
			p.ct = ctInvalid
		case 2:
			p.mark = c.TproxyMark
		case 3:
			p.mark = 1338
		case 4:
			p.ct, p.connmark = ctEstablished, c.TproxyMark
		case 5:
			p.ct = ctRelated
		}
	}
	emit := func(p packet) {
		pp := pktPair{p4: p}
		if c.IPv6 {
			if q, ok := image(p); ok {
				pp.p6 = &q
			}
		}
		pairs = append(pairs, pp)
	}

	// locally generated packets
	dsts := c.dsts4(r)
	oifsFor := func(local bool) []string {
		if local {
			return []string{"lo"}
		}
		return append([]string{"eth0"}, c.ExclIf...)
	}
	// sampling weights: application owners carry most clauses; proxy owners only the loop clause
	weight := func(o owner) float64 {
		switch {
		case !o.has:
			return 0.2
		case inU32(c.ProxyUIDs, o.uid) || inU32(c.ProxyGIDs, o.gid):
			return 0.5
		}
		return 1
	}
	wsum := 0.0
	for _, o := range owners {
		wsum += weight(o)
	}
	total := 0.0
	for _, d := range dsts {
		total += wsum * float64(len(dports)*len(protos)*len(oifsFor(c.isLocal(d))))
	}
	prob := outCap / total // >= 1 means: take the full cross
	for _, d := range dsts {
		local := c.isLocal(d)
		for _, o := range owners {
			for _, dp := range dports {
				for _, pr := range protos {
					for _, oif := range oifsFor(local) {
						if r.Float64() >= prob*weight(o) {
							continue
						}
						p := packet{fam: 4, out: true, proto: pr, dst: d, sport: 40000, dport: dp, oif: oif,
							hasOwner: o.has, uid: o.uid, gid: o.gid, ct: ctNew, srcLocal: true, dstLocal: local}
						switch {
						case d.IsLoopback():
							p.src = lo4
						default:
							p.src = c.Pod4
						}
						if local && r.Intn(8) == 0 {
							p.src = bind4
						}
						special(&p)
						emit(p)
					}
				}
			}
		}
	}

	// arriving packets
	iifs := append(append([]string{"eth0"}, c.ExclIf...), c.VirtIf...)
	inDsts := []netip.Addr{c.Pod4}
	if len(c.OutInc4) > 0 && !c.OutInc4[0].Addr().IsLoopback() {
		inDsts = append(inDsts, randIn(r, c.OutInc4[0])) // e.g. traffic routed through the pod
	} else {
		inDsts = append(inDsts, netip.MustParseAddr("10.96.77.7"))
	}
	cts := []uint8{ctNew, ctEstablished}
	if c.DropInvalid {
		cts = append(cts, ctInvalid)
	}
	for _, iif := range iifs {
		for _, d := range inDsts {
			for _, dp := range dports {
				for _, pr := range protos {
					for _, ct := range cts {
						if pr == "udp" && r.Intn(3) != 0 {
							continue
						}
						p := packet{fam: 4, proto: pr, src: ext4, dst: d, sport: 40000, dport: dp, iif: iif, ct: ct, dstLocal: c.isLocal(d)}
						if r.Intn(30) == 0 {
							p.mark = c.TproxyMark
						}
						emit(p)
					}
				}
			}
		}
	}

	// v6-native destinations (ranges without a v4 pre-image)
	if c.IPv6 {
		nd := c.dsts6native(r)
		total = float64(len(nd) * len(owners) * len(dports) * len(protos))
		prob = nativeCap / total
		for _, d := range nd {
			for _, o := range owners {
				for _, dp := range dports {
					for _, pr := range protos {
						if r.Float64() >= prob {
							continue
						}
						natives = append(natives, packet{fam: 6, out: true, proto: pr, src: c.Pod6, dst: d, sport: 40000, dport: dp, oif: "eth0",
							hasOwner: o.has, uid: o.uid, gid: o.gid, ct: ctNew, srcLocal: true})
					}
				}
			}
		}
	}
	return pairs, natives
}
