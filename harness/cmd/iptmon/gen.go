package main

// Capture configurations: the harness' own model of the knobs (capCfg), a PRNG generator
// for it, and the rendering into istio's config.Config (strings, as the CLI would fill it).
// The reference policy (policy.go) reads capCfg only.

import (
	"fmt"
	"math/rand"
	"net/netip"
	"sort"
	"strings"

	"istio.io/istio/tools/common/config"
)

const dnsAgentPort = 15053 // documented istio-agent DNS proxy port

type capCfg struct {
	Stratum string

	Mode     string // REDIRECT | TPROXY
	ModeText string // what is written into the config ("" also means REDIRECT)

	ProxyPort   uint16
	CapturePort uint16
	TunnelPort  uint16
	TproxyMark  uint32

	ProxyUIDs []uint32
	ProxyGIDs []uint32

	InbAll     bool
	InbPorts   []uint16
	InbExclude []uint16

	OutAll      bool
	OutInc4     []netip.Prefix
	OutInc6     []netip.Prefix
	OutExc4     []netip.Prefix
	OutExc6     []netip.Prefix
	OutPortsInc []uint16
	OutPortsExc []uint16

	ExclIf []string
	VirtIf []string

	DNS        bool
	CaptureAll bool
	DNS4       []netip.Addr
	DNS6       []netip.Addr

	DropInvalid   bool
	IPv6          bool
	DualStackFlag bool

	OGAll bool // OUTBOUND_OWNER_GROUPS == "*"
	OGInc []uint32
	OGExc []uint32

	Loopback4 string // HOST_IPV4_LOOPBACK_CIDR

	CatchAllCIDR bool // a v4 include range that contains the loopback block without starting inside it
	Symmetric    bool // every v4 item has its v6 image and vice versa: v4/v6 fates are comparable
	Pod4         netip.Addr
	Pod6         netip.Addr
}

// phi is the v4 -> v6 image used for the parity clause: fd00::/96 + the 32 address bits;
// the loopback specials map to their documented v6 counterparts.
func phi(a netip.Addr) (netip.Addr, bool) {
	switch a.String() {
	case "127.0.0.1":
		return lo6, true
	case "127.0.0.6":
		return netip.MustParseAddr("::6"), true
	}
	if a.IsLoopback() {
		return netip.Addr{}, false
	}
	b := a.As4()
	var x [16]byte
	x[0] = 0xfd
	copy(x[12:], b[:])
	return netip.AddrFrom16(x), true
}

func phiPfx(p netip.Prefix) netip.Prefix {
	// host bits (if the user left any) are kept so both families see the same text shape
	b := p.Addr().As4()
	var x [16]byte
	x[0] = 0xfd
	copy(x[12:], b[:])
	return netip.PrefixFrom(netip.AddrFrom16(x), 96+p.Bits())
}

var portPool = []uint16{80, 443, 8080, 9090, 3306, 22, 53, 15020, 15021, 15090, 15001, 15006, 15008, 31000, 32000, 65535, 1, 5000, 4000, 6000, 7000, 8443}

func pickPorts(r *rand.Rand, n int) []uint16 {
	seen := map[uint16]bool{}
	var out []uint16
	for len(out) < n {
		var p uint16
		if r.Intn(4) == 0 {
			p = uint16(1 + r.Intn(65535))
		} else {
			p = portPool[r.Intn(len(portPool))]
		}
		if !seen[p] {
			seen[p] = true
			out = append(out, p)
		}
	}
	return out
}

var v4Bases = []string{"10.0.0.0", "10.96.0.0", "10.244.0.0", "172.16.0.0", "172.30.0.0", "192.168.0.0", "100.64.0.0", "34.117.0.0", "9.9.0.0", "1.1.0.0"}
var v4Lens = []int{8, 12, 16, 16, 20, 24, 24, 28, 30, 31, 32}

func randV4Prefix(r *rand.Rand) netip.Prefix {
	base := netip.MustParseAddr(v4Bases[r.Intn(len(v4Bases))]).As4()
	bits := v4Lens[r.Intn(len(v4Lens))]
	// randomise the bits below the base's natural prefix
	base[1] ^= byte(r.Intn(4))
	base[2] = byte(r.Intn(256))
	base[3] = byte(r.Intn(256))
	a := netip.AddrFrom4(base)
	p := netip.PrefixFrom(a, bits)
	if r.Intn(5) != 0 {
		p = p.Masked() // most users write the network address; some leave host bits
	}
	return p
}

func subPrefix(r *rand.Rand, p netip.Prefix) netip.Prefix {
	max := p.Addr().BitLen()
	if p.Bits() >= max {
		return p
	}
	bits := p.Bits() + 1 + r.Intn(min(8, max-p.Bits()))
	a := randIn(r, p)
	return netip.PrefixFrom(a, bits).Masked()
}

func superPrefix(r *rand.Rand, p netip.Prefix) netip.Prefix {
	if p.Bits() <= 4 {
		return p
	}
	bits := p.Bits() - 1 - r.Intn(min(4, p.Bits()-4))
	return netip.PrefixFrom(p.Addr(), bits).Masked()
}

func randIn(r *rand.Rand, p netip.Prefix) netip.Addr {
	b := p.Masked().Addr().AsSlice()
	for i := p.Bits(); i < len(b)*8; i++ {
		if r.Intn(2) == 1 {
			b[i/8] |= 1 << (7 - uint(i%8))
		}
	}
	a, _ := netip.AddrFromSlice(b)
	return a
}

var v6Natives = []string{"2001:db8::/32", "2001:db8:a::/48", "2001:db8:a:b::/64", "fd12::/16", "2001:db8::5/128", "2600:1f00::/24", "fd00:10:96::/112"}

func randV6Native(r *rand.Rand) netip.Prefix {
	return netip.MustParsePrefix(v6Natives[r.Intn(len(v6Natives))])
}

func pickIDs(r *rand.Rand, n int, pool []uint32) []uint32 {
	seen := map[uint32]bool{}
	var out []uint32
	for len(out) < n {
		v := pool[r.Intn(len(pool))]
		if !seen[v] {
			seen[v] = true
			out = append(out, v)
		}
	}
	return out
}

// strata: mode(2) x dns(3) x ip(3) x owner-groups(3) = 54; the case index selects the stratum so
// that every prefix of the case list covers the cross evenly.
func genCfg(r *rand.Rand, idx int) *capCfg {
	c := &capCfg{ProxyPort: 15001, CapturePort: 15006, TunnelPort: 15008, TproxyMark: 1337, Loopback4: "127.0.0.1/32"}
	s := idx % 54
	modeS, dnsS, ipS, ogS := s%2, (s/2)%3, (s/6)%3, (s/18)%3

	if modeS == 0 {
		c.Mode = "REDIRECT"
		if r.Intn(2) == 0 {
			c.ModeText = "REDIRECT"
		}
	} else {
		c.Mode, c.ModeText = "TPROXY", "TPROXY"
	}
	if r.Intn(8) == 0 {
		c.ProxyPort, c.CapturePort = 15101, 15106
	}
	if r.Intn(10) == 0 {
		c.TunnelPort = 15108
	}
	if c.Mode == "TPROXY" && r.Intn(6) == 0 {
		c.TproxyMark = 1437
	}

	// proxy identity
	idPool := []uint32{1337, 1338, 3, 4, 1, 2, 101, 65534}
	c.ProxyUIDs = pickIDs(r, 1+weighted(r, 6, 3, 1), idPool)
	switch r.Intn(3) {
	case 0:
		c.ProxyGIDs = append([]uint32(nil), c.ProxyUIDs...)
	default:
		c.ProxyGIDs = pickIDs(r, 1+weighted(r, 6, 3, 1), idPool)
	}

	// ip families
	switch ipS {
	case 0:
		c.IPv6 = false
	case 1:
		c.IPv6, c.Symmetric = true, true
	case 2:
		c.IPv6 = true
	}
	c.DualStackFlag = c.IPv6 && r.Intn(2) == 0

	// outbound ranges
	switch weighted(r, 4, 2, 5) {
	case 0:
		c.OutAll = true
	case 1: // empty: no outbound by range
	case 2:
		n := 1 + weighted(r, 5, 3, 1)
		for i := 0; i < n; i++ {
			c.OutInc4 = append(c.OutInc4, randV4Prefix(r))
		}
		if r.Intn(25) == 0 {
			c.OutInc4 = append(c.OutInc4, netip.MustParsePrefix("127.1.2.3/32"))
			c.Symmetric = false
		}
		if r.Intn(8) == 0 {
			// catch-all ranges written as CIDRs (the same policy as "*", except that they are lists): they straddle the
			// loopback block without starting inside it
			switch r.Intn(4) {
			case 0:
				c.OutInc4 = []netip.Prefix{netip.MustParsePrefix("0.0.0.0/0")}
			case 1:
				c.OutInc4 = []netip.Prefix{netip.MustParsePrefix("0.0.0.0/1"), netip.MustParsePrefix("128.0.0.0/1")}
			case 2:
				c.OutInc4 = append(c.OutInc4, netip.MustParsePrefix("64.0.0.0/2"))
			default:
				c.OutInc4 = append(c.OutInc4, netip.MustParsePrefix("126.0.0.0/7"))
			}
			c.Symmetric = false
			c.CatchAllCIDR = true
		}
	}
	if r.Intn(5) < 3 {
		n := 1 + weighted(r, 5, 3)
		for i := 0; i < n; i++ {
			var p netip.Prefix
			switch {
			case len(c.OutInc4) > 0 && r.Intn(10) < 5:
				p = subPrefix(r, c.OutInc4[r.Intn(len(c.OutInc4))])
			case len(c.OutInc4) > 0 && r.Intn(10) < 2:
				p = c.OutInc4[r.Intn(len(c.OutInc4))]
			case len(c.OutInc4) > 0 && r.Intn(10) < 2:
				p = superPrefix(r, c.OutInc4[r.Intn(len(c.OutInc4))])
			default:
				p = randV4Prefix(r)
			}
			if p.Addr().IsLoopback() {
				continue
			}
			c.OutExc4 = append(c.OutExc4, p)
		}
	}
	if c.IPv6 {
		if c.Symmetric {
			for _, p := range c.OutInc4 {
				c.OutInc6 = append(c.OutInc6, phiPfx(p))
			}
			for _, p := range c.OutExc4 {
				c.OutExc6 = append(c.OutExc6, phiPfx(p))
			}
		} else {
			// asymmetric: independent subsets of images plus native v6 ranges
			for _, p := range c.OutInc4 {
				if !p.Addr().IsLoopback() && r.Intn(2) == 0 {
					c.OutInc6 = append(c.OutInc6, phiPfx(p))
				}
			}
			if !c.OutAll && len(c.OutInc4) > 0 && r.Intn(2) == 0 {
				c.OutInc6 = append(c.OutInc6, randV6Native(r))
			}
			if c.CatchAllCIDR && r.Intn(2) == 0 {
				c.OutInc6 = append(c.OutInc6, netip.MustParsePrefix("::/0"))
			}
			for _, p := range c.OutExc4 {
				if r.Intn(2) == 0 {
					c.OutExc6 = append(c.OutExc6, phiPfx(p))
				}
			}
			if r.Intn(3) == 0 {
				if len(c.OutInc6) > 0 && r.Intn(2) == 0 {
					c.OutExc6 = append(c.OutExc6, subPrefix(r, c.OutInc6[r.Intn(len(c.OutInc6))]))
				} else {
					c.OutExc6 = append(c.OutExc6, randV6Native(r))
				}
			}
			if r.Intn(6) == 0 { // v6-only configuration of ranges
				c.OutInc4, c.OutExc4 = nil, nil
			}
		}
	}

	// outbound ports
	if r.Intn(3) == 0 {
		c.OutPortsInc = pickPorts(r, 1+r.Intn(2))
	}
	if r.Intn(2) == 0 {
		c.OutPortsExc = pickPorts(r, 1+r.Intn(2))
		if len(c.OutPortsInc) > 0 && r.Intn(4) == 0 {
			c.OutPortsExc[0] = c.OutPortsInc[0]
		}
	}

	// inbound ports
	switch weighted(r, 5, 2, 4) {
	case 0:
		c.InbAll = true
	case 1:
	case 2:
		c.InbPorts = pickPorts(r, 1+r.Intn(3))
	}
	if (c.InbAll && r.Intn(4) != 0) || (!c.InbAll && r.Intn(5) == 0) {
		c.InbExclude = pickPorts(r, 1+r.Intn(3))
		if len(c.InbPorts) > 0 && r.Intn(2) == 0 {
			c.InbExclude[0] = c.InbPorts[0]
		}
	}

	// interfaces
	if r.Intn(3) == 0 {
		c.ExclIf = []string{"not-istio-nic"}
		if r.Intn(3) == 0 {
			c.ExclIf = append(c.ExclIf, "docker0")
		}
	}
	if r.Intn(6) == 0 {
		c.VirtIf = []string{"virt0"}
		if r.Intn(2) == 0 {
			c.VirtIf = append(c.VirtIf, "virt1")
		}
	}

	// pod addresses: often inside the first included range, as in a real cluster
	c.Pod4 = netip.MustParseAddr(fmt.Sprintf("10.244.%d.%d", 1+r.Intn(200), 2+r.Intn(250)))
	if len(c.OutInc4) > 0 && c.OutInc4[0].Bits() <= 24 && !c.OutInc4[0].Addr().IsLoopback() && r.Intn(2) == 0 {
		c.Pod4 = randIn(r, c.OutInc4[0])
	}
	c.Pod6, _ = phi(c.Pod4)

	// DNS
	switch dnsS {
	case 0:
		// off; stale server lists must not matter
		if r.Intn(4) == 0 {
			c.DNS4 = []netip.Addr{netip.MustParseAddr("10.96.0.10")}
		}
		if r.Intn(6) == 0 {
			c.CaptureAll = true // documented as effective only together with redirect-dns
		}
	case 1:
		c.DNS = true
		n := 1 + r.Intn(2)
		for i := 0; i < n; i++ {
			var a netip.Addr
			switch {
			case r.Intn(4) == 0:
				a = netip.MustParseAddr("127.0.0.53")
			case len(c.OutInc4) > 0 && r.Intn(3) == 0:
				a = randIn(r, c.OutInc4[r.Intn(len(c.OutInc4))])
			case len(c.OutExc4) > 0 && r.Intn(3) == 0:
				a = randIn(r, c.OutExc4[r.Intn(len(c.OutExc4))])
			case r.Intn(2) == 0:
				a = netip.MustParseAddr("10.96.0.10")
			default:
				a = netip.MustParseAddr("8.8.8.8")
			}
			if !hasAddr(c.DNS4, a) && a != c.Pod4 {
				c.DNS4 = append(c.DNS4, a)
			}
		}
		if c.IPv6 {
			if c.Symmetric {
				for _, a := range c.DNS4 {
					if b, ok := phi(a); ok {
						c.DNS6 = append(c.DNS6, b)
					} else {
						c.Symmetric = false // a 127.x resolver has no v6 counterpart
					}
				}
			} else {
				if r.Intn(2) == 0 {
					c.DNS6 = append(c.DNS6, netip.MustParseAddr("2001:db8::53"))
				}
				if r.Intn(4) == 0 {
					c.DNS4 = nil
				}
			}
		}
		if len(c.DNS4) == 0 && len(c.DNS6) == 0 {
			c.DNS4 = []netip.Addr{netip.MustParseAddr("10.96.0.10")}
			if c.Symmetric {
				b, _ := phi(c.DNS4[0])
				c.DNS6 = []netip.Addr{b}
			}
		}
	case 2:
		c.DNS, c.CaptureAll = true, true
		if r.Intn(3) == 0 {
			c.DNS4 = []netip.Addr{netip.MustParseAddr("10.96.0.10")}
			if c.Symmetric {
				b, _ := phi(c.DNS4[0])
				c.DNS6 = []netip.Addr{b}
			}
		}
	}

	c.DropInvalid = r.Intn(5) == 0

	// owner groups
	gidPool := []uint32{202, 888, 5000, 1000, 1337, 50}
	switch ogS {
	case 0:
		c.OGAll = true
	case 1:
		c.OGAll = true
		c.OGExc = pickIDs(r, 1+r.Intn(2), gidPool)
	case 2:
		c.OGInc = pickIDs(r, 1+r.Intn(3), gidPool)
		if r.Intn(5) == 0 {
			c.OGExc = pickIDs(r, 1, gidPool) // documented to apply only with "*"
		}
		if r.Intn(30) == 0 {
			c.OGInc = nil // empty list: no group is captured
		}
	}

	if r.Intn(8) == 0 {
		c.Loopback4 = []string{"127.0.0.1/8", "127.0.0.0/8", "127.0.0.1/16", "127.0.0.0/24"}[r.Intn(4)]
	}

	c.Stratum = fmt.Sprintf("%s.dns%s.%s.og%s", map[int]string{0: "R", 1: "T"}[modeS], map[int]string{0: "off", 1: "srv", 2: "all"}[dnsS],
		map[int]string{0: "v4", 1: "dualsym", 2: "dualasym"}[ipS], map[int]string{0: "all", 1: "excl", 2: "incl"}[ogS])
	return c
}

func weighted(r *rand.Rand, w ...int) int {
	t := 0
	for _, x := range w {
		t += x
	}
	n := r.Intn(t)
	for i, x := range w {
		if n < x {
			return i
		}
		n -= x
	}
	return len(w) - 1
}

func hasAddr(l []netip.Addr, a netip.Addr) bool {
	for _, x := range l {
		if x == a {
			return true
		}
	}
	return false
}

func joinPorts(p []uint16, r *rand.Rand) string {
	s := make([]string, len(p))
	for i, v := range p {
		s[i] = fmt.Sprint(v)
	}
	return decorate(strings.Join(s, ","), r)
}

func joinIDs(p []uint32) string {
	s := make([]string, len(p))
	for i, v := range p {
		s[i] = fmt.Sprint(v)
	}
	return strings.Join(s, ",")
}

// decorate adds the harmless list noise users write (trailing comma), which the documented
// list syntax ignores.
func decorate(s string, r *rand.Rand) string {
	if s != "" && r.Intn(8) == 0 {
		return s + ","
	}
	return s
}

func joinPfx(r *rand.Rand, lists ...[]netip.Prefix) string {
	var s []string
	for _, l := range lists {
		for _, p := range l {
			s = append(s, p.String())
		}
	}
	// interleave families in a PRNG-chosen (but deterministic) order
	if len(s) > 1 && r.Intn(2) == 0 {
		sort.Strings(s)
	}
	return decorate(strings.Join(s, ","), r)
}

func addrStrings(l []netip.Addr) []string {
	var s []string
	for _, a := range l {
		s = append(s, a.String())
	}
	return s
}

// render fills istio's Config the way the CLI/env would.
func (c *capCfg) render(r *rand.Rand) *config.Config {
	k := config.DefaultConfig()
	k.ProxyPort = fmt.Sprint(c.ProxyPort)
	k.InboundCapturePort = fmt.Sprint(c.CapturePort)
	k.InboundTunnelPort = fmt.Sprint(c.TunnelPort)
	k.InboundTProxyMark = fmt.Sprint(c.TproxyMark)
	k.ProxyUID = joinIDs(c.ProxyUIDs)
	k.ProxyGID = joinIDs(c.ProxyGIDs)
	k.InboundInterceptionMode = c.ModeText
	if c.InbAll {
		k.InboundPortsInclude = "*"
	} else {
		k.InboundPortsInclude = joinPorts(c.InbPorts, r)
	}
	k.InboundPortsExclude = joinPorts(c.InbExclude, r)
	if c.OutAll {
		k.OutboundIPRangesInclude = "*"
	} else {
		k.OutboundIPRangesInclude = joinPfx(r, c.OutInc4, c.OutInc6)
	}
	k.OutboundIPRangesExclude = joinPfx(r, c.OutExc4, c.OutExc6)
	k.OutboundPortsInclude = joinPorts(c.OutPortsInc, r)
	k.OutboundPortsExclude = joinPorts(c.OutPortsExc, r)
	k.ExcludeInterfaces = strings.Join(c.ExclIf, ",")
	k.RerouteVirtualInterfaces = strings.Join(c.VirtIf, ",")
	k.RedirectDNS = c.DNS
	k.CaptureAllDNS = c.CaptureAll
	k.DNSServersV4 = addrStrings(c.DNS4)
	k.DNSServersV6 = addrStrings(c.DNS6)
	k.DropInvalid = c.DropInvalid
	k.EnableIPv6 = c.IPv6
	k.DualStack = c.DualStackFlag
	if c.OGAll {
		k.OwnerGroupsInclude = "*"
	} else {
		k.OwnerGroupsInclude = joinIDs(c.OGInc)
	}
	k.OwnerGroupsExclude = joinIDs(c.OGExc)
	k.HostIPv4LoopbackCidr = c.Loopback4
	k.HostIP = c.Pod4
	return k
}
