package main

// Reference capture policy, written from the property statement (C20) and the documented
// meaning of the istio-iptables options (flag help texts). It never looks at the rules.
//
// For one packet it yields: a packet class (evidence only), optionally the set of
// acceptable outcomes (asserted clause) and a set of forbidden outcomes. Where the property
// and the option documentation are silent or contradict each other, nothing is asserted
// ("unspecified"); those packets still take part in the v4/v6 parity comparison and in the
// forbidden-outcome checks.
//
// Outcome vocabulary (capCfg.category): NONE, OUT (redirected to the proxy's outbound port),
// IN (REDIRECT/TPROXY to the inbound capture port), DIVERT (routed to the proxy by the
// tproxy mark), DNS (redirected to the agent's DNS port), DROP, and *:other.

import "net/netip"

type expect struct {
	class     string
	clause    string   // asserted clause; "" = unspecified
	want      []string // acceptable categories when clause != ""
	forbid    []string
	forbidWhy []string
}

func inU32(l []uint32, v uint32) bool {
	for _, x := range l {
		if x == v {
			return true
		}
	}
	return false
}

func inU16(l []uint16, v uint16) bool {
	for _, x := range l {
		if x == v {
			return true
		}
	}
	return false
}

func inPfx(l []netip.Prefix, a netip.Addr) bool {
	for _, p := range l {
		if p.Contains(a) {
			return true
		}
	}
	return false
}

func inStr(l []string, v string) bool {
	for _, x := range l {
		if x == v {
			return true
		}
	}
	return false
}

func (c *capCfg) isProxy(p *packet) bool {
	return p.hasOwner && (inU32(c.ProxyUIDs, p.uid) || inU32(c.ProxyGIDs, p.gid))
}

func (c *capCfg) includeHasLoopback() bool {
	for _, l := range [][]netip.Prefix{c.OutInc4, c.OutInc6} {
		for _, p := range l {
			if p.Addr().IsLoopback() {
				return true
			}
		}
	}
	return false
}

// groupPass: 1 = the owner's group is among those whose traffic is to be redirected,
// 0 = it is not, -1 = the documentation does not decide.
func (c *capCfg) groupPass(gid uint32) int {
	if c.OGAll {
		if inU32(c.OGExc, gid) {
			return 0
		}
		return 1
	}
	if inU32(c.OGInc, gid) {
		if inU32(c.OGExc, gid) {
			return -1 // exclude list "only applies when '*'": not asserted either way
		}
		return 1
	}
	return 0
}

func (c *capCfg) dnsServer(p *packet) bool {
	if !c.DNS {
		return false
	}
	if c.CaptureAll {
		return true
	}
	if p.fam == 4 {
		return hasAddr(c.DNS4, p.dst)
	}
	return hasAddr(c.DNS6, p.dst)
}

func isBindAddr(a netip.Addr) bool { // 127.0.0.6 / ::6: the proxy's inbound passthrough bind address
	s := a.String()
	return s == "127.0.0.6" || s == "::6"
}

func (c *capCfg) policy(p *packet) expect {
	var e expect
	proxy := c.isProxy(p)
	app := p.hasOwner && !proxy
	tcpudp := p.proto == "tcp" || p.proto == "udp"

	// clause 1 (loop): nothing the proxy sends is ever handed back to the proxy's outbound
	// port; nor are the proxy's own DNS queries handed back to the agent.
	if p.out && proxy {
		e.forbid = append(e.forbid, "OUT", "DNS")
		e.forbidWhy = append(e.forbidWhy, "proxy-loop", "proxy-dns-loop")
	}
	dnsEligible := p.out && app && tcpudp && p.dport == 53 && c.dnsServer(p)
	// DNS capture is documented as: DNS traffic (port 53) of the application to the resolvers
	// (or to anywhere with capture-all). Nothing else may end up at the agent's DNS port.
	// Packets without a socket have no owner to classify: nothing asserted.
	if !dnsEligible && !(p.out && proxy) && (p.hasOwner || !p.out) {
		e.forbid = append(e.forbid, "DNS")
		e.forbidWhy = append(e.forbidWhy, "dns-capture-scope")
	}

	// --drop-invalid is documented to drop conntrack-INVALID packets; dropping is not a
	// redirection and the property does not speak about it.
	if c.DropInvalid && p.ct == ctInvalid {
		e.class = "invalid-with-drop-invalid"
		return e
	}

	if p.out {
		switch {
		case !p.hasOwner:
			e.class = "out-nosocket"
			return e
		case inStr(c.ExclIf, p.oif):
			// "Neither inbound nor outbound traffic will be captured."
			e.class = "out-excluded-if"
			e.clause, e.want = "excluded-interface", []string{"NONE"}
			return e
		case p.ct != ctNew || p.mark != 0 || p.connmark != 0 || isBindAddr(p.src):
			e.class = "out-special"
			return e
		case proxy:
			if p.oif == "lo" {
				e.class = "proxy-lo"
			} else {
				e.class = "proxy-out"
			}
			return e
		}
		// application traffic
		if dnsEligible {
			e.class = "app-dns"
			switch g := c.groupPass(p.gid); {
			case !inU16(c.OutPortsExc, 53) && g == 1:
				e.clause, e.want = "dns-capture", []string{"DNS"}
			case g == 0 && p.proto == "tcp":
				// application outbound TCP of a group that is not to be captured is not redirected at all - the
				// property's "redirected iff" has no exception for port 53 (UDP is not the property's subject)
				e.clause, e.want = "app-outbound-tcp53-of-group-outside-capture", []string{"NONE"}
			}
			return e
		}
		if p.oif == "lo" {
			e.class = "app-lo"
			if c.includeHasLoopback() {
				return e // an explicitly included loopback range contradicts "left alone"
			}
			e.clause, e.want = "self-loopback", []string{"NONE"}
			if c.DNS && p.proto == "tcp" && p.dport == 53 {
				// same expectation, own key: application TCP to port 53 of one of its own
				// addresses (not a configured resolver, else it was app-dns above) while DNS
				// capture is enabled
				e.class = "app-lo-tcp53-dns-capture"
				e.clause = "self-loopback-tcp53-with-dns-capture"
			}
			return e
		}
		if p.proto != "tcp" {
			e.class = "app-out-udp"
			return e
		}
		e.class = "app-out-tcp"
		g := c.groupPass(p.gid)
		if g < 0 {
			return e
		}
		inc, exc := c.OutInc4, c.OutExc4
		if p.fam == 6 {
			inc, exc = c.OutInc6, c.OutExc6
		}
		red := (c.OutAll || inPfx(inc, p.dst) || inU16(c.OutPortsInc, p.dport)) &&
			!inPfx(exc, p.dst) && !inU16(c.OutPortsExc, p.dport) && g == 1
		e.clause = "app-outbound"
		if red {
			e.want = []string{"OUT"}
		} else {
			e.want = []string{"NONE"}
		}
		return e
	}

	// arriving packets
	switch {
	case inStr(c.ExclIf, p.iif):
		e.class = "in-excluded-if"
		e.clause, e.want = "excluded-interface", []string{"NONE"}
		return e
	case inStr(c.VirtIf, p.iif):
		e.class = "in-virt-if"
		return e
	case p.proto != "tcp":
		e.class = "in-udp"
		return e
	case p.mark != 0 || p.connmark != 0 || (p.ct != ctNew && p.ct != ctEstablished):
		e.class = "in-special"
		return e
	case p.ct == ctEstablished && c.Mode != "TPROXY":
		e.class = "in-established-nat" // nat is not consulted again; nothing to judge
		return e
	case p.dport == c.TunnelPort:
		e.class = "in-tunnel-port"
		return e
	}
	e.class = "in-tcp"
	if p.ct == ctEstablished {
		e.class = "in-tcp-established"
	}
	captured := false
	switch {
	case c.InbAll:
		captured = !inU16(c.InbExclude, p.dport)
	case inU16(c.InbPorts, p.dport):
		if inU16(c.InbExclude, p.dport) {
			return e // exclude list documented as "only applies when '*'": contradiction, not asserted
		}
		captured = true
	}
	e.clause = "inbound"
	if captured {
		e.want = []string{"IN"}
		if p.ct == ctEstablished {
			e.want = []string{"IN", "DIVERT"}
		}
	} else {
		e.want = []string{"NONE"}
	}
	return e
}
