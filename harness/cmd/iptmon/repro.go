package main

// Minimal reproductions against the real configurator, outside the PRNG stream:
//
//	IPTMON_REPRO=tcp53 /verif/bin/iptmon
//
// prints the generated IPv4 rules and the path of the witness packet.

import (
	"fmt"
	"net/netip"
	"os"
	"strings"

	"istio.io/istio/pkg/log"
	"istio.io/istio/tools/common/config"
	"istio.io/istio/tools/istio-iptables/pkg/capture"
)

func repro(which string) {
	for _, s := range log.Scopes() {
		s.SetOutputLevel(log.NoneLevel)
	}
	switch which {
	case "tcp53":
		// the default sidecar configuration with DNS capture switched on
		k := config.DefaultConfig()
		k.ProxyUID, k.ProxyGID = "1337", "1337"
		k.InboundPortsInclude = "*"
		k.OutboundIPRangesInclude = "*"
		k.RedirectDNS = true
		k.DNSServersV4 = []string{"10.96.0.10"}
		d := newRecDeps()
		conf, err := capture.NewIptablesConfigurator(k, d)
		if err != nil {
			fmt.Println(err)
			os.Exit(2)
		}
		if err := conf.Run(); err != nil {
			fmt.Println(err)
			os.Exit(2)
		}
		text := strings.Join(d.restore["iptables-restore"], "\n")
		fmt.Println(text)
		rs, e := loadRules(4, d.restore["iptables-restore"])
		if e != nil {
			fmt.Println(e.msg)
			os.Exit(2)
		}
		pod := netip.MustParseAddr("10.244.1.7")
		for _, dport := range []uint16{53, 8080} {
			p := packet{fam: 4, out: true, proto: "tcp", src: pod, dst: pod, sport: 40000, dport: dport, oif: "lo",
				hasOwner: true, uid: 1000, gid: 1000, ct: ctNew, srcLocal: true, dstLocal: true}
			f, tr := journey(rs, p, 1337, true)
			fmt.Printf("\napplication (uid 1000) -> its own pod IP over lo: %s\n  fate %s\n  matched:\n    %s\n", pktString(&p), f, strings.Join(tr, "\n    "))
		}
	default:
		fmt.Println("unknown IPTMON_REPRO; known: tcp53")
		os.Exit(2)
	}
}
