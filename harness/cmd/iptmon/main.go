// Engine iptmon — property C20: traffic-capture rules redirect exactly the intended packets
// and never loop.
//
// The real tools/istio-iptables/pkg/capture configurator is run on PRNG-generated capture
// configurations with a recording Dependencies implementation; the iptables-restore input
// it produces for IPv4 and IPv6 is loaded into a reference netfilter interpreter (nf.go,
// journey.go) and evaluated over boundary-value packets (packets.go); each packet's fate is
// compared with a reference policy written from the property statement (policy.go), and
// the IPv4 and IPv6 fates of corresponding packets are compared with each other.
package main

import (
	"bytes"
	"encoding/json"
	"fmt"
	"io"
	"os"
	"sort"
	"strings"

	"istio.io/istio/pkg/log"
	"istio.io/istio/tools/istio-iptables/pkg/capture"
	"istio.io/istio/tools/istio-iptables/pkg/constants"
	dep "istio.io/istio/tools/istio-iptables/pkg/dependencies"
	"verifharness/internal/vh"
)

// recDeps records what the configurator would feed to the iptables binaries.
type recDeps struct {
	restore map[string][]string // restore binary -> stdin texts, in order
	args    map[string][]string
	cmds    []string // discrete iptables invocations
	saves   int
}

func newRecDeps() *recDeps {
	return &recDeps{restore: map[string][]string{}, args: map[string][]string{}}
}

func (d *recDeps) Run(_ *log.Scope, _ bool, cmd constants.IptablesCmd, v *dep.IptablesVersion, stdin io.ReadSeeker, args ...string) (*bytes.Buffer, error) {
	switch cmd {
	case constants.IPTablesSave:
		d.saves++ // pristine network namespace: nothing installed yet
		return &bytes.Buffer{}, nil
	case constants.IPTablesRestore:
		var text []byte
		if stdin != nil {
			text, _ = io.ReadAll(stdin)
		}
		k := v.DetectedRestoreBinary
		d.restore[k] = append(d.restore[k], string(text))
		d.args[k] = append(d.args[k], strings.Join(args, " "))
	default:
		d.cmds = append(d.cmds, v.DetectedBinary+" "+strings.Join(args, " "))
	}
	return &bytes.Buffer{}, nil
}

func (d *recDeps) DetectIptablesVersion(ipV6 bool) (dep.IptablesVersion, error) {
	if ipV6 {
		return dep.IptablesVersion{DetectedBinary: "ip6tables", DetectedSaveBinary: "ip6tables-save", DetectedRestoreBinary: "ip6tables-restore"}, nil
	}
	return dep.IptablesVersion{DetectedBinary: "iptables", DetectedSaveBinary: "iptables-save", DetectedRestoreBinary: "iptables-restore"}, nil
}

func loadRules(fam int, texts []string) (*ruleset, *nfError) {
	rs := &ruleset{fam: fam, tables: map[string]*nfTable{}, seen: map[string]bool{}}
	for _, t := range texts {
		if e := rs.load(t); e != nil {
			return rs, e
		}
	}
	if e := rs.validate(); e != nil {
		return rs, e
	}
	return rs, nil
}

func pktString(p *packet) string {
	dir := "in"
	if p.out {
		dir = "out"
	}
	own := "nosocket"
	if p.hasOwner {
		own = fmt.Sprintf("uid=%d,gid=%d", p.uid, p.gid)
	}
	if !p.out {
		own = "-"
	}
	ct := map[uint8]string{ctNew: "NEW", ctEstablished: "ESTABLISHED", ctRelated: "RELATED", ctInvalid: "INVALID"}[p.ct]
	return fmt.Sprintf("v%d %s %s %s:%d->%s:%d iif=%q oif=%q owner=%s ct=%s mark=%d connmark=%d", p.fam, dir, p.proto, p.src, p.sport, p.dst, p.dport,
		p.iif, p.oif, own, ct, p.mark, p.connmark)
}

type caseStats struct {
	packets, asserted, unspecified, parity int
	wantCaptured, wantNone, proxyPkts      int
	fcf                                    map[string]bool
	reported                               map[string]bool
}

func runCase(c *vh.Ctx, idx int) {
	r := c.Rng("cfg", idx)
	cc := genCfg(r, idx)
	icfg := cc.render(r)
	if err := icfg.Validate(); err != nil {
		vh.Abort("generated configuration does not validate: %v", err)
	}
	cfgJSON := json.RawMessage(icfg.String())

	deps := newRecDeps()
	conf, err := capture.NewIptablesConfigurator(icfg, deps)
	if err != nil {
		vh.Abort("NewIptablesConfigurator: %v", err)
	}
	if err := conf.Run(); err != nil {
		vh.Abort("configurator Run failed on a valid configuration: %v", err)
	}
	if len(deps.cmds) > 0 {
		vh.Abort("configurator issued discrete iptables commands on a pristine namespace (not modelled): %v", deps.cmds[0])
	}
	if len(deps.restore["iptables-restore"]) == 0 {
		c.Violation("no-ipv4-restore", "configurator produced no iptables-restore input", map[string]any{"config": cfgJSON})
		return
	}
	for k, as := range deps.args {
		for _, a := range as {
			if a != "--noflush" {
				c.Count("restore_args_unexpected", 1)
				_ = k
			}
		}
	}

	sets := map[int]*ruleset{}
	fams := []int{4}
	if cc.IPv6 {
		fams = append(fams, 6)
	} else if len(deps.restore["ip6tables-restore"]) > 0 {
		c.Count("v6_rules_with_ipv6_disabled", 1)
	}
	for _, fam := range fams {
		bin := "iptables-restore"
		if fam == 6 {
			bin = "ip6tables-restore"
		}
		rs, e := loadRules(fam, deps.restore[bin])
		if e != nil {
			if e.kind == errUnknown {
				vh.Abort("reference interpreter cannot model the v%d rule set: %s", fam, e.msg)
			}
			c.Violation(fmt.Sprintf("restore-rejected fam=v%d reason=%s", fam, e.what),
				fmt.Sprintf("the generated v%d rule set would be refused at load time: %s", fam, e.msg),
				map[string]any{"config": cfgJSON, "rules": strings.Join(deps.restore[bin], "\n")})
			return
		}
		sets[fam] = rs
		c.Count("rules_parsed", rs.nRules)
		c.Max("rules_per_ruleset", rs.nRules)
		for k := range rs.seen {
			c.SetAdd("rule_vocabulary", k)
		}
	}

	pairs, natives := cc.genPackets(c.Rng("pkt", idx))
	st := &caseStats{fcf: map[string]bool{}, reported: map[string]bool{}}

	judge := func(p *packet) (fate, string) {
		rs := sets[p.fam]
		f, _ := journey(rs, *p, cc.TproxyMark, false)
		cat := cc.category(f)
		e := cc.policy(p)
		st.packets++
		st.fcf[fmt.Sprintf("%s|%s|v%d|%s", cc.Stratum, e.class, p.fam, cat)] = true
		if cc.isProxy(p) && p.out {
			st.proxyPkts++
		}
		report := func(key, msg string) {
			if st.reported[key] {
				c.Count("violating_packets_suppressed", 1)
				return
			}
			st.reported[key] = true
			_, tr := journey(rs, *p, cc.TproxyMark, true)
			bin := "iptables-restore"
			if p.fam == 6 {
				bin = "ip6tables-restore"
			}
			c.Violation(key, msg+" | packet: "+pktString(p)+" | fate: "+f.String(), map[string]any{
				"config": cfgJSON, "packet": pktString(p), "fate": f.String(), "category": cat, "matched_rules": tr,
				"rules": strings.Split(strings.Join(deps.restore[bin], "\n"), "\n"),
			})
		}
		if e.clause != "" {
			st.asserted++
			ok := false
			for _, w := range e.want {
				if w == cat {
					ok = true
				}
			}
			if e.want[0] == "NONE" {
				st.wantNone++
			} else {
				st.wantCaptured++
			}
			if !ok {
				report(fmt.Sprintf("clause=%s fam=v%d want=%s got=%s", e.clause, p.fam, e.want[0], cat),
					fmt.Sprintf("clause %q: expected %v, rules give %s", e.clause, e.want, cat))
			}
		} else {
			st.unspecified++
		}
		for i, fb := range e.forbid {
			if fb == cat {
				report(fmt.Sprintf("clause=%s fam=v%d got=%s", e.forbidWhy[i], p.fam, cat),
					fmt.Sprintf("clause %q: outcome %s is forbidden for this packet", e.forbidWhy[i], cat))
			}
		}
		return f, cat
	}

	for i := range pairs {
		f4, _ := judge(&pairs[i].p4)
		if pairs[i].p6 != nil {
			f6, _ := judge(pairs[i].p6)
			if cc.Symmetric {
				st.parity++
				if f4 != f6 {
					key := fmt.Sprintf("clause=v4-v6-parity v4=%s v6=%s", cc.category(f4), cc.category(f6))
					if cc.category(f4) == cc.category(f6) {
						key = "clause=v4-v6-parity same-category-different-marks"
					}
					if !st.reported[key] {
						st.reported[key] = true
						_, t4 := journey(sets[4], pairs[i].p4, cc.TproxyMark, true)
						_, t6 := journey(sets[6], *pairs[i].p6, cc.TproxyMark, true)
						c.Violation(key, fmt.Sprintf("IPv4 and IPv6 rule sets decide differently on corresponding packets: v4 %s => %s, v6 %s => %s",
							pktString(&pairs[i].p4), f4, pktString(pairs[i].p6), f6),
							map[string]any{"config": cfgJSON, "v4_matched": t4, "v6_matched": t6,
								"rules_v4": strings.Split(strings.Join(deps.restore["iptables-restore"], "\n"), "\n"),
								"rules_v6": strings.Split(strings.Join(deps.restore["ip6tables-restore"], "\n"), "\n")})
					}
				}
			}
		}
	}
	for i := range natives {
		judge(&natives[i])
	}

	var evals int64
	for _, rs := range sets {
		evals += rs.evals
	}
	c.Count("configs", 1)
	c.Count("packets_evaluated", st.packets)
	c.Count("packets_asserted", st.asserted)
	c.Count("packets_unspecified", st.unspecified)
	c.Count("parity_pairs_compared", st.parity)
	c.Count("rules_interpreted", int(evals))
	c.Count("expected_captured", st.wantCaptured)
	c.Count("expected_untouched", st.wantNone)
	c.Count("proxy_owned_packets", st.proxyPkts)
	c.Max("packets_per_config", st.packets)
	keys := make([]string, 0, len(st.fcf))
	for k := range st.fcf {
		keys = append(keys, k)
	}
	sort.Strings(keys)
	for _, k := range keys {
		c.SetAdd("feature_class_fate", k)
		parts := strings.SplitN(k, "|", 2)
		c.SetAdd("class_fate", parts[1])
	}
	c.SetAdd("strata", cc.Stratum)
	if st.wantCaptured > 0 && st.wantNone > 0 && st.proxyPkts > 0 {
		c.Nontrivial(vh.Hash(icfg.String()))
	}
	c.Sample(map[string]any{"config": cfgJSON, "stratum": cc.Stratum, "packets": st.packets, "asserted": st.asserted,
		"v4_rules": sets[4].nRules, "expected_captured": st.wantCaptured, "expected_untouched": st.wantNone})
	if os.Getenv("IPTMON_DUMP") != "" {
		fmt.Fprintf(os.Stderr, "CONFIG %s\n", icfg.String())
		for k, v := range deps.restore {
			fmt.Fprintf(os.Stderr, "== %s\n%s\n", k, strings.Join(v, "\n"))
		}
	}
}

func main() {
	if w := os.Getenv("IPTMON_REPRO"); w != "" {
		repro(w)
		return
	}
	vh.Main(vh.Prop{
		ID:    "C20",
		Level: "exploration",
		Rule: "PRNG capture configurations, stratified by case index over REDIRECT/TPROXY x DNS off/servers/all x v4-only/dual-symmetric/dual-asymmetric x " +
			"owner-groups all/exclude/include (54 strata), remaining knobs random; per configuration boundary-value packets (owners, interfaces, range edges, " +
			"named ports and neighbours) are evaluated by a reference netfilter interpreter against a reference policy. A configuration is non-trivial when " +
			"the policy expects both captured and untouched packets and proxy-owned packets were evaluated; distinct = distinct rendered configuration.",
		Assumptions: []string{
			"trusted base: the harness' netfilter interpreter (hook order raw<mangle<nat, first-match traversal, loopback re-entry at PREROUTING without a second nat lookup) and the packet model (dst local <=> out-interface lo)",
			"the network namespace is pristine (iptables-save returns nothing), so the apply path is the plain iptables-restore --noflush",
			"numeric UIDs/GIDs only; group names are not resolved",
		},
		Anchors:          []string{"tools/istio-iptables/", "tools/common/config/"},
		CrashIsViolation: false,
		MinNontrivial: func(t string) int {
			if t == "thorough" {
				return 4000
			}
			return 100
		},
		Batches: func(t string) int {
			if t == "thorough" {
				return 8
			}
			return 4
		},
		Parallel: func(t string) int {
			if t == "thorough" {
				return 6
			}
			return 4
		},
		TimeoutSec: func(t string) int {
			if t == "thorough" {
				return 1500
			}
			return 300
		},
		Run: func(c *vh.Ctx) {
			for _, s := range log.Scopes() {
				s.SetOutputLevel(log.NoneLevel)
			}
			n := c.N(162, 6048) // multiples of the 54 strata
			for i := 0; i < n; i++ {
				if !c.Mine(i) {
					continue
				}
				i := i
				c.Case(fmt.Sprintf("cfg-%d", i), func() { runCase(c, i) })
			}
		},
	})
}
