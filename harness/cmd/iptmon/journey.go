package main

// The path of one packet through the netfilter hooks, in the documented priority order
// raw(-300) < mangle(-150) < nat-dst(-100) < filter(0):
//
//   locally generated : OUTPUT of raw, mangle, nat (first packet of a connection only), filter;
//                       if the route (or a REDIRECT, which rewrites the destination of a local
//                       packet to the loopback address) sends it over lo it re-enters at
//                       PREROUTING of raw and mangle with in-interface lo and the same skb mark.
//                       nat/PREROUTING is not consulted again for it: the connection's
//                       destination-NAT decision was already taken at OUTPUT (both hooks do
//                       destination manipulation; nf_nat consults the rules once per
//                       connection and manipulation type).
//   arriving          : PREROUTING of raw, mangle, nat (first packet only).
//
// INPUT/FORWARD/POSTROUTING are not traversed; a rule set that has rules there is refused
// by ruleset.validate() as not modelled.

import (
	"fmt"
	"net/netip"
)

type fate struct {
	Dropped    bool
	NatPort    uint16 // REDIRECT --to-ports that applied
	TproxyPort uint16 // TPROXY --on-port that applied
	Divert     bool   // got the tproxy mark in mangle/PREROUTING without the TPROXY target
	Mark       uint32 // skb mark at the end
	Connmark   uint32
	Zone       int
}

func (f fate) String() string {
	return fmt.Sprintf("{drop=%v nat=%d tproxy=%d divert=%v mark=%d connmark=%d zone=%d}", f.Dropped, f.NatPort, f.TproxyPort, f.Divert, f.Mark, f.Connmark, f.Zone)
}

var (
	lo4 = netip.MustParseAddr("127.0.0.1")
	lo6 = netip.MustParseAddr("::1")
)

func journey(rs *ruleset, pk packet, tproxyMark uint32, trace bool) (fate, []string) {
	p := pk
	res := hookResult{}
	c := evalCtx{rs: rs, p: &p, res: &res, trace: trace}
	divert := false
	alive := true

	prerouting := func(consultNat bool) {
		before := p.mark
		if c.hook("raw", "PREROUTING") == vDrop || c.hook("mangle", "PREROUTING") == vDrop {
			alive = false
			return
		}
		if res.tproxyPort == 0 && p.mark == tproxyMark && before != tproxyMark {
			divert = true
		}
		if consultNat && p.ct == ctNew && c.hook("nat", "PREROUTING") == vDrop {
			alive = false
		}
	}

	if p.out {
		switch {
		case c.hook("raw", "OUTPUT") == vDrop:
			alive = false
		case c.hook("mangle", "OUTPUT") == vDrop:
			alive = false
		case p.ct == ctNew && c.hook("nat", "OUTPUT") == vDrop:
			alive = false
		case c.hook("filter", "OUTPUT") == vDrop:
			alive = false
		}
		if alive && res.natPort != 0 {
			// REDIRECT of a locally generated packet: destination becomes the loopback address
			if p.fam == 4 {
				p.dst = lo4
			} else {
				p.dst = lo6
			}
			p.dport = res.natPort
			p.oif = "lo"
			p.dstLocal = true
		}
		if alive && p.oif == "lo" {
			p.iif, p.oif = "lo", ""
			if trace {
				res.trace = append(res.trace, "-- re-enters over lo --")
			}
			prerouting(false)
		}
	} else {
		prerouting(true)
	}
	return fate{Dropped: res.dropped, NatPort: res.natPort, TproxyPort: res.tproxyPort, Divert: divert && alive,
		Mark: p.mark, Connmark: p.connmark, Zone: res.zone}, res.trace
}

// category maps a fate to the vocabulary of the property.
func (c *capCfg) category(f fate) string {
	if f.Dropped {
		return "DROP"
	}
	natCat := ""
	switch {
	case f.NatPort == 0:
	case f.NatPort == c.ProxyPort:
		natCat = "OUT"
	case f.NatPort == c.CapturePort:
		natCat = "IN"
	case f.NatPort == dnsAgentPort:
		natCat = "DNS"
	default:
		natCat = "NAT:other"
	}
	tpCat := ""
	switch {
	case f.TproxyPort == 0:
		if f.Divert {
			tpCat = "DIVERT"
		}
	case f.TproxyPort == c.CapturePort:
		tpCat = "IN"
	default:
		tpCat = "TPROXY:other"
	}
	switch {
	case natCat == "" && tpCat == "":
		return "NONE"
	case natCat == "":
		return tpCat
	case tpCat == "" || tpCat == natCat:
		return natCat
	default:
		return "MIXED:" + natCat + "+" + tpCat
	}
}
