package main

// Minimal reproductions against the real code, outside the PRNG stream:
//
//	MTLSREF_REPRO=<name> /verif/bin/mtlsref
//
// names: ambient-port-disable, ambient-port-strict, ambient-ns-unset, ambient-emptysel, ambient-tie, cds-ns-disable, all.
// Each builds the smallest world showing the finding in a fake istiod and prints, per workload port,
// the reference mode next to what each consumer does.

import (
	"fmt"
	"os"
	"sort"
	"strings"
	"syscall"

	cluster "github.com/envoyproxy/go-control-plane/envoy/config/cluster/v3"
	listener "github.com/envoyproxy/go-control-plane/envoy/config/listener/v3"

	"istio.io/istio/pilot/pkg/features"
	"istio.io/istio/pilot/pkg/model"
	"verifharness/internal/quiet"
	"verifharness/internal/vh"
)

var reproWorlds = map[string]func() (*World, string){
	"ambient-port-disable": func() (*World, string) {
		return &World{
				Mesh: []Policy{{Name: "default", NS: rootNS, TS: 1700000000, Mode: STRICT}},
				NS: []NSWorld{{NS: "app", Policies: []Policy{
					{Name: "wl", NS: "app", TS: 1700000001, Selector: map[string]string{"app": "a"}, NilMtls: true, Ports: map[uint32]Mode{8080: DISABLE}},
				}}},
			}, "mesh-wide STRICT; workload policy without mtls mode and portLevelMtls 8080: DISABLE. Port 8080 is DISABLE (the sidecar serves plaintext there) " +
				"but the ambient workload keeps istio_converted_static_strict: authorization.go convertedSelectorPeerAuthentications, case UNSET under a strict parent, " +
				"looks for PERMISSIVE port entries only (the STRICT-workload case a few lines above checks PERMISSIVE || DISABLE)."
	},
	"ambient-port-strict": func() (*World, string) {
		return &World{
				Mesh: []Policy{{Name: "default", NS: rootNS, TS: 1700000000, Mode: STRICT}},
				NS: []NSWorld{{NS: "app", Policies: []Policy{
					{Name: "wl", NS: "app", TS: 1700000001, Selector: map[string]string{"app": "a"}, Mode: PERMISSIVE, Ports: map[uint32]Mode{8080: STRICT}},
				}}},
			}, "mesh-wide STRICT; workload policy PERMISSIVE with portLevelMtls 8080: STRICT. Port 8080 must refuse plaintext. The workload references " +
				"converted_peer_authentication_wl but that policy is never sent: authorization.go convertPeerAuthentication skips the STRICT port when " +
				"`strict(pa) || (unset(pa) && ns strict) || ((ns nil||unset) && root strict)` - the third alternative is not guarded by unset(pa) (operator precedence), " +
				"so a PERMISSIVE/DISABLE workload mode under a STRICT mesh drops its STRICT ports."
	},
	"ambient-ns-unset": func() (*World, string) {
		return &World{
				Mesh: []Policy{{Name: "default", NS: rootNS, TS: 1700000000, Mode: STRICT}},
				NS: []NSWorld{{NS: "app", Policies: []Policy{
					{Name: "ns", NS: "app", TS: 1700000001, Mode: UNSET},
					{Name: "wl", NS: "app", TS: 1700000002, Selector: map[string]string{"app": "a"}, NilMtls: true, Ports: map[uint32]Mode{9090: PERMISSIVE}},
				}}},
			}, "mesh-wide STRICT; namespace policy with mode UNSET (inherits STRICT); workload policy without mode and portLevelMtls 9090: PERMISSIVE. Every port but 9090 must refuse plaintext. " +
				"The static strict policy is dropped in favour of converted_peer_authentication_wl, which is never sent: convertPeerAuthentication treats a present " +
				"namespace policy that is not STRICT (here UNSET) as 'effective policy is not STRICT' instead of inheriting from the mesh policy => whole workload unprotected."
	},
	"cds-ns-disable": func() (*World, string) {
		return &World{
				NS: []NSWorld{{NS: "app", Policies: []Policy{
					{Name: "ns", NS: "app", TS: 1700000001, Mode: DISABLE},
					{Name: "wl", NS: "app", TS: 1700000002, Selector: map[string]string{"app": "a"}, Mode: STRICT},
				}}},
			}, "namespace DISABLE, workload policy STRICT. The server sidecar demands mutual TLS and EDS marks the endpoint tlsMode=istio, but the client's cluster is built from " +
				"PushContext.BestEffortInferServiceMTLSMode (namespace/mesh level only): DISABLE => no tlsMode-istio transport socket match => the client sends plaintext to a STRICT port. " +
				"The code documents this as best effort."
	},
	"ambient-emptysel": func() (*World, string) {
		return &World{
				NS: []NSWorld{{NS: "app", Policies: []Policy{
					{Name: "ns", NS: "app", TS: 1700000001, Mode: STRICT, EmptySel: true},
					{Name: "wl", NS: "app", TS: 1700000002, Selector: map[string]string{"app": "a"}, NilMtls: true, Ports: map[uint32]Mode{9090: PERMISSIVE}},
				}}},
			}, "namespace policy STRICT written with 'selector: {}' (validation, the sidecar path and ambient's convertedSelectorPeerAuthentications all take an empty matchLabels as namespace-level); " +
				"workload policy without mode and portLevelMtls 9090: PERMISSIVE. Every port but 9090 must refuse plaintext. policies.go PolicyCollections indexes namespace-level policies by " +
				"`Spec.GetSelector() == nil`, so convertPeerAuthentication is given no namespace policy, finds nothing STRICT to carve the exception out of and returns nil, while the workload " +
				"already swapped the static strict policy for a reference to converted_peer_authentication_wl => whole workload unprotected."
	},
	"ambient-tie": func() (*World, string) {
		return &World{
				NS: []NSWorld{{NS: "app", Policies: []Policy{
					{Name: "wl-a", NS: "app", TS: 1700000001, Selector: map[string]string{"app": "a"}, Mode: PERMISSIVE, Ports: map[uint32]Mode{8080: STRICT}},
					{Name: "wl-b", NS: "app", TS: 1700000001, Selector: map[string]string{"app": "a"}, Mode: PERMISSIVE, Ports: map[uint32]Mode{9090: STRICT}},
					{Name: "wl-c", NS: "app", TS: 1700000001, Selector: map[string]string{"app": "a"}, Mode: PERMISSIVE, Ports: map[uint32]Mode{7070: STRICT}},
				}}},
			}, "three workload policies with the same creationTimestamp. The sidecar path orders equal timestamps by name (model/config.go); the ambient path takes the first " +
				"of a client-go Indexer.ByIndex result, whose order is Go map iteration order: identical control planes pick different policies (run repeated 6x)."
	},
}

func repro(which string) {
	if !features.EnableAmbient {
		env := append(os.Environ(), "PILOT_ENABLE_AMBIENT=true")
		if err := syscall.Exec("/proc/self/exe", os.Args, env); err != nil {
			fmt.Println("re-exec with PILOT_ENABLE_AMBIENT=true failed:", err)
			os.Exit(2)
		}
	}
	quiet.Logs("none")
	names := []string{which}
	if which == "all" {
		names = sortedKeys(reproWorlds)
	}
	for _, n := range names {
		mk := reproWorlds[n]
		if mk == nil {
			fmt.Println("unknown repro", n, "- known:", strings.Join(sortedKeys(reproWorlds), ", "))
			os.Exit(2)
		}
		w, what := mk()
		for i := range w.NS {
			w.NS[i].Workloads = []Workload{{Name: "w0", NS: w.NS[i].NS, IP: "10.1.0.1", Labels: map[string]string{"grp": "x", "app": "a"}}}
			w.NS[i].Ports = svcPorts([3]string{"http", "tcp", "auto"})
		}
		fmt.Printf("=== %s\n%s\n", n, what)
		for _, p := range w.allPolicies() {
			fmt.Printf("  PeerAuthentication %s/%s created=%d selector=%v mtls=%s portLevelMtls=%v\n", p.NS, p.Name, p.TS, p.Selector, p.Mode, p.Ports)
		}
		reps := 1
		if n == "ambient-tie" {
			reps = 6
		}
		for r := 0; r < reps; r++ {
			reproOnce(w)
		}
	}
}

func reproOnce(w *World) {
	f := vh.NewF()
	defer f.Done()
	s := w.start(f)
	pols := w.allPolicies()
	client := sidecarProxy(s, Workload{Name: "client", NS: clientNS, IP: clientIP, Labels: map[string]string{"app": "client"}})
	eds := observeEDS(s, client, w)
	clusters := map[string]*cluster.Cluster{}
	for _, cl := range s.Clusters(client) {
		clusters[cl.Name] = cl
	}
	amb := observeAmbient(s)
	n := w.NS[0]
	wl := n.Workloads[0]
	px := sidecarProxy(s, wl)
	var vi *listener.Listener
	for _, l := range s.Listeners(px) {
		if l.Name == model.VirtualInboundListenerName {
			vi = l
		}
	}
	awl := amb.workloads[wl.IP]
	fmt.Printf("  pod %s/%s labels %v: ambient authorization_policies=%v\n", wl.NS, wl.Name, wl.Labels, awl.GetAuthorizationPolicies())
	var sent []string
	for k, a := range amb.policies {
		sent = append(sent, "    sent "+k+": "+a.String())
	}
	sort.Strings(sent)
	if len(sent) == 0 {
		sent = []string{"    (no policy sent)"}
	}
	fmt.Println(strings.Join(sent, "\n"))
	for _, sp := range n.Ports {
		ref, lvl := refMode(rootNS, wl, sp.Target, pols)
		obs := observePort(vi, wl.IP, sp.Target, sp.Proto)
		md := eds[clusterName(n.NS, sp.Svc)]["generator"][epKey{wl.IP, sp.Target}]
		tls, via := clientSendsTLS(clusters[clusterName(n.NS, sp.Svc)], md)
		dec := amb.decide(awl, peer{}, sp.Target)
		flag := ""
		if obs.class != ref.String() || hasMarker(md) != (ref != DISABLE) || tls != (ref != DISABLE) || dec.rejected != (ref == STRICT) {
			flag = "   <== disagreement"
		}
		fmt.Printf("    port %d (%s): reference %s (%s level) | sidecar inbound %s | EDS tlsMode marker %v | client originates TLS %v (%s) | ambient rejects unauthenticated %v (%s)%s\n",
			sp.Target, sp.Proto, ref, lvl, shortClass(obs.class), hasMarker(md), tls, via, dec.rejected, dec.why, flag)
	}
}
