package main

import (
	"fmt"

	cluster "github.com/envoyproxy/go-control-plane/envoy/config/cluster/v3"
	endpoint "github.com/envoyproxy/go-control-plane/envoy/config/endpoint/v3"
	tlsv3 "github.com/envoyproxy/go-control-plane/envoy/extensions/transport_sockets/tls/v3"
	"google.golang.org/protobuf/types/known/structpb"

	"istio.io/istio/pilot/pkg/model"
	"istio.io/istio/pilot/pkg/xds/endpoints"
	v3 "istio.io/istio/pilot/pkg/xds/v3"
	xdsfake "istio.io/istio/pilot/test/xds"
	"istio.io/istio/pkg/config/host"
	"istio.io/istio/pkg/util/sets"
	"verifharness/internal/vh"
)

// Leg 2: what a client sidecar in another namespace is told about each endpoint.
//
// Envoy documentation (Cluster.transport_socket_matches): each endpoint's metadata under
// "envoy.transport_socket_match" is compared with the matches in order; the first match whose
// criteria are all present with equal values in the endpoint metadata selects the transport socket;
// an empty match matches everything; no match => the cluster's own transport_socket (or plaintext).

const tsmKey = "envoy.transport_socket_match"

type epKey struct {
	ip   string
	port uint32
}

func svcHost(ns string) string { return "svc." + ns + ".svc.cluster.local" }

func clusterName(ns string, svcPort int) string {
	return model.BuildSubsetKey(model.TrafficDirectionOutbound, "", host.Name(svcHost(ns)), svcPort)
}

// observeEDS asks the real EDS generator (twice: the second answer may come from the xDS cache) and
// the endpoint builder for every service cluster of the world, as seen by the client proxy.
func observeEDS(s *xdsfake.FakeDiscoveryServer, client *model.Proxy, w *World) map[string]map[string]map[epKey]*structpb.Struct {
	push := s.PushContext()
	names := sets.New[string]()
	for _, n := range w.NS {
		if len(n.Workloads) == 0 {
			continue
		}
		for _, p := range n.Ports {
			names.Insert(clusterName(n.NS, p.Svc))
		}
	}
	out := map[string]map[string]map[epKey]*structpb.Struct{} // cluster -> source -> endpoint -> metadata
	record := func(src string, cla *endpoint.ClusterLoadAssignment) {
		if out[cla.ClusterName] == nil {
			out[cla.ClusterName] = map[string]map[epKey]*structpb.Struct{}
		}
		m := map[epKey]*structpb.Struct{}
		for _, l := range cla.GetEndpoints() {
			for _, e := range l.GetLbEndpoints() {
				sa := e.GetEndpoint().GetAddress().GetSocketAddress()
				k := epKey{sa.GetAddress(), sa.GetPortValue()}
				md := e.GetMetadata().GetFilterMetadata()[tsmKey]
				if md == nil {
					md = &structpb.Struct{}
				}
				m[k] = md
			}
		}
		out[cla.ClusterName][src] = m
	}
	gen := s.Discovery.Generators[v3.EndpointType]
	if gen == nil {
		vh.Abort("no EDS generator")
	}
	for _, src := range []string{"generator", "generator-cached"} {
		res, _, err := gen.Generate(client, &model.WatchedResource{TypeUrl: v3.EndpointType, ResourceNames: names}, &model.PushRequest{Forced: true, Push: push})
		if err != nil {
			vh.Abort("eds generate: %v", err)
		}
		for _, rsc := range res {
			cla := &endpoint.ClusterLoadAssignment{}
			if err := rsc.Resource.UnmarshalTo(cla); err != nil {
				vh.Abort("unmarshal cla: %v", err)
			}
			record(src, cla)
		}
	}
	for cn := range names {
		b := endpoints.NewEndpointBuilder(cn, client, push)
		record("builder", b.BuildClusterLoadAssignment(s.Env().EndpointIndex))
	}
	return out
}

// clientSendsTLS interprets the cluster's transport socket selection for an endpoint with the given
// transport-socket-match metadata: does the client originate TLS (an UpstreamTlsContext) to it?
func clientSendsTLS(c *cluster.Cluster, md *structpb.Struct) (tls bool, via string) {
	for _, m := range c.GetTransportSocketMatches() {
		ok := true
		for k, v := range m.GetMatch().GetFields() {
			ev, has := md.GetFields()[k]
			if !has || ev.GetStringValue() != v.GetStringValue() || ev.GetKind() == nil {
				ok = false
			}
		}
		if !ok {
			continue
		}
		ts := m.GetTransportSocket()
		up := &tlsv3.UpstreamTlsContext{}
		if ts.GetTypedConfig() != nil && ts.GetTypedConfig().MessageIs(up) {
			return true, "match:" + m.GetName()
		}
		return false, "match:" + m.GetName()
	}
	if ts := c.GetTransportSocket(); ts != nil {
		up := &tlsv3.UpstreamTlsContext{}
		if ts.GetTypedConfig() != nil && ts.GetTypedConfig().MessageIs(up) {
			return true, "cluster-socket"
		}
		return false, "cluster-socket:" + ts.GetName()
	}
	return false, "no-socket"
}

func hasMarker(md *structpb.Struct) bool {
	return md.GetFields()["tlsMode"].GetStringValue() == "istio"
}

func fmtMD(md *structpb.Struct) string {
	if md == nil || len(md.GetFields()) == 0 {
		return "{}"
	}
	s := "{"
	for _, k := range sortedKeys(md.GetFields()) {
		s += fmt.Sprintf("%s:%s ", k, md.GetFields()[k].GetStringValue())
	}
	return s + "}"
}
