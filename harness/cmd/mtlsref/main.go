// Engine mtlsref: property C10 - the effective PeerAuthentication mTLS mode follows the documented
// precedence and every consumer (sidecar inbound listener, client-side auto-mTLS, ambient policy)
// enforces / agrees on it.
package main

import (
	"fmt"
	"os"
	"sort"
	"strings"
	"time"

	cluster "github.com/envoyproxy/go-control-plane/envoy/config/cluster/v3"
	listener "github.com/envoyproxy/go-control-plane/envoy/config/listener/v3"

	"istio.io/istio/pilot/pkg/features"
	"istio.io/istio/pilot/pkg/model"
	xdsfake "istio.io/istio/pilot/test/xds"
	"istio.io/istio/pkg/config/host"
	"verifharness/internal/quiet"
	"verifharness/internal/vh"
)

const (
	nsPerRandomWorld = 20
	quickRandom      = 25   // x20 namespaces = 500 policy sets
	thoroughRandom   = 1000 // x20 namespaces = 20000 policy sets
	quickExhaustive  = exhGroups
)

func main() {
	if w := os.Getenv("MTLSREF_REPRO"); w != "" {
		repro(w)
		return
	}
	vh.Main(vh.Prop{
		ID:    "C10",
		Level: "exploration",
		Rule: "A case is one control-plane world (fake istiod with kube registry + ambient index, PILOT_ENABLE_AMBIENT=true): a set of mesh-level PeerAuthentications plus ~20 independent namespaces, each with its own " +
			"namespace-level and workload-selector policies (modes UNSET/DISABLE/PERMISSIVE/STRICT, mtls omitted vs UNSET, port-level maps keyed by target ports, non-service ports, service port numbers; several per level; " +
			"whole-second creation times from a 5 s window so ties are common; names independent of age), 3 pods and a Service with three ports whose protocols are drawn from http/tcp/auto. " +
			"Stratum rand: PRNG worlds. Stratum exh: every combination of {absent,UNSET,DISABLE,PERMISSIVE,STRICT}^4 over (mesh, namespace, workload, port) level x selected/unselected workload x " +
			"{winner strictly older but later by name and list order, equal creation time with the winner first by name} with a competing policy of different mode at every present level, all four port kinds. " +
			"Stratum tie: a tiny world whose every level holds several equally old policies of different modes is brought up 6 times; every consumer must give one answer. " +
			"For every (workload, workload port) the reference mode(workload, port, policies) is compared with (1) the class of the real virtualInbound listener under an own Envoy filter-chain matcher for 7 connection kinds " +
			"(plaintext tcp/http, TLS without and with non-istio ALPN, istio mTLS tcp/http1/h2): STRICT <=> nothing but client-certificate TLS chains reachable, DISABLE <=> no TLS-terminating chain reachable, PERMISSIVE <=> plaintext and istio mTLS both served; " +
			"(2) the tlsMode marker of the real EDS answer (generator twice + builder) for a client in another namespace, and the transport socket the real CDS cluster selects for that endpoint metadata: marker / client TLS <=> mode != DISABLE; " +
			"(3) the decision of the security.Authorization policies sent by the real WDS generators (address + authorization feeds) for an unauthenticated peer: rejected <=> STRICT (and an authenticated peer is let in under STRICT/PERMISSIVE). " +
			"Violation keys: <leg>[-tie][-emptysel]:...; -tie = some level relevant to the workload has several equally old candidates, -emptysel = the namespace holds a namespace-level policy written with 'selector: {}'. " +
			"Non-trivial: a namespace where at least two policies apply to one workload (precedence or age decides). Distinct by hash of (mesh policies, namespace policies, workloads, port protocols).",
		Assumptions: []string{
			"reference mode() is our reading of the PeerAuthentication API documentation and the property text; equal creation times are ordered by name as documented at pilot/pkg/model/config.go configCompareByCreationTime",
			"Envoy selects filter chains by successive narrowing in the documented criteria order (destination port, destination IP, transport protocol, application protocols); the TLS/HTTP inspectors run unless filter_disabled matches the destination port",
			"a mesh client offers ALPN istio-peer-exchange,istio (TCP) or istio-http/1.1|istio-h2,istio,... (HTTP); non-mesh TLS offers none or h2,http/1.1",
			"ztunnel evaluates security.Authorization as documented in authorization.proto: groups OR, rules AND, matches alternatives, DENY before ALLOW; policies referenced by a workload but not sent are ignored",
			"the fake istiod's initial cache sync is the barrier: all objects exist before informers start and nothing changes afterwards",
		},
		Anchors: []string{
			"pilot/pkg/security/authn/", "pilot/pkg/model/authentication.go", "pilot/pkg/networking/core/filterchain_options.go",
			"pilot/pkg/networking/core/listener_inbound.go", "pilot/pkg/networking/plugin/authn/", "pilot/pkg/xds/endpoints/mtls_checker.go",
			"pilot/pkg/serviceregistry/ambient/policies.go", "pilot/pkg/serviceregistry/ambient/authorization.go",
		},
		MinNontrivial: func(t string) int { return map[string]int{"quick": 300, "thorough": 10000}[t] },
		Batches:       func(t string) int { return map[string]int{"quick": 5, "thorough": 8}[t] },
		Parallel:      func(t string) int { return map[string]int{"quick": 5, "thorough": 8}[t] },
		TimeoutSec:    func(t string) int { return map[string]int{"quick": 600, "thorough": 3000}[t] },
		Env:           []string{"PILOT_ENABLE_AMBIENT=true"},
		Run:           run,
	})
}

func run(c *vh.Ctx) {
	quiet.Logs("none")
	if !features.EnableAmbient {
		// without it the ambient leg silently observes nothing
		c.Case("setup", func() { vh.Abort("PILOT_ENABLE_AMBIENT is not set in the child") })
		return
	}
	// exhaustive worlds first (cheap, and a prefix of them is part of quick)
	ne := c.N(quickExhaustive, exhaustiveWorlds)
	for e := 0; e < ne; e++ {
		if !c.Mine(e) {
			continue
		}
		c.Case(fmt.Sprintf("exh/%d", e), func() {
			checkWorld(c, genExhaustiveWorld(e), "exh")
		})
	}
	runTie(c)
	n := c.N(quickRandom, thoroughRandom)
	for i := 0; i < n; i++ {
		if !c.Mine(i) {
			continue
		}
		c.Case(fmt.Sprintf("rand/%d", i), func() {
			checkWorld(c, genRandomWorld(c.Rng("rand", i), nsPerRandomWorld), "rand")
		})
	}
}

func shortClass(s string) string {
	if i := strings.Index(s, "("); i > 0 {
		return s[:i]
	}
	return s
}

// levelPath describes the input along the precedence chain of one workload port: the own mode of
// the policy that counts at each level ("-" = no policy), the port's own entry, and whether the
// workload-level policy carries other port-level entries that are STRICT (S), not STRICT (N) or both (B).
func levelPath(w Workload, port uint32, pols []Policy) string {
	mesh, nsl, wl := winners(rootNS, w, pols)
	f := func(p *Policy) string {
		if p == nil {
			return "-"
		}
		return p.Mode.String()[:1]
	}
	pp, others := "-", "-"
	if wl != nil {
		if m, ok := wl.Ports[port]; ok {
			pp = m.String()[:1]
		}
		s, n := false, false
		for k, m := range wl.Ports {
			if k == port {
				continue
			}
			if m == STRICT {
				s = true
			} else if m != UNSET {
				n = true
			}
		}
		switch {
		case s && n:
			others = "B"
		case s:
			others = "S"
		case n:
			others = "N"
		}
	}
	return fmt.Sprintf("mesh=%s,ns=%s,wl=%s,port=%s,otherports=%s", f(mesh), f(nsl), f(wl), pp, others)
}

// explainAmbient names the input stratum of an ambient disagreement. The strata are defined on the
// INPUT only (which policy counts at each level and what it says); they were found by this monitor
// on the unchanged tree and each has a minimal reproduction in repro.go. Anything outside them keeps
// its full precedence path in the key.
func explainAmbient(w Workload, port uint32, pols []Policy, ref Mode, rejected, dangling bool) string {
	mesh, nsl, wl := winners(rootNS, w, pols)
	if wl == nil {
		return ""
	}
	md := func(p *Policy) Mode {
		if p == nil {
			return absent
		}
		return p.Mode
	}
	pe, hasPE := wl.Ports[port]
	nonStrictPort := false
	for _, m := range wl.Ports {
		if m == PERMISSIVE || m == DISABLE {
			nonStrictPort = true
		}
	}
	nsNone := md(nsl) == absent || md(nsl) == UNSET
	switch {
	case ref == DISABLE && rejected && wl.Mode == UNSET && hasPE && pe == DISABLE && (md(nsl) == STRICT || (nsNone && md(mesh) == STRICT)):
		return "port-DISABLE-under-UNSET-workload-mode-with-STRICT-parent"
	case ref == STRICT && !rejected && dangling && hasPE && pe == STRICT && (wl.Mode == PERMISSIVE || wl.Mode == DISABLE) && md(mesh) == STRICT && nsNone:
		return "port-STRICT-under-non-strict-workload-mode-with-STRICT-mesh-and-no-explicit-namespace-mode"
	case ref == STRICT && !rejected && dangling && wl.Mode == UNSET && md(nsl) == UNSET && md(mesh) == STRICT && nonStrictPort:
		return "UNSET-namespace-policy-between-STRICT-mesh-and-UNSET-workload-mode-with-non-strict-port"
	}
	return ""
}

func applicableCount(w Workload, pols []Policy) int {
	n := 0
	for i := range pols {
		p := &pols[i]
		if (p.Selector == nil && (p.NS == rootNS || p.NS == w.NS)) || (p.Selector != nil && p.NS == w.NS && selects(p.Selector, w.Labels)) {
			n++
		}
	}
	return n
}

func checkWorld(c *vh.Ctx, w *World, stratum string) {
	t0 := time.Now()
	f := vh.NewF()
	defer f.Done()
	s := w.start(f)
	tStart := time.Since(t0)
	pols := w.allPolicies()
	client := sidecarProxy(s, Workload{Name: "client", NS: clientNS, IP: clientIP, Labels: map[string]string{"app": "client"}})
	eds := observeEDS(s, client, w)
	clusters := map[string]*cluster.Cluster{}
	for _, cl := range s.Clusters(client) {
		clusters[cl.Name] = cl
	}
	amb := observeAmbient(s)
	c.Count("worlds", 1)
	c.Count("worlds_"+stratum, 1)
	c.Count("policies_total", len(pols))
	c.Count("ambient_policies_sent", len(amb.policies))
	c.Max("policies_per_world", len(pols))
	sampled := false

	evaluated := 0
	for _, n := range w.NS {
		if len(n.Workloads) == 0 {
			continue
		}
		// the unit of evaluation (and of distinct_nontrivial) is one namespace policy set; the
		// enclosing Case (one world = one server) already counted one
		if evaluated++; evaluated > 1 {
			c.AddEvaluations(1)
		}
		c.Count("policy_sets", 1)
		nontrivial := false
		emptySel := false
		for _, p := range n.Policies {
			if p.EmptySel {
				emptySel = true
			}
		}
		checkNamespaceView(c, s, client, clusters, w, n, pols, emptySel)
		protoOf := map[uint32]string{}
		for _, p := range n.Ports {
			protoOf[p.Target] = p.Proto
		}
		for _, wl := range n.Workloads {
			if applicableCount(wl, pols) >= 2 {
				nontrivial = true
			}
			// family(leg, ok-under-some-tie-resolution): violations on workloads for which some level has
			// several equally old candidate policies get their own key family (the ambient index resolves
			// such ties at random, see stratum "tie", so its answers there cannot be attributed),
			// as do namespaces using "selector: {}" for a namespace-level policy.
			tied := tiedAt(rootNS, wl, pols)
			if tied {
				c.Count("workloads_whose_winner_is_chosen_by_tie_break", 1)
			}
			family := func(leg string, okUnderSomeTie bool) string {
				if okUnderSomeTie || tied {
					leg += "-tie"
				}
				if emptySel {
					leg += "-emptysel"
				}
				return leg
			}
			replay := func(port uint32, extra map[string]any) map[string]any {
				m := map[string]any{"mesh": w.Mesh, "namespace": n, "workload": wl, "port": port}
				for k, v := range extra {
					m[k] = v
				}
				return m
			}
			// ---------------- leg 1: sidecar inbound
			px := sidecarProxy(s, wl)
			if len(px.ServiceTargets) != 2*len(n.Ports) { // service "svc" and its headless twin "hl"
				vh.Abort("proxy %s has %d service targets, want %d (world setup)", px.ID, len(px.ServiceTargets), 2*len(n.Ports))
			}
			var vi *listener.Listener
			for _, l := range s.Listeners(px) {
				if l.Name == model.VirtualInboundListenerName {
					vi = l
				}
			}
			if vi == nil {
				c.Violation("inbound:no-virtualInbound-listener", "sidecar "+px.ID+" got no virtualInbound listener", replay(0, nil))
				continue
			}
			c.Count("listeners_interpreted", 1)
			c.Count("filter_chains_interpreted", len(vi.FilterChains))
			c.Max("filter_chains_per_listener", len(vi.FilterChains))
			awl := amb.workloads[wl.IP]
			if awl == nil {
				vh.Abort("ambient: no workload for pod %s/%s ip %s in the address feed", wl.NS, wl.Name, wl.IP)
			}
			for _, port := range checkedPorts {
				ref, lvl := refMode(rootNS, wl, port, pols)
				anyTie := refModesAnyTie(rootNS, wl, port, pols)
				if len(anyTie) > 1 {
					c.Count("triples_where_tie_break_matters", 1)
				}
				proto := protoOf[port]
				if proto == "" {
					proto = "none"
				}
				c.Count("triples", 1)
				c.Count("ref_"+ref.String(), 1)
				c.SetAdd("decided_by", lvl)
				c.SetAdd("decided_by_x_mode_x_proto", lvl+"/"+ref.String()+"/"+proto)
				path := levelPath(wl, port, pols)
				c.SetAdd("precedence_paths", path+" => "+lvl+":"+ref.String())

				var obs portObservation
				func() {
					defer func() {
						if r := recover(); r != nil {
							if u, ok := r.(unsupported); ok {
								vh.Abort("listener interpreter: unsupported construct: %s", u.what)
							}
							panic(r)
						}
					}()
					obs = observePort(vi, wl.IP, port, proto)
				}()
				c.Count("chain_selections", len(connKinds))
				for k, v := range obs.perKind {
					if i := strings.Index(v, ":"); i > 0 {
						v = v[:i]
					}
					c.SetAdd("inbound_outcomes", fmt.Sprintf("%s/%s: %s -> %s", proto, ref, k, v))
				}
				if obs.ambig {
					c.Violation("inbound:ambiguous-filter-chain-match", fmt.Sprintf("%s port %d: two filter chains with identical match", px.ID, port), replay(port, nil))
				}
				c.Count("inbound_checked", 1)
				if obs.class != ref.String() {
					okTie := false
					for am := range anyTie {
						if am.String() == obs.class {
							okTie = true
						}
					}
					c.Violation(fmt.Sprintf("%s:ref=%s:listener=%s:decided-by=%s:proto=%s", family("inbound", okTie), ref, shortClass(obs.class), lvl, proto),
						fmt.Sprintf("sidecar %s workload port %d (%s): reference mode %s (decided by %s level), virtualInbound listener behaves as %s; per connection kind: %v",
							px.ID, port, proto, ref, lvl, obs.class, fmtKinds(obs.perKind)),
						replay(port, map[string]any{"per_kind": obs.perKind}))
				}

				// ---------------- leg 3: ambient
				dec := amb.decide(awl, peer{}, port)
				c.Count("ambient_checked", 1)
				if len(dec.dangling) > 0 {
					c.Count("ambient_dangling_policy_refs", len(dec.dangling))
				}
				c.SetAdd("ambient_outcomes", fmt.Sprintf("%s rejected=%v attached=%d", ref, dec.rejected, len(dec.attached)))
				if dec.rejected != (ref == STRICT) {
					okTie := false
					for am := range anyTie {
						if dec.rejected == (am == STRICT) {
							okTie = true
						}
					}
					dang := ""
					if len(dec.dangling) > 0 {
						dang = ":references-unsent-policy"
					}
					fam := family("ambient", okTie)
					detail := ""
					if fam == "ambient" {
						// plain family: name the input stratum if it is one of the recognised ones, else the full path
						detail = ":" + path
						if e := explainAmbient(wl, port, pols, ref, dec.rejected, len(dec.dangling) > 0); e != "" {
							detail = ":explained-by=" + e
						}
					}
					c.Violation(fmt.Sprintf("%s:ref=%s:unauthenticated-rejected=%v%s%s", fam, ref, dec.rejected, dang, detail),
						fmt.Sprintf("ambient workload %s/%s port %d: reference mode %s (decided by %s level) but an unauthenticated peer is rejected=%v (%s); policies attached %v, referenced-but-not-sent %v",
							wl.NS, wl.Name, port, ref, lvl, dec.rejected, dec.why, awl.GetAuthorizationPolicies(), dec.dangling),
						replay(port, map[string]any{"attached": awl.GetAuthorizationPolicies(), "sent": dumpPolicies(amb, awl)}))
				}
				// a peer that did authenticate with mutual TLS: STRICT "accepts only mutual TLS" and PERMISSIVE
				// "accepts both", so the policies derived from PeerAuthentication must let it in (there are no
				// AuthorizationPolicies in these worlds). For DISABLE the property is silent: counted only.
				if ad := amb.decide(awl, peer{principal: "cluster.local/ns/" + clientNS + "/sa/sa-client", namespace: clientNS}, port); ad.rejected {
					c.Count("ambient_authenticated_peer_rejected", 1)
					if ref != DISABLE {
						fam := family("ambient", false)
						detail := ""
						if fam == "ambient" {
							detail = ":" + path
						}
						c.Violation(fmt.Sprintf("%s:ref=%s:authenticated-peer-rejected%s", fam, ref, detail),
							fmt.Sprintf("ambient workload %s/%s port %d: reference mode %s but a peer authenticated by mutual TLS is rejected (%s); policies attached %v",
								wl.NS, wl.Name, port, ref, ad.why, awl.GetAuthorizationPolicies()),
							replay(port, map[string]any{"attached": awl.GetAuthorizationPolicies(), "sent": dumpPolicies(amb, awl)}))
					}
				}
			}

			// ---------------- leg 2: client-side auto mTLS
			for _, sp := range n.Ports {
				ref, lvl := refMode(rootNS, wl, sp.Target, pols)
				anyTie := refModesAnyTie(rootNS, wl, sp.Target, pols)
				okTie := func(sendsTLS bool) bool {
					for am := range anyTie {
						if sendsTLS == (am != DISABLE) {
							return true
						}
					}
					return false
				}
				cn := clusterName(n.NS, sp.Svc)
				k := epKey{wl.IP, sp.Target}
				for _, src := range []string{"generator", "generator-cached", "builder"} {
					md, ok := eds[cn][src][k]
					if !ok {
						vh.Abort("eds (%s): endpoint %v missing from %s (world setup)", src, k, cn)
					}
					c.Count("eds_endpoints_checked", 1)
					marker := hasMarker(md)
					c.SetAdd("eds_outcomes", fmt.Sprintf("%s marker=%v", ref, marker))
					if marker != (ref != DISABLE) {
						c.Violation(fmt.Sprintf("%s:ref=%s:tlsMode-marker=%v:decided-by=%s:src=%s", family("eds", okTie(marker)), ref, marker, lvl, src),
							fmt.Sprintf("client %s, cluster %s, endpoint %s:%d (%s): reference mode %s (decided by %s level) but transport-socket-match metadata is %s",
								client.ID, cn, wl.IP, sp.Target, src, ref, lvl, fmtMD(md)),
							replay(sp.Target, map[string]any{"cluster": cn}))
					}
					if src != "generator" {
						continue
					}
					cl := clusters[cn]
					if cl == nil {
						vh.Abort("cds: cluster %s missing (world setup)", cn)
					}
					tls, via := clientSendsTLS(cl, md)
					c.Count("cds_checked", 1)
					c.SetAdd("cds_outcomes", fmt.Sprintf("%s client-tls=%v via=%s", ref, tls, via))
					if tls != (ref != DISABLE) {
						c.Violation(fmt.Sprintf("%s:ref=%s:client-originates-tls=%v:namespace-wide-mode=%s", family("cds", okTie(tls)), ref, tls, refWide(rootNS, wl, pols)),
							fmt.Sprintf("client %s, cluster %s, endpoint %s:%d: reference mode %s (decided by %s level) but the cluster selects %s for endpoint metadata %s (client originates TLS=%v)",
								client.ID, cn, wl.IP, sp.Target, ref, lvl, via, fmtMD(md), tls),
							replay(sp.Target, map[string]any{"cluster": cn, "transport_socket_matches": len(cl.GetTransportSocketMatches())}))
					}
				}
			}
		}
		if nontrivial {
			c.Nontrivial(vh.Hash(w.Mesh, n.Policies, n.Workloads, n.Ports))
		}
		if !sampled && nontrivial && len(n.Policies) >= 2 {
			sampled = true
			wl := n.Workloads[0]
			var rows []string
			for _, port := range checkedPorts {
				m, lvl := refMode(rootNS, wl, port, pols)
				rows = append(rows, fmt.Sprintf("%d=%s(%s)", port, m, lvl))
			}
			c.Sample(map[string]any{"stratum": stratum, "mesh": w.Mesh, "namespace": n.NS, "tag": n.Tag, "policies": n.Policies, "workload": wl, "reference": rows})
		}
	}
	if os.Getenv("MTLSREF_TIMING") != "" {
		fmt.Fprintf(os.Stderr, "TIMING world start=%v total=%v ns=%d\n", tStart, time.Since(t0), len(w.NS))
	}
}

func fmtKinds(m map[string]string) string {
	var parts []string
	for k, v := range m {
		parts = append(parts, k+"="+v)
	}
	sort.Strings(parts)
	return strings.Join(parts, " ")
}

func dumpPolicies(st *ambientState, wl interface{ GetAuthorizationPolicies() []string }) map[string]string {
	out := map[string]string{}
	for _, n := range wl.GetAuthorizationPolicies() {
		if a := st.policies[n]; a != nil {
			out[n] = a.String()
		} else {
			out[n] = "<not sent>"
		}
	}
	return out
}


// checkNamespaceView: legs 4 and 5. The namespace/mesh-level view of the mode ("what applies to a
// workload of the namespace that no workload-level policy selects") is derived a second time inside
// istio for client-side inference. Leg 4 reads that resolver directly (push context and the client's
// sidecar scope); leg 5 looks at its user-visible effect: the cluster of a headless service
// (ORIGINAL_DST) has one transport socket for all endpoints, so the client originates mutual TLS iff the
// namespace-wide mode is not DISABLE. Leg 5 is asserted only when every workload port behind the service
// agrees with the namespace-wide reference on DISABLE-ness (no narrower policy flips it): mixed
// namespaces cannot be served correctly by a single socket and the property does not say which side wins.
func checkNamespaceView(c *vh.Ctx, s *xdsfake.FakeDiscoveryServer, client *model.Proxy, clusters map[string]*cluster.Cluster,
	w *World, n NSWorld, pols []Policy, emptySel bool,
) {
	want := refWide(rootNS, Workload{NS: n.NS}, pols)
	fam := func(leg string) string {
		if tiedAt(rootNS, Workload{NS: n.NS}, pols) {
			leg += "-tie"
		}
		if emptySel {
			leg += "-emptysel"
		}
		return leg
	}
	norm := func(m model.MutualTLSMode) Mode {
		switch m {
		case model.MTLSDisable:
			return DISABLE
		case model.MTLSPermissive:
			return PERMISSIVE
		case model.MTLSStrict:
			return STRICT
		}
		return PERMISSIVE // unknown: no namespace or mesh policy; every consumer falls back to PERMISSIVE
	}
	mesh, nsl, _ := winners(rootNS, Workload{NS: n.NS}, pols)
	shape := func() string {
		d := func(p *Policy) string {
			if p == nil {
				return "absent"
			}
			return p.Mode.String()
		}
		o := ""
		if mesh != nil && nsl != nil {
			o = ":namespace-policy-newer"
			if nsl.TS < mesh.TS || (nsl.TS == mesh.TS && nsl.Name < mesh.Name) {
				o = ":namespace-policy-older"
			}
		}
		return "ns=" + d(nsl) + ":mesh=" + d(mesh) + o
	}
	c.SetAdd("nsview_shapes", shape())
	for src, ap := range map[string]interface {
		GetNamespaceMutualTLSMode(string) model.MutualTLSMode
	}{"push-context": s.PushContext().AuthnPolicies, "client-sidecar-scope": client.SidecarScope.AuthnPolicies} {
		got := norm(ap.GetNamespaceMutualTLSMode(n.NS))
		c.Count("nsview_checked", 1)
		if got != want {
			c.Violation(fmt.Sprintf("%s:ref=%s:got=%s:%s:src=%s", fam("nsview"), want, got, shape(), src),
				fmt.Sprintf("namespace %s: namespace/mesh-level mode is %s by precedence (%s) but the %s resolves %s for client-side inference", n.NS, want, shape(), src, got),
				map[string]any{"mesh": w.Mesh, "namespace": n})
		}
	}
	for _, p := range n.Ports {
		cn := model.BuildSubsetKey(model.TrafficDirectionOutbound, "", host.Name("hl."+n.NS+".svc.cluster.local"), p.Svc)
		cl := clusters[cn]
		if cl == nil {
			vh.Abort("cds: headless cluster %s missing (world setup)", cn)
		}
		if cl.GetType() != cluster.Cluster_ORIGINAL_DST {
			vh.Abort("cds: headless cluster %s has type %v (world setup)", cn, cl.GetType())
		}
		uniform := true
		for _, wl := range n.Workloads {
			m, _ := refMode(rootNS, wl, p.Target, pols)
			if (m == DISABLE) != (want == DISABLE) {
				uniform = false
			}
		}
		if !uniform {
			c.Count("headless_unspecified_mixed_modes_behind_one_socket", 1)
			continue
		}
		tls, via := clientSendsTLS(cl, nil)
		c.Count("headless_checked", 1)
		c.SetAdd("headless_outcomes", fmt.Sprintf("%s client-tls=%v via=%s", want, tls, via))
		if tls != (want != DISABLE) {
			c.Violation(fmt.Sprintf("%s:ref=%s:client-originates-tls=%v:%s", fam("headless"), want, tls, shape()),
				fmt.Sprintf("client %s, headless cluster %s: every workload port behind it has reference mode %s-like (namespace-wide %s, %s) but the cluster socket is %s (client originates TLS=%v)",
					client.ID, cn, want, want, shape(), via, tls),
				map[string]any{"mesh": w.Mesh, "namespace": n, "cluster": cn})
		}
	}
}
