package main

import (
	"fmt"
	"math/rand"
	"sort"
)

const rootNS = "istio-system"

// SvcPort is one port of the namespace's Service.
type SvcPort struct {
	Name   string `json:"name"`
	Svc    int    `json:"svc"`    // service port number
	Target uint32 `json:"target"` // workload (target) port number
	Proto  string `json:"proto"`  // http | tcp | auto
}

// NSWorld is everything living in one namespace: its policies, its workloads and their Service.
type NSWorld struct {
	NS        string     `json:"ns"`
	Policies  []Policy   `json:"policies"`
	Workloads []Workload `json:"workloads"`
	Ports     []SvcPort  `json:"ports"`
	Tag       string     `json:"tag,omitempty"` // exhaustive stratum: the combination this namespace realises
}

// World is one control-plane state: the mesh-level policies plus a number of independent
// namespaces (policy sets). All namespaces of a world share the mesh-level policies.
type World struct {
	Mesh []Policy  `json:"mesh"`
	NS   []NSWorld `json:"ns"`
}

func (w *World) allPolicies() []Policy {
	out := append([]Policy(nil), w.Mesh...)
	for _, n := range w.NS {
		out = append(out, n.Policies...)
	}
	return out
}

// workload ports that are checked for every workload: the three service target ports, two ports no
// Service mentions (6060 may carry a port-level setting, 5050 never does ... unless drawn), and 80,
// which is the *service* port number of the first service port: as a workload port it is just
// another non-service port, and a port-level entry "80" must not leak to target port 8080.
var checkedPorts = []uint32{8080, 9090, 7070, 6060, 5050, 80}

// port numbers a portLevelMtls map may mention
var portKeyUniverse = []uint32{8080, 9090, 7070, 6060, 80, 90, 5050}

var protoNames = map[string]string{"http": "http-web", "tcp": "tcp-db", "auto": "misc"}

func svcPorts(protos [3]string) []SvcPort {
	base := []struct {
		svc    int
		target uint32
	}{{80, 8080}, {90, 9090}, {70, 7070}}
	var out []SvcPort
	for i, b := range base {
		// k8s requires unique port names within a Service
		out = append(out, SvcPort{Name: fmt.Sprintf("%s-%d", protoNames[protos[i]], i), Svc: b.svc, Target: b.target, Proto: protos[i]})
	}
	// "misc-2" carries no protocol prefix k8s/istio recognise => protocol detection (auto)
	return out
}

var allProtos = []string{"http", "tcp", "auto"}

func randMode(r *rand.Rand) Mode { return Mode(r.Intn(4)) }

func randName(r *rand.Rand, used map[string]bool) string {
	for {
		n := fmt.Sprintf("pa-%c%c%c", 'a'+r.Intn(26), 'a'+r.Intn(26), 'a'+r.Intn(4))
		if !used[n] {
			used[n] = true
			return n
		}
	}
}

// creation times are whole seconds (Kubernetes granularity) from a tiny range so that ties are common
func randTS(r *rand.Rand) int64 { return 1700000000 + int64(r.Intn(5)) }

func genSelectorless(r *rand.Rand, ns string, n int, used map[string]bool, allowEmptySel bool) []Policy {
	var out []Policy
	for i := 0; i < n; i++ {
		p := Policy{Name: randName(r, used), NS: ns, TS: randTS(r), Mode: randMode(r)}
		if p.Mode == UNSET && r.Intn(2) == 0 {
			p.NilMtls = true
		}
		if allowEmptySel && r.Intn(20) == 0 {
			p.EmptySel = true
		}
		out = append(out, p)
	}
	return out
}

var labelVals = map[string][]string{"app": {"a", "b"}, "ver": {"v1", "v2"}, "grp": {"x"}}

func genWorkloadPolicy(r *rand.Rand, ns string, used map[string]bool) Policy {
	p := Policy{Name: randName(r, used), NS: ns, TS: randTS(r), Mode: randMode(r), Selector: map[string]string{}}
	if p.Mode == UNSET && r.Intn(2) == 0 {
		p.NilMtls = true
	}
	keys := []string{"app", "ver", "grp"}
	r.Shuffle(len(keys), func(i, j int) { keys[i], keys[j] = keys[j], keys[i] })
	nk := 1 + r.Intn(2)
	if r.Intn(6) == 0 {
		nk = 3
	}
	for _, k := range keys[:nk] {
		v := labelVals[k]
		p.Selector[k] = v[r.Intn(len(v))]
	}
	np := []int{0, 1, 1, 2, 2, 3, 4}[r.Intn(7)]
	if np > 0 {
		p.Ports = map[uint32]Mode{}
		for i := 0; i < np; i++ {
			p.Ports[portKeyUniverse[r.Intn(len(portKeyUniverse))]] = randMode(r)
		}
	}
	return p
}

func genWorkloads(r *rand.Rand, ns string, nsIdx int, n int) []Workload {
	var out []Workload
	for i := 0; i < n; i++ {
		lab := map[string]string{
			"grp": "x",
			"app": labelVals["app"][r.Intn(2)],
		}
		if r.Intn(4) != 0 {
			lab["ver"] = labelVals["ver"][r.Intn(2)]
		}
		out = append(out, Workload{Name: fmt.Sprintf("w%d", i), NS: ns, IP: fmt.Sprintf("10.%d.%d.%d", 1+nsIdx/200, nsIdx%200, i+1), Labels: lab})
	}
	return out
}

// genRandomWorld: stratum "random": nNS independent namespaces under one random mesh-level set.
func genRandomWorld(r *rand.Rand, nNS int) *World {
	w := &World{}
	used := map[string]bool{}
	w.Mesh = genSelectorless(r, rootNS, []int{0, 1, 1, 1, 2, 2, 3}[r.Intn(7)], used, false)
	for i := 0; i < nNS; i++ {
		ns := fmt.Sprintf("n%02d", i)
		used := map[string]bool{}
		n := NSWorld{NS: ns}
		n.Policies = append(n.Policies, genSelectorless(r, ns, []int{0, 0, 1, 1, 1, 2, 3}[r.Intn(7)], used, true)...)
		nw := []int{0, 1, 1, 2, 2, 3, 4}[r.Intn(7)]
		for k := 0; k < nw; k++ {
			n.Policies = append(n.Policies, genWorkloadPolicy(r, ns, used))
		}
		r.Shuffle(len(n.Policies), func(a, b int) { n.Policies[a], n.Policies[b] = n.Policies[b], n.Policies[a] })
		n.Workloads = genWorkloads(r, ns, i, 3)
		var pr [3]string
		for k := range pr {
			pr[k] = allProtos[r.Intn(3)]
		}
		n.Ports = svcPorts(pr)
		w.NS = append(w.NS, n)
	}
	// one workload living in the root namespace itself (only the mesh-level policies can apply to it)
	w.NS = append(w.NS, NSWorld{NS: rootNS, Workloads: genWorkloads(r, rootNS, nNS, 1), Ports: svcPorts([3]string{"http", "tcp", "auto"})})
	return w
}

// ---------------------------------------------------------------------------------------
// exhaustive stratum: every combination of (mesh, namespace, workload, port) level settings from
// {absent, UNSET, DISABLE, PERMISSIVE, STRICT}, x selector matches / does not match (two workloads),
// x competing policy older / newer at every present level, x port protocol (three service ports
// http/tcp/auto plus non-service ports all carrying the same port-level setting).

const absent = Mode(-1)

var levelOpts = []Mode{absent, UNSET, DISABLE, PERMISSIVE, STRICT}

func optName(m Mode) string {
	if m == absent {
		return "absent"
	}
	return m.String()
}

// number of exhaustive worlds: 5 mesh options x 2 orders x exhChunks chunks of namespaces
const (
	exhGroups        = 10
	exhNSPerGroup    = 5 * 5 * 5 // ns x workload x port options; (workload absent, port set) is not realisable and skipped
	exhChunks        = 5
	exhNSPerWorld    = exhNSPerGroup / exhChunks
	exhaustiveWorlds = exhGroups * exhChunks
)

// decoy mode: a different explicit mode, so that picking the wrong policy at a level is visible
func decoyOf(m Mode) Mode {
	switch m {
	case STRICT:
		return DISABLE
	case DISABLE:
		return STRICT
	case PERMISSIVE:
		return STRICT
	default: // UNSET, absent
		return STRICT
	}
}

func genExhaustiveWorld(e int) *World {
	group, chunk := e%exhGroups, e/exhGroups
	meshOpt := levelOpts[group%5]
	// The policy carrying the combination ("main") must always win its level against a competing
	// policy ("decoy") that selects the same workloads with a different explicit mode.
	// order 0: main is strictly older, but sorts after the decoy by name and is listed after it;
	// order 1: equal creation times, main has the smaller name (the documented tie-break), listed after the decoy.
	order := group / 5
	tsMain, tsDecoy := int64(1700000100), int64(1700000200)
	nmMain, nmDecoy := "z-main", "a-decoy"
	if order == 1 {
		tsDecoy = tsMain
		nmMain, nmDecoy = "a-main", "z-decoy"
	}
	w := &World{}
	if meshOpt != absent {
		w.Mesh = []Policy{
			{Name: "mesh-" + nmDecoy, NS: rootNS, TS: tsDecoy, Mode: decoyOf(meshOpt)},
			{Name: "mesh-" + nmMain, NS: rootNS, TS: tsMain, Mode: meshOpt},
		}
	}
	idx := 0
	for c := chunk * exhNSPerWorld; c < (chunk+1)*exhNSPerWorld; c++ {
		nsOpt, wlOpt, portOpt := levelOpts[c%5], levelOpts[(c/5)%5], levelOpts[(c/25)%5]
		if wlOpt == absent && portOpt != absent {
			continue // port level lives inside a workload-level policy
		}
		ns := fmt.Sprintf("x%02d", idx)
		n := NSWorld{NS: ns, Tag: fmt.Sprintf("mesh=%s ns=%s wl=%s port=%s order=%d", optName(meshOpt), optName(nsOpt), optName(wlOpt), optName(portOpt), order)}
		if nsOpt != absent {
			n.Policies = append(n.Policies,
				Policy{Name: "ns-" + nmDecoy, NS: ns, TS: tsDecoy, Mode: decoyOf(nsOpt)},
				Policy{Name: "ns-" + nmMain, NS: ns, TS: tsMain, Mode: nsOpt})
		}
		if wlOpt != absent {
			main := Policy{Name: "wl-" + nmMain, NS: ns, TS: tsMain, Mode: wlOpt, Selector: map[string]string{"app": "a"}}
			decoy := Policy{Name: "wl-" + nmDecoy, NS: ns, TS: tsDecoy, Mode: decoyOf(wlOpt), Selector: map[string]string{"grp": "x", "app": "a"}}
			decoy.Ports = map[uint32]Mode{}
			if portOpt != absent {
				main.Ports = map[uint32]Mode{}
			}
			for _, p := range []uint32{8080, 9090, 7070, 6060} {
				if portOpt != absent {
					main.Ports[p] = portOpt
				}
				// the losing policy always carries port-level settings: they must never be picked up
				decoy.Ports[p] = decoyOf(portOpt)
			}
			n.Policies = append(n.Policies, decoy, main)
		}
		n.Workloads = []Workload{
			{Name: "w0", NS: ns, IP: fmt.Sprintf("10.1.%d.1", idx), Labels: map[string]string{"grp": "x", "app": "a", "ver": "v1"}}, // selected
			{Name: "w1", NS: ns, IP: fmt.Sprintf("10.1.%d.2", idx), Labels: map[string]string{"grp": "x", "app": "b", "ver": "v1"}}, // not selected
		}
		n.Ports = svcPorts([3]string{"http", "tcp", "auto"})
		w.NS = append(w.NS, n)
		idx++
	}
	w.NS = append(w.NS, NSWorld{NS: rootNS, Workloads: []Workload{{Name: "w0", NS: rootNS, IP: "10.1.250.1", Labels: map[string]string{"grp": "x", "app": "a"}}},
		Ports: svcPorts([3]string{"http", "tcp", "auto"})})
	return w
}

func sortedKeys[V any](m map[string]V) []string {
	out := make([]string, 0, len(m))
	for k := range m {
		out = append(out, k)
	}
	sort.Strings(out)
	return out
}
