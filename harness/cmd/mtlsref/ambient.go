package main

import (
	"fmt"
	"net/netip"
	"sort"
	"strings"

	"google.golang.org/protobuf/proto"

	"istio.io/istio/pilot/pkg/model"
	v3 "istio.io/istio/pilot/pkg/xds/v3"
	xdsfake "istio.io/istio/pilot/test/xds"
	"istio.io/istio/pkg/workloadapi"
	"istio.io/istio/pkg/workloadapi/security"
	"verifharness/internal/vh"
)

// Leg 3: what an ambient node proxy (ztunnel) is sent. Interpreter written from
// pkg/workloadapi/security/authorization.proto: a policy applies to a workload if its scope is
// GLOBAL, NAMESPACE (same namespace) or WORKLOAD_SELECTOR and the workload lists it in
// authorization_policies. Groups are OR-ed, the Rules of a group are AND-ed, the Matches of a Rules
// are alternatives, the set fields of a Match are AND-ed, values of one field OR-ed, not_* negated.
// A connection is refused if a DENY policy matches, or if ALLOW policies apply and none matches.

type ambientState struct {
	policies  map[string]*security.Authorization // "ns/name" -> policy
	workloads map[string]*workloadapi.Workload   // pod ip -> workload
}

func observeAmbient(s *xdsfake.FakeDiscoveryServer) *ambientState {
	zt := &model.Proxy{Type: model.Ztunnel, ID: "ztunnel.istio-system", ConfigNamespace: "istio-system", IPAddresses: []string{"10.250.0.9"},
		Metadata: &model.NodeMetadata{Namespace: "istio-system", ClusterID: "Kubernetes", NodeName: "node-1"}}
	st := &ambientState{policies: map[string]*security.Authorization{}, workloads: map[string]*workloadapi.Workload{}}
	push := s.PushContext()

	pg := s.Discovery.Generators[v3.WorkloadAuthorizationType]
	ag := s.Discovery.Generators[v3.AddressType]
	if pg == nil || ag == nil {
		vh.Abort("ambient generators not registered")
	}
	res, _, err := pg.Generate(zt, &model.WatchedResource{TypeUrl: v3.WorkloadAuthorizationType, Wildcard: true}, &model.PushRequest{Forced: true, Push: push})
	if err != nil {
		vh.Abort("policy generate: %v", err)
	}
	for _, r := range res {
		a := &security.Authorization{}
		if err := r.Resource.UnmarshalTo(a); err != nil {
			vh.Abort("unmarshal authorization: %v", err)
		}
		st.policies[a.Namespace+"/"+a.Name] = a
	}
	res, _, err = ag.Generate(zt, &model.WatchedResource{TypeUrl: v3.AddressType, Wildcard: true},
		&model.PushRequest{Forced: true, Push: push, Reason: model.NewReasonStats(model.ProxyRequest)})
	if err != nil {
		vh.Abort("address generate: %v", err)
	}
	for _, r := range res {
		a := &workloadapi.Address{}
		if err := r.Resource.UnmarshalTo(a); err != nil {
			vh.Abort("unmarshal address: %v", err)
		}
		if wl := a.GetWorkload(); wl != nil {
			for _, ab := range wl.Addresses {
				if ip, ok := netip.AddrFromSlice(ab); ok {
					st.workloads[ip.String()] = proto.Clone(wl).(*workloadapi.Workload)
				}
			}
		}
	}
	return st
}

type peer struct {
	principal string // "" = unauthenticated (plaintext) peer
	namespace string
	srcIP     string
}

func strMatch(m *security.StringMatch, v string) bool {
	switch t := m.GetMatchType().(type) {
	case *security.StringMatch_Exact:
		return v == t.Exact
	case *security.StringMatch_Prefix:
		return v != "" && strings.HasPrefix(v, t.Prefix)
	case *security.StringMatch_Suffix:
		return v != "" && strings.HasSuffix(v, t.Suffix)
	case *security.StringMatch_Presence:
		return v != ""
	}
	return false
}

func anyStr(ms []*security.StringMatch, v string) bool {
	for _, m := range ms {
		if strMatch(m, v) {
			return true
		}
	}
	return false
}

func containsPort(l []uint32, p uint32) bool {
	for _, x := range l {
		if x == p {
			return true
		}
	}
	return false
}

// matchOne: all populated fields of the Match hold for the connection.
func matchOne(m *security.Match, p peer, dstPort uint32) bool {
	if len(m.SourceIps)+len(m.NotSourceIps)+len(m.DestinationIps)+len(m.NotDestinationIps)+len(m.ServiceAccounts)+len(m.NotServiceAccounts) > 0 {
		panic(unsupported{"ambient match on ip/service account (not produced from PeerAuthentication)"})
	}
	if proto.Size(m) == 0 {
		return false // an empty match never matches (documented at authorization.go isMatchEmpty)
	}
	if len(m.Namespaces) > 0 && !anyStr(m.Namespaces, p.namespace) {
		return false
	}
	if len(m.NotNamespaces) > 0 && anyStr(m.NotNamespaces, p.namespace) {
		return false
	}
	if len(m.Principals) > 0 && !anyStr(m.Principals, p.principal) {
		return false
	}
	if len(m.NotPrincipals) > 0 && anyStr(m.NotPrincipals, p.principal) {
		return false
	}
	if len(m.DestinationPorts) > 0 && !containsPort(m.DestinationPorts, dstPort) {
		return false
	}
	if len(m.NotDestinationPorts) > 0 && containsPort(m.NotDestinationPorts, dstPort) {
		return false
	}
	return true
}

// policyMatches; multi reports whether some Rules had several Matches (their combination is then
// taken as alternatives).
func policyMatches(a *security.Authorization, p peer, dstPort uint32) (matched bool, multi bool) {
	for _, g := range a.GetGroups() {
		gm := true
		for _, r := range g.GetRules() {
			if len(r.GetMatches()) > 1 {
				multi = true
			}
			rm := false
			for _, m := range r.GetMatches() {
				if matchOne(m, p, dstPort) {
					rm = true
				}
			}
			if !rm {
				gm = false
			}
		}
		if gm {
			matched = true
		}
	}
	return
}

type ambientDecision struct {
	rejected bool
	why      string
	dangling []string
	attached []string
}

// decide: is a connection from peer p to workload wl on dstPort refused by the policies sent?
func (st *ambientState) decide(wl *workloadapi.Workload, p peer, dstPort uint32) ambientDecision {
	var d ambientDecision
	var applicable []*security.Authorization
	ref := map[string]bool{}
	for _, n := range wl.GetAuthorizationPolicies() {
		ref[n] = true
		if a := st.policies[n]; a != nil {
			applicable = append(applicable, a)
			d.attached = append(d.attached, n)
		} else {
			d.dangling = append(d.dangling, n)
		}
	}
	for _, k := range sortedKeys(st.policies) {
		a := st.policies[k]
		switch a.Scope {
		case security.Scope_GLOBAL:
			applicable = append(applicable, a)
		case security.Scope_NAMESPACE:
			if a.Namespace == wl.Namespace {
				applicable = append(applicable, a)
			}
		}
	}
	sort.Strings(d.attached)
	allows, allowMatched := 0, false
	for _, a := range applicable {
		if a.DryRun {
			continue
		}
		m, _ := policyMatches(a, p, dstPort)
		switch a.Action {
		case security.Action_DENY:
			if m {
				d.rejected = true
				d.why = fmt.Sprintf("DENY %s/%s matches", a.Namespace, a.Name)
				return d
			}
		case security.Action_ALLOW:
			allows++
			if m {
				allowMatched = true
			}
		}
	}
	if allows > 0 && !allowMatched {
		d.rejected = true
		d.why = "ALLOW policies apply and none matches"
		return d
	}
	d.why = "no DENY matches"
	return d
}
