package main

// Reference semantics of PeerAuthentication, written from the public API documentation
// (istio.io/api security/v1beta1 PeerAuthentication) and the text of property C10:
//
//   * a policy without selector in the root namespace is mesh-level; without selector in any
//     other namespace it is namespace-level; with a selector (non-root namespace) it is
//     workload-level and applies to the workloads of its namespace whose labels contain all
//     matchLabels; portLevelMtls of a workload-level policy is the port level, keyed by the
//     WORKLOAD port number.
//   * narrower wins: port > workload > namespace > mesh.
//   * several policies at one level: the oldest wins. Equal creation time: smaller name wins
//     (the consistent order documented at pilot/pkg/model/config.go configCompareByCreationTime).
//   * UNSET inherits from the next wider level; nothing set anywhere: PERMISSIVE.
//
// Nothing in this file calls istio code.

// Mode values are the API enum values.
type Mode int

const (
	UNSET      Mode = 0
	DISABLE    Mode = 1
	PERMISSIVE Mode = 2
	STRICT     Mode = 3
)

func (m Mode) String() string {
	return [...]string{"UNSET", "DISABLE", "PERMISSIVE", "STRICT"}[m]
}

// Policy is one PeerAuthentication.
type Policy struct {
	Name     string            `json:"name"`
	NS       string            `json:"ns"`
	TS       int64             `json:"ts"`            // creation time, unix seconds
	Selector map[string]string `json:"sel,omitempty"` // nil: no selector
	EmptySel bool              `json:"emptySel,omitempty"`
	NilMtls  bool              `json:"nilMtls,omitempty"` // mtls block omitted (same meaning as UNSET)
	Mode     Mode              `json:"mode"`
	Ports    map[uint32]Mode   `json:"ports,omitempty"`
}

// Workload is one pod.
type Workload struct {
	Name   string            `json:"name"`
	NS     string            `json:"ns"`
	IP     string            `json:"ip"`
	Labels map[string]string `json:"labels"`
}

func older(cur *Policy, p *Policy) *Policy {
	if cur == nil || p.TS < cur.TS || (p.TS == cur.TS && p.Name < cur.Name) {
		return p
	}
	return cur
}

func selects(sel, labels map[string]string) bool {
	for k, v := range sel {
		if lv, ok := labels[k]; !ok || lv != v {
			return false
		}
	}
	return true
}

// winners picks, for one workload, the policy that counts at each level.
func winners(rootNS string, w Workload, pols []Policy) (mesh, nsl, wl *Policy) {
	for i := range pols {
		p := &pols[i]
		switch {
		case p.Selector == nil && p.NS == rootNS:
			mesh = older(mesh, p)
		case p.Selector == nil && p.NS == w.NS:
			nsl = older(nsl, p)
		case p.Selector != nil && p.NS == w.NS && p.NS != rootNS && selects(p.Selector, w.Labels):
			wl = older(wl, p)
		}
	}
	return
}

// refMode is the total reference function: effective mode of one workload port and the level
// that decided it.
func refMode(rootNS string, w Workload, port uint32, pols []Policy) (Mode, string) {
	mesh, nsl, wl := winners(rootNS, w, pols)
	if wl != nil {
		if m, ok := wl.Ports[port]; ok && m != UNSET {
			return m, "port"
		}
		if wl.Mode != UNSET {
			return wl.Mode, "workload"
		}
	}
	if nsl != nil && nsl.Mode != UNSET {
		return nsl.Mode, "namespace"
	}
	if mesh != nil && mesh.Mode != UNSET {
		return mesh.Mode, "mesh"
	}
	return PERMISSIVE, "default"
}

// refWide is the mode the namespace and mesh levels alone give (what applies to a workload of the
// namespace that no workload-level policy selects).
func refWide(rootNS string, w Workload, pols []Policy) Mode {
	m, _ := refMode(rootNS, Workload{NS: w.NS}, 0, pols)
	return m
}

// refModesAnyTie returns every mode the reference could yield if equal creation times at a level
// were resolved in favour of any of the tied oldest policies (instead of by name).
func refModesAnyTie(rootNS string, w Workload, port uint32, pols []Policy) map[Mode]bool {
	lv := map[string][]*Policy{}
	for i := range pols {
		p := &pols[i]
		l := ""
		switch {
		case p.Selector == nil && p.NS == rootNS:
			l = "mesh"
		case p.Selector == nil && p.NS == w.NS:
			l = "ns"
		case p.Selector != nil && p.NS == w.NS && p.NS != rootNS && selects(p.Selector, w.Labels):
			l = "wl"
		default:
			continue
		}
		switch {
		case len(lv[l]) == 0 || p.TS < lv[l][0].TS:
			lv[l] = []*Policy{p}
		case p.TS == lv[l][0].TS:
			lv[l] = append(lv[l], p)
		}
	}
	opt := func(l string) []*Policy {
		if len(lv[l]) == 0 {
			return []*Policy{nil}
		}
		return lv[l]
	}
	out := map[Mode]bool{}
	for _, mesh := range opt("mesh") {
		for _, nsl := range opt("ns") {
			for _, wl := range opt("wl") {
				var sel []Policy
				for _, p := range []*Policy{mesh, nsl, wl} {
					if p != nil {
						sel = append(sel, *p)
					}
				}
				m, _ := refMode(rootNS, w, port, sel)
				out[m] = true
			}
		}
	}
	return out
}

// tiedAt reports whether, at some level relevant to workload w, two or more policies share the
// oldest creation time (so the winner is decided by the tie-break only).
func tiedAt(rootNS string, w Workload, pols []Policy) bool {
	min := map[string]int64{}
	cnt := map[string]int{}
	for i := range pols {
		p := &pols[i]
		lvl := ""
		switch {
		case p.Selector == nil && p.NS == rootNS:
			lvl = "mesh"
		case p.Selector == nil && p.NS == w.NS:
			lvl = "ns"
		case p.Selector != nil && p.NS == w.NS && p.NS != rootNS && selects(p.Selector, w.Labels):
			lvl = "wl"
		default:
			continue
		}
		if c, ok := min[lvl]; !ok || p.TS < c {
			min[lvl] = p.TS
			cnt[lvl] = 1
		} else if p.TS == c {
			cnt[lvl]++
		}
	}
	for _, c := range cnt {
		if c > 1 {
			return true
		}
	}
	return false
}
