package main

import (
	"fmt"
	"math/rand"
	"sort"
	"strings"

	listener "github.com/envoyproxy/go-control-plane/envoy/config/listener/v3"

	"istio.io/istio/pilot/pkg/model"
	"verifharness/internal/vh"
)

// Stratum "tie": the property quantifies over equal creation times. Whatever policy a consumer
// picks among equally old ones, it must pick the same one every time it is given the same
// configuration. A tiny world whose every level has several equally old policies of different
// modes is brought up several times; each consumer's answer must be identical in all of them.

const tieRestarts = 6

func genTieWorld(r *rand.Rand) *World {
	ts := int64(1700000000)
	w := &World{}
	used := map[string]bool{}
	modes := []Mode{STRICT, PERMISSIVE, DISABLE}
	r.Shuffle(3, func(i, j int) { modes[i], modes[j] = modes[j], modes[i] })
	for i := 0; i < 2; i++ {
		w.Mesh = append(w.Mesh, Policy{Name: randName(r, used), NS: rootNS, TS: ts, Mode: modes[i]})
	}
	n := NSWorld{NS: "t00"}
	r.Shuffle(3, func(i, j int) { modes[i], modes[j] = modes[j], modes[i] })
	for i := 0; i < 3; i++ {
		n.Policies = append(n.Policies, Policy{Name: randName(r, used), NS: n.NS, TS: ts, Mode: modes[i]})
	}
	r.Shuffle(3, func(i, j int) { modes[i], modes[j] = modes[j], modes[i] })
	for i := 0; i < 3; i++ {
		p := Policy{Name: randName(r, used), NS: n.NS, TS: ts, Mode: modes[i], Selector: map[string]string{"app": "a"},
			Ports: map[uint32]Mode{8080: modes[(i+1)%3], 6060: modes[(i+2)%3]}}
		n.Policies = append(n.Policies, p)
	}
	n.Workloads = []Workload{
		{Name: "w0", NS: n.NS, IP: "10.1.0.1", Labels: map[string]string{"grp": "x", "app": "a"}},
		{Name: "w1", NS: n.NS, IP: "10.1.0.2", Labels: map[string]string{"grp": "x", "app": "b"}},
	}
	n.Ports = svcPorts([3]string{"http", "tcp", "auto"})
	w.NS = []NSWorld{n}
	return w
}

func runTie(c *vh.Ctx) {
	n := c.N(4, 24)
	for k := 0; k < n; k++ {
		if !c.Mine(k) {
			continue
		}
		c.Case(fmt.Sprintf("tie/%d", k), func() {
			w := genTieWorld(c.Rng("tie", k))
			answers := map[string]map[string]int{} // leg -> answer vector -> how many restarts gave it
			for rep := 0; rep < tieRestarts; rep++ {
				for leg, a := range tieAnswers(w) {
					if answers[leg] == nil {
						answers[leg] = map[string]int{}
					}
					answers[leg][a]++
				}
			}
			c.Count("tie_worlds", 1)
			c.Count("tie_restarts", tieRestarts)
			for _, leg := range sortedKeys(answers) {
				c.Max("tie_distinct_answers_"+leg, len(answers[leg]))
				if len(answers[leg]) > 1 {
					var vs []string
					for a, k := range answers[leg] {
						vs = append(vs, fmt.Sprintf("%dx[%s]", k, a))
					}
					sort.Strings(vs)
					c.Violation(leg+"-tie:different-answers-for-identical-configuration",
						fmt.Sprintf("%d identical control planes holding equally old PeerAuthentications gave %d different %s answers: %s", tieRestarts, len(answers[leg]), leg, strings.Join(vs, " | ")),
						map[string]any{"mesh": w.Mesh, "namespace": w.NS[0]})
				}
			}
			c.Nontrivial(vh.Hash("tie", w.Mesh, w.NS[0].Policies))
		})
	}
}

// tieAnswers brings the world up once and returns each consumer's answer vector.
func tieAnswers(w *World) map[string]string {
	f := vh.NewF()
	defer f.Done()
	s := w.start(f)
	client := sidecarProxy(s, Workload{Name: "client", NS: clientNS, IP: clientIP, Labels: map[string]string{"app": "client"}})
	eds := observeEDS(s, client, w)
	amb := observeAmbient(s)
	var inb, ed, am []string
	n := w.NS[0]
	for _, wl := range n.Workloads {
		px := sidecarProxy(s, wl)
		var vi *listener.Listener
		for _, l := range s.Listeners(px) {
			if l.Name == model.VirtualInboundListenerName {
				vi = l
			}
		}
		if vi == nil {
			vh.Abort("no virtualInbound")
		}
		awl := amb.workloads[wl.IP]
		if awl == nil {
			vh.Abort("ambient: workload missing")
		}
		am = append(am, wl.Name+" attached="+strings.Join(awl.GetAuthorizationPolicies(), ","))
		for _, port := range []uint32{8080, 9090, 6060} {
			proto := "none"
			for _, sp := range n.Ports {
				if sp.Target == port {
					proto = sp.Proto
				}
			}
			inb = append(inb, fmt.Sprintf("%s:%d=%s", wl.Name, port, shortClass(observePort(vi, wl.IP, port, proto).class)))
			am = append(am, fmt.Sprintf("%s:%d rejected=%v", wl.Name, port, amb.decide(awl, peer{}, port).rejected))
		}
		for _, sp := range n.Ports {
			md := eds[clusterName(n.NS, sp.Svc)]["generator"][epKey{wl.IP, sp.Target}]
			ed = append(ed, fmt.Sprintf("%s:%d marker=%v", wl.Name, sp.Target, hasMarker(md)))
		}
	}
	return map[string]string{"inbound": strings.Join(inb, " "), "eds": strings.Join(ed, " "), "ambient": strings.Join(am, " ")}
}
