package main

import (
	"fmt"
	"net/netip"
	"sort"
	"strings"

	listener "github.com/envoyproxy/go-control-plane/envoy/config/listener/v3"
	tlsv3 "github.com/envoyproxy/go-control-plane/envoy/extensions/transport_sockets/tls/v3"
)

// A small interpreter of an Envoy listener, written from the Envoy API documentation
// (config.listener.v3.FilterChainMatch, ListenerFilter.filter_disabled,
// ListenerFilterChainMatchPredicate): which filter chain does a new connection get?
//
// FilterChainMatch: "The following order applies: 1. Destination port. 2. Destination IP address.
// 3. Server name. 4. Transport protocol. 5. Application protocols. 6. Directly connected source IP.
// 7. Source type. 8. Source IP address. 9. Source port. For criteria that allow ranges or wildcards,
// the most specific value in any of the configured filter chains that matches the incoming
// connection is going to be used." - i.e. successive narrowing without backtracking.

type conn struct {
	kind  string
	tls   bool     // the client starts with a TLS ClientHello
	alpn  []string // ALPN offered in the ClientHello (tls) ...
	http  string   // ... or, for plaintext, what the HTTP inspector would sniff ("http/1.1"), "" = not HTTP
	mtls  bool     // client presents an istio workload certificate and offers istio ALPN
	plain bool     // no TLS at all
}

// the connection kinds of the property: plaintext, TLS that is not istio mutual TLS, istio mutual TLS
var connKinds = []conn{
	{kind: "plain-tcp", plain: true},
	{kind: "plain-http1", plain: true, http: "http/1.1"},
	{kind: "tls-noalpn", tls: true},
	{kind: "tls-h2", tls: true, alpn: []string{"h2", "http/1.1"}},
	{kind: "mtls-tcp", tls: true, mtls: true, alpn: []string{"istio-peer-exchange", "istio"}},
	{kind: "mtls-http1", tls: true, mtls: true, alpn: []string{"istio-http/1.1", "istio", "http/1.1"}},
	{kind: "mtls-h2", tls: true, mtls: true, alpn: []string{"istio-h2", "istio", "h2"}},
}

type unsupported struct{ what string }

func evalPredicate(p *listener.ListenerFilterChainMatchPredicate, port uint32) bool {
	switch r := p.GetRule().(type) {
	case *listener.ListenerFilterChainMatchPredicate_OrMatch:
		for _, x := range r.OrMatch.GetRules() {
			if evalPredicate(x, port) {
				return true
			}
		}
		return false
	case *listener.ListenerFilterChainMatchPredicate_AndMatch:
		for _, x := range r.AndMatch.GetRules() {
			if !evalPredicate(x, port) {
				return false
			}
		}
		return true
	case *listener.ListenerFilterChainMatchPredicate_NotMatch:
		return !evalPredicate(r.NotMatch, port)
	case *listener.ListenerFilterChainMatchPredicate_AnyMatch:
		return r.AnyMatch
	case *listener.ListenerFilterChainMatchPredicate_DestinationPortRange:
		// "[start, end)"
		return int32(port) >= r.DestinationPortRange.GetStart() && int32(port) < r.DestinationPortRange.GetEnd()
	}
	panic(unsupported{fmt.Sprintf("listener filter predicate %T", p.GetRule())})
}

// inspectorOn: is the named listener filter present and not disabled for this destination port?
func inspectorOn(l *listener.Listener, name string, port uint32) bool {
	for _, lf := range l.GetListenerFilters() {
		if lf.GetName() != name {
			continue
		}
		if lf.GetFilterDisabled() == nil {
			return true
		}
		return !evalPredicate(lf.GetFilterDisabled(), port)
	}
	return false
}

func contains(l []string, s string) bool {
	for _, x := range l {
		if x == s {
			return true
		}
	}
	return false
}

type matchResult struct {
	chain     *listener.FilterChain // nil: no filter chain found => Envoy closes the connection
	ambiguous bool
	transport string
	alpn      []string
}

// selectChain returns the filter chain Envoy selects for connection c to dstIP:port.
func selectChain(l *listener.Listener, c conn, dstIP string, port uint32) matchResult {
	// what the listener filters detect
	transport := "raw_buffer"
	var alpn []string
	if c.tls && inspectorOn(l, "envoy.filters.listener.tls_inspector", port) {
		transport = "tls"
		alpn = c.alpn
	}
	if transport == "raw_buffer" && !c.tls && c.http != "" && inspectorOn(l, "envoy.filters.listener.http_inspector", port) {
		alpn = []string{c.http}
	}
	res := matchResult{transport: transport, alpn: alpn}
	cands := l.GetFilterChains()
	for _, fc := range cands {
		m := fc.GetFilterChainMatch()
		if len(m.GetServerNames()) > 0 || len(m.GetSourcePrefixRanges()) > 0 || len(m.GetSourcePorts()) > 0 ||
			len(m.GetDirectSourcePrefixRanges()) > 0 || m.GetSourceType() != listener.FilterChainMatch_ANY {
			panic(unsupported{"filter chain match uses server_names/source criteria"})
		}
	}
	narrow := func(exact func(*listener.FilterChainMatch) bool, wildcard func(*listener.FilterChainMatch) bool) {
		var ex, wc []*listener.FilterChain
		for _, fc := range cands {
			m := fc.GetFilterChainMatch()
			if wildcard(m) {
				wc = append(wc, fc)
			} else if exact(m) {
				ex = append(ex, fc)
			}
		}
		if len(ex) > 0 {
			cands = ex
		} else {
			cands = wc
		}
	}
	// 1. destination port
	narrow(func(m *listener.FilterChainMatch) bool { return m.GetDestinationPort().GetValue() == port },
		func(m *listener.FilterChainMatch) bool { return m.GetDestinationPort() == nil })
	// 2. destination IP: longest matching prefix wins
	ip, err := netip.ParseAddr(dstIP)
	if err != nil {
		panic(unsupported{"bad destination ip " + dstIP})
	}
	best := -1
	for _, fc := range cands {
		for _, pr := range fc.GetFilterChainMatch().GetPrefixRanges() {
			pa, err := netip.ParseAddr(pr.GetAddressPrefix())
			if err != nil {
				panic(unsupported{"bad prefix range"})
			}
			pfx := netip.PrefixFrom(pa, int(pr.GetPrefixLen().GetValue()))
			if pfx.Contains(ip) && pfx.Bits() > best {
				best = pfx.Bits()
			}
		}
	}
	narrow(func(m *listener.FilterChainMatch) bool {
		for _, pr := range m.GetPrefixRanges() {
			pa, _ := netip.ParseAddr(pr.GetAddressPrefix())
			pfx := netip.PrefixFrom(pa, int(pr.GetPrefixLen().GetValue()))
			if pfx.Contains(ip) && pfx.Bits() == best {
				return true
			}
		}
		return false
	}, func(m *listener.FilterChainMatch) bool { return len(m.GetPrefixRanges()) == 0 })
	// 3. server names: none configured (checked above)
	// 4. transport protocol
	narrow(func(m *listener.FilterChainMatch) bool { return m.GetTransportProtocol() == transport },
		func(m *listener.FilterChainMatch) bool { return m.GetTransportProtocol() == "" })
	// 5. application protocols: the first offered protocol some chain lists decides
	chosen := ""
	for _, a := range alpn {
		for _, fc := range cands {
			if contains(fc.GetFilterChainMatch().GetApplicationProtocols(), a) {
				chosen = a
				break
			}
		}
		if chosen != "" {
			break
		}
	}
	narrow(func(m *listener.FilterChainMatch) bool {
		return chosen != "" && contains(m.GetApplicationProtocols(), chosen)
	},
		func(m *listener.FilterChainMatch) bool { return len(m.GetApplicationProtocols()) == 0 })
	// 6-9: no source criteria configured
	switch len(cands) {
	case 0:
		if l.GetDefaultFilterChain() != nil {
			res.chain = l.GetDefaultFilterChain()
		}
	case 1:
		res.chain = cands[0]
	default:
		res.chain = cands[0]
		res.ambiguous = true
	}
	return res
}

// chainTLS: does the chain terminate TLS, and does it demand a client certificate?
func chainTLS(fc *listener.FilterChain) (terminates bool, requireClientCert bool) {
	ts := fc.GetTransportSocket()
	if ts == nil {
		return false, false
	}
	ctx := &tlsv3.DownstreamTlsContext{}
	if ts.GetTypedConfig() == nil || ts.GetTypedConfig().UnmarshalTo(ctx) != nil {
		panic(unsupported{"transport socket " + ts.GetName() + " is not a DownstreamTlsContext"})
	}
	return true, ctx.GetRequireClientCertificate().GetValue()
}

type portObservation struct {
	// per connection kind: "none" (no chain, connection closed), "plain:<chain>" (chain without TLS
	// termination), "mtls:<chain>" (terminates TLS and requires a client certificate),
	// "tls-nocert:<chain>" (terminates TLS without demanding a client certificate)
	perKind map[string]string
	class   string // STRICT | PERMISSIVE | DISABLE | INCONSISTENT(<why>)
	ambig   bool
}

// observePort interprets the virtual inbound listener for one workload port. proto is the declared
// protocol of the port ("http", "tcp", "auto") or "none" for a port no Service declares: it only
// decides which of the three istio-mTLS flavours a well-behaved mesh client would send.
func observePort(l *listener.Listener, dstIP string, port uint32, proto string) portObservation {
	o := portObservation{perKind: map[string]string{}}
	res := map[string]string{}
	for _, c := range connKinds {
		m := selectChain(l, c, dstIP, port)
		if m.ambiguous {
			o.ambig = true
		}
		v := "none"
		if m.chain != nil {
			term, cert := chainTLS(m.chain)
			switch {
			case !term:
				v = "plain"
			case cert:
				v = "mtls"
			default:
				v = "tls-nocert"
			}
			o.perKind[c.kind] = v + ":" + m.chain.GetName()
		} else {
			o.perKind[c.kind] = v
		}
		res[c.kind] = v
	}
	// which mutual-TLS flavours a mesh client may send to this port
	var meshKinds []string
	switch proto {
	case "http":
		meshKinds = []string{"mtls-http1", "mtls-h2"}
	case "tcp":
		meshKinds = []string{"mtls-tcp"}
	default:
		meshKinds = []string{"mtls-tcp", "mtls-http1", "mtls-h2"}
	}
	plainKinds := []string{"plain-tcp"}
	if proto != "tcp" {
		plainKinds = append(plainKinds, "plain-http1")
	}
	all := func(kinds []string, want string) bool {
		for _, k := range kinds {
			if res[k] != want {
				return false
			}
		}
		return true
	}
	// onlyMTLS: every connection kind is either refused or handed to a chain that terminates TLS and
	// demands a client certificate (nothing reaches the application without mutual TLS).
	onlyMTLS, anyTLSChain, anyNoCert := true, false, false
	for _, c := range connKinds {
		switch res[c.kind] {
		case "plain":
			onlyMTLS = false
		case "mtls":
			anyTLSChain = true
		case "tls-nocert":
			anyTLSChain, anyNoCert, onlyMTLS = true, true, false
		}
	}
	mtlsAccepted := all(meshKinds, "mtls")
	plainAccepted := all(plainKinds, "plain")
	switch {
	case anyNoCert:
		o.class = "INCONSISTENT(a TLS-terminating chain does not require a client certificate)"
	case mtlsAccepted && onlyMTLS:
		o.class = "STRICT"
	case !anyTLSChain && plainAccepted:
		o.class = "DISABLE"
	case mtlsAccepted && plainAccepted:
		o.class = "PERMISSIVE"
	default:
		var parts []string
		for _, c := range connKinds {
			parts = append(parts, c.kind+"="+res[c.kind])
		}
		sort.Strings(parts)
		o.class = "INCONSISTENT(" + strings.Join(parts, ",") + ")"
	}
	return o
}
