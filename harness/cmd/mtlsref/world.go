package main

import (
	"time"

	corev1 "k8s.io/api/core/v1"
	discoveryv1 "k8s.io/api/discovery/v1"
	metav1 "k8s.io/apimachinery/pkg/apis/meta/v1"
	"k8s.io/apimachinery/pkg/runtime"
	"k8s.io/apimachinery/pkg/util/intstr"

	securityapi "istio.io/api/security/v1beta1"
	typeapi "istio.io/api/type/v1beta1"
	securityclient "istio.io/client-go/pkg/apis/security/v1"
	"istio.io/istio/pilot/pkg/model"
	xdsfake "istio.io/istio/pilot/test/xds"
	"istio.io/istio/pkg/config"
	"istio.io/istio/pkg/config/schema/gvk"
	"verifharness/internal/vh"
)

const (
	clientNS = "client"
	clientIP = "10.250.0.1"
	tlsLabel = "security.istio.io/tlsMode"
)

func (p Policy) spec() *securityapi.PeerAuthentication {
	s := &securityapi.PeerAuthentication{}
	if p.Selector != nil {
		s.Selector = &typeapi.WorkloadSelector{MatchLabels: map[string]string{}}
		for k, v := range p.Selector {
			s.Selector.MatchLabels[k] = v
		}
	} else if p.EmptySel {
		s.Selector = &typeapi.WorkloadSelector{}
	}
	if !(p.Mode == UNSET && p.NilMtls) {
		s.Mtls = &securityapi.PeerAuthentication_MutualTLS{Mode: securityapi.PeerAuthentication_MutualTLS_Mode(p.Mode)}
	}
	if p.Ports != nil {
		s.PortLevelMtls = map[uint32]*securityapi.PeerAuthentication_MutualTLS{}
		for port, m := range p.Ports {
			s.PortLevelMtls[port] = &securityapi.PeerAuthentication_MutualTLS{Mode: securityapi.PeerAuthentication_MutualTLS_Mode(m)}
		}
	}
	return s
}

func podLabels(w Workload) map[string]string {
	l := map[string]string{tlsLabel: "istio"} // as the injector labels every sidecar pod
	for k, v := range w.Labels {
		l[k] = v
	}
	return l
}

func mkPod(w Workload) *corev1.Pod {
	return &corev1.Pod{
		ObjectMeta: metav1.ObjectMeta{Name: w.Name, Namespace: w.NS, Labels: podLabels(w), CreationTimestamp: metav1.NewTime(time.Unix(1600000000, 0))},
		Spec:       corev1.PodSpec{ServiceAccountName: "sa-" + w.Name, NodeName: "node-1"},
		Status: corev1.PodStatus{
			PodIP: w.IP, PodIPs: []corev1.PodIP{{IP: w.IP}}, Phase: corev1.PodRunning,
			Conditions: []corev1.PodCondition{{Type: corev1.PodReady, Status: corev1.ConditionTrue}},
		},
	}
}

// kubeObjects renders the world as Kubernetes objects: Namespaces, Pods, one Service + EndpointSlice
// per namespace, and every PeerAuthentication as a CR (read by the ambient index).
func (w *World) kubeObjects() []runtime.Object {
	var objs []runtime.Object
	ready := true
	tcp := corev1.ProtocolTCP
	nsSeen := map[string]bool{}
	addNS := func(ns string) {
		if !nsSeen[ns] {
			nsSeen[ns] = true
			objs = append(objs, &corev1.Namespace{ObjectMeta: metav1.ObjectMeta{Name: ns}})
		}
	}
	addNS(rootNS)
	addNS(clientNS)
	objs = append(objs, mkPod(Workload{Name: "client", NS: clientNS, IP: clientIP, Labels: map[string]string{"app": "client"}}))
	for i, n := range w.NS {
		addNS(n.NS)
		if len(n.Workloads) == 0 {
			continue
		}
		svc := &corev1.Service{
			ObjectMeta: metav1.ObjectMeta{Name: "svc", Namespace: n.NS, CreationTimestamp: metav1.NewTime(time.Unix(1600000000, 0))},
			Spec: corev1.ServiceSpec{
				ClusterIP: clusterIP(i), Selector: map[string]string{"grp": "x"}, Type: corev1.ServiceTypeClusterIP,
			},
		}
		es := &discoveryv1.EndpointSlice{
			ObjectMeta:  metav1.ObjectMeta{Name: "svc-1", Namespace: n.NS, Labels: map[string]string{discoveryv1.LabelServiceName: "svc"}},
			AddressType: discoveryv1.AddressTypeIPv4,
		}
		for _, p := range n.Ports {
			p := p
			svc.Spec.Ports = append(svc.Spec.Ports, corev1.ServicePort{Name: p.Name, Port: int32(p.Svc), TargetPort: intstr.FromInt32(int32(p.Target)), Protocol: corev1.ProtocolTCP})
			port := int32(p.Target)
			es.Ports = append(es.Ports, discoveryv1.EndpointPort{Name: &p.Name, Port: &port, Protocol: &tcp})
		}
		for _, wl := range n.Workloads {
			objs = append(objs, mkPod(wl))
			es.Endpoints = append(es.Endpoints, discoveryv1.Endpoint{
				Addresses:  []string{wl.IP},
				Conditions: discoveryv1.EndpointConditions{Ready: &ready},
				TargetRef:  &corev1.ObjectReference{Kind: "Pod", Name: wl.Name, Namespace: wl.NS},
			})
		}
		objs = append(objs, svc, es)
		// a headless twin of the service (clusterIP None => ORIGINAL_DST cluster on the client): its cluster
		// has ONE transport socket for all endpoints, decided by the client-side inference alone
		hl := svc.DeepCopy()
		hl.Name = "hl"
		hl.Spec.ClusterIP = corev1.ClusterIPNone
		hes := es.DeepCopy()
		hes.Name = "hl-1"
		hes.Labels = map[string]string{discoveryv1.LabelServiceName: "hl"}
		objs = append(objs, hl, hes)
	}
	for _, p := range w.allPolicies() {
		objs = append(objs, &securityclient.PeerAuthentication{
			ObjectMeta: metav1.ObjectMeta{Name: p.Name, Namespace: p.NS, CreationTimestamp: metav1.NewTime(time.Unix(p.TS, 0))},
			Spec:       *p.spec(), //nolint: govet
		})
	}
	return objs
}

func clusterIP(i int) string {
	return "10.200." + itoa(i/200) + "." + itoa(i%200+1)
}

func itoa(i int) string {
	if i == 0 {
		return "0"
	}
	s := ""
	for i > 0 {
		s = string(rune('0'+i%10)) + s
		i /= 10
	}
	return s
}

// configs renders every PeerAuthentication for the istio config store (read by the sidecar legs).
func (w *World) configs() []config.Config {
	var out []config.Config
	for _, p := range w.allPolicies() {
		out = append(out, config.Config{
			Meta: config.Meta{GroupVersionKind: gvk.PeerAuthentication, Name: p.Name, Namespace: p.NS, CreationTimestamp: time.Unix(p.TS, 0)},
			Spec: p.spec(),
		})
	}
	return out
}

// start brings up a fake istiod holding the world. Every object is present before the informers
// start, so the server's own cache-sync wait is the barrier: nothing is created afterwards.
func (w *World) start(f *vh.F) *xdsfake.FakeDiscoveryServer {
	return xdsfake.NewFakeDiscoveryServer(f, xdsfake.FakeOptions{
		KubernetesObjects: w.kubeObjects(),
		Configs:           w.configs(),
	})
}

func sidecarProxy(s *xdsfake.FakeDiscoveryServer, w Workload) *model.Proxy {
	l := podLabels(w)
	return s.SetupProxy(&model.Proxy{
		Type:            model.SidecarProxy,
		ID:              w.Name + "." + w.NS,
		IPAddresses:     []string{w.IP},
		ConfigNamespace: w.NS,
		DNSDomain:       w.NS + ".svc.cluster.local",
		Labels:          l,
		Metadata:        &model.NodeMetadata{Namespace: w.NS, Labels: l, ClusterID: "Kubernetes", ServiceAccount: "sa-" + w.Name},
	})
}
