// Engine rbacref: property C08 — the Envoy RBAC filters generated for a workload decide every request
// as the AuthorizationPolicy semantics say.
//
// Differential semantic check. For generated sets of AuthorizationPolicies (each passed through the
// real validator) the REAL translation is run (config store -> model.GetAuthorizationPolicies ->
// plugin/authz.NewBuilder -> BuildHTTP/BuildTCP). Two independent references written for this
// harness judge every generated request:
//
//	A  refpolicy.go  evaluates the AuthorizationPolicy objects as the public documentation says;
//	B  envoyrbac.go  interprets the emitted envoy.config.rbac.v3.RBAC protos as Envoy documents.
//
// Oracle: decision(B over the real output) == decision(A). One-sided only where the property allows
// it (a condition that cannot be parsed: the generated config may be stricter, never more permissive).
package main

import (
	"encoding/json"
	"fmt"
	"sort"
	"strings"

	"google.golang.org/protobuf/encoding/protojson"
	"google.golang.org/protobuf/proto"

	authpb "istio.io/api/security/v1beta1"

	"verifharness/internal/vh"
)

// Measured cost is far below the design estimate (one policy set with 64 requests takes about 5 ms
// under -race), so the tiers are larger than DESIGN.md planned: quick 2000 sets, thorough 100 000
// sets; both run the complete enumerated sweep.
const (
	quickSets      = 2000
	thoroughSets   = 100000
	requestsPerSet = 64
)

func main() {
	vh.Main(vh.Prop{
		ID:    "C08",
		Level: "exploration",
		Rule: "case = PRNG-generated world (mesh trust domain/aliases, root namespace, workload namespace+labels, 1-5 " +
			"AuthorizationPolicies accepted by the real validator) x ~64 requests (HTTP and raw TCP, with/without mTLS identity and JWT) built " +
			"from the policies' constants and near misses; plus an enumerated single-field sweep (field x value form x action x alias). " +
			"Non-trivial = at least one enforced ALLOW/DENY policy applies to the workload and at least one request was judged by both references; " +
			"distinct = hash of world and policies.",
		Assumptions: []string{
			"trusted base: reference A (refpolicy.go) is a faithful reading of the AuthorizationPolicy API documentation; combinations the documentation leaves open (wild-carded principals/trust domains together with trust-domain aliases) are counted as unspecified and not judged",
			"trusted base: reference B (envoyrbac.go) implements Envoy's documented RBAC matcher semantics (safe_regex = RE2 full match via Go regexp; uri_template via own translation to a regular expression); unknown matcher kinds make the case inconclusive",
			"trusted base: request -> Envoy facts mapping (request.go): peer identity is the single URI SAN spiffe://td/ns/x/sa/y (and filter state io.istio.peer_principal), validated JWT claims are dynamic metadata envoy.filters.http.jwt_authn/payload, :authority/:method/:path carry host/method/path",
			"request domain: header values are non-empty, paths carry no query string, peer identities are well-formed SPIFFE ids, claims named scope/permission (split on spaces by jwt_authn) are not used",
			"only the policy kinds reachable for sidecar and Gateway-API gateway workloads are generated (no waypoint / Service / GatewayClass attachment); CUSTOM and AUDIT policies are present but do not take part in the decision",
		},
		Anchors: []string{
			"pilot/pkg/security/authz/", "pilot/pkg/model/authorization.go", "pilot/pkg/security/trustdomain/",
			"pilot/pkg/networking/plugin/authz/",
		},
		MinNontrivial: func(tier string) int {
			if tier == "thorough" {
				return 60000
			}
			return 3000
		},
		Batches: func(tier string) int {
			if tier == "thorough" {
				return 8
			}
			return 4
		},
		Parallel: func(tier string) int {
			if tier == "thorough" {
				return 8
			}
			return 4
		},
		TimeoutSec: func(tier string) int {
			if tier == "thorough" {
				return 2400
			}
			return 600
		},
		Run: run,
	})
}

func run(c *vh.Ctx) {
	n := c.N(quickSets, thoroughSets)
	for i := 0; i < n; i++ {
		if !c.Mine(i) {
			continue
		}
		c.Case(fmt.Sprintf("set-%d", i), func() { randomCase(c, i) })
	}
	// enumerated single-field sweep (identical in both tiers)
	sw := buildSweep(true)
	for j, sc := range sw {
		if !c.Mine(j) {
			continue
		}
		c.Case("sweep-"+sc.name, func() { runSweepCase(c, sc) })
	}
}

func randomCase(c *vh.Ctx, i int) {
	rng := c.Rng("world", i)
	g := newGen(rng)
	w := g.world()
	nPol := 1 + rng.Intn(5)
	var rejected []string
	for k := 0; k < nPol; k++ {
		p := g.policy(k, g.p(0.07))
		warn, err := validatePolicy(p)
		if err != nil {
			c.Count("policies_rejected_by_validation", 1)
			rejected = append(rejected, err.Error())
			continue
		}
		if warn {
			c.Count("policies_with_validation_warning", 1)
		}
		c.Count("policies_accepted", 1)
		w.Policies = append(w.Policies, p)
	}
	for _, rj := range rejected {
		c.SetAdd("rejection_reasons", rejectionClass(rj))
	}
	reqs := g.requests(requestsPerSet)
	c.Count("policy_sets", 1)
	judge(c, w, reqs, i < 12)
}

// rejectionClass strips volatile parts of a validation error.
func rejectionClass(s string) string {
	for _, m := range []string{"empty value not allowed", "bad CIDR", "bad IP", "bad port", "wildcard not allowed", "expected format",
		"cannot set serviceAccounts", "invalid or unsupported path", "DENY action without", "CUSTOM action without", "unknown attribute",
		"is replaced by", "deprecated attribute", "bad key", "trust domain must not contain", "at most one wildcard", "wildcard is only allowed",
		"`provider` must not be", "`provider.name` must not be empty", "at least one of `values`", "must not be empty", "not supported with CUSTOM",
		"`key` must not be empty", "only one of targetRefs", "targetRef"} {
		if strings.Contains(s, m) {
			return m
		}
	}
	// fall back to the first line that is not the multierror header
	for _, l := range strings.Split(s, "\n") {
		l = strings.TrimSpace(strings.TrimPrefix(strings.TrimSpace(l), "*"))
		if l == "" || strings.HasSuffix(l, "occurred:") {
			continue
		}
		if len(l) > 60 {
			l = l[:60]
		}
		return l
	}
	return "other"
}

// evaluation of one world ------------------------------------------------------------------------

type verdict struct {
	a     tv
	b     bool
	aTr   refTrace
	bTr   []filterVerdict
	unpar bool
}

type evaluator struct {
	w    *World
	ref  *refEval
	http []decodedFilter
	tcp  []decodedFilter
	in   interp
}

// newEvaluator runs the real translation for the world. Unknown constructs panic with unknownKind.
func newEvaluator(w *World) *evaluator {
	out, err := runReal(w)
	if err != nil {
		vh.Abort("real translation could not be set up: %v", err)
	}
	ev := &evaluator{w: w, ref: newRefEval(w)}
	ev.http = decodeHTTPFilters(out.http)
	ev.tcp = decodeTCPFilters(out.tcp)
	return ev
}

func (ev *evaluator) eval(r *Request) verdict {
	var v verdict
	v.a, v.aTr = ev.ref.decide(r)
	v.unpar = ev.ref.sawUnparsable
	chain := ev.tcp
	if r.HTTP {
		chain = ev.http
	}
	v.b, v.bTr = ev.in.evalChain(chain, toEnvoyFacts(r))
	return v
}

// disagreement classifies a verdict: "" (fine), "permissive" (generated config admits what the policy
// rejects) or "stricter" (generated config rejects what the policy admits, outside the permitted
// one-sided cases).
func disagreement(v verdict) string {
	switch {
	case v.a == tU:
		return ""
	case v.a == tF && v.b:
		return "permissive"
	case v.a == tT && !v.b && !v.unpar:
		return "stricter"
	}
	return ""
}

func judge(c *vh.Ctx, w *World, reqs []*Request, sample bool) {
	var ev *evaluator
	func() {
		defer func() {
			if r := recover(); r != nil {
				if uk, ok := r.(unknownKind); ok {
					c.Inconclusive("reference cannot interpret the generated config: " + uk.what)
					ev = nil
					return
				}
				panic(r)
			}
		}()
		ev = newEvaluator(w)
	}()
	if ev == nil {
		return
	}
	applicable := 0
	for _, p := range w.Policies {
		if ev.ref.applies(p) && ev.ref.enforced(p) &&
			(p.Spec.GetAction() == authpb.AuthorizationPolicy_ALLOW || p.Spec.GetAction() == authpb.AuthorizationPolicy_DENY) {
			applicable++
		}
	}
	protos := map[string]bool{}
	judged := 0
	reported := map[string]bool{}
	for _, r := range reqs {
		var v verdict
		ok := func() (ok bool) {
			defer func() {
				if rec := recover(); rec != nil {
					if uk, is := rec.(unknownKind); is {
						c.Inconclusive("reference cannot interpret: " + uk.what)
						return
					}
					panic(rec)
				}
			}()
			v = ev.eval(r)
			return true
		}()
		if !ok {
			return
		}
		c.Count("requests_evaluated", 1)
		proto := "tcp"
		if r.HTTP {
			proto = "http"
		}
		protos[proto] = true
		if r.ID.Present() {
			c.Count("requests_with_mtls_identity", 1)
		}
		if r.JWT != nil {
			c.Count("requests_with_jwt", 1)
		}
		if v.a == tU {
			c.Count("requests_unspecified_by_documentation", 1)
			continue
		}
		judged++
		if v.b {
			c.Count("decisions_allow_"+proto, 1)
		} else {
			c.Count("decisions_deny_"+proto, 1)
		}
		if ev.ref.sawHTTPOnlyOnTCP {
			c.Count("requests_tcp_with_http_only_fields", 1)
		}
		if v.unpar {
			c.Count("requests_one_sided_unparsable", 1)
			if v.a == tT && !v.b {
				c.Count("one_sided_generated_stricter", 1)
			}
		}
		if d := disagreement(v); d != "" {
			reportViolation(c, w, r, v, d, reported)
		}
	}
	for _, k := range ev.in.kindList() {
		c.SetAdd("matcher_kinds_interpreted", k)
	}
	for _, p := range w.Policies {
		if !ev.ref.applies(p) {
			c.Count("policies_not_applicable_to_workload", 1)
			continue
		}
		if !ev.ref.enforced(p) {
			c.Count("policies_dry_run", 1)
			continue
		}
		act := p.Spec.GetAction().String()
		c.SetAdd("actions_applied", act)
		if act != "ALLOW" && act != "DENY" {
			continue
		}
		for _, fv := range policyFields(p.Spec) {
			for pr := range protos {
				c.SetAdd("combos_field_form_action_proto", fv.field+"|"+fv.form+"|"+act+"|"+pr)
			}
		}
	}
	scope := "sidecar"
	if _, ok := w.WLabels[gatewayNameLabel]; ok {
		scope = "gateway"
	}
	if w.WNS == w.RootNS {
		scope += "+in-root-ns"
	}
	if len(w.Aliases) > 0 {
		scope += "+aliases"
	}
	if w.UseFilterState {
		scope += "+filter-state"
	}
	c.SetAdd("world_kinds", scope)
	c.Max("policies_per_set", len(w.Policies))
	if applicable > 0 && judged > 0 {
		c.Nontrivial(vh.Hash(worldJSON(w)))
	}
	if sample {
		c.Sample(map[string]any{"world": worldJSON(w), "first_request": reqs[0], "requests": len(reqs), "judged": judged})
	}
}

// field/value inventory of a policy ----------------------------------------------------------------

type fieldValue struct{ field, form, value string }

func stringForm(v string) string {
	switch {
	case v == "*":
		return "presence"
	case strings.HasPrefix(v, "*"):
		return "suffix"
	case strings.HasSuffix(v, "*"):
		return "prefix"
	}
	return "exact"
}

func ipForm(v string) string {
	f := "ip"
	if strings.Contains(v, "/") {
		f = "cidr"
	}
	if strings.Contains(v, ":") {
		return f + "6"
	}
	return f + "4"
}

func pathForm(v string) string {
	if strings.Contains(v, "{*}") || strings.Contains(v, "{**}") {
		return "template"
	}
	return stringForm(v)
}

func saForm(v string) string {
	if strings.Contains(v, "/") {
		return "ns/sa"
	}
	return "sa"
}

func constForm(string) string { return "number" }

func policyFields(s *authpb.AuthorizationPolicy) []fieldValue {
	var out []fieldValue
	add := func(field string, vals []string, form func(string) string) {
		for _, v := range vals {
			out = append(out, fieldValue{field, form(v), v})
		}
	}
	for _, ru := range s.GetRules() {
		if len(ru.GetFrom())+len(ru.GetTo())+len(ru.GetWhen()) == 0 {
			out = append(out, fieldValue{"(empty rule)", "-", ""})
		}
		for _, f := range ru.GetFrom() {
			src := f.GetSource()
			add("principals", src.GetPrincipals(), stringForm)
			add("notPrincipals", src.GetNotPrincipals(), stringForm)
			add("requestPrincipals", src.GetRequestPrincipals(), stringForm)
			add("notRequestPrincipals", src.GetNotRequestPrincipals(), stringForm)
			add("namespaces", src.GetNamespaces(), stringForm)
			add("notNamespaces", src.GetNotNamespaces(), stringForm)
			add("serviceAccounts", src.GetServiceAccounts(), saForm)
			add("notServiceAccounts", src.GetNotServiceAccounts(), saForm)
			add("ipBlocks", src.GetIpBlocks(), ipForm)
			add("notIpBlocks", src.GetNotIpBlocks(), ipForm)
			add("remoteIpBlocks", src.GetRemoteIpBlocks(), ipForm)
			add("notRemoteIpBlocks", src.GetNotRemoteIpBlocks(), ipForm)
			add("trustDomains", src.GetTrustDomains(), stringForm)
			add("notTrustDomains", src.GetNotTrustDomains(), stringForm)
		}
		for _, t := range ru.GetTo() {
			op := t.GetOperation()
			add("hosts", op.GetHosts(), stringForm)
			add("notHosts", op.GetNotHosts(), stringForm)
			add("ports", op.GetPorts(), constForm)
			add("notPorts", op.GetNotPorts(), constForm)
			add("methods", op.GetMethods(), stringForm)
			add("notMethods", op.GetNotMethods(), stringForm)
			add("paths", op.GetPaths(), pathForm)
			add("notPaths", op.GetNotPaths(), pathForm)
		}
		for _, cd := range ru.GetWhen() {
			k := cd.GetKey()
			ck := parseCondKey(k)
			name := ck.attr
			switch {
			case !ck.ok:
				name = "unparsable:" + ck.attr
			case ck.attr == "request.auth.claims" && len(ck.claims) > 1:
				name = "request.auth.claims[nested]"
			case ck.attr == "request.auth.claims":
				name = "request.auth.claims[]"
			case ck.attr == "request.headers":
				name = "request.headers[]"
			}
			form := stringForm
			switch ck.attr {
			case "source.ip", "remote.ip", "destination.ip":
				form = ipForm
			case "destination.port":
				form = constForm
			case "source.serviceAccount":
				form = saForm
			}
			add("when:"+name, cd.GetValues(), form)
			add("whenNot:"+name, cd.GetNotValues(), form)
		}
	}
	if len(s.GetRules()) == 0 {
		out = append(out, fieldValue{"(no rules)", "-", ""})
	}
	return out
}

// JSON rendering -----------------------------------------------------------------------------------

type policyJSON struct {
	Name   string          `json:"name"`
	NS     string          `json:"namespace"`
	DryRun string          `json:"dry_run_annotation,omitempty"`
	Spec   json.RawMessage `json:"spec"`
}

type worldOut struct {
	RootNS         string            `json:"root_namespace"`
	TD             string            `json:"trust_domain"`
	Aliases        []string          `json:"trust_domain_aliases,omitempty"`
	WNS            string            `json:"workload_namespace"`
	WLabels        map[string]string `json:"workload_labels"`
	UseFilterState bool              `json:"use_filter_state,omitempty"`
	Policies       []policyJSON      `json:"policies"`
}

func worldJSON(w *World) worldOut {
	o := worldOut{RootNS: w.RootNS, TD: w.TD, Aliases: w.Aliases, WNS: w.WNS, WLabels: w.WLabels, UseFilterState: w.UseFilterState}
	for _, p := range w.Policies {
		b, err := protojson.MarshalOptions{}.Marshal(p.Spec)
		if err != nil {
			b = []byte(`"unmarshalable"`)
		}
		// protojson output is deliberately unstable in whitespace; normalise
		var anyv any
		if json.Unmarshal(b, &anyv) == nil {
			b, _ = json.Marshal(anyv)
		}
		o.Policies = append(o.Policies, policyJSON{Name: p.Name, NS: p.NS, DryRun: p.DryRun, Spec: b})
	}
	return o
}

func cloneWorld(w *World) *World {
	c := *w
	c.Aliases = append([]string{}, w.Aliases...)
	c.WLabels = map[string]string{}
	for k, v := range w.WLabels {
		c.WLabels[k] = v
	}
	c.Policies = nil
	for _, p := range w.Policies {
		q := *p
		q.Spec = proto.Clone(p.Spec).(*authpb.AuthorizationPolicy)
		c.Policies = append(c.Policies, &q)
	}
	return &c
}

// violation reporting with shrinking --------------------------------------------------------------

// witnesses counts reported violations per key in this process; once a root cause that a hypothesis
// explains has enough witnesses, further instances are counted but not shrunk again.
var witnesses = map[string]int{}

// Shrinking re-runs the real translation many times. A widespread fault would otherwise turn every
// case into thousands of translations, so the work is bounded by counts (never by time): per case and
// per process. Disagreements beyond the bound are counted, not reported again; the bound is only ever
// reached after violations have been reported.
const (
	shrinksPerCase    = 4
	shrinkRunsPerProc = 60000
	shrinkRunsPerCall = 1500
)

var shrinkRunsUsed int

func reportViolation(c *vh.Ctx, w *World, r *Request, v verdict, dir string, reported map[string]bool) {
	c.Count("disagreements_raw", 1)
	capReached := len(reported) >= shrinksPerCase || shrinkRunsUsed >= shrinkRunsPerProc
	if ok, names := explainedByAll(w, r, v.b); ok {
		enough := true
		for _, h := range names {
			for _, d := range []string{"permissive", "stricter"} {
				if witnesses["dir="+d+" explained-by="+h] < 5 {
					enough = false
				}
			}
		}
		if enough || capReached {
			c.Count("disagreements_of_already_witnessed_kind", 1)
			return
		}
	}
	if capReached {
		// not explained by any named root cause and not shrunk: visible in the evidence
		c.Count("disagreements_unexplained_not_shrunk_bound_reached", 1)
		return
	}
	mw, mr, runs := shrink(w, r, dir)
	shrinkRunsUsed += runs
	mv, ok := tryEval(mw, mr)
	key := violationKey(mw, mr, dir)
	if ok {
		if h := explainedBy(mw, mr, mv.b); h != "" {
			key = "dir=" + dir + " explained-by=" + h
		}
	}
	if reported[key] {
		reported[fmt.Sprintf("dup-%d", len(reported))] = true // counts towards shrinksPerCase
		return
	}
	reported[key] = true
	witnesses[key]++
	msg := fmt.Sprintf("generated RBAC is %s than the policy: reference A (policy semantics) says allow=%s, reference B (Envoy RBAC over the real output) says allow=%v", dirWord(dir), v.a, v.b)
	payload := map[string]any{
		"direction":        dir,
		"world":            worldJSON(w),
		"request":          r,
		"policy_trace":     v.aTr,
		"envoy_trace":      v.bTr,
		"minimal_world":    worldJSON(mw),
		"minimal_request":  mr,
		"shrink_real_runs": runs,
	}
	if ok {
		payload["minimal_policy_trace"] = mv.aTr
		payload["minimal_envoy_trace"] = mv.bTr
		payload["minimal_generated_config"] = generatedConfigJSON(mw, mr.HTTP)
		b, _ := json.Marshal(worldJSON(mw).Policies)
		rb, _ := json.Marshal(mr)
		msg += fmt.Sprintf("; minimal: policies=%s request=%s => A allow=%s, B allow=%v", b, rb, mv.a, mv.b)
	}
	c.Violation(key, msg, payload)
}

func dirWord(d string) string {
	if d == "permissive" {
		return "MORE PERMISSIVE"
	}
	return "stricter"
}

// tryEval evaluates one request in one world, reporting ok=false when a reference gives up.
func tryEval(w *World, r *Request) (v verdict, ok bool) {
	defer func() {
		if rec := recover(); rec != nil {
			ok = false
		}
	}()
	for _, p := range w.Policies {
		if _, err := validatePolicy(p); err != nil {
			return v, false
		}
	}
	ev := newEvaluator(w)
	return ev.eval(r), true
}

func generatedConfigJSON(w *World, http bool) any {
	defer func() { _ = recover() }()
	out, err := runReal(w)
	if err != nil {
		return nil
	}
	var res []any
	conv := func(m proto.Message) {
		b, err := protojson.Marshal(m)
		if err != nil {
			return
		}
		var v any
		if json.Unmarshal(b, &v) == nil {
			res = append(res, v)
		}
	}
	if http {
		for _, f := range out.http {
			conv(f)
		}
	} else {
		for _, f := range out.tcp {
			conv(f)
		}
	}
	return res
}

// shrink greedily removes parts of the world and of the request while the same kind of disagreement
// persists. Every candidate is re-validated and re-translated by the real code.
func shrink(w *World, r *Request, dir string) (*World, *Request, int) {
	runs := 0
	fails := func(w *World, r *Request) bool {
		runs++
		v, ok := tryEval(w, r)
		return ok && disagreement(v) == dir
	}
	cur, curR := cloneWorld(w), r.clone()
	for runs < shrinkRunsPerCall {
		progress := false
		for _, ed := range edits(cur, curR) {
			w2, r2 := cloneWorld(cur), curR.clone()
			if !ed(w2, r2) {
				continue
			}
			normaliseRequest(r2)
			if fails(w2, r2) {
				cur, curR = w2, r2
				progress = true
				break
			}
			if runs >= shrinkRunsPerCall {
				break
			}
		}
		if !progress {
			break
		}
	}
	return cur, curR, runs
}

type edit func(w *World, r *Request) bool

func removeAt[T any](l []T, i int) []T {
	out := append([]T{}, l[:i]...)
	return append(out, l[i+1:]...)
}

// edits enumerates single simplification steps applicable to (w, r). Closures address by index and
// are applied to clones.
func edits(w *World, r *Request) []edit {
	var out []edit
	for i := range w.Policies {
		i := i
		out = append(out, func(w *World, _ *Request) bool { w.Policies = removeAt(w.Policies, i); return true })
	}
	for i, p := range w.Policies {
		i := i
		for j := range p.Spec.GetRules() {
			j := j
			if len(p.Spec.GetRules()) > 1 {
				out = append(out, func(w *World, _ *Request) bool {
					w.Policies[i].Spec.Rules = removeAt(w.Policies[i].Spec.Rules, j)
					return true
				})
			}
			ru := p.Spec.Rules[j]
			for k := range ru.GetFrom() {
				k := k
				out = append(out, func(w *World, _ *Request) bool {
					ru := w.Policies[i].Spec.Rules[j]
					ru.From = removeAt(ru.From, k)
					if len(ru.From) == 0 {
						ru.From = nil
					}
					return true
				})
			}
			for k := range ru.GetTo() {
				k := k
				out = append(out, func(w *World, _ *Request) bool {
					ru := w.Policies[i].Spec.Rules[j]
					ru.To = removeAt(ru.To, k)
					if len(ru.To) == 0 {
						ru.To = nil
					}
					return true
				})
			}
			for k := range ru.GetWhen() {
				k := k
				out = append(out, func(w *World, _ *Request) bool {
					ru := w.Policies[i].Spec.Rules[j]
					ru.When = removeAt(ru.When, k)
					if len(ru.When) == 0 {
						ru.When = nil
					}
					return true
				})
			}
			// individual lists and values
			for k := range ru.GetFrom() {
				k := k
				for li := range sourceLists(ru.From[k].GetSource()) {
					li := li
					out = append(out, listEdits(func(w *World) *[]string {
						return sourceLists(w.Policies[i].Spec.Rules[j].From[k].GetSource())[li]
					}, len(*sourceLists(ru.From[k].GetSource())[li]))...)
				}
			}
			for k := range ru.GetTo() {
				k := k
				for li := range operationLists(ru.To[k].GetOperation()) {
					li := li
					out = append(out, listEdits(func(w *World) *[]string {
						return operationLists(w.Policies[i].Spec.Rules[j].To[k].GetOperation())[li]
					}, len(*operationLists(ru.To[k].GetOperation())[li]))...)
				}
			}
			for k := range ru.GetWhen() {
				k := k
				out = append(out, listEdits(func(w *World) *[]string { return &w.Policies[i].Spec.Rules[j].When[k].Values },
					len(ru.When[k].GetValues()))...)
				out = append(out, listEdits(func(w *World) *[]string { return &w.Policies[i].Spec.Rules[j].When[k].NotValues },
					len(ru.When[k].GetNotValues()))...)
			}
		}
		if p.Spec.GetSelector() != nil || len(p.Spec.GetTargetRefs()) > 0 {
			out = append(out, func(w *World, _ *Request) bool {
				w.Policies[i].Spec.Selector, w.Policies[i].Spec.TargetRefs = nil, nil
				return true
			})
		}
		if p.DryRun != "" {
			out = append(out, func(w *World, _ *Request) bool { w.Policies[i].DryRun = ""; return true })
		}
		if p.NS != w.WNS {
			out = append(out, func(w *World, _ *Request) bool { w.Policies[i].NS = w.WNS; return true })
		}
	}
	for i := range w.Aliases {
		i := i
		out = append(out, func(w *World, _ *Request) bool { w.Aliases = removeAt(w.Aliases, i); return true })
	}
	if w.UseFilterState {
		out = append(out, func(w *World, _ *Request) bool { w.UseFilterState = false; return true })
	}
	if _, ok := w.WLabels[gatewayNameLabel]; ok {
		out = append(out, func(w *World, _ *Request) bool { delete(w.WLabels, gatewayNameLabel); return true })
	}
	// request
	if r.ID.Present() {
		out = append(out, func(_ *World, r *Request) bool { r.ID = Identity{}; return true })
	}
	if r.JWT != nil {
		out = append(out, func(_ *World, r *Request) bool { r.JWT = nil; return true })
		for _, k := range sortedKeys(r.JWT) {
			k := k
			if k != "iss" && k != "sub" {
				out = append(out, func(_ *World, r *Request) bool { delete(r.JWT, k); return true })
			}
		}
	}
	for _, k := range sortedKeys(r.Headers) {
		k := k
		out = append(out, func(_ *World, r *Request) bool { delete(r.Headers, k); return true })
	}
	if r.RemoteIP != r.SrcIP {
		out = append(out, func(_ *World, r *Request) bool { r.RemoteIP, r.RemoteVia = r.SrcIP, "same"; return true })
	}
	if r.SNI != "" {
		out = append(out, func(_ *World, r *Request) bool { r.SNI = ""; return true })
	}
	if r.HTTP {
		if r.Host != "example.com" {
			out = append(out, func(_ *World, r *Request) bool { r.Host = "example.com"; return true })
		}
		if r.Method != "GET" {
			out = append(out, func(_ *World, r *Request) bool { r.Method = "GET"; return true })
		}
		if r.Path != "/" {
			out = append(out, func(_ *World, r *Request) bool { r.Path = "/"; return true })
		}
	}
	return out
}

func sourceLists(s *authpb.Source) []*[]string {
	if s == nil {
		return nil
	}
	return []*[]string{&s.Principals, &s.NotPrincipals, &s.RequestPrincipals, &s.NotRequestPrincipals, &s.Namespaces, &s.NotNamespaces,
		&s.ServiceAccounts, &s.NotServiceAccounts, &s.IpBlocks, &s.NotIpBlocks, &s.RemoteIpBlocks, &s.NotRemoteIpBlocks,
		&s.TrustDomains, &s.NotTrustDomains}
}

func operationLists(o *authpb.Operation) []*[]string {
	if o == nil {
		return nil
	}
	return []*[]string{&o.Hosts, &o.NotHosts, &o.Ports, &o.NotPorts, &o.Methods, &o.NotMethods, &o.Paths, &o.NotPaths}
}

// listEdits: clear the list, or drop one value.
func listEdits(get func(w *World) *[]string, n int) []edit {
	if n == 0 {
		return nil
	}
	out := []edit{func(w *World, _ *Request) bool { *get(w) = nil; return true }}
	if n > 1 {
		for i := 0; i < n; i++ {
			i := i
			out = append(out, func(w *World, _ *Request) bool { l := get(w); *l = removeAt(*l, i); return true })
		}
	}
	return out
}

// violationKey names the kind of failure from the shrunk counterexample: direction, protocol and the
// (action, field, value form) inventory that is left.
func violationKey(w *World, r *Request, dir string) string {
	proto := "tcp"
	if r.HTTP {
		proto = "http"
	}
	var pols []string
	for _, p := range w.Policies {
		seen := map[string]bool{}
		var fs []string
		for _, fv := range policyFields(p.Spec) {
			s := fv.field + ":" + fv.form
			if !seen[s] {
				seen[s] = true
				fs = append(fs, s)
			}
		}
		sort.Strings(fs)
		pols = append(pols, p.Spec.GetAction().String()+"["+strings.Join(fs, ",")+"]")
	}
	sort.Strings(pols)
	k := "dir=" + dir + " proto=" + proto + " " + strings.Join(pols, "+")
	if len(w.Aliases) > 0 {
		k += " aliases"
	}
	return k
}
