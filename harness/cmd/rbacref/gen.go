package main

// Generator of worlds (mesh settings, workload, AuthorizationPolicies) and of requests built from the
// constants occurring in the policies plus near misses. Everything random comes from the *rand.Rand
// handed in (vh.Ctx.Rng); no map iteration order is used for drawing.

import (
	"fmt"
	"math/rand"
	"net/netip"
	"strconv"
	"strings"

	authpb "istio.io/api/security/v1beta1"
	typepb "istio.io/api/type/v1beta1"
)

var (
	poolLocalTD   = []string{"cluster.local", "td1.example.com", "old-td"}
	poolAliasTD   = []string{"td2", "new-td", "alias.example.com"}
	poolForeignTD = []string{"evil.example.org", "other-td"}
	poolNS        = []string{"foo", "bar", "baz", "foo-2", "default", "data", "a.b"}
	poolSA        = []string{"sleep", "httpbin", "sleep-2", "admin", "sa.v1", "default"}
	poolIP4       = []string{"10.1.2.3", "10.1.2.4", "10.1.0.0/16", "10.1.2.0/24", "192.168.5.17", "192.168.5.16/28",
		"172.16.0.0/12", "10.1.2.3/32", "0.0.0.0/0", "10.1.77.5/16", "203.0.113.4", "203.0.113.0/24", "10.0.0.0/8"}
	poolIP6        = []string{"2001:db8::1", "2001:db8::/32", "2001:db8:1::/48", "::1", "fd00::/8", "2001:db8:1::5/48"}
	poolHosts      = []string{"example.com", "api.example.com", "httpbin.foo.svc.cluster.local", "example.com:8080", "Example.COM", "a-b.example.org"}
	poolMethods    = []string{"GET", "POST", "PUT", "DELETE", "HEAD", "PATCH", "OPTIONS"}
	poolPaths      = []string{"/", "/info", "/info/", "/data", "/admin/users", "/api/v1/items", "/foo/bar/baz.txt", "/healthz", "/a.b/c+d", "/foo/bar", "/foo/"}
	poolTemplates  = []string{"/foo/{*}", "/foo/{**}", "/foo/{*}/bar/{**}", "/{*}/info", "/foo/{**}/", "/api/{*}/items", "/{**}", "/foo/{*}/{*}", "/foo/{**}/baz.txt", "/{*}", "/a.b/{*}"}
	poolPorts      = []string{"80", "8080", "443", "9000", "8081", "65535", "1"}
	poolHeaderName = []string{"x-token", "X-Env", "User-Agent", "x-request-id"}
	poolHeaderVal  = []string{"admin", "prod", "Mozilla/5.0", "a.b+c", "secret-1", "v1"}
	poolIss        = []string{"https://accounts.example.com", "issuer.example.com", "testing@secure.istio.io", "https://token.example.org/v2"}
	poolSub        = []string{"sub-1", "user@example.com", "admin", "repo:org/app:ref:refs/heads/main"}
	poolAud        = []string{"api.example.com", "bookstore", "web"}
	poolAzp        = []string{"client-1", "frontend"}
	poolClaimKeys  = [][]string{{"groups"}, {"role"}, {"nested", "key"}, {"a", "b", "c"}, {"https://example.com/ns"}}
	poolClaimVal   = []string{"admin", "dev", "group-1", "a.b", "editor"}
	poolSNI        = []string{"www.example.com", "api.example.com", "outbound_.443_._.svc.foo.svc.cluster.local"}
	poolRootNS     = []string{"istio-system", "root-ns"}
	poolWorkloadNS = []string{"foo", "bar"}
)

type gen struct {
	r *rand.Rand
	w *World
	// constants seen while generating policies, per attribute class
	consts map[string][]string
	// header names and claim paths used by policies
	headerNames []string
	claimPaths  [][]string
	foreignTD   string
}

func newGen(r *rand.Rand) *gen {
	return &gen{r: r, consts: map[string][]string{}}
}

func (g *gen) pick(l []string) string { return l[g.r.Intn(len(l))] }
func (g *gen) p(prob float64) bool    { return g.r.Float64() < prob }

func (g *gen) addConst(class string, vs ...string) {
	for _, v := range vs {
		if v == "" {
			continue
		}
		dup := false
		for _, e := range g.consts[class] {
			if e == v {
				dup = true
				break
			}
		}
		if !dup {
			g.consts[class] = append(g.consts[class], v)
		}
	}
}

// form derives a value in one of the four documented string forms from a base string. boundary is
// a set of characters after/before which a cut is preferred half of the time.
func (g *gen) form(base string, boundary string, wExact, wPrefix, wSuffix, wPresence float64) (val, form string) {
	x := g.r.Float64() * (wExact + wPrefix + wSuffix + wPresence)
	cut := func() int {
		// position in [0,len]
		if boundary != "" && g.p(0.5) {
			var idx []int
			for i := 0; i < len(base); i++ {
				if strings.IndexByte(boundary, base[i]) >= 0 {
					idx = append(idx, i)
				}
			}
			if len(idx) > 0 {
				return idx[g.r.Intn(len(idx))]
			}
		}
		return g.r.Intn(len(base) + 1)
	}
	switch {
	case x < wExact || len(base) == 0:
		return base, "exact"
	case x < wExact+wPrefix:
		k := cut()
		if k < len(base) && strings.IndexByte(boundary, base[k]) >= 0 {
			k++ // keep the boundary character in the prefix
		}
		if k == 0 {
			k = 1
		}
		return base[:k] + "*", "prefix"
	case x < wExact+wPrefix+wSuffix:
		k := cut()
		if k >= len(base) {
			k = len(base) - 1
		}
		return "*" + base[k:], "suffix"
	default:
		return "*", "presence"
	}
}

func stripStar(v string) string { return strings.Trim(v, "*") }

// ---- world ------------------------------------------------------------------------------------

func (g *gen) world() *World {
	w := &World{}
	g.w = w
	w.RootNS = g.pick(poolRootNS)
	w.TD = g.pick(poolLocalTD)
	if g.p(0.5) {
		n := 1 + g.r.Intn(2)
		perm := g.r.Perm(len(poolAliasTD))
		for i := 0; i < n; i++ {
			w.Aliases = append(w.Aliases, poolAliasTD[perm[i]])
		}
		if g.p(0.15) && w.TD != "cluster.local" {
			w.Aliases = append(w.Aliases, "cluster.local")
		}
	}
	g.foreignTD = g.pick(poolForeignTD)
	switch {
	case g.p(0.08):
		w.WNS = w.RootNS
	default:
		w.WNS = g.pick(poolWorkloadNS)
	}
	w.WLabels = map[string]string{"app": "httpbin", "version": "v1"}
	if g.p(0.08) {
		w.WLabels[gatewayNameLabel] = "gw"
	}
	w.UseFilterState = g.p(0.25)
	return w
}

func (g *gen) tdPool() []string {
	l := []string{g.w.TD}
	l = append(l, g.w.Aliases...)
	l = append(l, g.foreignTD, "cluster.local")
	return dedupe(l)
}

func dedupe(l []string) []string {
	seen := map[string]bool{}
	var out []string
	for _, s := range l {
		if !seen[s] {
			seen[s] = true
			out = append(out, s)
		}
	}
	return out
}

// ---- policies ---------------------------------------------------------------------------------

// policy generates one AuthorizationPolicy. invalid asks for a deliberately invalid element so that
// the validator has something to reject.
func (g *gen) policy(i int, invalid bool) *PolicyIn {
	p := &PolicyIn{Name: fmt.Sprintf("p%d", i), Spec: &authpb.AuthorizationPolicy{}}
	x := g.r.Float64()
	switch {
	case x < 0.60:
		p.NS = g.w.WNS
	case x < 0.85:
		p.NS = g.w.RootNS
	default:
		p.NS = g.pick([]string{"baz", "other-ns"})
	}
	x = g.r.Float64()
	switch {
	case x < 0.45:
		p.Spec.Action = authpb.AuthorizationPolicy_ALLOW
	case x < 0.86:
		p.Spec.Action = authpb.AuthorizationPolicy_DENY
	case x < 0.93:
		p.Spec.Action = authpb.AuthorizationPolicy_AUDIT
	default:
		p.Spec.Action = authpb.AuthorizationPolicy_CUSTOM
		p.Spec.ActionDetail = &authpb.AuthorizationPolicy_Provider{Provider: &authpb.AuthorizationPolicy_ExtensionProvider{Name: "ext"}}
	}
	x = g.r.Float64()
	switch {
	case x < 0.55:
	case x < 0.80:
		// subset of the workload labels
		sel := map[string]string{}
		keys := sortedKeys(g.w.WLabels)
		for _, k := range keys {
			if g.p(0.6) {
				sel[k] = g.w.WLabels[k]
			}
		}
		if len(sel) == 0 {
			sel[keys[0]] = g.w.WLabels[keys[0]]
		}
		p.Spec.Selector = &typepb.WorkloadSelector{MatchLabels: sel}
	case x < 0.91:
		sel := map[string]string{"app": "httpbin"}
		switch g.r.Intn(3) {
		case 0:
			sel["version"] = "v2"
		case 1:
			sel["tier"] = "backend"
		default:
			sel["app"] = "httpbi"
		}
		p.Spec.Selector = &typepb.WorkloadSelector{MatchLabels: sel}
	case x < 0.94:
		p.Spec.Selector = &typepb.WorkloadSelector{}
	default:
		ref := &typepb.PolicyTargetReference{Group: gwGroup, Kind: gwKind, Name: "gw"}
		switch g.r.Intn(5) {
		case 0:
			ref.Name = "gw2"
		case 1:
			ref = &typepb.PolicyTargetReference{Group: "", Kind: "Service", Name: "gw"}
		}
		p.Spec.TargetRefs = []*typepb.PolicyTargetReference{ref}
		if g.p(0.3) {
			p.Spec.TargetRefs = append(p.Spec.TargetRefs, &typepb.PolicyTargetReference{Group: gwGroup, Kind: gwKind, Name: "gw"})
		}
	}
	switch x = g.r.Float64(); {
	case x < 0.08:
		p.DryRun = "true"
	case x < 0.12:
		p.DryRun = "false"
	}
	custom := p.Spec.Action == authpb.AuthorizationPolicy_CUSTOM
	nRules := 1
	switch x = g.r.Float64(); {
	case x < 0.07:
		nRules = 0
	case x < 0.65:
		nRules = 1
	case x < 0.90:
		nRules = 2
	default:
		nRules = 3
	}
	for k := 0; k < nRules; k++ {
		p.Spec.Rules = append(p.Spec.Rules, g.rule(custom))
	}
	if invalid {
		g.breakPolicy(p)
	}
	return p
}

func (g *gen) rule(custom bool) *authpb.Rule {
	ru := &authpb.Rule{}
	if g.p(0.06) {
		return ru
	}
	count := func() int {
		switch x := g.r.Float64(); {
		case x < 0.38:
			return 0
		case x < 0.82:
			return 1
		case x < 0.96:
			return 2
		default:
			return 3
		}
	}
	nf, nt := count(), count()
	nw := 0
	switch x := g.r.Float64(); {
	case x < 0.47:
	case x < 0.80:
		nw = 1
	case x < 0.90:
		nw = 2
	default:
		// long condition lists (with several from/to alternatives they exercise how the shared condition
		// prefix is combined with each alternative)
		nw = 3 + g.r.Intn(7)
	}
	if nf+nt+nw == 0 {
		switch g.r.Intn(3) {
		case 0:
			nf = 1
		case 1:
			nt = 1
		default:
			nw = 1
		}
	}
	for i := 0; i < nf; i++ {
		ru.From = append(ru.From, &authpb.Rule_From{Source: g.source(custom)})
	}
	for i := 0; i < nt; i++ {
		ru.To = append(ru.To, &authpb.Rule_To{Operation: g.operation()})
	}
	for i := 0; i < nw; i++ {
		ru.When = append(ru.When, g.condition(custom))
	}
	return ru
}

// valuesFor fills a positive and/or a negative list using mk.
func (g *gen) valuesFor(mk func() string) (vals, notVals []string) {
	n := func() int {
		switch x := g.r.Float64(); {
		case x < 0.6:
			return 1
		case x < 0.9:
			return 2
		default:
			return 3
		}
	}
	fill := func() []string {
		var l []string
		for i, k := 0, n(); i < k; i++ {
			l = append(l, mk())
		}
		return dedupe(l)
	}
	switch x := g.r.Float64(); {
	case x < 0.58:
		vals = fill()
	case x < 0.85:
		notVals = fill()
	default:
		vals, notVals = fill(), fill()
	}
	return
}

func (g *gen) mkPrincipal() string {
	td, ns, sa := g.pick(g.tdPool()), g.pick(poolNS), g.pick(poolSA)
	if g.p(0.5) {
		ns = g.w.WNS
	}
	base := td + "/ns/" + ns + "/sa/" + sa
	v, _ := g.form(base, "/", 0.55, 0.17, 0.17, 0.11)
	g.addConst("td", td)
	g.addConst("ns", ns)
	g.addConst("sa", sa)
	g.constsFromPartialPrincipal(v)
	return v
}

// constsFromPartialPrincipal records the (possibly truncated) components of a principal pattern so
// that requests hit the boundary of prefix and suffix forms.
func (g *gen) constsFromPartialPrincipal(v string) {
	s := stripStar(v)
	if s == "" {
		return
	}
	parts := strings.Split(s, "/")
	names := []string{"td", "", "ns", "", "sa"}
	if strings.HasPrefix(v, "*") {
		// aligned to the right
		for i := 0; i < len(parts) && i < 5; i++ {
			if n := names[4-i]; n != "" {
				g.addConst(n, parts[len(parts)-1-i])
			}
		}
		return
	}
	for i := 0; i < len(parts) && i < 5; i++ {
		if n := names[i]; n != "" {
			g.addConst(n, parts[i])
		}
	}
}

func (g *gen) mkRequestPrincipal() string {
	iss, sub := g.pick(poolIss), g.pick(poolSub)
	if g.p(0.75) && strings.Contains(sub, "/") {
		sub = g.pick(poolSub[:3])
	}
	base := iss + "/" + sub
	v, f := g.form(base, "/", 0.5, 0.2, 0.2, 0.1)
	g.addConst("iss", iss)
	g.addConst("sub", sub)
	s := stripStar(v)
	if i := strings.LastIndexByte(s, '/'); i >= 0 {
		g.addConst("iss", s[:i])
		g.addConst("sub", s[i+1:])
	} else if f == "prefix" {
		g.addConst("iss", s)
	} else if f == "suffix" {
		g.addConst("sub", s)
	}
	return v
}

func (g *gen) mkSimple(class string, pool []string, boundary string, wE, wP, wS, wPr float64) func() string {
	return func() string {
		base := g.pick(pool)
		v, _ := g.form(base, boundary, wE, wP, wS, wPr)
		g.addConst(class, base, stripStar(v))
		return v
	}
}

func (g *gen) mkServiceAccount(policyNSDefault bool) string {
	ns, sa := g.pick(poolNS), g.pick(poolSA)
	if g.p(0.5) {
		ns = g.w.WNS
	}
	g.addConst("ns", ns)
	g.addConst("sa", sa)
	if g.p(0.4) {
		// short form: namespace of the policy; make identities of interesting namespaces likely
		g.addConst("ns", g.w.WNS, g.w.RootNS)
		return sa
	}
	return ns + "/" + sa
}

func (g *gen) mkIP() string {
	var v string
	if g.p(0.8) {
		v = g.pick(poolIP4)
	} else {
		v = g.pick(poolIP6)
	}
	g.addConst("ip", v)
	return v
}

func (g *gen) mkTrustDomain() string {
	base := g.pick(g.tdPool())
	v, _ := g.form(base, ".-", 0.55, 0.17, 0.17, 0.11)
	g.addConst("td", base, stripStar(v))
	return v
}

func (g *gen) mkPath() string {
	if g.p(0.3) {
		t := g.pick(poolTemplates)
		g.addConst("tmpl", t)
		return t
	}
	return g.mkSimple("path", poolPaths, "/", 0.5, 0.25, 0.17, 0.08)()
}

func (g *gen) mkHost() string {
	return g.mkSimple("host", poolHosts, ".:", 0.5, 0.2, 0.22, 0.08)()
}

func (g *gen) source(custom bool) *authpb.Source {
	s := &authpb.Source{}
	// field groups
	groups := []string{"principals", "requestPrincipals", "namespaces", "serviceAccounts", "ipBlocks", "remoteIpBlocks", "trustDomains"}
	if custom {
		groups = []string{"ipBlocks", "remoteIpBlocks"}
	}
	n := 1
	switch x := g.r.Float64(); {
	case x < 0.6:
	case x < 0.9:
		n = 2
	default:
		n = 3
	}
	perm := g.r.Perm(len(groups))
	chosen := map[string]bool{}
	for i := 0; i < n && i < len(groups); i++ {
		chosen[groups[perm[i]]] = true
	}
	if chosen["serviceAccounts"] && (chosen["principals"] || chosen["namespaces"]) && g.p(0.95) {
		delete(chosen, "serviceAccounts")
	}
	for _, f := range groups {
		if !chosen[f] {
			continue
		}
		switch f {
		case "principals":
			s.Principals, s.NotPrincipals = g.valuesFor(g.mkPrincipal)
		case "requestPrincipals":
			s.RequestPrincipals, s.NotRequestPrincipals = g.valuesFor(g.mkRequestPrincipal)
		case "namespaces":
			s.Namespaces, s.NotNamespaces = g.valuesFor(g.mkSimple("ns", poolNS, "-.", 0.6, 0.15, 0.15, 0.1))
		case "serviceAccounts":
			s.ServiceAccounts, s.NotServiceAccounts = g.valuesFor(func() string { return g.mkServiceAccount(true) })
		case "ipBlocks":
			s.IpBlocks, s.NotIpBlocks = g.valuesFor(g.mkIP)
		case "remoteIpBlocks":
			s.RemoteIpBlocks, s.NotRemoteIpBlocks = g.valuesFor(g.mkIP)
		case "trustDomains":
			s.TrustDomains, s.NotTrustDomains = g.valuesFor(g.mkTrustDomain)
		}
	}
	return s
}

func (g *gen) operation() *authpb.Operation {
	o := &authpb.Operation{}
	groups := []string{"hosts", "ports", "methods", "paths"}
	n := 1
	switch x := g.r.Float64(); {
	case x < 0.55:
	case x < 0.9:
		n = 2
	default:
		n = 3
	}
	perm := g.r.Perm(len(groups))
	chosen := map[string]bool{}
	for i := 0; i < n; i++ {
		chosen[groups[perm[i]]] = true
	}
	for _, f := range groups {
		if !chosen[f] {
			continue
		}
		switch f {
		case "hosts":
			o.Hosts, o.NotHosts = g.valuesFor(g.mkHost)
		case "ports":
			o.Ports, o.NotPorts = g.valuesFor(func() string { v := g.pick(poolPorts); g.addConst("port", v); return v })
		case "methods":
			o.Methods, o.NotMethods = g.valuesFor(g.mkSimple("method", poolMethods, "", 0.8, 0.08, 0.08, 0.04))
		case "paths":
			o.Paths, o.NotPaths = g.valuesFor(g.mkPath)
		}
	}
	return o
}

var condKeys = []string{
	"request.headers", "request.headers", "source.ip", "remote.ip", "source.namespace", "source.principal",
	"source.serviceAccount", "source.trustDomain", "request.auth.principal", "request.auth.audiences",
	"request.auth.presenter", "request.auth.claims", "request.auth.claims", "destination.ip", "destination.port",
	"connection.sni",
}

var customCondKeys = []string{"request.headers", "source.ip", "remote.ip", "destination.ip", "destination.port", "connection.sni"}

func (g *gen) condition(custom bool) *authpb.Condition {
	keys := condKeys
	if custom {
		keys = customCondKeys
	}
	return g.conditionFor(g.pick(keys), g.p(0.03))
}

func claimKey(path []string) string {
	k := "request.auth.claims"
	for _, p := range path {
		k += "[" + p + "]"
	}
	return k
}

func (g *gen) conditionFor(attr string, malformed bool) *authpb.Condition {
	c := &authpb.Condition{}
	var mk func() string
	switch attr {
	case "request.headers":
		name := g.pick(poolHeaderName)
		c.Key = "request.headers[" + name + "]"
		if malformed {
			c.Key = "request.headersX[" + name + "]"
		} else {
			g.addHeaderName(name)
		}
		mk = g.mkSimple("hdr:"+strings.ToLower(name), poolHeaderVal, "/.-", 0.5, 0.2, 0.2, 0.1)
	case "request.auth.claims":
		path := poolClaimKeys[g.r.Intn(len(poolClaimKeys))]
		c.Key = claimKey(path)
		if malformed {
			c.Key = "request.auth.claimsX[" + path[0] + "]"
		} else {
			g.addClaimPath(path)
		}
		mk = g.mkSimple("claim:"+strings.Join(path, "\x00"), poolClaimVal, "-.", 0.55, 0.18, 0.18, 0.09)
	case "source.ip", "remote.ip", "destination.ip":
		c.Key = attr
		mk = g.mkIP
	case "source.namespace":
		c.Key = attr
		mk = g.mkSimple("ns", poolNS, "-.", 0.6, 0.15, 0.15, 0.1)
	case "source.principal":
		c.Key = attr
		mk = g.mkPrincipal
	case "source.serviceAccount":
		c.Key = attr
		mk = func() string { return g.mkServiceAccount(true) }
	case "source.trustDomain":
		c.Key = attr
		mk = g.mkTrustDomain
	case "request.auth.principal":
		c.Key = attr
		mk = g.mkRequestPrincipal
	case "request.auth.audiences":
		c.Key = attr
		mk = g.mkSimple("aud", poolAud, ".", 0.6, 0.15, 0.15, 0.1)
	case "request.auth.presenter":
		c.Key = attr
		mk = g.mkSimple("azp", poolAzp, "-", 0.6, 0.15, 0.15, 0.1)
	case "destination.port":
		c.Key = attr
		mk = func() string { v := g.pick(poolPorts); g.addConst("port", v); return v }
	case "connection.sni":
		c.Key = attr
		mk = g.mkSimple("sni", poolSNI, "._", 0.5, 0.2, 0.2, 0.1)
	default:
		panic("generator: unknown attribute " + attr)
	}
	c.Values, c.NotValues = g.valuesFor(mk)
	return c
}

func (g *gen) addHeaderName(n string) {
	for _, e := range g.headerNames {
		if strings.EqualFold(e, n) {
			return
		}
	}
	g.headerNames = append(g.headerNames, n)
}

func (g *gen) addClaimPath(p []string) {
	k := strings.Join(p, "\x00")
	for _, e := range g.claimPaths {
		if strings.Join(e, "\x00") == k {
			return
		}
	}
	g.claimPaths = append(g.claimPaths, p)
}

// breakPolicy makes the policy invalid in one of the ways the validator documents.
func (g *gen) breakPolicy(p *PolicyIn) {
	ensureRule := func() *authpb.Rule {
		if len(p.Spec.Rules) == 0 {
			p.Spec.Rules = append(p.Spec.Rules, &authpb.Rule{})
		}
		return p.Spec.Rules[g.r.Intn(len(p.Spec.Rules))]
	}
	switch g.r.Intn(12) {
	case 0:
		ru := ensureRule()
		ru.From = append(ru.From, &authpb.Rule_From{Source: &authpb.Source{Namespaces: []string{""}}})
	case 1:
		ru := ensureRule()
		ru.From = append(ru.From, &authpb.Rule_From{Source: &authpb.Source{IpBlocks: []string{g.pick([]string{"10.1.2.3/33", "300.1.1.1", "10.1.2", "2001:db8::/129"})}}})
	case 2:
		ru := ensureRule()
		ru.To = append(ru.To, &authpb.Rule_To{Operation: &authpb.Operation{Ports: []string{g.pick([]string{"70000", "http", "-1", "80-90"})}}})
	case 3:
		ru := ensureRule()
		ru.From = append(ru.From, &authpb.Rule_From{Source: &authpb.Source{ServiceAccounts: []string{g.pick([]string{"sleep*", "a/b/c", "/sleep", "foo/"})}}})
	case 4:
		ru := ensureRule()
		ru.From = append(ru.From, &authpb.Rule_From{Source: &authpb.Source{ServiceAccounts: []string{"foo/sleep"}, Namespaces: []string{"foo"}}})
	case 5:
		ru := ensureRule()
		ru.To = append(ru.To, &authpb.Rule_To{Operation: &authpb.Operation{Paths: []string{g.pick([]string{"/{**}/foo/{*}", "/foo/{*}.txt", "/foo/{*}/bar*", "/foo/{x}", "/foo//{*}"})}}})
	case 6:
		p.Spec.Action = authpb.AuthorizationPolicy_DENY
		p.Spec.ActionDetail = nil
		p.Spec.Rules = nil
	case 7:
		ru := ensureRule()
		ru.When = append(ru.When, &authpb.Condition{Key: g.pick([]string{"destination.labels[app]", "foo.bar", "destination.namespace", "request.headers", "request.auth.claims[]", ""}), Values: []string{"x"}})
	case 8:
		ru := ensureRule()
		ru.From = append(ru.From, &authpb.Rule_From{Source: &authpb.Source{TrustDomains: []string{g.pick([]string{"td/x", "a*b", "*a*"})}}})
	case 9:
		if p.Spec.Action != authpb.AuthorizationPolicy_CUSTOM {
			p.Spec.ActionDetail = &authpb.AuthorizationPolicy_Provider{Provider: &authpb.AuthorizationPolicy_ExtensionProvider{Name: "ext"}}
		} else {
			p.Spec.ActionDetail = nil
		}
	case 10:
		ru := ensureRule()
		ru.When = append(ru.When, &authpb.Condition{Key: "source.ip"})
	default:
		ru := ensureRule()
		ru.To = append(ru.To, &authpb.Rule_To{Operation: &authpb.Operation{}})
	}
}

// ---- requests ---------------------------------------------------------------------------------

func flipCase(s string) string {
	b := []byte(s)
	for i, c := range b {
		switch {
		case c >= 'a' && c <= 'z':
			b[i] = c - 32
			return string(b)
		case c >= 'A' && c <= 'Z':
			b[i] = c + 32
			return string(b)
		}
	}
	return s
}

// nearMisses of a constant: itself, one char longer / shorter at either end, case flipped, regex
// metacharacter replaced.
func nearMisses(c string) []string {
	out := []string{c, c + "x", "x" + c, flipCase(c)}
	if len(c) > 1 {
		out = append(out, c[:len(c)-1], c[1:])
	}
	if strings.ContainsAny(c, ".+") {
		out = append(out, strings.NewReplacer(".", "x", "+", "p").Replace(c))
	}
	return out
}

type cands struct {
	td, ns, sa, ip, port, host, method, path, sni, iss, sub, aud, azp []string
	hdr                                                               map[string][]string // by lower-cased name
	claim                                                             map[string][]string // by joined path
}

func ipNeighbours(v string) []string {
	var out []string
	add := func(a netip.Addr) {
		if a.IsValid() {
			out = append(out, a.String())
		}
	}
	if strings.Contains(v, "/") {
		pf, err := netip.ParsePrefix(v)
		if err != nil {
			return nil
		}
		add(pf.Addr())
		first := pf.Masked().Addr()
		add(first)
		add(first.Prev())
		add(first.Next())
		// last address of the range
		b := first.AsSlice()
		bits := pf.Bits()
		for i := bits; i < len(b)*8; i++ {
			b[i/8] |= 1 << (7 - uint(i%8))
		}
		last, _ := netip.AddrFromSlice(b)
		add(last)
		add(last.Next())
		add(last.Prev())
		return out
	}
	a, err := netip.ParseAddr(v)
	if err != nil {
		return nil
	}
	add(a)
	add(a.Next())
	add(a.Prev())
	return out
}

func portNeighbours(v string) []string {
	n, err := strconv.Atoi(v)
	if err != nil {
		return nil
	}
	var out []string
	for _, d := range []int{0, 1, -1} {
		if m := n + d; m >= 1 && m <= 65535 {
			out = append(out, strconv.Itoa(m))
		}
	}
	return out
}

// instantiate a path template into concrete paths, including the documented boundary cases.
func templatePaths(t string) []string {
	one := []string{"x", "bar", "a.b"}
	many := []string{"", "x", "x/y", "bar/baz.txt", "/"}
	outs := []string{""}
	segs := strings.Split(t, "/")
	for i, s := range segs {
		var alts []string
		switch s {
		case "{*}":
			alts = append(append([]string{}, one...), "", "x/y")
		case "{**}":
			alts = many
		default:
			alts = []string{s}
		}
		var next []string
		for _, o := range outs {
			for _, a := range alts {
				v := o
				if i > 0 {
					v += "/"
				}
				next = append(next, v+a)
			}
		}
		if len(next) > 60 {
			next = next[:60]
		}
		outs = next
	}
	var res []string
	for _, o := range outs {
		if strings.HasPrefix(o, "/") && !strings.ContainsAny(o, "{}*") {
			res = append(res, o)
		}
	}
	return res
}

func (g *gen) candidates() *cands {
	c := &cands{hdr: map[string][]string{}, claim: map[string][]string{}}
	nm := func(class string, pool []string, filter func(string) bool) []string {
		l := append([]string{}, pool...)
		for _, k := range g.consts[class] {
			l = append(l, nearMisses(k)...)
		}
		var out []string
		for _, s := range dedupe(l) {
			if s != "" && (filter == nil || filter(s)) {
				out = append(out, s)
			}
		}
		return out
	}
	noSlash := func(s string) bool { return !strings.ContainsAny(s, "/*") }
	c.td = nm("td", g.tdPool(), noSlash)
	c.ns = nm("ns", []string{g.w.WNS, g.w.RootNS, "foo", "bar"}, noSlash)
	c.sa = nm("sa", []string{"sleep", "httpbin"}, noSlash)
	ips := []string{"10.1.2.3", "192.168.5.17", "203.0.113.4", "2001:db8::1", "8.8.8.8"}
	for _, k := range g.consts["ip"] {
		ips = append(ips, ipNeighbours(k)...)
	}
	c.ip = dedupe(ips)
	ports := []string{"80", "8080", "443", "9000"}
	for _, k := range g.consts["port"] {
		ports = append(ports, portNeighbours(k)...)
	}
	c.port = dedupe(ports)
	hosts := nm("host", []string{"example.com", "api.example.com"}, func(s string) bool { return !strings.Contains(s, "*") })
	for _, k := range g.consts["host"] {
		if i := strings.LastIndexByte(k, ':'); i > 0 {
			hosts = append(hosts, k[:i])
		} else {
			hosts = append(hosts, k+":8080", k+":80")
		}
		hosts = append(hosts, strings.ToUpper(k), strings.ToLower(k))
	}
	c.host = dedupe(hosts)
	c.method = nm("method", []string{"GET", "POST", "DELETE"}, noSlash)
	paths := nm("path", []string{"/", "/info", "/data"}, func(s string) bool { return strings.HasPrefix(s, "/") && !strings.ContainsAny(s, "*{}?#") })
	for _, k := range g.consts["path"] {
		if !strings.HasPrefix(k, "/") {
			continue
		}
		if strings.HasSuffix(k, "/") && len(k) > 1 {
			paths = append(paths, k[:len(k)-1])
		} else {
			paths = append(paths, k+"/")
		}
		paths = append(paths, k+"/sub")
	}
	for _, t := range g.consts["tmpl"] {
		paths = append(paths, templatePaths(t)...)
	}
	c.path = dedupe(paths)
	c.sni = nm("sni", []string{"www.example.com"}, nil)
	c.iss = nm("iss", []string{"https://accounts.example.com", "issuer.example.com"}, nil)
	c.sub = nm("sub", []string{"sub-1", "admin"}, nil)
	c.aud = nm("aud", []string{"bookstore", "web"}, nil)
	c.azp = nm("azp", []string{"client-1"}, nil)
	for _, n := range g.headerNames {
		c.hdr[strings.ToLower(n)] = nm("hdr:"+strings.ToLower(n), []string{"admin", "v1"}, nil)
	}
	for _, p := range g.claimPaths {
		k := strings.Join(p, "\x00")
		c.claim[k] = nm("claim:"+k, []string{"admin", "dev"}, nil)
	}
	return c
}

func setClaim(m map[string]any, path []string, v any) {
	for i, k := range path {
		if i == len(path)-1 {
			m[k] = v
			return
		}
		next, ok := m[k].(map[string]any)
		if !ok {
			next = map[string]any{}
			m[k] = next
		}
		m = next
	}
}

// claimShape renders a value as string, as list containing it, or as a near-miss shape.
func (g *gen) claimShape(v string, others []string) any {
	switch x := g.r.Float64(); {
	case x < 0.45:
		return v
	case x < 0.85:
		l := []any{}
		if g.p(0.5) {
			l = append(l, g.pick(others)+"-other")
		}
		l = append(l, v)
		if g.p(0.3) {
			l = append(l, "zzz")
		}
		return l
	case x < 0.90:
		return []any{}
	case x < 0.94:
		return float64(len(v))
	case x < 0.97:
		return map[string]any{"value": v}
	default:
		return []any{[]any{v}}
	}
}

// randomRequest draws every attribute from the candidate lists.
func (g *gen) randomRequest(c *cands) *Request {
	r := &Request{HTTP: g.p(0.65)}
	if !g.p(0.22) {
		r.ID = Identity{TD: g.pick(c.td), NS: g.pick(c.ns), SA: g.pick(c.sa)}
	}
	r.SrcIP = g.pick(c.ip)
	r.RemoteIP, r.RemoteVia = r.SrcIP, "same"
	if g.p(0.4) {
		r.RemoteIP = g.pick(c.ip)
		if r.HTTP && g.p(0.7) {
			r.RemoteVia = "xff"
		} else {
			r.RemoteVia = "proxyproto"
		}
	}
	r.DstIP = g.pick(c.ip)
	pn, _ := strconv.Atoi(g.pick(c.port))
	r.DstPort = uint32(pn)
	if g.p(0.6) {
		r.SNI = g.pick(c.sni)
	}
	if !r.HTTP {
		return r
	}
	r.Host = g.pick(c.host)
	r.Method = g.pick(c.method)
	r.Path = g.pick(c.path)
	for _, n := range g.headerNames {
		if g.p(0.6) {
			if r.Headers == nil {
				r.Headers = map[string]string{}
			}
			name := n
			if g.p(0.3) {
				name = strings.ToLower(n)
			}
			r.Headers[name] = g.pick(c.hdr[strings.ToLower(n)])
		}
	}
	if g.p(0.65) {
		r.JWT = map[string]any{"iss": g.pick(c.iss), "sub": g.pick(c.sub)}
		if g.p(0.6) {
			r.JWT["aud"] = g.claimShape(g.pick(c.aud), c.aud)
		}
		if g.p(0.5) {
			r.JWT["azp"] = g.claimShape(g.pick(c.azp), c.azp)
		}
		for _, p := range g.claimPaths {
			if g.p(0.65) {
				k := strings.Join(p, "\x00")
				setClaim(r.JWT, p, g.claimShape(g.pick(c.claim[k]), c.claim[k]))
			}
		}
	}
	return r
}

// aimAt adjusts a request so that it satisfies the positive values of one rule of one policy (as
// far as the generator can tell), which makes matches and near misses of conjunctions frequent.
func (g *gen) aimAt(r *Request, p *PolicyIn, c *cands) {
	if len(p.Spec.GetRules()) == 0 {
		return
	}
	ru := p.Spec.Rules[g.r.Intn(len(p.Spec.Rules))]
	choose := func(l []string) (string, bool) {
		if len(l) == 0 {
			return "", false
		}
		return l[g.r.Intn(len(l))], true
	}
	// realise produces a string matching the pattern by completing it with filler
	realise := func(v string, fill []string) string {
		switch {
		case v == "*":
			return g.pick(fill)
		case strings.HasPrefix(v, "*"):
			return g.pick([]string{"", "x", "pre-"}) + v[1:]
		case strings.HasSuffix(v, "*"):
			return v[:len(v)-1] + g.pick([]string{"", "x", "-post"})
		}
		return v
	}
	setPrincipal := func(v string) {
		// complete the pattern to a full identity where possible
		parts := strings.Split(stripStar(v), "/")
		id := Identity{TD: g.pick(c.td), NS: g.pick(c.ns), SA: g.pick(c.sa)}
		if r.ID.Present() {
			id = r.ID
		}
		switch {
		case v == "*":
		case strings.HasPrefix(v, "*"):
			if n := len(parts); n >= 1 {
				id.SA = parts[n-1]
				if n >= 3 {
					id.NS = parts[n-3]
				}
				if n >= 5 {
					id.TD = "x" + parts[n-5]
					if g.p(0.5) || parts[n-5] == "" {
						id.TD = parts[n-5]
					}
				}
			}
		default:
			if len(parts) >= 1 && parts[0] != "" {
				id.TD = parts[0]
			}
			if len(parts) >= 3 {
				id.NS = parts[2]
			}
			if len(parts) >= 5 {
				id.SA = parts[4]
			}
		}
		if id.TD == "" || id.NS == "" || id.SA == "" || strings.Contains(id.TD+id.NS+id.SA, "/") {
			return
		}
		if id.TD == "cluster.local" && g.w.TD != "cluster.local" && g.p(0.7) {
			id.TD = g.w.TD
		}
		r.ID = id
	}
	setReqPrincipal := func(v string) {
		s := realise(v, []string{"issuer.example.com/sub-1"})
		i := strings.LastIndexByte(s, '/')
		if g.p(0.3) {
			// another split point
			var idx []int
			for k := 1; k < len(s)-1; k++ {
				if s[k] == '/' {
					idx = append(idx, k)
				}
			}
			if len(idx) > 0 {
				i = idx[g.r.Intn(len(idx))]
			}
		}
		if i <= 0 || i >= len(s)-1 {
			return
		}
		if r.JWT == nil {
			r.JWT = map[string]any{}
		}
		r.JWT["iss"], r.JWT["sub"] = s[:i], s[i+1:]
	}
	if len(ru.GetFrom()) > 0 {
		s := ru.From[g.r.Intn(len(ru.From))].GetSource()
		if v, ok := choose(s.GetPrincipals()); ok {
			setPrincipal(v)
		}
		if v, ok := choose(s.GetNamespaces()); ok {
			if !r.ID.Present() {
				r.ID = Identity{TD: g.pick(c.td), NS: "x", SA: g.pick(c.sa)}
			}
			if ns := realise(v, c.ns); ns != "" && !strings.Contains(ns, "/") {
				r.ID.NS = ns
			}
		}
		if v, ok := choose(s.GetServiceAccounts()); ok {
			if !r.ID.Present() {
				r.ID = Identity{TD: g.pick(c.td)}
			}
			ns, sa := p.NS, v
			if i := strings.IndexByte(v, '/'); i >= 0 {
				ns, sa = v[:i], v[i+1:]
			}
			r.ID.NS, r.ID.SA = ns, sa
		}
		if v, ok := choose(s.GetTrustDomains()); ok {
			if !r.ID.Present() {
				r.ID = Identity{NS: g.pick(c.ns), SA: g.pick(c.sa)}
			}
			if td := realise(v, c.td); td != "" && !strings.Contains(td, "/") {
				r.ID.TD = td
			}
		}
		if !r.ID.Present() && (r.ID.NS != "" || r.ID.SA != "") {
			r.ID.TD = g.pick(c.td)
		}
		if r.ID.Present() && (r.ID.NS == "" || r.ID.SA == "") {
			if r.ID.NS == "" {
				r.ID.NS = g.pick(c.ns)
			}
			if r.ID.SA == "" {
				r.ID.SA = g.pick(c.sa)
			}
		}
		if v, ok := choose(s.GetIpBlocks()); ok {
			if n := ipNeighbours(v); len(n) > 0 {
				r.SrcIP = n[0]
				if r.RemoteVia == "same" {
					r.RemoteIP = r.SrcIP
				}
			}
		}
		if v, ok := choose(s.GetRemoteIpBlocks()); ok {
			if n := ipNeighbours(v); len(n) > 0 {
				r.RemoteIP = n[0]
				if r.RemoteIP != r.SrcIP && r.RemoteVia == "same" {
					r.RemoteVia = "proxyproto"
				}
			}
		}
		if v, ok := choose(s.GetRequestPrincipals()); ok && r.HTTP {
			setReqPrincipal(v)
		}
	}
	if len(ru.GetTo()) > 0 {
		o := ru.To[g.r.Intn(len(ru.To))].GetOperation()
		if v, ok := choose(o.GetPorts()); ok {
			n, _ := strconv.Atoi(v)
			r.DstPort = uint32(n)
		}
		if r.HTTP {
			if v, ok := choose(o.GetHosts()); ok {
				r.Host = realise(v, c.host)
			}
			if v, ok := choose(o.GetMethods()); ok {
				r.Method = realise(v, c.method)
			}
			if v, ok := choose(o.GetPaths()); ok {
				if strings.Contains(v, "{") {
					if tp := templatePaths(v); len(tp) > 0 {
						r.Path = tp[g.r.Intn(len(tp))]
					}
				} else if pth := realise(v, c.path); strings.HasPrefix(pth, "/") {
					r.Path = pth
				}
			}
		}
	}
	for _, cd := range ru.GetWhen() {
		v, ok := choose(cd.GetValues())
		if !ok {
			continue
		}
		ck := parseCondKey(cd.GetKey())
		if !ck.ok {
			continue
		}
		switch ck.attr {
		case "source.ip":
			if n := ipNeighbours(v); len(n) > 0 {
				r.SrcIP = n[0]
				if r.RemoteVia == "same" {
					r.RemoteIP = r.SrcIP
				}
			}
		case "remote.ip":
			if n := ipNeighbours(v); len(n) > 0 {
				r.RemoteIP = n[0]
				if r.RemoteIP != r.SrcIP && r.RemoteVia == "same" {
					r.RemoteVia = "proxyproto"
				}
			}
		case "destination.ip":
			if n := ipNeighbours(v); len(n) > 0 {
				r.DstIP = n[0]
			}
		case "destination.port":
			n, _ := strconv.Atoi(v)
			r.DstPort = uint32(n)
		case "connection.sni":
			r.SNI = realise(v, c.sni)
		case "source.namespace":
			if !r.ID.Present() {
				r.ID = Identity{TD: g.pick(c.td), SA: g.pick(c.sa)}
			}
			if ns := realise(v, c.ns); ns != "" && !strings.Contains(ns, "/") {
				r.ID.NS = ns
			} else if r.ID.NS == "" {
				r.ID.NS = g.pick(c.ns)
			}
		case "source.principal":
			setPrincipal(v)
		case "source.serviceAccount":
			if !r.ID.Present() {
				r.ID = Identity{TD: g.pick(c.td)}
			}
			ns, sa := p.NS, v
			if i := strings.IndexByte(v, '/'); i >= 0 {
				ns, sa = v[:i], v[i+1:]
			}
			r.ID.NS, r.ID.SA = ns, sa
		case "source.trustDomain":
			if !r.ID.Present() {
				r.ID = Identity{TD: "x", NS: g.pick(c.ns), SA: g.pick(c.sa)}
			}
			if td := realise(v, c.td); td != "" && !strings.Contains(td, "/") {
				r.ID.TD = td
			}
		}
		if !r.HTTP {
			continue
		}
		switch ck.attr {
		case "request.headers":
			if r.Headers == nil {
				r.Headers = map[string]string{}
			}
			for _, k := range sortedKeys(r.Headers) {
				if strings.EqualFold(k, ck.header) {
					delete(r.Headers, k)
				}
			}
			if hv := realise(v, []string{"v1"}); hv != "" {
				r.Headers[ck.header] = hv
			}
		case "request.auth.principal":
			setReqPrincipal(v)
		case "request.auth.audiences", "request.auth.presenter", "request.auth.claims":
			if r.JWT == nil {
				r.JWT = map[string]any{"iss": g.pick(c.iss), "sub": g.pick(c.sub)}
			}
			path := ck.claims
			if ck.attr == "request.auth.audiences" {
				path = []string{"aud"}
			} else if ck.attr == "request.auth.presenter" {
				path = []string{"azp"}
			}
			if cv := realise(v, []string{"admin"}); cv != "" {
				setClaim(r.JWT, path, g.claimShape(cv, []string{"other"}))
			}
		}
	}
	if r.JWT != nil {
		if _, ok := r.JWT["iss"].(string); !ok {
			r.JWT["iss"] = g.pick(c.iss)
		}
		if _, ok := r.JWT["sub"].(string); !ok {
			r.JWT["sub"] = g.pick(c.sub)
		}
	}
}

// perturb replaces one attribute by another candidate (near miss).
func (g *gen) perturb(r *Request, c *cands) {
	switch g.r.Intn(12) {
	case 0:
		if r.ID.Present() {
			r.ID.TD = g.pick(c.td)
		}
	case 1:
		if r.ID.Present() {
			r.ID.NS = g.pick(c.ns)
		}
	case 2:
		if r.ID.Present() {
			r.ID.SA = g.pick(c.sa)
		}
	case 3:
		r.SrcIP = g.pick(c.ip)
		if r.RemoteVia == "same" {
			r.RemoteIP = r.SrcIP
		}
	case 4:
		pn, _ := strconv.Atoi(g.pick(c.port))
		r.DstPort = uint32(pn)
	case 5:
		if r.HTTP {
			r.Host = g.pick(c.host)
		}
	case 6:
		if r.HTTP {
			r.Method = g.pick(c.method)
		}
	case 7:
		if r.HTTP {
			r.Path = g.pick(c.path)
		}
	case 8:
		if r.HTTP && r.JWT != nil {
			if g.p(0.5) {
				r.JWT["iss"] = g.pick(c.iss)
			} else {
				r.JWT["sub"] = g.pick(c.sub)
			}
		}
	case 9:
		if r.HTTP && len(g.headerNames) > 0 && r.Headers != nil {
			n := g.headerNames[g.r.Intn(len(g.headerNames))]
			for _, k := range sortedKeys(r.Headers) {
				if strings.EqualFold(k, n) {
					r.Headers[k] = g.pick(c.hdr[strings.ToLower(n)])
				}
			}
		}
	case 10:
		if r.HTTP && r.JWT != nil && len(g.claimPaths) > 0 {
			p := g.claimPaths[g.r.Intn(len(g.claimPaths))]
			k := strings.Join(p, "\x00")
			setClaim(r.JWT, p, g.claimShape(g.pick(c.claim[k]), c.claim[k]))
		}
	default:
		if r.ID.Present() && g.p(0.5) {
			r.ID = Identity{}
		} else if r.HTTP {
			r.JWT = nil
		}
	}
}

func (g *gen) requests(n int) []*Request {
	c := g.candidates()
	var out []*Request
	for i := 0; i < n; i++ {
		r := g.randomRequest(c)
		if len(g.w.Policies) > 0 && g.p(0.6) {
			g.aimAt(r, g.w.Policies[g.r.Intn(len(g.w.Policies))], c)
			if g.p(0.55) {
				g.perturb(r, c)
				if g.p(0.3) {
					g.perturb(r, c)
				}
			}
		}
		normaliseRequest(r)
		out = append(out, r)
	}
	return out
}

// normaliseRequest keeps the request inside the modelled domain.
func normaliseRequest(r *Request) {
	if r.ID.TD == "" || r.ID.NS == "" || r.ID.SA == "" {
		r.ID = Identity{}
	}
	if r.RemoteIP == r.SrcIP {
		r.RemoteVia = "same"
	} else if r.RemoteVia == "same" || (!r.HTTP && r.RemoteVia == "xff") {
		r.RemoteVia = "proxyproto"
	}
	if !r.HTTP {
		r.Host, r.Method, r.Path, r.Headers, r.JWT = "", "", "", nil, nil
		return
	}
	if r.Host == "" {
		r.Host = "example.com"
	}
	if r.Method == "" {
		r.Method = "GET"
	}
	if !strings.HasPrefix(r.Path, "/") {
		r.Path = "/"
	}
	for _, k := range sortedKeys(r.Headers) {
		if r.Headers[k] == "" {
			delete(r.Headers, k)
		}
	}
	// one spelling per header name
	seen := map[string]bool{}
	for _, k := range sortedKeys(r.Headers) {
		l := strings.ToLower(k)
		if seen[l] {
			delete(r.Headers, k)
		}
		seen[l] = true
	}
	if len(r.Headers) == 0 {
		r.Headers = nil
	}
	if r.JWT != nil {
		iss, _ := r.JWT["iss"].(string)
		sub, _ := r.JWT["sub"].(string)
		if iss == "" || sub == "" {
			r.JWT = nil
		}
	}
}
