package main

import (
	"net/netip"
	"sort"
	"strings"

	"google.golang.org/protobuf/proto"
	"google.golang.org/protobuf/types/known/structpb"

)

var protoUnmarshalStrict = proto.UnmarshalOptions{}

// Identity is the mTLS peer identity of a connection in Istio's terms. The zero value means the
// connection carries no authenticated peer identity (plaintext, or TLS without client certificate).
type Identity struct {
	TD string `json:"td,omitempty"`
	NS string `json:"ns,omitempty"`
	SA string `json:"sa,omitempty"`
}

func (i Identity) Present() bool { return i.TD != "" }

// Principal is the identity in AuthorizationPolicy notation: <td>/ns/<ns>/sa/<sa>.
func (i Identity) Principal() string {
	if !i.Present() {
		return ""
	}
	return i.TD + "/ns/" + i.NS + "/sa/" + i.SA
}

// Request is one request (HTTP) or connection (raw TCP) in the vocabulary of the AuthorizationPolicy
// documentation. Both references start from this value: reference A reads it directly, reference B
// sees it through toEnvoyFacts.
type Request struct {
	HTTP bool     `json:"http"`
	ID   Identity `json:"id"`
	// SrcIP is the source address of the IP packet; RemoteIP the original client address taken from
	// X-Forwarded-For ("xff") or the proxy protocol ("proxyproto"); "same" means RemoteIP == SrcIP.
	SrcIP     string `json:"src_ip"`
	RemoteIP  string `json:"remote_ip"`
	RemoteVia string `json:"remote_via"`
	DstIP     string `json:"dst_ip"`
	DstPort   uint32 `json:"dst_port"`
	SNI       string `json:"sni,omitempty"`
	// HTTP only
	Host    string            `json:"host,omitempty"`
	Method  string            `json:"method,omitempty"`
	Path    string            `json:"path,omitempty"`
	Headers map[string]string `json:"headers,omitempty"` // names as sent (any case), values non-empty
	// JWT holds the claims of a validated request JWT (nil: none). "iss" and "sub" are non-empty
	// strings whenever JWT != nil.
	JWT map[string]any `json:"jwt,omitempty"`
}

func (r *Request) clone() *Request {
	c := *r
	if r.Headers != nil {
		c.Headers = map[string]string{}
		for k, v := range r.Headers {
			c.Headers[k] = v
		}
	}
	if r.JWT != nil {
		c.JWT = deepCopyAny(r.JWT).(map[string]any)
	}
	return &c
}

func deepCopyAny(v any) any {
	switch x := v.(type) {
	case map[string]any:
		m := map[string]any{}
		for k, e := range x {
			m[k] = deepCopyAny(e)
		}
		return m
	case []any:
		l := make([]any, len(x))
		for i, e := range x {
			l[i] = deepCopyAny(e)
		}
		return l
	default:
		return v
	}
}

func sortedKeys[V any](m map[string]V) []string {
	ks := make([]string, 0, len(m))
	for k := range m {
		ks = append(ks, k)
	}
	sort.Strings(ks)
	return ks
}

// toEnvoyFacts states the trusted-base assumptions about how a request appears to the RBAC filter:
//   - an authenticated peer has exactly one URI SAN "spiffe://<td>/ns/<ns>/sa/<sa>" on a TLS
//     connection, and Istio's filter state object io.istio.peer_principal carries the same string;
//   - the claims of a validated JWT are stored by the jwt_authn filter as dynamic metadata
//     envoy.filters.http.jwt_authn / payload (the payload key Istio configures for
//     RequestAuthentication);
//   - :authority, :method and :path carry host, method and path; header names are lower-cased;
//   - remote_ip is the XFF / proxy-protocol derived address, direct_remote_ip the physical peer; the
//     deprecated source_ip honours the proxy protocol but not XFF.
func toEnvoyFacts(r *Request) *EnvoyFacts {
	f := &EnvoyFacts{HTTP: r.HTTP, DestPort: r.DstPort, SNI: r.SNI, FilterState: map[string]string{}}
	if r.ID.Present() {
		f.TLS = true
		uri := "spiffe://" + r.ID.TD + "/ns/" + r.ID.NS + "/sa/" + r.ID.SA
		f.URISANs = []string{uri}
		f.FilterState["io.istio.peer_principal"] = uri
	}
	f.DirectRemoteIP = mustAddr(r.SrcIP)
	f.RemoteIP = mustAddr(r.RemoteIP)
	if r.RemoteVia == "xff" {
		f.SourceIP = f.DirectRemoteIP
	} else {
		f.SourceIP = f.RemoteIP
	}
	f.DestIP = mustAddr(r.DstIP)
	if r.HTTP {
		f.Headers = map[string]string{":authority": r.Host, ":method": r.Method, ":path": r.Path}
		for k, v := range r.Headers {
			f.Headers[strings.ToLower(k)] = v
		}
		if r.JWT != nil {
			payload, err := structpb.NewStruct(r.JWT)
			if err != nil {
				panic(unknownKind{"cannot build JWT payload struct: " + err.Error()})
			}
			f.Metadata = map[string]*structpb.Struct{
				"envoy.filters.http.jwt_authn": {Fields: map[string]*structpb.Value{"payload": structpb.NewStructValue(payload)}},
			}
		}
	}
	return f
}

func mustAddr(s string) netip.Addr {
	if s == "" {
		return netip.Addr{}
	}
	a, err := netip.ParseAddr(s)
	if err != nil {
		panic(unknownKind{"bad request address " + s})
	}
	return a
}
