package main

// Naming of violation kinds. A disagreement is first shrunk to a minimal world and request; the key
// is then either the inventory of what is left (direction, protocol, action, field, value form) or,
// when a named hypothesis about the generated configuration reproduces reference B's decision on the
// minimal example, the name of that hypothesis. Hypotheses never influence a verdict: they only give
// the many faces of one root cause one stable key, so that a different fault in the same field still
// gets a key of its own.

import (
	"regexp"
	"strings"
)

type hypothesis struct {
	name   string
	fields []string                  // the minimal world must use one of these fields
	mk     func(e *refEval) *refEval // variant of reference A
}

// splitRequestPrincipal: the pattern is cut at its last '/' into an issuer pattern and a subject
// pattern, which are matched separately against the iss and sub claims (instead of matching the
// documented string "<iss>/<sub>" as a whole).
func splitRequestPrincipal(pattern string, r *Request) bool {
	if !r.HTTP || r.JWT == nil {
		return false
	}
	jIss, _ := r.JWT["iss"].(string)
	jSub, _ := r.JWT["sub"].(string)
	idx := strings.LastIndex(pattern, "/")
	found := idx >= 0
	iss, sub := pattern, ""
	if found {
		iss, sub = pattern[:idx], pattern[idx+1:]
	}
	switch {
	case pattern == "*":
		return jIss != "" && jSub != ""
	case strings.HasPrefix(pattern, "*"):
		if found {
			issOK := jIss != ""
			if iss != "*" {
				issOK = strings.HasSuffix(jIss, iss[1:])
			}
			return issOK && jSub == sub
		}
		return jIss != "" && strings.HasSuffix(jSub, pattern[1:])
	case strings.HasSuffix(pattern, "*"):
		if found {
			subOK := jSub != ""
			if sub != "*" {
				subOK = strings.HasPrefix(jSub, sub[:len(sub)-1])
			}
			return jIss == iss && subOK
		}
		return strings.HasPrefix(jIss, pattern[:len(pattern)-1]) && jSub != ""
	}
	return jIss == iss && jSub == sub
}

// namespaceAsURIRegex: the namespace pattern is matched as part of one regular expression over the
// whole SPIFFE URI in which the wildcard may run across '/' (".*/ns/<a>.*<b>/.*"), instead of being
// matched against the namespace component only.
func namespaceAsURIRegex(pattern string, id Identity) bool {
	if !id.Present() {
		return false
	}
	parts := strings.Split(pattern, "*")
	for i := range parts {
		parts[i] = regexp.QuoteMeta(parts[i])
	}
	re, err := regexp.Compile(`\A.*/ns/` + strings.Join(parts, ".*") + `/.*\z`)
	if err != nil {
		return false
	}
	return re.MatchString("spiffe://" + id.Principal())
}

var hypotheses = []hypothesis{
	{
		name:   "namespace-wildcard-spans-path-separator",
		fields: []string{"namespaces", "notNamespaces", "when:source.namespace", "whenNot:source.namespace"},
		mk: func(e *refEval) *refEval {
			c := newRefEval(e.w)
			c.nsMatch = namespaceAsURIRegex
			return c
		},
	},
	{
		name:   "request-principal-pattern-split-at-last-slash",
		fields: []string{"requestPrincipals", "notRequestPrincipals", "when:request.auth.principal", "whenNot:request.auth.principal"},
		mk: func(e *refEval) *refEval {
			c := newRefEval(e.w)
			c.rpMatch = splitRequestPrincipal
			return c
		},
	},
}

// explainedBy returns the name of the first hypothesis under which reference A reaches B's decision
// on the minimal example.
func explainedBy(w *World, r *Request, b bool) string {
	used := map[string]bool{}
	for _, p := range w.Policies {
		for _, fv := range policyFields(p.Spec) {
			used[fv.field] = true
		}
	}
	for _, h := range hypotheses {
		rel := false
		for _, f := range h.fields {
			if used[f] {
				rel = true
			}
		}
		if !rel {
			continue
		}
		a, _ := h.mk(newRefEval(w)).decide(r)
		if a != tU && (a == tT) == b {
			return h.name
		}
	}
	return ""
}

// explainedByAll reports whether reference A with every hypothesis applied at once reaches B's
// decision, and which hypotheses are relevant to the world. Used only to avoid shrinking yet another
// instance of root causes that already have enough witnesses.
func explainedByAll(w *World, r *Request, b bool) (bool, []string) {
	used := map[string]bool{}
	for _, p := range w.Policies {
		for _, fv := range policyFields(p.Spec) {
			used[fv.field] = true
		}
	}
	e := newRefEval(w)
	var names []string
	for _, h := range hypotheses {
		for _, f := range h.fields {
			if used[f] {
				names = append(names, h.name)
				break
			}
		}
	}
	if len(names) == 0 {
		return false, nil
	}
	e.rpMatch = splitRequestPrincipal
	e.nsMatch = namespaceAsURIRegex
	a, _ := e.decide(r)
	return a != tU && (a == tT) == b, names
}
