package main

// Reference B: an interpreter of Envoy RBAC filter configuration (envoy.config.rbac.v3.RBAC inside
// envoy.extensions.filters.{http,network}.rbac.v3.RBAC), written from the Envoy API documentation
// (the comments of the v3 protos). It knows nothing about AuthorizationPolicy. Any construct it does
// not implement makes the evaluation panic with unknownKind, which the caller turns into an
// inconclusive case: nothing is ever silently passed.

import (
	"fmt"
	"net/netip"
	"regexp"
	"sort"
	"strings"
	"sync"

	corepb "github.com/envoyproxy/go-control-plane/envoy/config/core/v3"
	listenerpb "github.com/envoyproxy/go-control-plane/envoy/config/listener/v3"
	rbacpb "github.com/envoyproxy/go-control-plane/envoy/config/rbac/v3"
	routepb "github.com/envoyproxy/go-control-plane/envoy/config/route/v3"
	rbachttp "github.com/envoyproxy/go-control-plane/envoy/extensions/filters/http/rbac/v3"
	hcmpb "github.com/envoyproxy/go-control-plane/envoy/extensions/filters/network/http_connection_manager/v3"
	rbactcp "github.com/envoyproxy/go-control-plane/envoy/extensions/filters/network/rbac/v3"
	uritemplatepb "github.com/envoyproxy/go-control-plane/envoy/extensions/path/match/uri_template/v3"
	matcherpb "github.com/envoyproxy/go-control-plane/envoy/type/matcher/v3"
	"google.golang.org/protobuf/types/known/anypb"
	"google.golang.org/protobuf/types/known/structpb"
)

const (
	httpRBACFilterName = "envoy.filters.http.rbac"
	tcpRBACFilterName  = "envoy.filters.network.rbac"
)

// unknownKind is thrown for configuration the interpreter does not understand.
type unknownKind struct{ what string }

func unknown(format string, args ...any) { panic(unknownKind{fmt.Sprintf(format, args...)}) }

// EnvoyFacts is what Envoy knows about one downstream connection / request when the RBAC filter
// runs. It is derived from a Request by toEnvoyFacts (request.go), which encodes the trusted-base
// assumptions about how Istio's other filters expose identity and JWT data to RBAC.
type EnvoyFacts struct {
	HTTP bool
	// connection level
	TLS            bool     // downstream connection is TLS with a validated peer certificate
	URISANs        []string // URI SANs of the peer certificate
	DNSSANs        []string
	Subject        string
	DirectRemoteIP netip.Addr // physical peer
	RemoteIP       netip.Addr // possibly inferred from XFF / proxy protocol
	SourceIP       netip.Addr // deprecated source_ip: honours proxy protocol but not XFF
	DestIP         netip.Addr
	DestPort       uint32
	SNI            string
	FilterState    map[string]string // filter state objects serialised as strings
	// HTTP level (empty for raw TCP)
	Headers  map[string]string           // lower-cased names, including :method :authority :path
	Metadata map[string]*structpb.Struct // dynamic metadata by filter namespace
}

// interp carries the statistics of one interpreter use.
type interp struct {
	kinds map[string]bool
}

func (in *interp) kind(k string) {
	if in.kinds == nil {
		in.kinds = map[string]bool{}
	}
	in.kinds[k] = true
}

func (in *interp) kindList() []string {
	out := make([]string, 0, len(in.kinds))
	for k := range in.kinds {
		out = append(out, k)
	}
	sort.Strings(out)
	return out
}

// decodedFilter is one RBAC filter of a chain after unpacking.
type decodedFilter struct {
	name   string
	rules  *rbacpb.RBAC // enforced; nil => filter admits everything
	shadow *rbacpb.RBAC // never enforced
}

func decodeHTTPFilters(fs []*hcmpb.HttpFilter) []decodedFilter {
	var out []decodedFilter
	for _, f := range fs {
		if f.GetName() != httpRBACFilterName {
			unknown("http filter %q in authz output", f.GetName())
		}
		tc := f.GetTypedConfig()
		if tc == nil {
			unknown("http filter without typed_config")
		}
		cfg := &rbachttp.RBAC{}
		if err := anypb.UnmarshalTo(tc, cfg, protoUnmarshalStrict); err != nil {
			unknown("http rbac typed_config: %v (type %s)", err, tc.GetTypeUrl())
		}
		if cfg.GetMatcher() != nil || cfg.GetShadowMatcher() != nil {
			unknown("http rbac uses the matcher API")
		}
		out = append(out, decodedFilter{name: f.GetName(), rules: cfg.GetRules(), shadow: cfg.GetShadowRules()})
	}
	return out
}

func decodeTCPFilters(fs []*listenerpb.Filter) []decodedFilter {
	var out []decodedFilter
	for _, f := range fs {
		if f.GetName() != tcpRBACFilterName {
			unknown("network filter %q in authz output", f.GetName())
		}
		tc := f.GetTypedConfig()
		if tc == nil {
			unknown("network filter without typed_config")
		}
		cfg := &rbactcp.RBAC{}
		if err := anypb.UnmarshalTo(tc, cfg, protoUnmarshalStrict); err != nil {
			unknown("network rbac typed_config: %v (type %s)", err, tc.GetTypeUrl())
		}
		if cfg.GetMatcher() != nil || cfg.GetShadowMatcher() != nil {
			unknown("network rbac uses the matcher API")
		}
		out = append(out, decodedFilter{name: f.GetName(), rules: cfg.GetRules(), shadow: cfg.GetShadowRules()})
	}
	return out
}

// filterVerdict describes what one filter of the chain decided.
type filterVerdict struct {
	Action  string   `json:"action"`
	Matched []string `json:"matched_policies"`
	Allowed bool     `json:"allowed"`
}

// evalChain runs the request through the filters in chain order. A filter that denies ends the
// chain (Envoy sends 403 / closes the connection); shadow rules never affect the result.
func (in *interp) evalChain(chain []decodedFilter, f *EnvoyFacts) (bool, []filterVerdict) {
	var trace []filterVerdict
	for _, df := range chain {
		if df.rules == nil {
			trace = append(trace, filterVerdict{Action: "none", Allowed: true})
			continue
		}
		v := in.evalRBAC(df.rules, f)
		trace = append(trace, v)
		if !v.Allowed {
			return false, trace
		}
	}
	return true, trace
}

func (in *interp) evalRBAC(r *rbacpb.RBAC, f *EnvoyFacts) filterVerdict {
	if r.GetAuditLoggingOptions() != nil {
		// does not influence the decision
		in.kind("rbac.audit_logging_options")
	}
	names := make([]string, 0, len(r.GetPolicies()))
	for n := range r.GetPolicies() {
		names = append(names, n)
	}
	sort.Strings(names)
	var matched []string
	for _, n := range names {
		if in.evalPolicy(r.GetPolicies()[n], f) {
			matched = append(matched, n)
		}
	}
	v := filterVerdict{Action: r.GetAction().String(), Matched: matched}
	switch r.GetAction() {
	case rbacpb.RBAC_ALLOW:
		in.kind("action.ALLOW")
		v.Allowed = len(matched) > 0
	case rbacpb.RBAC_DENY:
		in.kind("action.DENY")
		v.Allowed = len(matched) == 0
	case rbacpb.RBAC_LOG:
		in.kind("action.LOG")
		v.Allowed = true
	default:
		unknown("rbac action %v", r.GetAction())
	}
	return v
}

// A policy matches when at least one permission and at least one principal match.
func (in *interp) evalPolicy(p *rbacpb.Policy, f *EnvoyFacts) bool {
	if p == nil {
		unknown("nil policy")
	}
	if p.GetCondition() != nil || p.GetCheckedCondition() != nil {
		unknown("policy with CEL condition")
	}
	perm := false
	for _, pm := range p.GetPermissions() {
		if in.evalPermission(pm, f) {
			perm = true
			break
		}
	}
	if !perm {
		return false
	}
	for _, pr := range p.GetPrincipals() {
		if in.evalPrincipal(pr, f) {
			return true
		}
	}
	return false
}

func (in *interp) evalPermission(p *rbacpb.Permission, f *EnvoyFacts) bool {
	switch r := p.GetRule().(type) {
	case *rbacpb.Permission_AndRules:
		in.kind("permission.and_rules")
		for _, s := range r.AndRules.GetRules() {
			if !in.evalPermission(s, f) {
				return false
			}
		}
		return true
	case *rbacpb.Permission_OrRules:
		in.kind("permission.or_rules")
		for _, s := range r.OrRules.GetRules() {
			if in.evalPermission(s, f) {
				return true
			}
		}
		return false
	case *rbacpb.Permission_Any:
		in.kind("permission.any")
		if !r.Any {
			unknown("permission any=false")
		}
		return true
	case *rbacpb.Permission_NotRule:
		in.kind("permission.not_rule")
		return !in.evalPermission(r.NotRule, f)
	case *rbacpb.Permission_Header:
		in.kind("permission.header")
		return in.evalHeader(r.Header, f)
	case *rbacpb.Permission_UrlPath:
		in.kind("permission.url_path")
		return in.evalURLPath(r.UrlPath, f)
	case *rbacpb.Permission_DestinationIp:
		in.kind("permission.destination_ip")
		return in.evalCIDR(r.DestinationIp, f.DestIP)
	case *rbacpb.Permission_DestinationPort:
		in.kind("permission.destination_port")
		return f.DestPort == r.DestinationPort
	case *rbacpb.Permission_DestinationPortRange:
		in.kind("permission.destination_port_range")
		// [start, end)
		return int64(f.DestPort) >= int64(r.DestinationPortRange.GetStart()) && int64(f.DestPort) < int64(r.DestinationPortRange.GetEnd())
	case *rbacpb.Permission_Metadata:
		in.kind("permission.metadata")
		return in.evalMetadata(r.Metadata, f)
	case *rbacpb.Permission_SourcedMetadata:
		in.kind("permission.sourced_metadata")
		return in.evalSourcedMetadata(r.SourcedMetadata, f)
	case *rbacpb.Permission_RequestedServerName:
		in.kind("permission.requested_server_name")
		return in.evalString(r.RequestedServerName, f.SNI)
	case *rbacpb.Permission_UriTemplate:
		in.kind("permission.uri_template")
		return in.evalURITemplate(r.UriTemplate, f)
	case nil:
		unknown("permission without rule")
	default:
		unknown("permission kind %T", r)
	}
	return false
}

func (in *interp) evalPrincipal(p *rbacpb.Principal, f *EnvoyFacts) bool {
	switch r := p.GetIdentifier().(type) {
	case *rbacpb.Principal_AndIds:
		in.kind("principal.and_ids")
		for _, s := range r.AndIds.GetIds() {
			if !in.evalPrincipal(s, f) {
				return false
			}
		}
		return true
	case *rbacpb.Principal_OrIds:
		in.kind("principal.or_ids")
		for _, s := range r.OrIds.GetIds() {
			if in.evalPrincipal(s, f) {
				return true
			}
		}
		return false
	case *rbacpb.Principal_Any:
		in.kind("principal.any")
		if !r.Any {
			unknown("principal any=false")
		}
		return true
	case *rbacpb.Principal_NotId:
		in.kind("principal.not_id")
		return !in.evalPrincipal(r.NotId, f)
	case *rbacpb.Principal_Authenticated_:
		in.kind("principal.authenticated")
		return in.evalAuthenticated(r.Authenticated, f)
	case *rbacpb.Principal_SourceIp:
		in.kind("principal.source_ip")
		return in.evalCIDR(r.SourceIp, f.SourceIP)
	case *rbacpb.Principal_DirectRemoteIp:
		in.kind("principal.direct_remote_ip")
		return in.evalCIDR(r.DirectRemoteIp, f.DirectRemoteIP)
	case *rbacpb.Principal_RemoteIp:
		in.kind("principal.remote_ip")
		return in.evalCIDR(r.RemoteIp, f.RemoteIP)
	case *rbacpb.Principal_Header:
		in.kind("principal.header")
		return in.evalHeader(r.Header, f)
	case *rbacpb.Principal_UrlPath:
		in.kind("principal.url_path")
		return in.evalURLPath(r.UrlPath, f)
	case *rbacpb.Principal_Metadata:
		in.kind("principal.metadata")
		return in.evalMetadata(r.Metadata, f)
	case *rbacpb.Principal_SourcedMetadata:
		in.kind("principal.sourced_metadata")
		return in.evalSourcedMetadata(r.SourcedMetadata, f)
	case *rbacpb.Principal_FilterState:
		in.kind("principal.filter_state")
		return in.evalFilterState(r.FilterState, f)
	case nil:
		unknown("principal without identifier")
	default:
		unknown("principal kind %T", r)
	}
	return false
}

// authenticated: only on TLS connections. With a principal_name the URI SANs are used, if there are
// none the DNS SANs, otherwise the subject.
func (in *interp) evalAuthenticated(a *rbacpb.Principal_Authenticated, f *EnvoyFacts) bool {
	if !f.TLS {
		return false
	}
	if a.GetPrincipalName() == nil {
		return true
	}
	switch {
	case len(f.URISANs) > 0:
		for _, s := range f.URISANs {
			if in.evalString(a.GetPrincipalName(), s) {
				return true
			}
		}
		return false
	case len(f.DNSSANs) > 0:
		for _, s := range f.DNSSANs {
			if in.evalString(a.GetPrincipalName(), s) {
				return true
			}
		}
		return false
	default:
		return in.evalString(a.GetPrincipalName(), f.Subject)
	}
}

func (in *interp) evalFilterState(m *matcherpb.FilterStateMatcher, f *EnvoyFacts) bool {
	v, ok := f.FilterState[m.GetKey()]
	if !ok {
		return false
	}
	switch mm := m.GetMatcher().(type) {
	case *matcherpb.FilterStateMatcher_StringMatch:
		in.kind("filter_state.string_match")
		return in.evalString(mm.StringMatch, v)
	default:
		unknown("filter_state matcher %T", mm)
	}
	return false
}

func (in *interp) evalCIDR(c *corepb.CidrRange, ip netip.Addr) bool {
	if c == nil {
		unknown("nil cidr")
	}
	if !ip.IsValid() {
		return false
	}
	base, err := netip.ParseAddr(c.GetAddressPrefix())
	if err != nil {
		unknown("cidr address_prefix %q: %v", c.GetAddressPrefix(), err)
	}
	bits := int(c.GetPrefixLen().GetValue()) // unset => 0
	if bits > base.BitLen() {
		unknown("cidr prefix_len %d too long for %s", bits, base)
	}
	if base.Is4() != ip.Is4() {
		return false
	}
	pa, err := base.Prefix(bits)
	if err != nil {
		unknown("cidr: %v", err)
	}
	pb, err := ip.Prefix(bits)
	if err != nil {
		return false
	}
	return pa.Addr() == pb.Addr()
}

var (
	reMu    sync.Mutex
	reCache = map[string]*regexp.Regexp{}
)

// fullRegex compiles an RE2 expression for a full match, as Envoy's safe_regex does.
func fullRegex(expr string) *regexp.Regexp {
	reMu.Lock()
	defer reMu.Unlock()
	if re, ok := reCache[expr]; ok {
		return re
	}
	re, err := regexp.Compile(`\A(?:` + expr + `)\z`)
	if err != nil {
		unknown("regex %q does not compile: %v", expr, err)
	}
	if len(reCache) > 20000 {
		reCache = map[string]*regexp.Regexp{}
	}
	reCache[expr] = re
	return re
}

func (in *interp) evalString(m *matcherpb.StringMatcher, v string) bool {
	if m == nil {
		unknown("nil string matcher")
	}
	ic := m.GetIgnoreCase()
	fold := func(s string) string {
		if ic {
			return strings.ToLower(s)
		}
		return s
	}
	switch p := m.GetMatchPattern().(type) {
	case *matcherpb.StringMatcher_Exact:
		in.kind("string.exact" + icSuffix(ic))
		return fold(p.Exact) == fold(v)
	case *matcherpb.StringMatcher_Prefix:
		in.kind("string.prefix" + icSuffix(ic))
		if p.Prefix == "" {
			unknown("empty prefix in string matcher (rejected by Envoy)")
		}
		return strings.HasPrefix(fold(v), fold(p.Prefix))
	case *matcherpb.StringMatcher_Suffix:
		in.kind("string.suffix" + icSuffix(ic))
		if p.Suffix == "" {
			unknown("empty suffix in string matcher (rejected by Envoy)")
		}
		return strings.HasSuffix(fold(v), fold(p.Suffix))
	case *matcherpb.StringMatcher_Contains:
		in.kind("string.contains" + icSuffix(ic))
		if p.Contains == "" {
			unknown("empty contains in string matcher (rejected by Envoy)")
		}
		return strings.Contains(fold(v), fold(p.Contains))
	case *matcherpb.StringMatcher_SafeRegex:
		in.kind("string.safe_regex")
		if ic {
			unknown("ignore_case with safe_regex has no effect in Envoy; refusing to guess")
		}
		return fullRegex(p.SafeRegex.GetRegex()).MatchString(v)
	case nil:
		unknown("string matcher without pattern")
	default:
		unknown("string matcher kind %T", p)
	}
	return false
}

func icSuffix(ic bool) string {
	if ic {
		return "+ignore_case"
	}
	return ""
}

// header matcher: a missing header only matches present_match:false (or, inverted, present_match:true)
// unless treat_missing_header_as_empty is set.
func (in *interp) evalHeader(h *routepb.HeaderMatcher, f *EnvoyFacts) bool {
	if h == nil {
		unknown("nil header matcher")
	}
	name := strings.ToLower(h.GetName())
	val, present := "", false
	if f.HTTP {
		val, present = f.Headers[name]
	}
	inv := h.GetInvertMatch()
	if inv {
		in.kind("header.invert_match")
	}
	if !present && !h.GetTreatMissingHeaderAsEmpty() {
		if pm, ok := h.GetHeaderMatchSpecifier().(*routepb.HeaderMatcher_PresentMatch); ok {
			in.kind("header.present_match")
			return (pm.PresentMatch == false) != inv
		}
		// not present: no match, inverted or not
		in.kindOfHeader(h)
		return false
	}
	var res bool
	switch s := h.GetHeaderMatchSpecifier().(type) {
	case *routepb.HeaderMatcher_PresentMatch:
		in.kind("header.present_match")
		res = present == s.PresentMatch
	case *routepb.HeaderMatcher_ExactMatch:
		in.kind("header.exact_match")
		res = val == s.ExactMatch
	case *routepb.HeaderMatcher_PrefixMatch:
		in.kind("header.prefix_match")
		res = strings.HasPrefix(val, s.PrefixMatch)
	case *routepb.HeaderMatcher_SuffixMatch:
		in.kind("header.suffix_match")
		res = strings.HasSuffix(val, s.SuffixMatch)
	case *routepb.HeaderMatcher_ContainsMatch:
		in.kind("header.contains_match")
		res = strings.Contains(val, s.ContainsMatch)
	case *routepb.HeaderMatcher_SafeRegexMatch:
		in.kind("header.safe_regex_match")
		res = fullRegex(s.SafeRegexMatch.GetRegex()).MatchString(val)
	case *routepb.HeaderMatcher_StringMatch:
		in.kind("header.string_match")
		res = in.evalString(s.StringMatch, val)
	case nil:
		// no specifier: presence of the header
		in.kind("header.presence_default")
		res = present
	default:
		unknown("header matcher kind %T", s)
	}
	return res != inv
}

func (in *interp) kindOfHeader(h *routepb.HeaderMatcher) {
	switch h.GetHeaderMatchSpecifier().(type) {
	case *routepb.HeaderMatcher_StringMatch:
		in.kind("header.string_match")
	case *routepb.HeaderMatcher_ExactMatch, *routepb.HeaderMatcher_PrefixMatch, *routepb.HeaderMatcher_SuffixMatch,
		*routepb.HeaderMatcher_ContainsMatch, *routepb.HeaderMatcher_SafeRegexMatch, *routepb.HeaderMatcher_PresentMatch, nil:
	default:
		unknown("header matcher kind %T", h.GetHeaderMatchSpecifier())
	}
}

// pathNoQuery is the :path header without query and fragment.
func pathNoQuery(f *EnvoyFacts) (string, bool) {
	if !f.HTTP {
		return "", false
	}
	p, ok := f.Headers[":path"]
	if !ok {
		return "", false
	}
	if i := strings.IndexAny(p, "?#"); i >= 0 {
		p = p[:i]
	}
	return p, true
}

func (in *interp) evalURLPath(m *matcherpb.PathMatcher, f *EnvoyFacts) bool {
	p, ok := pathNoQuery(f)
	if !ok {
		return false
	}
	switch r := m.GetRule().(type) {
	case *matcherpb.PathMatcher_Path:
		return in.evalString(r.Path, p)
	default:
		unknown("path matcher kind %T", r)
	}
	return false
}

// URI template (envoy.extensions.path.match.uri_template.v3): "*" matches one non-empty path
// component, "**" matches zero or more characters including "/"; everything else is literal.
// Variables are not implemented (=> unknown).
const (
	uriPathGlob = `[a-zA-Z0-9._~%!$&'()+,;:@=-]+`
	uriTextGlob = `[a-zA-Z0-9._~%!$&'()+,;:@=/-]*`
)

func (in *interp) evalURITemplate(ext *corepb.TypedExtensionConfig, f *EnvoyFacts) bool {
	if ext.GetTypedConfig() == nil {
		unknown("uri_template without typed_config")
	}
	cfg := &uritemplatepb.UriTemplateMatchConfig{}
	if err := anypb.UnmarshalTo(ext.GetTypedConfig(), cfg, protoUnmarshalStrict); err != nil {
		unknown("uri_template typed_config: %v (type %s)", err, ext.GetTypedConfig().GetTypeUrl())
	}
	t := cfg.GetPathTemplate()
	if !strings.HasPrefix(t, "/") {
		unknown("uri template %q does not start with '/'", t)
	}
	if strings.ContainsAny(t, "{}") {
		unknown("uri template %q uses variables", t)
	}
	var sb strings.Builder
	seenText := false
	for i, seg := range strings.Split(t[1:], "/") {
		_ = i
		sb.WriteString("/")
		switch {
		case seg == "**":
			if seenText {
				unknown("uri template %q has two ** operators", t)
			}
			seenText = true
			sb.WriteString(uriTextGlob)
		case seg == "*":
			if seenText {
				unknown("uri template %q has an operator after **", t)
			}
			sb.WriteString(uriPathGlob)
		case strings.Contains(seg, "*"):
			unknown("uri template %q mixes operator and literal in a segment", t)
		default:
			sb.WriteString(regexp.QuoteMeta(seg))
		}
	}
	p, ok := pathNoQuery(f)
	if !ok {
		return false
	}
	return fullRegex(sb.String()).MatchString(p)
}

func (in *interp) evalSourcedMetadata(m *rbacpb.SourcedMetadata, f *EnvoyFacts) bool {
	switch m.GetMetadataSource() {
	case rbacpb.MetadataSource_DYNAMIC:
		return in.evalMetadata(m.GetMetadataMatcher(), f)
	default:
		unknown("sourced_metadata source %v", m.GetMetadataSource())
	}
	return false
}

// metadata matcher: walk filter_metadata[filter] along path (keys only); a missing step yields a
// null value; then apply the value matcher; finally invert.
func (in *interp) evalMetadata(m *matcherpb.MetadataMatcher, f *EnvoyFacts) bool {
	if m == nil {
		unknown("nil metadata matcher")
	}
	if len(m.GetPath()) == 0 {
		unknown("metadata matcher without path")
	}
	var cur *structpb.Value
	if st, ok := f.Metadata[m.GetFilter()]; ok && st != nil {
		cur = structpb.NewStructValue(st)
	}
	for _, seg := range m.GetPath() {
		k, ok := seg.GetSegment().(*matcherpb.MetadataMatcher_PathSegment_Key)
		if !ok {
			unknown("metadata path segment %T", seg.GetSegment())
		}
		if cur == nil {
			break
		}
		st := cur.GetStructValue()
		if st == nil {
			cur = nil
			break
		}
		nv, ok := st.GetFields()[k.Key]
		if !ok {
			cur = nil
			break
		}
		cur = nv
	}
	res := in.evalValue(m.GetValue(), cur)
	if m.GetInvert() {
		in.kind("metadata.invert")
		return !res
	}
	return res
}

func (in *interp) evalValue(m *matcherpb.ValueMatcher, v *structpb.Value) bool {
	if m == nil {
		unknown("nil value matcher")
	}
	isNull := v == nil
	if v != nil {
		if _, ok := v.GetKind().(*structpb.Value_NullValue); ok {
			isNull = true
		}
	}
	switch p := m.GetMatchPattern().(type) {
	case *matcherpb.ValueMatcher_NullMatch_:
		in.kind("value.null_match")
		return isNull
	case *matcherpb.ValueMatcher_StringMatch:
		in.kind("value.string_match")
		if isNull {
			return false
		}
		s, ok := v.GetKind().(*structpb.Value_StringValue)
		if !ok {
			return false
		}
		return in.evalString(p.StringMatch, s.StringValue)
	case *matcherpb.ValueMatcher_BoolMatch:
		in.kind("value.bool_match")
		if isNull {
			return false
		}
		b, ok := v.GetKind().(*structpb.Value_BoolValue)
		return ok && b.BoolValue == p.BoolMatch
	case *matcherpb.ValueMatcher_PresentMatch:
		in.kind("value.present_match")
		return !isNull == p.PresentMatch
	case *matcherpb.ValueMatcher_ListMatch:
		in.kind("value.list_match")
		if isNull {
			return false
		}
		l, ok := v.GetKind().(*structpb.Value_ListValue)
		if !ok {
			return false
		}
		one, ok := p.ListMatch.GetMatchPattern().(*matcherpb.ListMatcher_OneOf)
		if !ok {
			unknown("list matcher kind %T", p.ListMatch.GetMatchPattern())
		}
		for _, e := range l.ListValue.GetValues() {
			if in.evalValue(one.OneOf, e) {
				return true
			}
		}
		return false
	case *matcherpb.ValueMatcher_OrMatch:
		in.kind("value.or_match")
		for _, sm := range p.OrMatch.GetValueMatchers() {
			if in.evalValue(sm, v) {
				return true
			}
		}
		return false
	case nil:
		unknown("value matcher without pattern")
	default:
		unknown("value matcher kind %T", p)
	}
	return false
}
