package main

// Enumerated single-field sweep: for every field of Source / Operation / Condition, every applicable
// value form, positive and negative list, ALLOW and DENY, with and without trust-domain aliases, one
// single-rule policy is translated by the real code and judged on every near-miss request for the
// attribute concerned, on HTTP and on raw TCP. Nothing here is random.

import (
	"fmt"
	"math/rand"
	"strconv"
	"strings"

	authpb "istio.io/api/security/v1beta1"

	"verifharness/internal/vh"
)

type sweepSpec struct {
	field    string
	bases    []string
	forms    []string // exact prefix suffix presence | asis
	boundary string
	class    string // attribute class varied in the requests
	set      func(ru *authpb.Rule, vals []string, neg bool)
}

type sweepCase struct {
	name   string
	spec   *sweepSpec
	vals   []string
	neg    bool
	action authpb.AuthorizationPolicy_Action
	alias  bool
}

func fromRule(f func(s *authpb.Source, v []string)) func(ru *authpb.Rule, vals []string, neg bool) {
	return func(ru *authpb.Rule, vals []string, _ bool) {
		s := &authpb.Source{}
		f(s, vals)
		ru.From = []*authpb.Rule_From{{Source: s}}
	}
}

func toRule(f func(o *authpb.Operation, v []string)) func(ru *authpb.Rule, vals []string, neg bool) {
	return func(ru *authpb.Rule, vals []string, _ bool) {
		o := &authpb.Operation{}
		f(o, vals)
		ru.To = []*authpb.Rule_To{{Operation: o}}
	}
}

func whenRule(key string) func(ru *authpb.Rule, vals []string, neg bool) {
	return func(ru *authpb.Rule, vals []string, neg bool) {
		c := &authpb.Condition{Key: key}
		if neg {
			c.NotValues = vals
		} else {
			c.Values = vals
		}
		ru.When = []*authpb.Condition{c}
	}
}

var strForms = []string{"exact", "prefix", "suffix", "presence"}
var asIs = []string{"asis"}

const (
	swTD  = "td1.example.com"
	swTD2 = "td2"
)

func sweepSpecs() []*sweepSpec {
	principals := []string{swTD + "/ns/foo/sa/sleep", "cluster.local/ns/foo/sa/sleep", swTD2 + "/ns/a.b/sa/sa.v1", "evil.example.org/ns/foo/sa/sleep"}
	reqPrincipals := []string{"issuer.example.com/sub-1", "https://accounts.example.com/user@example.com", "issuer.example.com/repo:org/app"}
	nss := []string{"foo", "a.b", "data"}
	sas := []string{"foo/sleep", "sleep", "a.b/sa.v1"}
	ips := []string{"10.1.2.3", "10.1.0.0/16", "192.168.5.16/28", "10.1.77.5/16", "0.0.0.0/0", "2001:db8::1", "2001:db8:1::/48"}
	tds := []string{swTD, swTD2, "cluster.local", "evil.example.org"}
	hosts := []string{"example.com", "Api.Example.com", "example.com:8080"}
	ports := []string{"8080", "443"}
	methods := []string{"GET", "DELETE"}
	paths := []string{"/info", "/admin/users", "/a.b/c+d", "/foo/"}
	tmpls := []string{"/foo/{*}", "/foo/{**}", "/foo/{*}/bar/{**}", "/foo/{**}/", "/{*}/info", "/foo/{**}/baz.txt", "/a.b/{*}"}
	hvals := []string{"admin", "a.b+c", "Mozilla/5.0"}
	cvals := []string{"admin", "a.b", "group-1"}
	snis := []string{"www.example.com", "api.example.com"}
	auds := []string{"bookstore", "api.example.com"}
	azps := []string{"client-1"}

	var out []*sweepSpec
	pair := func(field, notField string, bases, forms []string, boundary, class string, pos, neg func(ru *authpb.Rule, vals []string, neg bool)) {
		out = append(out, &sweepSpec{field: field, bases: bases, forms: forms, boundary: boundary, class: class, set: pos})
		out = append(out, &sweepSpec{field: notField, bases: bases, forms: forms, boundary: boundary, class: class, set: neg})
	}
	pair("principals", "notPrincipals", principals, strForms, "/", "id",
		fromRule(func(s *authpb.Source, v []string) { s.Principals = v }), fromRule(func(s *authpb.Source, v []string) { s.NotPrincipals = v }))
	pair("requestPrincipals", "notRequestPrincipals", reqPrincipals, strForms, "/", "jwtprincipal",
		fromRule(func(s *authpb.Source, v []string) { s.RequestPrincipals = v }), fromRule(func(s *authpb.Source, v []string) { s.NotRequestPrincipals = v }))
	pair("namespaces", "notNamespaces", nss, strForms, ".", "id",
		fromRule(func(s *authpb.Source, v []string) { s.Namespaces = v }), fromRule(func(s *authpb.Source, v []string) { s.NotNamespaces = v }))
	pair("serviceAccounts", "notServiceAccounts", sas, asIs, "", "id",
		fromRule(func(s *authpb.Source, v []string) { s.ServiceAccounts = v }), fromRule(func(s *authpb.Source, v []string) { s.NotServiceAccounts = v }))
	pair("ipBlocks", "notIpBlocks", ips, asIs, "", "ip:src",
		fromRule(func(s *authpb.Source, v []string) { s.IpBlocks = v }), fromRule(func(s *authpb.Source, v []string) { s.NotIpBlocks = v }))
	pair("remoteIpBlocks", "notRemoteIpBlocks", ips, asIs, "", "ip:remote",
		fromRule(func(s *authpb.Source, v []string) { s.RemoteIpBlocks = v }), fromRule(func(s *authpb.Source, v []string) { s.NotRemoteIpBlocks = v }))
	pair("trustDomains", "notTrustDomains", tds, strForms, ".", "id",
		fromRule(func(s *authpb.Source, v []string) { s.TrustDomains = v }), fromRule(func(s *authpb.Source, v []string) { s.NotTrustDomains = v }))
	pair("hosts", "notHosts", hosts, strForms, ".:", "host",
		toRule(func(o *authpb.Operation, v []string) { o.Hosts = v }), toRule(func(o *authpb.Operation, v []string) { o.NotHosts = v }))
	pair("ports", "notPorts", ports, asIs, "", "port",
		toRule(func(o *authpb.Operation, v []string) { o.Ports = v }), toRule(func(o *authpb.Operation, v []string) { o.NotPorts = v }))
	pair("methods", "notMethods", methods, strForms, "", "method",
		toRule(func(o *authpb.Operation, v []string) { o.Methods = v }), toRule(func(o *authpb.Operation, v []string) { o.NotMethods = v }))
	pair("paths", "notPaths", paths, strForms, "/", "path",
		toRule(func(o *authpb.Operation, v []string) { o.Paths = v }), toRule(func(o *authpb.Operation, v []string) { o.NotPaths = v }))
	pair("paths(template)", "notPaths(template)", tmpls, asIs, "", "path",
		toRule(func(o *authpb.Operation, v []string) { o.Paths = v }), toRule(func(o *authpb.Operation, v []string) { o.NotPaths = v }))

	when := func(name, key string, bases, forms []string, boundary, class string) {
		out = append(out, &sweepSpec{field: "when:" + name, bases: bases, forms: forms, boundary: boundary, class: class, set: whenRule(key)})
		out = append(out, &sweepSpec{field: "whenNot:" + name, bases: bases, forms: forms, boundary: boundary, class: class,
			set: func(ru *authpb.Rule, vals []string, _ bool) { whenRule(key)(ru, vals, true) }})
	}
	when("request.headers", "request.headers[X-Token]", hvals, strForms, "/.", "hdr:x-token")
	when("source.ip", "source.ip", ips, asIs, "", "ip:src")
	when("remote.ip", "remote.ip", ips, asIs, "", "ip:remote")
	when("destination.ip", "destination.ip", ips, asIs, "", "ip:dst")
	when("destination.port", "destination.port", ports, asIs, "", "port")
	when("connection.sni", "connection.sni", snis, strForms, ".", "sni")
	when("source.namespace", "source.namespace", nss, strForms, ".", "id")
	when("source.principal", "source.principal", principals, strForms, "/", "id")
	when("source.serviceAccount", "source.serviceAccount", sas, asIs, "", "id")
	when("source.trustDomain", "source.trustDomain", tds, strForms, ".", "id")
	when("request.auth.principal", "request.auth.principal", reqPrincipals, strForms, "/", "jwtprincipal")
	when("request.auth.audiences", "request.auth.audiences", auds, strForms, ".", "aud")
	when("request.auth.presenter", "request.auth.presenter", azps, strForms, "-", "azp")
	when("request.auth.claims", "request.auth.claims[groups]", cvals, strForms, "-.", "claim:groups")
	when("request.auth.claims(nested)", "request.auth.claims[nested][key]", cvals, strForms, "-.", "claim:nested\x00key")
	when("unparsable:request.headers", "request.headersX[X-Token]", hvals[:1], []string{"exact"}, "", "hdr:x-token")
	when("unparsable:request.auth.claims", "request.auth.claimsX[groups]", cvals[:1], []string{"exact"}, "", "claim:groups")
	return out
}

// formValues derives the values of one form from a base; several cut points for prefix and suffix.
func formValues(base, form, boundary string, full bool) []string {
	cuts := map[int]bool{}
	for i := 0; i < len(base); i++ {
		if strings.IndexByte(boundary, base[i]) >= 0 {
			cuts[i] = true
			cuts[i+1] = true
		}
	}
	cuts[len(base)/2] = true
	var order []int
	for i := 0; i <= len(base); i++ {
		if cuts[i] {
			order = append(order, i)
		}
	}
	switch form {
	case "exact", "asis":
		return []string{base}
	case "presence":
		return []string{"*"}
	case "prefix":
		vals := []string{base + "*"}
		for _, k := range order {
			if k >= 1 && k < len(base) {
				vals = append(vals, base[:k]+"*")
			}
		}
		vals = append(vals, base[:1]+"*")
		vals = dedupe(vals)
		if !full && len(vals) > 2 {
			vals = []string{vals[0], vals[len(vals)/2]}
		}
		return vals
	case "suffix":
		vals := []string{"*" + base}
		for _, k := range order {
			if k >= 1 && k < len(base) {
				vals = append(vals, "*"+base[k:])
			}
		}
		vals = append(vals, "*"+base[len(base)-1:])
		vals = dedupe(vals)
		if !full && len(vals) > 2 {
			vals = []string{vals[0], vals[len(vals)/2]}
		}
		return vals
	}
	panic("unknown form " + form)
}

func buildSweep(full bool) []sweepCase {
	var out []sweepCase
	actions := []authpb.AuthorizationPolicy_Action{authpb.AuthorizationPolicy_ALLOW, authpb.AuthorizationPolicy_DENY}
	aliasModes := []bool{false}
	if full {
		aliasModes = []bool{false, true}
	}
	for _, sp := range sweepSpecs() {
		idField := sp.class == "id"
		for _, alias := range aliasModes {
			if alias && !idField {
				continue
			}
			for _, act := range actions {
				for bi, base := range sp.bases {
					for _, form := range sp.forms {
						if form == "presence" && bi > 0 {
							continue
						}
						for vi, v := range formValues(base, form, sp.boundary, full) {
							out = append(out, sweepCase{
								name: fmt.Sprintf("%s/%s/%s/b%d.%d/alias=%v", sp.field, form, act, bi, vi, alias),
								spec: sp, vals: []string{v}, action: act, alias: alias,
							})
						}
					}
				}
				// two values: OR of values / NOT of OR
				if len(sp.bases) >= 2 {
					out = append(out, sweepCase{
						name: fmt.Sprintf("%s/two-values/%s/alias=%v", sp.field, act, alias),
						spec: sp, vals: []string{sp.bases[0], sp.bases[1]}, action: act, alias: alias,
					})
				}
			}
		}
	}
	return out
}

func sweepWorld(sc sweepCase) (*World, *gen) {
	g := newGen(rand.New(rand.NewSource(1)))
	w := &World{RootNS: "istio-system", TD: swTD, WNS: "foo", WLabels: map[string]string{"app": "httpbin", "version": "v1"}}
	if sc.alias {
		w.Aliases = []string{swTD2}
	}
	g.w = w
	g.foreignTD = "evil.example.org"
	ru := &authpb.Rule{}
	sc.spec.set(ru, sc.vals, false)
	p := &PolicyIn{Name: "sweep", NS: "foo", Spec: &authpb.AuthorizationPolicy{Action: sc.action, Rules: []*authpb.Rule{ru}}}
	w.Policies = []*PolicyIn{p}
	return w, g
}

func sweepBaseRequest() *Request {
	return &Request{
		HTTP: true, ID: Identity{TD: swTD, NS: "foo", SA: "sleep"},
		SrcIP: "10.1.2.3", RemoteIP: "10.1.2.3", RemoteVia: "same", DstIP: "10.9.9.9", DstPort: 8080,
		SNI: "www.example.com", Host: "example.com", Method: "GET", Path: "/info",
		Headers: map[string]string{"x-token": "admin"},
		JWT: map[string]any{"iss": "issuer.example.com", "sub": "sub-1", "aud": []any{"bookstore"}, "azp": "client-1",
			"groups": []any{"admin"}, "nested": map[string]any{"key": "admin"}},
	}
}

// sweepRequests enumerates the near misses of the attribute class concerned.
func sweepRequests(sc sweepCase, g *gen) []*Request {
	// register the constants of the values
	for _, v := range sc.vals {
		s := stripStar(v)
		switch cl := sc.spec.class; {
		case cl == "id":
			switch {
			case strings.Contains(sc.spec.field, "rincipal"):
				g.constsFromPartialPrincipal(v)
				for _, b := range sc.spec.bases {
					g.constsFromPartialPrincipal(b)
				}
			case strings.Contains(sc.spec.field, "amespace"):
				g.addConst("ns", s)
				g.addConst("ns", sc.spec.bases...)
			case strings.Contains(sc.spec.field, "erviceAccount"):
				if i := strings.IndexByte(s, '/'); i >= 0 {
					g.addConst("ns", s[:i])
					g.addConst("sa", s[i+1:])
				} else {
					g.addConst("sa", s)
				}
			default:
				g.addConst("td", s)
				g.addConst("td", sc.spec.bases...)
			}
		case strings.HasPrefix(cl, "ip:"):
			g.addConst("ip", v)
		case cl == "port":
			g.addConst("port", v)
		case cl == "path":
			if strings.Contains(v, "{") {
				g.addConst("tmpl", v)
			} else {
				g.addConst("path", s)
				g.addConst("path", sc.spec.bases...)
			}
		case cl == "jwtprincipal":
			for _, x := range append([]string{s}, sc.spec.bases...) {
				if i := strings.LastIndexByte(x, '/'); i >= 0 {
					g.addConst("iss", x[:i])
					g.addConst("sub", x[i+1:])
				} else {
					g.addConst("iss", x)
					g.addConst("sub", x)
				}
				if i := strings.IndexByte(x, '/'); i >= 0 && !strings.HasPrefix(x, "https:") {
					g.addConst("iss", x[:i])
					g.addConst("sub", x[i+1:])
				}
			}
		case strings.HasPrefix(cl, "hdr:"):
			g.addHeaderName("X-Token")
			g.addConst(cl, s)
			g.addConst(cl, sc.spec.bases...)
		case strings.HasPrefix(cl, "claim:"):
			g.addClaimPath(strings.Split(strings.TrimPrefix(cl, "claim:"), "\x00"))
			g.addConst(cl, s)
			g.addConst(cl, sc.spec.bases...)
		default:
			g.addConst(cl, s)
			g.addConst(cl, sc.spec.bases...)
		}
	}
	c := g.candidates()
	base := sweepBaseRequest()
	var out []*Request
	emit := func(mod func(r *Request)) {
		r := base.clone()
		mod(r)
		normaliseRequest(r)
		out = append(out, r)
		t := r.clone()
		t.HTTP = false
		normaliseRequest(t)
		out = append(out, t)
	}
	emit(func(r *Request) {})
	switch cl := sc.spec.class; {
	case cl == "id":
		emit(func(r *Request) { r.ID = Identity{} })
		// base identity of the value, where it names one
		bid := base.ID
		for _, v := range sc.vals {
			parts := strings.Split(v, "/")
			if len(parts) == 5 && !strings.Contains(v, "*") {
				bid = Identity{TD: parts[0], NS: parts[2], SA: parts[4]}
			}
		}
		for _, ns := range c.ns {
			for _, td := range []string{bid.TD, swTD, swTD2, "evil.example.org"} {
				emit(func(r *Request) { r.ID = Identity{TD: td, NS: ns, SA: bid.SA} })
			}
		}
		for _, td := range c.td {
			emit(func(r *Request) { r.ID = Identity{TD: td, NS: bid.NS, SA: bid.SA} })
			emit(func(r *Request) { r.ID = Identity{TD: td, NS: "foo", SA: "sleep"} })
		}
		for _, sa := range c.sa {
			for _, ns := range []string{bid.NS, "foo", "istio-system", "a.b", "bar"} {
				emit(func(r *Request) { r.ID = Identity{TD: bid.TD, NS: ns, SA: sa} })
			}
		}
	case strings.HasPrefix(cl, "ip:"):
		for _, ip := range c.ip {
			switch cl {
			case "ip:src":
				emit(func(r *Request) { r.SrcIP, r.RemoteIP = ip, ip })
				emit(func(r *Request) { r.SrcIP, r.RemoteIP, r.RemoteVia = ip, "8.8.4.4", "xff" })
			case "ip:remote":
				emit(func(r *Request) { r.SrcIP, r.RemoteIP = ip, ip })
				emit(func(r *Request) { r.SrcIP, r.RemoteIP, r.RemoteVia = "8.8.4.4", ip, "xff" })
				emit(func(r *Request) { r.SrcIP, r.RemoteIP, r.RemoteVia = "8.8.4.4", ip, "proxyproto" })
			default:
				emit(func(r *Request) { r.DstIP = ip })
			}
		}
	case cl == "port":
		for _, p := range c.port {
			n, _ := strconv.Atoi(p)
			emit(func(r *Request) { r.DstPort = uint32(n) })
		}
	case cl == "host":
		for _, h := range c.host {
			emit(func(r *Request) { r.Host = h })
		}
	case cl == "method":
		for _, m := range c.method {
			emit(func(r *Request) { r.Method = m })
		}
	case cl == "path":
		for _, p := range c.path {
			emit(func(r *Request) { r.Path = p })
		}
	case cl == "sni":
		emit(func(r *Request) { r.SNI = "" })
		for _, s := range c.sni {
			emit(func(r *Request) { r.SNI = s })
		}
	case cl == "jwtprincipal":
		emit(func(r *Request) { r.JWT = nil })
		for _, iss := range c.iss {
			for _, sub := range c.sub {
				emit(func(r *Request) { r.JWT["iss"], r.JWT["sub"] = iss, sub })
			}
		}
	case cl == "aud" || cl == "azp" || strings.HasPrefix(cl, "claim:"):
		path := []string{cl}
		vals := c.aud
		switch {
		case cl == "azp":
			vals = c.azp
		case strings.HasPrefix(cl, "claim:"):
			path = strings.Split(strings.TrimPrefix(cl, "claim:"), "\x00")
			vals = c.claim[strings.TrimPrefix(cl, "claim:")]
		}
		emit(func(r *Request) { r.JWT = nil })
		emit(func(r *Request) { delete(r.JWT, path[0]) })
		for _, v := range vals {
			for _, shape := range []func(string) any{
				func(s string) any { return s },
				func(s string) any { return []any{s} },
				func(s string) any { return []any{"zzz", s} },
				func(s string) any { return []any{} },
				func(s string) any { return float64(1) },
				func(s string) any { return map[string]any{"value": s} },
				func(s string) any { return []any{[]any{s}} },
			} {
				emit(func(r *Request) { setClaim(r.JWT, path, shape(v)) })
			}
		}
		if len(path) > 1 {
			emit(func(r *Request) { r.JWT[path[0]] = "admin" })
		}
	case strings.HasPrefix(cl, "hdr:"):
		emit(func(r *Request) { r.Headers = nil })
		for _, v := range c.hdr["x-token"] {
			emit(func(r *Request) { r.Headers = map[string]string{"x-token": v} })
			emit(func(r *Request) { r.Headers = map[string]string{"X-Token": v} })
		}
	}
	return out
}

func runSweepCase(c *vh.Ctx, sc sweepCase) {
	w, g := sweepWorld(sc)
	for _, p := range w.Policies {
		if _, err := validatePolicy(p); err != nil {
			c.Count("sweep_policies_rejected_by_validation", 1)
			c.SetAdd("sweep_rejected", sc.spec.field+"|"+strings.Join(sc.vals, ","))
			return
		}
	}
	reqs := sweepRequests(sc, g)
	c.Count("sweep_cases", 1)
	c.Count("sweep_requests", len(reqs))
	judge(c, w, reqs, false)
}
