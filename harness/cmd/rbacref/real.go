package main

// Running the real code under test: config store -> model.GetAuthorizationPolicies ->
// plugin/authz.NewBuilder (trust-domain bundle from mesh config, policy selection for the proxy via
// ListAuthorizationPolicies) -> builder.BuildHTTP / BuildTCP.

import (
	"fmt"
	"strings"
	"sync"
	"time"

	listenerpb "github.com/envoyproxy/go-control-plane/envoy/config/listener/v3"
	hcmpb "github.com/envoyproxy/go-control-plane/envoy/extensions/filters/network/http_connection_manager/v3"
	"google.golang.org/protobuf/proto"

	meshconfig "istio.io/api/mesh/v1alpha1"
	"istio.io/istio/pilot/pkg/config/memory"
	"istio.io/istio/pilot/pkg/model"
	"istio.io/istio/pilot/pkg/networking"
	"istio.io/istio/pilot/pkg/networking/plugin/authz"
	"istio.io/istio/pkg/config"
	"istio.io/istio/pkg/config/mesh"
	"istio.io/istio/pkg/config/mesh/meshwatcher"
	"istio.io/istio/pkg/config/schema/collection"
	"istio.io/istio/pkg/config/schema/collections"
	"istio.io/istio/pkg/config/schema/gvk"
	"istio.io/istio/pkg/config/validation"
)

var authzSchemas = collection.SchemasFor(collections.AuthorizationPolicy)

func policyConfig(p *PolicyIn, seq int) config.Config {
	var ann map[string]string
	if p.DryRun != "" {
		ann = map[string]string{"istio.io/dry-run": p.DryRun}
	}
	return config.Config{
		Meta: config.Meta{
			GroupVersionKind: gvk.AuthorizationPolicy,
			Name:             p.Name,
			Namespace:        p.NS,
			Annotations:      ann,
			// fixed, distinct creation times: the order of policies is defined by the input only
			CreationTimestamp: time.Unix(1700000000+int64(seq), 0),
		},
		Spec: proto.Clone(p.Spec),
	}
}

// validate passes a policy through the real validator.
func validatePolicy(p *PolicyIn) (warn bool, err error) {
	w, err := validation.ValidateAuthorizationPolicy(policyConfig(p, 0))
	return w != nil, err
}

var (
	watcherMu sync.Mutex
	watchers  = map[string]meshwatcher.TestWatcher{}
	meshes    = map[string]*meshconfig.MeshConfig{}
)

func meshFor(w *World) (*meshconfig.MeshConfig, meshwatcher.TestWatcher) {
	key := w.RootNS + "|" + w.TD + "|" + strings.Join(w.Aliases, ",")
	watcherMu.Lock()
	defer watcherMu.Unlock()
	if wt, ok := watchers[key]; ok {
		return meshes[key], wt
	}
	m := mesh.DefaultMeshConfig()
	m.RootNamespace = w.RootNS
	m.TrustDomain = w.TD
	m.TrustDomainAliases = append([]string{}, w.Aliases...)
	wt := meshwatcher.NewTestWatcher(m)
	watchers[key] = wt
	meshes[key] = m
	return m, wt
}

type realOutput struct {
	http []*hcmpb.HttpFilter
	tcp  []*listenerpb.Filter
}

// runReal feeds the world to the real translation.
func runReal(w *World) (*realOutput, error) {
	stop := make(chan struct{})
	defer close(stop)
	store := memory.Make(authzSchemas, false, stop)
	for i, p := range w.Policies {
		if _, err := store.Create(policyConfig(p, i)); err != nil {
			return nil, fmt.Errorf("store.Create %s/%s: %v", p.NS, p.Name, err)
		}
	}
	m, watcher := meshFor(w)
	env := &model.Environment{ConfigStore: store, Watcher: watcher}
	push := &model.PushContext{
		AuthzPolicies: model.GetAuthorizationPolicies(env),
		Mesh:          m,
	}
	labels := map[string]string{}
	for k, v := range w.WLabels {
		labels[k] = v
	}
	proxy := &model.Proxy{
		ID:              "wl." + w.WNS,
		Type:            model.SidecarProxy,
		ConfigNamespace: w.WNS,
		Labels:          labels,
		Metadata:        &model.NodeMetadata{Namespace: w.WNS, Labels: labels},
	}
	if _, ok := labels[gatewayNameLabel]; ok {
		proxy.Type = model.Router
	}
	b := authz.NewBuilder(authz.Local, push, proxy, w.UseFilterState)
	out := &realOutput{}
	class := networking.ListenerClassSidecarInbound
	if proxy.Type == model.Router {
		class = networking.ListenerClassGateway
	}
	out.http = b.BuildHTTP(class)
	out.tcp = b.BuildTCP()
	return out, nil
}
