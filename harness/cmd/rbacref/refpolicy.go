package main

// Reference A: an evaluator of AuthorizationPolicy objects, written from the public documentation
// (comments of istio.io/api security/v1beta1/authorization_policy.proto, the istio.io pages
// "Authorization Policy Conditions", "Authorization Policy for TCP", "Trust Domain Migration" and the
// MeshConfig.trust_domain_aliases comment). It never looks at generated Envoy configuration and never
// calls the translation code.
//
// Documented semantics implemented here:
//   * scope: a policy applies to a workload when it lives in the workload's namespace or in the root
//     namespace and its selector labels are a subset of the workload labels (no selector: all
//     workloads). A policy with targetRefs applies only to the resources it names (for the workloads
//     generated here: a Kubernetes Gateway of the same namespace).
//   * a dry-run policy (annotation istio.io/dry-run: "true") is not enforced.
//   * decision: some DENY policy matches => deny; no ALLOW policy => allow; some ALLOW policy
//     matches => allow; otherwise deny. AUDIT and CUSTOM policies do not take part.
//   * policy matches when one of its rules matches; no rules: never.
//   * rule = (no from || any source) && (no to || any operation) && all conditions.
//   * fields of a source / operation are ANDed; values are ORed; notValues are a negative match.
//   * strings: exact, "abc*" prefix, "*abc" suffix, "*" non-empty. hosts are case-insensitive.
//   * principals are <td>/ns/<ns>/sa/<sa>; namespaces / serviceAccounts / trustDomains are the parts
//     of the peer identity; serviceAccounts values are "<ns>/<sa>" or "<sa>" (policy's namespace).
//   * identities in the mesh trust domain and its aliases are treated the same; "cluster.local" in a
//     principal is a pointer to the mesh trust domain and its aliases.
//   * ipBlocks: source address of the packet; remoteIpBlocks: XFF / proxy protocol address; CIDR
//     containment.
//   * paths containing {*} or {**} are URI templates: {*} one non-empty path component, {**} zero or
//     more characters including '/'.
//   * raw TCP: HTTP-only fields (hosts, methods, paths, requestPrincipals, request.headers[..],
//     request.auth.*) cannot be evaluated: an ALLOW rule using one matches nothing, a DENY rule ignores
//     it. The same holds for a condition whose key cannot be parsed (asserted one-sided, see main.go).
//
// Where the documentation is silent (wild-carded principals / trust domains in combination with
// trust-domain aliases, "cluster.local" used as a trustDomains value) the evaluator answers
// "unspecified" (three-valued logic) and the request is not judged.

import (
	"net"
	"sort"
	"strconv"
	"strings"

	authpb "istio.io/api/security/v1beta1"
	typepb "istio.io/api/type/v1beta1"
)

// three-valued truth
type tv int8

const (
	tF tv = 0
	tT tv = 1
	tU tv = 2
)

func tb(b bool) tv {
	if b {
		return tT
	}
	return tF
}

func tand(a, b tv) tv {
	if a == tF || b == tF {
		return tF
	}
	if a == tT && b == tT {
		return tT
	}
	return tU
}

func tor(a, b tv) tv {
	if a == tT || b == tT {
		return tT
	}
	if a == tF && b == tF {
		return tF
	}
	return tU
}

func tnot(a tv) tv {
	switch a {
	case tF:
		return tT
	case tT:
		return tF
	}
	return tU
}

func (t tv) String() string { return [...]string{"false", "true", "unspecified"}[t] }

// PolicyIn is one AuthorizationPolicy object of a generated world.
type PolicyIn struct {
	Name   string
	NS     string
	DryRun string // value of the istio.io/dry-run annotation, "" when absent
	Spec   *authpb.AuthorizationPolicy
}

// World is the configuration side of a case: mesh settings, the workload, the policies.
type World struct {
	RootNS         string
	TD             string
	Aliases        []string
	WNS            string
	WLabels        map[string]string
	UseFilterState bool // how the real builder is asked to express peer identity (does not change semantics)
	Policies       []*PolicyIn
}

const gatewayNameLabel = "gateway.networking.k8s.io/gateway-name"

const (
	gwGroup = "gateway.networking.k8s.io"
	gwKind  = "Gateway"
)

type refEval struct {
	w     *World
	class map[string]bool // mesh trust domain and aliases
	// set while evaluating: an element that cannot be parsed was met in an enforced, applicable policy
	sawUnparsable bool
	// set while evaluating: an HTTP-only field was met on a TCP request
	sawHTTPOnlyOnTCP bool
	// rpMatch matches a request-principal pattern. nil: the documented whole-string match. Only the
	// naming of violation kinds (explain.go) ever sets it; verdicts always use nil.
	rpMatch func(pattern string, r *Request) bool
	// nsMatch matches a namespace pattern against the peer identity; same rules as rpMatch.
	nsMatch func(pattern string, id Identity) bool
}

func (e *refEval) namespaceMatch(pattern string, id Identity) tv {
	if e.nsMatch != nil {
		return tb(e.nsMatch(pattern, id))
	}
	return tb(strMatch(pattern, id.NS))
}

func (e *refEval) requestPrincipalMatch(pattern string, r *Request) tv {
	if e.rpMatch != nil {
		return tb(e.rpMatch(pattern, r))
	}
	return tb(strMatch(pattern, requestPrincipal(r)))
}

func newRefEval(w *World) *refEval {
	e := &refEval{w: w, class: map[string]bool{w.TD: true}}
	for _, a := range w.Aliases {
		e.class[a] = true
	}
	return e
}

func (e *refEval) classList() []string {
	l := make([]string, 0, len(e.class))
	for c := range e.class {
		l = append(l, c)
	}
	sort.Strings(l)
	return l
}

func targetRefsOf(s *authpb.AuthorizationPolicy) []*typepb.PolicyTargetReference {
	return s.GetTargetRefs()
}

// applies implements the documented scope of a policy.
func (e *refEval) applies(p *PolicyIn) bool {
	if p.NS != e.w.RootNS && p.NS != e.w.WNS {
		return false
	}
	gw, isGW := e.w.WLabels[gatewayNameLabel]
	if refs := targetRefsOf(p.Spec); len(refs) > 0 {
		if !isGW || p.NS != e.w.WNS {
			return false
		}
		for _, r := range refs {
			if r.GetKind() == gwKind && r.GetGroup() == gwGroup && r.GetName() == gw &&
				(r.GetNamespace() == "" || r.GetNamespace() == e.w.WNS) {
				return true
			}
		}
		return false
	}
	if sel := p.Spec.GetSelector(); sel != nil {
		for k, v := range sel.GetMatchLabels() {
			if wv, ok := e.w.WLabels[k]; !ok || wv != v {
				return false
			}
		}
	}
	return true
}

func (e *refEval) enforced(p *PolicyIn) bool { return p.DryRun != "true" }

type refTrace struct {
	Applied      []string `json:"applied"`
	DenyMatched  []string `json:"deny_matched"`
	AllowMatched []string `json:"allow_matched"`
	NAllow       int      `json:"allow_policies"`
}

// decide returns whether the request is admitted.
func (e *refEval) decide(r *Request) (tv, refTrace) {
	e.sawUnparsable, e.sawHTTPOnlyOnTCP = false, false
	var tr refTrace
	deny := tF
	allowMatch := tF
	nAllow := 0
	for _, p := range e.w.Policies {
		if !e.applies(p) || !e.enforced(p) {
			continue
		}
		switch p.Spec.GetAction() {
		case authpb.AuthorizationPolicy_DENY:
			m := e.policyMatch(p, r)
			tr.Applied = append(tr.Applied, "DENY "+p.NS+"/"+p.Name+"="+m.String())
			if m == tT {
				tr.DenyMatched = append(tr.DenyMatched, p.NS+"/"+p.Name)
			}
			deny = tor(deny, m)
		case authpb.AuthorizationPolicy_ALLOW:
			nAllow++
			m := e.policyMatch(p, r)
			tr.Applied = append(tr.Applied, "ALLOW "+p.NS+"/"+p.Name+"="+m.String())
			if m == tT {
				tr.AllowMatched = append(tr.AllowMatched, p.NS+"/"+p.Name)
			}
			allowMatch = tor(allowMatch, m)
		}
	}
	tr.NAllow = nAllow
	if nAllow == 0 {
		allowMatch = tT
	}
	return tand(tnot(deny), allowMatch), tr
}

func (e *refEval) policyMatch(p *PolicyIn, r *Request) tv {
	res := tF
	for _, rule := range p.Spec.GetRules() {
		res = tor(res, e.ruleMatch(p, rule, r))
	}
	return res
}

func isHTTPOnlyKey(k string) bool {
	return strings.HasPrefix(k, "request.headers") || strings.HasPrefix(k, "request.auth.")
}

// ruleUsesHTTPOnly reports whether any part of the rule needs HTTP.
func ruleUsesHTTPOnly(rule *authpb.Rule) bool {
	for _, f := range rule.GetFrom() {
		s := f.GetSource()
		if len(s.GetRequestPrincipals())+len(s.GetNotRequestPrincipals()) > 0 {
			return true
		}
	}
	for _, t := range rule.GetTo() {
		o := t.GetOperation()
		if len(o.GetHosts())+len(o.GetNotHosts())+len(o.GetMethods())+len(o.GetNotMethods())+len(o.GetPaths())+len(o.GetNotPaths()) > 0 {
			return true
		}
	}
	for _, c := range rule.GetWhen() {
		if isHTTPOnlyKey(c.GetKey()) {
			return true
		}
	}
	return false
}

// condKey is a parsed condition key.
type condKey struct {
	attr   string   // canonical attribute name
	header string   // request.headers[header]
	claims []string // request.auth.claims[a][b]...
	ok     bool
}

var plainKeys = map[string]bool{
	"source.ip": true, "remote.ip": true, "source.namespace": true, "source.principal": true,
	"source.serviceAccount": true, "source.trustDomain": true, "request.auth.principal": true,
	"request.auth.audiences": true, "request.auth.presenter": true, "destination.ip": true,
	"destination.port": true, "connection.sni": true,
}

// bracketNames parses "[a][b]..." strictly.
func bracketNames(s string) ([]string, bool) {
	var out []string
	for len(s) > 0 {
		if s[0] != '[' {
			return nil, false
		}
		end := strings.IndexByte(s, ']')
		if end < 2 {
			return nil, false
		}
		name := s[1:end]
		if strings.ContainsAny(name, "[]") {
			return nil, false
		}
		out = append(out, name)
		s = s[end+1:]
	}
	return out, len(out) > 0
}

func parseCondKey(k string) condKey {
	if plainKeys[k] {
		return condKey{attr: k, ok: true}
	}
	if rest, found := strings.CutPrefix(k, "request.headers"); found {
		if names, ok := bracketNames(rest); ok && len(names) == 1 {
			return condKey{attr: "request.headers", header: names[0], ok: true}
		}
		return condKey{attr: "request.headers"}
	}
	if rest, found := strings.CutPrefix(k, "request.auth.claims"); found {
		if names, ok := bracketNames(rest); ok {
			return condKey{attr: "request.auth.claims", claims: names, ok: true}
		}
		return condKey{attr: "request.auth.claims"}
	}
	return condKey{attr: k}
}

func ruleHasUnparsable(rule *authpb.Rule) bool {
	for _, c := range rule.GetWhen() {
		if !parseCondKey(c.GetKey()).ok {
			return true
		}
	}
	return false
}

func (e *refEval) ruleMatch(p *PolicyIn, rule *authpb.Rule, r *Request) tv {
	allow := p.Spec.GetAction() == authpb.AuthorizationPolicy_ALLOW
	tcp := !r.HTTP
	if ruleHasUnparsable(rule) {
		e.sawUnparsable = true
		if allow {
			return tF
		}
	}
	if tcp && ruleUsesHTTPOnly(rule) {
		e.sawHTTPOnlyOnTCP = true
		if allow {
			return tF
		}
	}
	// For a DENY rule the parts that cannot be evaluated are ignored (dropHTTP on TCP, unparsable
	// conditions always).
	dropHTTP := tcp
	from := tT
	if len(rule.GetFrom()) > 0 {
		from = tF
		for _, f := range rule.GetFrom() {
			from = tor(from, e.sourceMatch(p, f.GetSource(), r, dropHTTP))
		}
	}
	to := tT
	if len(rule.GetTo()) > 0 {
		to = tF
		for _, t := range rule.GetTo() {
			to = tor(to, e.operationMatch(t.GetOperation(), r, dropHTTP))
		}
	}
	when := tT
	for _, c := range rule.GetWhen() {
		ck := parseCondKey(c.GetKey())
		if !ck.ok {
			continue // DENY: ignored (ALLOW returned above)
		}
		if dropHTTP && isHTTPOnlyKey(c.GetKey()) {
			continue
		}
		when = tand(when, e.condMatch(p, ck, c, r))
	}
	return tand(tand(from, to), when)
}

// field combines the positive and the negative list of one attribute.
func field(values, notValues []string, m func(string) tv) tv {
	pos := tT
	if len(values) > 0 {
		pos = tF
		for _, v := range values {
			pos = tor(pos, m(v))
		}
	}
	neg := tF
	for _, v := range notValues {
		neg = tor(neg, m(v))
	}
	return tand(pos, tnot(neg))
}

func (e *refEval) sourceMatch(p *PolicyIn, s *authpb.Source, r *Request, dropHTTP bool) tv {
	if s == nil {
		panic(unknownKind{"from without source passed validation"})
	}
	res := tT
	res = tand(res, field(s.GetPrincipals(), s.GetNotPrincipals(), func(v string) tv { return e.principalMatch(v, r.ID) }))
	if !dropHTTP {
		res = tand(res, field(s.GetRequestPrincipals(), s.GetNotRequestPrincipals(), func(v string) tv { return e.requestPrincipalMatch(v, r) }))
	}
	res = tand(res, field(s.GetNamespaces(), s.GetNotNamespaces(), func(v string) tv { return e.namespaceMatch(v, r.ID) }))
	res = tand(res, field(s.GetServiceAccounts(), s.GetNotServiceAccounts(), func(v string) tv { return tb(serviceAccountMatch(v, p.NS, r.ID)) }))
	res = tand(res, field(s.GetIpBlocks(), s.GetNotIpBlocks(), func(v string) tv { return tb(cidrMatch(v, r.SrcIP)) }))
	res = tand(res, field(s.GetRemoteIpBlocks(), s.GetNotRemoteIpBlocks(), func(v string) tv { return tb(cidrMatch(v, r.RemoteIP)) }))
	res = tand(res, field(s.GetTrustDomains(), s.GetNotTrustDomains(), func(v string) tv { return e.trustDomainMatch(v, r.ID) }))
	return res
}

func (e *refEval) operationMatch(o *authpb.Operation, r *Request, dropHTTP bool) tv {
	if o == nil {
		panic(unknownKind{"to without operation passed validation"})
	}
	res := tT
	if !dropHTTP {
		res = tand(res, field(o.GetHosts(), o.GetNotHosts(), func(v string) tv { return tb(strMatch(strings.ToLower(v), strings.ToLower(r.Host))) }))
		res = tand(res, field(o.GetMethods(), o.GetNotMethods(), func(v string) tv { return tb(strMatch(v, r.Method)) }))
		res = tand(res, field(o.GetPaths(), o.GetNotPaths(), func(v string) tv { return tb(pathMatch(v, r.Path)) }))
	}
	res = tand(res, field(o.GetPorts(), o.GetNotPorts(), func(v string) tv { return tb(portMatch(v, r.DstPort)) }))
	return res
}

func (e *refEval) condMatch(p *PolicyIn, ck condKey, c *authpb.Condition, r *Request) tv {
	var m func(string) tv
	switch ck.attr {
	case "source.ip":
		m = func(v string) tv { return tb(cidrMatch(v, r.SrcIP)) }
	case "remote.ip":
		m = func(v string) tv { return tb(cidrMatch(v, r.RemoteIP)) }
	case "destination.ip":
		m = func(v string) tv { return tb(cidrMatch(v, r.DstIP)) }
	case "destination.port":
		m = func(v string) tv { return tb(portMatch(v, r.DstPort)) }
	case "connection.sni":
		m = func(v string) tv { return tb(strMatch(v, r.SNI)) }
	case "source.namespace":
		m = func(v string) tv { return e.namespaceMatch(v, r.ID) }
	case "source.principal":
		m = func(v string) tv { return e.principalMatch(v, r.ID) }
	case "source.serviceAccount":
		m = func(v string) tv { return tb(serviceAccountMatch(v, p.NS, r.ID)) }
	case "source.trustDomain":
		m = func(v string) tv { return e.trustDomainMatch(v, r.ID) }
	case "request.auth.principal":
		m = func(v string) tv { return e.requestPrincipalMatch(v, r) }
	case "request.auth.audiences":
		m = func(v string) tv { return tb(claimMatch(v, lookupClaim(r, []string{"aud"}))) }
	case "request.auth.presenter":
		m = func(v string) tv { return tb(claimMatch(v, lookupClaim(r, []string{"azp"}))) }
	case "request.auth.claims":
		m = func(v string) tv { return tb(claimMatch(v, lookupClaim(r, ck.claims))) }
	case "request.headers":
		m = func(v string) tv {
			hv, ok := headerValue(r, ck.header)
			return tb(ok && strMatch(v, hv))
		}
	default:
		panic(unknownKind{"condition key " + ck.attr + " not known to the reference"})
	}
	return field(c.GetValues(), c.GetNotValues(), m)
}

// strMatch is the documented string match: exact, prefix*, *suffix, * (non-empty).
func strMatch(pattern, value string) bool {
	switch {
	case pattern == "*":
		return value != ""
	case strings.HasPrefix(pattern, "*"):
		return strings.HasSuffix(value, pattern[1:])
	case strings.HasSuffix(pattern, "*"):
		return strings.HasPrefix(value, pattern[:len(pattern)-1])
	default:
		return pattern == value
	}
}

func requestPrincipal(r *Request) string {
	if !r.HTTP || r.JWT == nil {
		return ""
	}
	iss, _ := r.JWT["iss"].(string)
	sub, _ := r.JWT["sub"].(string)
	if iss == "" || sub == "" {
		return ""
	}
	return iss + "/" + sub
}

func headerValue(r *Request, name string) (string, bool) {
	if !r.HTTP {
		return "", false
	}
	for _, k := range sortedKeys(r.Headers) {
		if strings.EqualFold(k, name) {
			return r.Headers[k], true
		}
	}
	return "", false
}

func lookupClaim(r *Request, path []string) any {
	if !r.HTTP || r.JWT == nil {
		return nil
	}
	var cur any = r.JWT
	for _, k := range path {
		m, ok := cur.(map[string]any)
		if !ok {
			return nil
		}
		cur, ok = m[k]
		if !ok {
			return nil
		}
	}
	return cur
}

// claimMatch: only claims of type string or list of strings are supported.
func claimMatch(pattern string, claim any) bool {
	switch c := claim.(type) {
	case string:
		return strMatch(pattern, c)
	case []any:
		for _, el := range c {
			if s, ok := el.(string); ok && strMatch(pattern, s) {
				return true
			}
		}
	}
	return false
}

func serviceAccountMatch(v, policyNS string, id Identity) bool {
	if !id.Present() {
		return false
	}
	ns, sa := policyNS, v
	if i := strings.IndexByte(v, '/'); i >= 0 {
		ns, sa = v[:i], v[i+1:]
	}
	return id.NS == ns && id.SA == sa
}

func portMatch(v string, port uint32) bool {
	n, err := strconv.Atoi(v)
	if err != nil {
		panic(unknownKind{"port value " + v + " passed validation but is not a number"})
	}
	return n >= 0 && uint32(n) == port
}

// cidrMatch: single address or CIDR containment, families must agree.
func cidrMatch(v, ip string) bool {
	target := net.ParseIP(ip)
	if target == nil {
		return false
	}
	t4 := target.To4() != nil
	if strings.Contains(v, "/") {
		base, n, err := net.ParseCIDR(v)
		if err != nil {
			panic(unknownKind{"cidr " + v + " passed validation but does not parse"})
		}
		if (base.To4() != nil) != t4 {
			return false
		}
		return n.Contains(target)
	}
	a := net.ParseIP(v)
	if a == nil {
		panic(unknownKind{"ip " + v + " passed validation but does not parse"})
	}
	if (a.To4() != nil) != t4 {
		return false
	}
	return a.Equal(target)
}

// ---- peer identity and trust-domain aliases -------------------------------------------------

// equivalents lists the identities the mesh treats the same as id.
func (e *refEval) equivalents(id Identity) []Identity {
	if !e.class[id.TD] {
		return []Identity{id}
	}
	var out []Identity
	for _, c := range e.classList() {
		out = append(out, Identity{TD: c, NS: id.NS, SA: id.SA})
	}
	return out
}

const tdPointer = "cluster.local"

func (e *refEval) principalMatch(pattern string, id Identity) tv {
	if !id.Present() {
		return tF
	}
	ids := e.equivalents(id)
	// pattern variants: literally, and with the pointer resolved
	lit := []string{pattern}
	ptr := []string{pattern}
	if tdPart, rest, ok := strings.Cut(pattern, "/"); ok && tdPart == tdPointer {
		var exp []string
		for _, c := range e.classList() {
			exp = append(exp, c+"/"+rest)
		}
		if e.class[tdPointer] {
			ptr = exp // contains the pattern itself
		} else {
			ptr = exp // pointer only
		}
	}
	exists := func(pats []string, ids []Identity) bool {
		for _, p := range pats {
			for _, i := range ids {
				if strMatch(p, i.Principal()) {
					return true
				}
			}
		}
		return false
	}
	r1 := strMatch(pattern, id.Principal())        // everything literal
	r2 := exists(append(lit[:1:1], ptr...), ids) // equivalence + pointer + literal
	r3 := exists(ptr, ids)                        // equivalence + pointer only
	if r1 == r2 && r2 == r3 {
		return tb(r1)
	}
	// Documented: a complete principal naming the mesh trust domain, one of its aliases or the
	// pointer stands for that workload identity under every trust domain of the mesh.
	parts := strings.Split(pattern, "/")
	if len(parts) == 5 && parts[1] == "ns" && parts[3] == "sa" && !strings.Contains(pattern, "*") &&
		(e.class[parts[0]] || parts[0] == tdPointer) {
		return tb(e.class[id.TD] && id.NS == parts[2] && id.SA == parts[4])
	}
	return tU
}

func (e *refEval) trustDomainMatch(pattern string, id Identity) tv {
	if !id.Present() {
		return tF
	}
	var tds []string
	for _, i := range e.equivalents(id) {
		tds = append(tds, i.TD)
	}
	ptr := []string{pattern}
	if pattern == tdPointer {
		ptr = e.classList()
	}
	exists := func(pats, tds []string) bool {
		for _, p := range pats {
			for _, t := range tds {
				if strMatch(p, t) {
					return true
				}
			}
		}
		return false
	}
	r1 := strMatch(pattern, id.TD)
	r2 := exists(append([]string{pattern}, ptr...), tds)
	r3 := exists(ptr, tds)
	if r1 == r2 && r2 == r3 {
		return tb(r1)
	}
	// Documented: naming the mesh trust domain or one of its aliases covers all of them.
	if !strings.Contains(pattern, "*") && e.class[pattern] {
		return tb(e.class[id.TD])
	}
	return tU
}

// ---- paths ----------------------------------------------------------------------------------

func pathMatch(pattern, path string) bool {
	if strings.Contains(pattern, "{*}") || strings.Contains(pattern, "{**}") {
		return tmplRun(tmplTokens(pattern), path)
	}
	return strMatch(pattern, path)
}

type tmplTok struct {
	kind int // 0 literal, 1 {*}, 2 {**}
	lit  string
}

func tmplTokens(p string) []tmplTok {
	var out []tmplTok
	var lit strings.Builder
	flush := func() {
		if lit.Len() > 0 {
			out = append(out, tmplTok{kind: 0, lit: lit.String()})
			lit.Reset()
		}
	}
	for i, s := range strings.Split(p, "/") {
		if i > 0 {
			lit.WriteByte('/')
		}
		switch s {
		case "{*}":
			flush()
			out = append(out, tmplTok{kind: 1})
		case "{**}":
			flush()
			out = append(out, tmplTok{kind: 2})
		default:
			lit.WriteString(s)
		}
	}
	flush()
	return out
}

func tmplRun(toks []tmplTok, s string) bool {
	if len(toks) == 0 {
		return s == ""
	}
	t := toks[0]
	switch t.kind {
	case 0:
		return strings.HasPrefix(s, t.lit) && tmplRun(toks[1:], s[len(t.lit):])
	case 1:
		n := strings.IndexByte(s, '/')
		if n < 0 {
			n = len(s)
		}
		for k := 1; k <= n; k++ {
			if tmplRun(toks[1:], s[k:]) {
				return true
			}
		}
		return false
	default:
		for k := 0; k <= len(s); k++ {
			if tmplRun(toks[1:], s[k:]) {
				return true
			}
		}
		return false
	}
}
