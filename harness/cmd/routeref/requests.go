package main

// Request generation: witnesses built from the literals of each match block, then near misses.

import (
	"fmt"
	"math/rand"
	"strings"

	networking "istio.io/api/networking/v1alpha3"
)

// samples for the regex pools of world.go: strings that match and near misses
var regexSamples = map[string][]string{
	"/api/v[0-9]+":         {"/api/v1", "/api/v22", "/api/v", "/api/v1/", "/API/v1", "x/api/v1"},
	"/api/v[0-9]+/.*":      {"/api/v1/", "/api/v2/users", "/api/v1", "/api/vx/users"},
	"/user/[a-z]+/profile": {"/user/bob/profile", "/user/Bob/profile", "/user//profile", "/user/bob/profile/"},
	".*":                   {"/", "/anything", "/a/b?x=1"},
	"/.*":                  {"/", "/zzz"},
	"/a|/b":                {"/a", "/b", "/ab", "/a/b", "/"},
	"(?i)/mixed/case":      {"/mixed/case", "/MIXED/Case", "/mixed/cas"},
	"/static/.+\\.png":     {"/static/x.png", "/static/.png", "/static/a/b.png", "/static/x.pngx"},
	"/v1/(foo|bar)":        {"/v1/foo", "/v1/bar", "/v1/baz", "/v1/foo/"},
	"^/anch/ored$":         {"/anch/ored", "/anch/ored/", "/anch/ore"},
	"/[A-Z]+":              {"/ABC", "/abc", "/Abc"},
	// value regexes
	"a.*":         {"alice", "a", "bob", "xa"},
	"(alice|bob)": {"alice", "bob", "alicebob", "carol"},
	"[0-9]+":      {"1", "123", "12a", ""},
	"pro.":        {"prod", "prox", "pro", "prods"},
	"(?i)PROD":    {"prod", "PROD", "Prod", "production"},
	"\\d+$":       {"123", "a123", "123a", "7"},
	"^t":          {"t", "true", "T"},
	"v[12]":       {"v1", "v2", "v3", "v12"},
	"GET|HEAD":    {"GET", "HEAD", "GETHEAD", "POST"},
	"P.*":         {"POST", "PUT", "P", "GET"},
	"(?i)get":     {"GET", "get", "GETS"},
}

func sampleFor(r *rand.Rand, sm *networking.StringMatch, fallback []string, hit bool) string {
	switch m := sm.GetMatchType().(type) {
	case *networking.StringMatch_Exact:
		if hit || chance(r, 30) {
			return m.Exact
		}
		return mutateString(r, m.Exact)
	case *networking.StringMatch_Prefix:
		if hit {
			return m.Prefix + pick(r, []string{"", "", "x", "/x", "/", "-1"})
		}
		return mutateString(r, m.Prefix)
	case *networking.StringMatch_Regex:
		if s, ok := regexSamples[m.Regex]; ok {
			if hit {
				return s[0+r.Intn(min(2, len(s)))]
			}
			return pick(r, s)
		}
		// regexes derived from literals (authority): strip the escaping for a plausible witness
		x := strings.ReplaceAll(m.Regex, "\\.", ".")
		x = strings.TrimSuffix(x, "(:[0-9]+)?")
		return x
	}
	return pick(r, fallback)
}

// mutateString: +- one character, case flip, trailing slash.
func mutateString(r *rand.Rand, s string) string {
	switch r.Intn(6) {
	case 0:
		return s + "x"
	case 1:
		if len(s) > 1 {
			return s[:len(s)-1]
		}
		return s + "y"
	case 2:
		// flip the case of one letter
		idx := []int{}
		for i := 0; i < len(s); i++ {
			c := s[i]
			if (c >= 'a' && c <= 'z') || (c >= 'A' && c <= 'Z') {
				idx = append(idx, i)
			}
		}
		if len(idx) == 0 {
			return s + "A"
		}
		i := pick(r, idx)
		b := []byte(s)
		b[i] ^= 0x20
		return string(b)
	case 3:
		if strings.HasSuffix(s, "/") && len(s) > 1 {
			return strings.TrimSuffix(s, "/")
		}
		return s + "/"
	case 4:
		return strings.ToUpper(s)
	default:
		if len(s) > 2 {
			i := 1 + r.Intn(len(s)-1)
			return s[:i] + "z" + s[i:]
		}
		return s + "zz"
	}
}

// target is a (proxy, port) pair with a live listener and its route configuration.
type target struct {
	proxy int
	port  int
}

type reqGen struct {
	r  *rand.Rand
	w  *world
	rw *refWorld
	// ports with an RDS-backed listener per proxy index
	ports map[int][]int
}

// authorityForms lists the Host header forms a client in namespace ns may use for a service.
func authorityForms(s *svcDef, ns string) []string {
	out := []string{s.Host}
	if s.K8s {
		name := strings.SplitN(s.Host, ".", 2)[0]
		out = append(out, name+"."+s.NS, name+"."+s.NS+".svc")
		if s.NS == ns {
			out = append(out, name)
		}
	}
	return out
}

func (g *reqGen) sidecarAuthority(v *vsDef, p *proxyDef, port int) string {
	// a registry service matched by one of the VirtualService hosts (preferably with that port)
	var m, mp []*svcDef
	for _, s := range g.w.Services {
		for _, h := range v.Spec.Hosts {
			if hostMatches(resolveShort(h, v.NS), s.Host) {
				m = append(m, s)
				if s.hasPort(port) {
					mp = append(mp, s)
				}
				break
			}
		}
	}
	var s *svcDef
	switch {
	case len(mp) > 0 && chance(g.r, 90):
		s = pick(g.r, mp)
	case len(m) > 0:
		s = pick(g.r, m)
	default:
		s = pick(g.r, g.w.Services)
	}
	a := pick(g.r, authorityForms(s, p.NS))
	if chance(g.r, 25) {
		a = fmt.Sprintf("%s:%d", a, port)
	}
	return a
}

func (g *reqGen) gatewayAuthority(v *vsDef, port int) string {
	h := pick(g.r, v.Spec.Hosts)
	a := concretiseHost(g.r, g.w, h, v.NS)
	if chance(g.r, 25) {
		a = fmt.Sprintf("%s:%d", a, port)
	}
	return a
}

// witness builds a request intended to satisfy block m of v on the given proxy/port.
func (g *reqGen) witness(v *vsDef, m *networking.HTTPMatchRequest, pi int, port int) *request {
	r := g.r
	p := g.w.Proxies[pi]
	req := &request{Port: port, Method: "GET", Scheme: "http", Headers: map[string]string{}}
	if p.Kind == "gateway" {
		req.Authority = g.gatewayAuthority(v, port)
	} else {
		req.Authority = g.sidecarAuthority(v, p, port)
	}
	req.Path = pick(r, pathPool)
	if m == nil {
		return req
	}
	if m.Authority != nil && chance(r, 85) {
		req.Authority = sampleFor(r, m.Authority, []string{req.Authority}, true)
	}
	if m.Uri != nil {
		req.Path = sampleFor(r, m.Uri, pathPool, true)
		if !strings.HasPrefix(req.Path, "/") {
			req.Path = "/" + req.Path
		}
	}
	for _, k := range sortedKeys(m.Headers) {
		req.Headers[k] = sampleFor(r, m.Headers[k], []string{"anything", ""}, true)
	}
	for _, k := range sortedKeys(m.WithoutHeaders) {
		if chance(r, 35) {
			req.Headers[k] = sampleFor(r, m.WithoutHeaders[k], []string{"anything", ""}, chance(r, 50))
		}
	}
	var qs []string
	for _, k := range sortedKeys(m.QueryParams) {
		val := sampleFor(r, m.QueryParams[k], queryValues, true)
		if val == "" && chance(r, 50) {
			qs = append(qs, k)
		} else {
			qs = append(qs, k+"="+val)
		}
	}
	if len(qs) > 0 {
		req.Path += "?" + strings.Join(qs, "&")
	}
	if m.Method != nil {
		req.Method = sampleFor(r, m.Method, methodPool, true)
	}
	if m.Scheme != nil {
		req.Scheme = sampleFor(r, m.Scheme, []string{"http", "https"}, true)
	}
	return req
}

// nearMiss perturbs one aspect of a request.
func (g *reqGen) nearMiss(req *request, pi int) {
	r := g.r
	switch r.Intn(12) {
	case 0, 1, 2:
		path, q, has := strings.Cut(req.Path, "?")
		path = mutateString(r, path)
		if !strings.HasPrefix(path, "/") {
			path = "/" + path
		}
		req.Path = path
		if has {
			req.Path += "?" + q
		}
	case 3:
		// header: drop / empty / alter / add
		keys := sortedKeys(req.Headers)
		if len(keys) > 0 && chance(r, 70) {
			k := pick(r, keys)
			switch r.Intn(3) {
			case 0:
				delete(req.Headers, k)
			case 1:
				req.Headers[k] = ""
			default:
				req.Headers[k] = mutateString(r, req.Headers[k])
			}
		} else {
			req.Headers[pick(r, headerNames)] = pick(r, headerValues)
		}
	case 4:
		req.Headers[pick(r, headerNames)] = pick(r, headerValues)
	case 5, 6:
		// query: drop / alter / empty / add
		path, q, has := strings.Cut(req.Path, "?")
		if has && chance(r, 70) {
			parts := strings.Split(q, "&")
			i := r.Intn(len(parts))
			k, v, _ := strings.Cut(parts[i], "=")
			switch r.Intn(4) {
			case 0:
				parts = append(parts[:i], parts[i+1:]...)
			case 1:
				parts[i] = k
			case 2:
				parts[i] = k + "=" + mutateString(r, v)
			default:
				parts[i] = k + "="
			}
			req.Path = path
			if len(parts) > 0 {
				req.Path += "?" + strings.Join(parts, "&")
			}
		} else {
			sep := "?"
			if has {
				sep = "&"
			}
			v := pick(r, queryValues)
			if v == "" && chance(r, 50) {
				req.Path += sep + pick(r, queryNames)
			} else {
				req.Path += sep + pick(r, queryNames) + "=" + v
			}
		}
	case 7:
		// authority with / without port
		h, _, has := splitAuthority(req.Authority)
		if has {
			req.Authority = h
		} else {
			req.Authority = fmt.Sprintf("%s:%d", h, req.Port)
		}
	case 8:
		req.Method = pick(r, methodPool)
	case 9:
		req.Scheme = pick(r, []string{"http", "https"})
	case 10:
		// other listener port of the same proxy (authority port follows)
		if ps := g.ports[pi]; len(ps) > 0 {
			h, _, has := splitAuthority(req.Authority)
			req.Port = pick(r, ps)
			if has {
				req.Authority = fmt.Sprintf("%s:%d", h, req.Port)
			}
		}
	default:
		// another authority known to the proxy kind
		p := g.w.Proxies[pi]
		if p.Kind == "gateway" {
			req.Authority = pick(r, append(append([]string{}, gwHostPool...), pick(r, g.w.Services).Host, "zz.example.org", "unknown.nowhere.test"))
		} else {
			if chance(r, 80) {
				req.Authority = pick(r, authorityForms(pick(r, g.w.Services), pick(r, namespaces)))
			} else {
				req.Authority = "unknown.nowhere.test"
			}
		}
	}
}

type genReq struct {
	pi  int
	req *request
	why string
}

// generate produces about n requests spread over VirtualServices, rules, blocks and proxies.
func (g *reqGen) generate(n int) []genReq {
	r := g.r
	var out []genReq
	var sidecars, gateways []int
	for i, p := range g.w.Proxies {
		if len(g.ports[i]) == 0 {
			continue
		}
		if p.Kind == "gateway" {
			gateways = append(gateways, i)
		} else {
			sidecars = append(sidecars, i)
		}
	}
	type blk struct {
		v *vsDef
		m *networking.HTTPMatchRequest
	}
	var blocks []blk
	for _, v := range g.w.VS {
		for _, h := range v.Spec.Http {
			if len(h.Match) == 0 {
				blocks = append(blocks, blk{v, nil})
			}
			for _, m := range h.Match {
				blocks = append(blocks, blk{v, m})
			}
		}
	}
	choosePI := func(v *vsDef) int {
		mesh := contains(v.topGateways(), "mesh")
		gw := len(v.topGateways()) > 1 || !mesh
		var pool []int
		if mesh {
			pool = append(pool, sidecars...)
		}
		if gw {
			pool = append(pool, gateways...)
		}
		if len(pool) == 0 || chance(r, 5) {
			pool = append(append([]int{}, sidecars...), gateways...)
		}
		if len(pool) == 0 {
			return -1
		}
		return pick(r, pool)
	}
	choosePort := func(v *vsDef, m *networking.HTTPMatchRequest, pi int) int {
		ps := g.ports[pi]
		if m != nil && m.Port != 0 && chance(r, 85) {
			for _, p := range ps {
				if p == int(m.Port) {
					return p
				}
			}
		}
		p := g.w.Proxies[pi]
		if p.Kind == "sidecar" {
			// prefer a port of a service the VirtualService applies to
			var cand []int
			for _, s := range g.w.Services {
				for _, h := range v.Spec.Hosts {
					if hostMatches(resolveShort(h, v.NS), s.Host) {
						for _, sp := range s.Ports {
							for _, lp := range ps {
								if lp == sp {
									cand = append(cand, sp)
								}
							}
						}
						break
					}
				}
			}
			if len(cand) > 0 {
				return pick(r, cand)
			}
		}
		return pick(r, ps)
	}
	if len(blocks) > 0 {
		per := n * 8 / 10
		for i := 0; i < per; i++ {
			b := blocks[i%len(blocks)]
			pi := choosePI(b.v)
			if pi < 0 {
				break
			}
			port := choosePort(b.v, b.m, pi)
			req := g.witness(b.v, b.m, pi, port)
			why := "witness"
			for k := r.Intn(3); k > 0; k-- {
				g.nearMiss(req, pi)
				why = "near-miss"
			}
			out = append(out, genReq{pi, req, why})
		}
	}
	// baseline: services by their names, unknown hosts, gateway hosts
	all := append(append([]int{}, sidecars...), gateways...)
	for len(out) < n && len(all) > 0 {
		pi := pick(r, all)
		p := g.w.Proxies[pi]
		req := &request{Port: pick(r, g.ports[pi]), Method: "GET", Scheme: "http", Headers: map[string]string{}, Path: pick(r, pathPool)}
		if p.Kind == "gateway" {
			req.Authority = pick(r, append(append([]string{}, gwHostPool...), pick(r, g.w.Services).Host, "unknown.nowhere.test"))
		} else {
			s := pick(r, g.w.Services)
			if s.hasPort(req.Port) || chance(r, 70) {
				for _, sp := range s.Ports {
					for _, lp := range g.ports[pi] {
						if sp == lp && chance(r, 60) {
							req.Port = sp
						}
					}
				}
			}
			req.Authority = pick(r, authorityForms(s, pick(r, []string{p.NS, p.NS, "ns1", "ns2", "ns3"})))
			if chance(r, 10) {
				req.Authority = "unknown.nowhere.test"
			}
		}
		if chance(r, 30) {
			g.nearMiss(req, pi)
		}
		out = append(out, genReq{pi, req, "baseline"})
	}
	return out
}
