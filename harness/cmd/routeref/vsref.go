package main

// Reference (A): a VirtualService evaluator written from the networking.istio.io API reference
// (virtual_service.proto / gateway.proto comments, the traffic-management operations guide on
// split virtual services, and the 1.19 upgrade note on overlapping wildcard hosts).
// It never calls istio code. Where the documentation is silent the evaluator answers
// "unspecified" (the request is not asserted) or returns more than one admissible outcome.

import (
	"fmt"
	"regexp"
	"sort"
	"strconv"
	"strings"

	networking "istio.io/api/networking/v1alpha3"
)

// outcome is the routing decision for one request, in a form both references can produce.
type outcome struct {
	Kind string `json:"kind"` // route | redirect | direct | noroute | passthrough

	Clusters map[string]int64 `json:"clusters,omitempty"` // route: cluster -> relative weight

	RHost   string `json:"rhost,omitempty"`
	RPath   string `json:"rpath,omitempty"`
	RPrefix string `json:"rprefix,omitempty"`
	RScheme string `json:"rscheme,omitempty"`
	RPort   uint32 `json:"rport,omitempty"`
	RCode   int    `json:"rcode,omitempty"`

	Status uint32 `json:"status,omitempty"`
	Body   string `json:"body,omitempty"`
}

func gcd(a, b int64) int64 {
	for b != 0 {
		a, b = b, a%b
	}
	if a < 0 {
		return -a
	}
	return a
}

// canon renders an outcome so that semantically equal outcomes are string-equal:
// weights become reduced fractions of the total, zero-weight clusters disappear.
func (o outcome) canon() string {
	switch o.Kind {
	case "route":
		var total int64
		for _, w := range o.Clusters {
			total += w
		}
		keys := make([]string, 0, len(o.Clusters))
		for k, w := range o.Clusters {
			if w > 0 {
				keys = append(keys, k)
			}
		}
		sort.Strings(keys)
		var sb strings.Builder
		sb.WriteString("route{")
		for _, k := range keys {
			w := o.Clusters[k]
			g := gcd(w, total)
			fmt.Fprintf(&sb, "%s=%d/%d;", k, w/g, total/g)
		}
		sb.WriteString("}")
		return sb.String()
	case "redirect":
		return fmt.Sprintf("redirect{host=%q path=%q prefix=%q scheme=%q port=%d code=%d}", o.RHost, o.RPath, o.RPrefix, o.RScheme, o.RPort, o.RCode)
	case "direct":
		return fmt.Sprintf("direct{status=%d body=%q}", o.Status, o.Body)
	default:
		return o.Kind
	}
}

// normRedirectPort: a port equal to the default port of the effective scheme is the same URL
// as no explicit port (http://h:80/ == http://h/). listenerTLS is false for all generated listeners.
func normRedirectPort(port uint32, scheme string) uint32 {
	eff := scheme
	if eff == "" {
		eff = "http"
	}
	if (eff == "http" && port == 80) || (eff == "https" && port == 443) {
		return 0
	}
	return port
}

// ---------------------------------------------------------------------------------------
// host helpers

// hostMatches: pattern is an exact DNS name or a "*"-prefixed suffix wildcard.
func hostMatches(pattern, h string) bool {
	pattern, h = strings.ToLower(pattern), strings.ToLower(h)
	if pattern == h {
		return true
	}
	if pattern == "*" {
		return true
	}
	if strings.HasPrefix(pattern, "*") {
		suf := pattern[1:]
		return len(h) > len(suf) && strings.HasSuffix(h, suf)
	}
	return false
}

// specificity orders host patterns that match the same name: exact > longer wildcard > "*".
func specificity(pattern string) int {
	if !strings.HasPrefix(pattern, "*") {
		return 1 << 20
	}
	return len(pattern)
}

func splitAuthority(a string) (host string, port int, hasPort bool) {
	if i := strings.LastIndex(a, ":"); i >= 0 {
		if p, err := strconv.Atoi(a[i+1:]); err == nil {
			return a[:i], p, true
		}
	}
	return a, 0, false
}

// ---------------------------------------------------------------------------------------

type request struct {
	Port      int               `json:"port"`
	Authority string            `json:"authority"`
	Path      string            `json:"path"` // path with optional ?query
	Method    string            `json:"method"`
	Scheme    string            `json:"scheme"`
	Headers   map[string]string `json:"headers,omitempty"`
}

func (r *request) pathOnly() string {
	if i := strings.Index(r.Path, "?"); i >= 0 {
		return r.Path[:i]
	}
	return r.Path
}

// query returns the first value per key and whether the key is present.
func (r *request) query() map[string]string {
	out := map[string]string{}
	i := strings.Index(r.Path, "?")
	if i < 0 {
		return out
	}
	for _, kv := range strings.Split(r.Path[i+1:], "&") {
		if kv == "" {
			continue
		}
		k, v, _ := strings.Cut(kv, "=")
		if _, ok := out[k]; !ok {
			out[k] = v
		}
	}
	return out
}

// refResult is what the reference says about one request.
type refResult struct {
	Admissible  []outcome // non-empty unless Unspecified != ""
	Unspecified string    // reason why the documentation does not determine the outcome
	Weak        string    // non-empty when several outcomes are admissible and why
	// description of the deciding rule (for evidence)
	VS        string
	Rule      int
	Block     int
	Default   bool // default service route (no VirtualService applies)
	Merged    int  // gateway: number of VirtualServices merged on the effective domain
	Cands     []string
	GroupKey  string   // sidecar ties: requests with the same key must be explained by one candidate
	PerCand   []string // sidecar ties: canon outcome per candidate, aligned with Cands
	MatchedBy []string // features of the deciding block (for combo evidence)
}

// quirks are named hypotheses about how the implementation deviates from the reference. They are
// never used for the verdict: after a disagreement the oracle re-evaluates under each hypothesis only
// to give the violation a stable, root-cause specific key.
type quirks struct {
	implicitPortIsListenerPort  bool // sidecar: destination without port -> port of the listener, not the service's single port
	withoutHeaderMissingAsEmpty bool // withoutHeaders: an absent header is matched as if it were present with an empty value
}

type refWorld struct {
	w       *world
	svcByFQ map[string]*svcDef
	reCache map[string]*regexp.Regexp
	q       quirks
}

func newRefWorld(w *world) *refWorld {
	rw := &refWorld{w: w, svcByFQ: map[string]*svcDef{}, reCache: map[string]*regexp.Regexp{}}
	for _, s := range w.Services {
		rw.svcByFQ[s.Host] = s
	}
	return rw
}

// fullMatch: RE2 regex, the whole input must match (the reference's query-parameter example:
// `\d+$` matches "123" but neither "a123" nor "123a").
func (rw *refWorld) fullMatch(re, s string) bool {
	c, ok := rw.reCache[re]
	if !ok {
		var err error
		c, err = regexp.Compile(`^(?:` + re + `)$`)
		if err != nil {
			c = nil
		}
		rw.reCache[re] = c
	}
	if c == nil {
		return false
	}
	return c.MatchString(s)
}

func (rw *refWorld) strMatch(sm *networking.StringMatch, v string, ignoreCase bool) bool {
	switch m := sm.GetMatchType().(type) {
	case *networking.StringMatch_Exact:
		if ignoreCase {
			return strings.EqualFold(m.Exact, v)
		}
		return m.Exact == v
	case *networking.StringMatch_Prefix:
		if ignoreCase {
			return len(v) >= len(m.Prefix) && strings.EqualFold(v[:len(m.Prefix)], m.Prefix)
		}
		return strings.HasPrefix(v, m.Prefix)
	case *networking.StringMatch_Regex:
		return rw.fullMatch(m.Regex, v)
	}
	return true
}

// resolveShort: "reviews" in a rule of namespace foo means reviews.foo.svc.<domain>.
func resolveShort(h, ns string) string {
	if h == "*" || strings.Contains(h, ".") {
		return h
	}
	return h + "." + ns + ".svc." + domainSuffix
}

// resolveGateway: "gw" means <rule namespace>/gw; "ns/gw" is explicit; "mesh" is reserved.
func resolveGateway(g, ns string) string {
	if g == "mesh" {
		return g
	}
	if strings.Contains(g, "/") {
		if strings.HasPrefix(g, "./") {
			return ns + g[1:]
		}
		return g
	}
	return ns + "/" + g
}

func (v *vsDef) topGateways() []string {
	if len(v.Spec.Gateways) == 0 {
		return []string{"mesh"}
	}
	out := make([]string, 0, len(v.Spec.Gateways))
	for _, g := range v.Spec.Gateways {
		out = append(out, resolveGateway(g, v.NS))
	}
	return out
}

func contains(xs []string, x string) bool {
	for _, y := range xs {
		if x == y {
			return true
		}
	}
	return false
}

// scope is the static (non-request) context a rule is evaluated in.
type scope struct {
	gateways []string // names under which this proxy sees the VirtualService ("mesh" or ns/name)
	labels   map[string]string
	ns       string
	port     int
}

// blockApplies evaluates the selector part of a match block: gateways, sourceLabels, sourceNamespace, port.
// portOnly reports that the port condition alone excluded the block.
func blockApplies(v *vsDef, m *networking.HTTPMatchRequest, sc scope) (applies bool, portOnly bool) {
	if len(m.Gateways) > 0 {
		ok := false
		for _, g := range m.Gateways {
			if contains(sc.gateways, resolveGateway(g, v.NS)) {
				ok = true
			}
		}
		if !ok {
			return false, false
		}
	}
	for k, val := range m.SourceLabels {
		if sc.labels[k] != val {
			return false, false
		}
	}
	if m.SourceNamespace != "" && m.SourceNamespace != sc.ns {
		return false, false
	}
	if m.Port != 0 && int(m.Port) != sc.port {
		return false, true
	}
	return true, false
}

func (rw *refWorld) blockHolds(m *networking.HTTPMatchRequest, r *request) bool {
	if m.Uri != nil {
		ic := m.IgnoreUriCase
		if _, isRe := m.Uri.MatchType.(*networking.StringMatch_Regex); isRe {
			ic = false // "The case will be ignored only in the case of exact and prefix URI matches."
		}
		if !rw.strMatch(m.Uri, r.pathOnly(), ic) {
			return false
		}
	}
	if m.Scheme != nil && !rw.strMatch(m.Scheme, r.Scheme, false) {
		return false
	}
	if m.Method != nil && !rw.strMatch(m.Method, r.Method, false) {
		return false
	}
	if m.Authority != nil && !rw.strMatch(m.Authority, r.Authority, false) {
		return false
	}
	for name, sm := range m.Headers {
		val, present := r.Headers[name]
		if !present {
			return false
		}
		if sm.GetMatchType() == nil {
			continue // presence only
		}
		if !rw.strMatch(sm, val, false) {
			return false
		}
	}
	for name, sm := range m.WithoutHeaders {
		val, present := r.Headers[name]
		if !present {
			if rw.q.withoutHeaderMissingAsEmpty && sm.GetMatchType() != nil && rw.strMatch(sm, "", false) {
				return false
			}
			continue
		}
		if sm.GetMatchType() == nil || rw.strMatch(sm, val, false) {
			return false
		}
	}
	if len(m.QueryParams) > 0 {
		q := r.query()
		for name, sm := range m.QueryParams {
			val, present := q[name]
			if !present {
				return false
			}
			if !rw.strMatch(sm, val, false) {
				return false
			}
		}
	}
	return true
}

const (
	classNonCA = iota
	classPlainCA
	classAmbiguousCA
)

var caProbePaths = []string{"/", "/x", "/a/b/c", "/Some/Path.ext", "/%20", "/a-b_c~d"}

// blockClass: is the block a "catch-all" in the sense of the operations guide ("a rule that matches
// any request path or header")? plain = no match / only uri prefix "/"; ambiguous = matches every
// path by other means (regex .*, empty prefix), where the guide does not say whether it is moved.
func (rw *refWorld) blockClass(m *networking.HTTPMatchRequest) int {
	if m == nil {
		return classPlainCA
	}
	if len(m.Headers) > 0 || len(m.WithoutHeaders) > 0 || len(m.QueryParams) > 0 || m.Method != nil || m.Authority != nil || m.Scheme != nil {
		return classNonCA
	}
	if m.Uri == nil {
		return classPlainCA
	}
	switch u := m.Uri.MatchType.(type) {
	case *networking.StringMatch_Prefix:
		if u.Prefix == "/" {
			return classPlainCA
		}
		if u.Prefix == "" {
			return classAmbiguousCA
		}
	case *networking.StringMatch_Regex:
		all := true
		for _, p := range caProbePaths {
			if !rw.fullMatch(u.Regex, p) {
				all = false
			}
		}
		if all {
			return classAmbiguousCA
		}
	}
	return classNonCA
}

type vsEval struct {
	applies     bool // at least one rule is applicable to this proxy/port
	portOnly    bool // no rule applicable, and a port condition alone excluded some block
	matched     bool
	rule, block int
	class       int
	act         outcome
	unspecified string
	features    []string
}

// evalVS: "The first rule matching an incoming request is used"; within a rule, "All conditions
// inside a single match block have AND semantics, while the list of match blocks have OR semantics".
func (rw *refWorld) evalVS(v *vsDef, sc scope, r *request) vsEval {
	ev := vsEval{rule: -1, block: -1}
	for ri, h := range v.Spec.Http {
		if len(h.Match) == 0 {
			ev.applies = true
			if !ev.matched {
				ev.matched, ev.rule, ev.class = true, ri, classPlainCA
				ev.features = []string{"nomatch:-"}
			}
			continue
		}
		for bi, m := range h.Match {
			ok, po := blockApplies(v, m, sc)
			if !ok {
				if po {
					ev.portOnly = true
				}
				continue
			}
			ev.applies = true
			if !ev.matched && rw.blockHolds(m, r) {
				ev.matched, ev.rule, ev.block, ev.class = true, ri, bi, rw.blockClass(m)
				ev.features = blockFeatures(m)
			}
		}
	}
	if ev.matched {
		ev.act, ev.unspecified = rw.action(v, v.Spec.Http[ev.rule], sc)
	}
	return ev
}

func smForm(sm *networking.StringMatch) string {
	switch sm.GetMatchType().(type) {
	case *networking.StringMatch_Exact:
		return "exact"
	case *networking.StringMatch_Prefix:
		return "prefix"
	case *networking.StringMatch_Regex:
		return "regex"
	}
	return "present"
}

func blockFeatures(m *networking.HTTPMatchRequest) []string {
	var f []string
	if m.Uri != nil {
		x := "uri:" + smForm(m.Uri)
		if m.IgnoreUriCase {
			x += "+ignoreCase"
		}
		f = append(f, x)
	}
	for _, k := range sortedKeys(m.Headers) {
		f = append(f, "headers:"+smForm(m.Headers[k]))
	}
	for _, k := range sortedKeys(m.WithoutHeaders) {
		f = append(f, "withoutHeaders:"+smForm(m.WithoutHeaders[k]))
	}
	for _, k := range sortedKeys(m.QueryParams) {
		f = append(f, "queryParams:"+smForm(m.QueryParams[k]))
	}
	if m.Method != nil {
		f = append(f, "method:"+smForm(m.Method))
	}
	if m.Authority != nil {
		f = append(f, "authority:"+smForm(m.Authority))
	}
	if m.Scheme != nil {
		f = append(f, "scheme:"+smForm(m.Scheme))
	}
	if m.Port != 0 {
		f = append(f, "port:eq")
	}
	if len(m.SourceLabels) > 0 {
		f = append(f, "sourceLabels:subset")
	}
	if m.SourceNamespace != "" {
		f = append(f, "sourceNamespace:eq")
	}
	if len(m.Gateways) > 0 {
		f = append(f, "gateways:member")
	}
	return f
}

func sortedKeys[V any](m map[string]V) []string {
	out := make([]string, 0, len(m))
	for k := range m {
		out = append(out, k)
	}
	sort.Strings(out)
	return out
}

// action computes the documented effect of a rule.
func (rw *refWorld) action(v *vsDef, h *networking.HTTPRoute, sc scope) (outcome, string) {
	switch {
	case h.Redirect != nil:
		rd := h.Redirect
		o := outcome{Kind: "redirect", RHost: rd.Authority, RPath: rd.Uri, RPrefix: rd.PrefixRewrite, RScheme: rd.Scheme, RCode: int(rd.RedirectCode)}
		if o.RCode == 0 {
			o.RCode = 301 // "The default response code is MOVED_PERMANENTLY (301)."
		}
		switch p := rd.RedirectPort.(type) {
		case *networking.HTTPRedirect_Port:
			o.RPort = p.Port
		case *networking.HTTPRedirect_DerivePort:
			if p.DerivePort == networking.HTTPRedirect_FROM_REQUEST_PORT {
				o.RPort = uint32(sc.port)
			}
			// FROM_PROTOCOL_DEFAULT: 80 for HTTP, 443 for HTTPS == no explicit port
		}
		o.RPort = normRedirectPort(o.RPort, o.RScheme)
		return o, ""
	case h.DirectResponse != nil:
		o := outcome{Kind: "direct", Status: h.DirectResponse.Status}
		switch b := h.DirectResponse.GetBody().GetSpecifier().(type) {
		case *networking.HTTPBody_String_:
			o.Body = b.String_
		case *networking.HTTPBody_Bytes:
			o.Body = string(b.Bytes)
		}
		return o, ""
	}
	o := outcome{Kind: "route", Clusters: map[string]int64{}}
	for _, d := range h.Route {
		host := resolveShort(d.Destination.Host, v.NS)
		var port int
		if d.Destination.Port != nil {
			port = int(d.Destination.Port.Number)
		} else if rw.q.implicitPortIsListenerPort && contains(sc.gateways, "mesh") {
			port = sc.port
		} else {
			svc := rw.svcByFQ[host]
			if svc == nil {
				return o, "destination host not in the registry"
			}
			if len(svc.Ports) != 1 {
				return o, "destination of a multi-port service without an explicit port"
			}
			// "If a service exposes only a single port it is not required to explicitly select the port."
			port = svc.Ports[0]
		}
		name := fmt.Sprintf("outbound|%d|%s|%s", port, d.Destination.Subset, host)
		w := int64(d.Weight)
		if len(h.Route) == 1 {
			w = 1 // "If there is only one destination in a rule, it will receive all traffic."
		}
		o.Clusters[name] += w // weight 0 among several: "the destination will not receive any traffic"
	}
	return o, ""
}

// ---------------------------------------------------------------------------------------
// sidecar

func (rw *refWorld) meshBound(v *vsDef) bool { return contains(v.topGateways(), "mesh") }

// resolveAuthority maps the Host header of a client in namespace ns to a registry service, the way
// cluster DNS would (search path <ns>.svc.<domain>, svc.<domain>, <domain>, then the name as given).
func (rw *refWorld) resolveAuthority(host, ns string) (*svcDef, bool) {
	cands := []string{host + "." + ns + ".svc." + domainSuffix, host + ".svc." + domainSuffix, host + "." + domainSuffix, host}
	var found *svcDef
	n := 0
	for _, c := range cands {
		if s := rw.svcByFQ[c]; s != nil {
			if found != s {
				n++
			}
			if found == nil {
				found = s
			}
		}
	}
	return found, n > 1
}

func (rw *refWorld) evalSidecar(p *proxyDef, r *request) refResult {
	host, aport, hasPort := splitAuthority(r.Authority)
	if hasPort && aport != r.Port {
		return refResult{Unspecified: "authority port differs from the port addressed"}
	}
	svc, ambiguous := rw.resolveAuthority(host, p.NS)
	if ambiguous {
		return refResult{Unspecified: "authority resolves to more than one service"}
	}
	if svc == nil || !svc.hasPort(r.Port) {
		// not a registry destination on this port: MeshConfig.outboundTrafficPolicy ALLOW_ANY (the default) passes it through.
		for _, v := range rw.w.VS {
			if !rw.meshBound(v) {
				continue
			}
			for _, h := range v.Spec.Hosts {
				if hostMatches(resolveShort(h, v.NS), host) {
					return refResult{Unspecified: "mesh VirtualService host outside the registry"}
				}
			}
		}
		return refResult{Admissible: []outcome{{Kind: "passthrough"}}}
	}
	def := outcome{Kind: "route", Clusters: map[string]int64{fmt.Sprintf("outbound|%d||%s", r.Port, svc.Host): 1}}

	// candidates: mesh-bound VirtualServices with a host matching the service, most specific first
	type cand struct {
		v    *vsDef
		spec int
	}
	var cands []cand
	for _, v := range rw.w.VS {
		if !rw.meshBound(v) {
			continue
		}
		best := -1
		for _, h := range v.Spec.Hosts {
			fh := resolveShort(h, v.NS)
			if hostMatches(fh, svc.Host) && specificity(fh) > best {
				best = specificity(fh)
			}
		}
		if best >= 0 {
			cands = append(cands, cand{v, best})
		}
	}
	if len(cands) == 0 {
		return refResult{Admissible: []outcome{def}, Default: true}
	}
	top := -1
	for _, c := range cands {
		if c.spec > top {
			top = c.spec
		}
	}
	sc := scope{gateways: []string{"mesh"}, labels: p.Labels, ns: p.NS, port: r.Port}
	var tops []*vsDef
	lower := false
	for _, c := range cands {
		if c.spec == top {
			tops = append(tops, c.v)
		} else {
			lower = true
		}
	}
	res := refResult{GroupKey: fmt.Sprintf("%s|%d|%s", p.String(), r.Port, svc.Host)}
	type candEval struct {
		v        *vsDef
		ev       vsEval
		selected bool // at least one rule of it selects this workload
	}
	var ces []candEval
	nsel := 0
	for _, v := range tops {
		ev := rw.evalVS(v, sc, r)
		if !ev.applies && ev.portOnly {
			return refResult{Unspecified: "VirtualService has no rule for this port (port is a match condition; effect on other ports undocumented)"}
		}
		// sourceLabels/sourceNamespace/gateways are selectors: without an applicable rule the VirtualService does not apply to this workload
		if ev.applies {
			nsel++
		}
		ces = append(ces, candEval{v, ev, ev.applies})
	}
	if nsel < len(tops) && lower {
		return refResult{Unspecified: "most specific VirtualService does not select this workload and a less specific one exists"}
	}
	if nsel == 0 {
		return refResult{Admissible: []outcome{def}, Default: true}
	}
	// One VirtualService for the host: definite. Several ("Host merging is not supported in sidecars", an
	// unsupported configuration): exactly one of them is in effect for the host and which one is not
	// documented; if that one does not select this workload the service keeps its default route.
	seen := map[string]bool{}
	first := true
	for _, ce := range ces {
		var o outcome
		switch {
		case !ce.selected:
			o = def
		case ce.ev.matched && ce.ev.unspecified != "":
			return refResult{Unspecified: ce.ev.unspecified}
		case ce.ev.matched:
			o = ce.ev.act
		default:
			o = outcome{Kind: "noroute"}
		}
		res.Cands = append(res.Cands, ce.v.NS+"/"+ce.v.Name)
		res.PerCand = append(res.PerCand, o.canon())
		if !seen[o.canon()] {
			seen[o.canon()] = true
			res.Admissible = append(res.Admissible, o)
		}
		if ce.selected && first {
			first = false
			res.VS, res.Rule, res.Block, res.MatchedBy = ce.v.NS+"/"+ce.v.Name, ce.ev.rule, ce.ev.block, ce.ev.features
		}
	}
	if len(tops) > 1 {
		res.Weak = "several VirtualServices for the same host on a sidecar (not merged; which one wins is not documented)"
	} else {
		res.GroupKey = ""
	}
	return res
}

// ---------------------------------------------------------------------------------------
// gateway

func selectorMatches(sel, labels map[string]string) bool {
	for k, v := range sel {
		if labels[k] != v {
			return false
		}
	}
	return true
}

func (rw *refWorld) evalGateway(p *proxyDef, r *request) refResult {
	host, aport, hasPort := splitAuthority(r.Authority)
	if hasPort && aport != r.Port {
		return refResult{Unspecified: "authority port differs from the port addressed"}
	}
	type triple struct {
		v      *vsDef
		dom    string // more specific of server host and VirtualService host: the effective domain
		vsHost string
		gw     string
	}
	var ts []triple
	gwsOf := map[*vsDef][]string{}
	for _, g := range rw.w.Gateways {
		if g.NS != p.NS || !selectorMatches(g.Selector, p.Labels) {
			continue
		}
		for _, s := range g.Servers {
			if s.Port != r.Port {
				continue
			}
			for _, sh := range s.Hosts {
				nsSel, pat := "*", sh
				if i := strings.Index(sh, "/"); i >= 0 {
					nsSel, pat = sh[:i], sh[i+1:]
				}
				if nsSel == "." {
					nsSel = g.NS
				}
				if !hostMatches(pat, host) {
					continue
				}
				for _, v := range rw.w.VS {
					if !contains(v.topGateways(), g.fullName()) {
						continue
					}
					if nsSel != "*" && nsSel != v.NS {
						continue
					}
					for _, vh := range v.Spec.Hosts {
						fh := resolveShort(vh, v.NS)
						if !hostMatches(fh, host) {
							continue
						}
						dom := fh
						if specificity(pat) > specificity(fh) {
							dom = pat
						}
						ts = append(ts, triple{v, strings.ToLower(dom), fh, g.fullName()})
						if !contains(gwsOf[v], g.fullName()) {
							gwsOf[v] = append(gwsOf[v], g.fullName())
						}
					}
				}
			}
		}
	}
	if len(ts) == 0 {
		return refResult{Admissible: []outcome{{Kind: "noroute"}}}
	}
	// evaluate every candidate once; a VirtualService none of whose rules is bound to this gateway
	// (match-level gateways) does not apply here and is ignored. One excluded only by a port condition
	// is kept as a marker: the documentation does not say what it means for the other ports.
	evs := map[*vsDef]vsEval{}
	for _, t := range ts {
		if _, ok := evs[t.v]; ok {
			continue
		}
		v := t.v
		if len(gwsOf[v]) > 1 {
			for _, h := range v.Spec.Http {
				for _, m := range h.Match {
					if len(m.Gateways) > 0 {
						return refResult{Unspecified: "same host and port served through two Gateways with match-level gateways"}
					}
				}
			}
		}
		evs[v] = rw.evalVS(v, scope{gateways: gwsOf[v], labels: p.Labels, ns: p.NS, port: r.Port}, r)
	}
	var live []triple
	for _, t := range ts {
		if ev := evs[t.v]; ev.applies || ev.portOnly {
			live = append(live, t)
		}
	}
	if len(live) == 0 {
		return refResult{Admissible: []outcome{{Kind: "noroute"}}}
	}
	bestDom, bestVS := -1, -1
	for _, t := range live {
		if specificity(t.dom) > bestDom {
			bestDom = specificity(t.dom)
		}
		if specificity(t.vsHost) > bestVS {
			bestVS = specificity(t.vsHost)
		}
	}
	group := func(sel func(t triple) bool) []*vsDef {
		var out []*vsDef
		for _, t := range live {
			if !sel(t) {
				continue
			}
			dup := false
			for _, o := range out {
				if o == t.v {
					dup = true
				}
			}
			if !dup {
				out = append(out, t.v)
			}
		}
		sort.Slice(out, func(i, j int) bool { return out[i].Seq < out[j].Seq })
		return out
	}
	gB := group(func(t triple) bool { return specificity(t.dom) == bestDom })
	gA := group(func(t triple) bool { return specificity(t.vsHost) == bestVS })

	resB := rw.mergeGatewayGroup(gB, evs)
	if resB.Unspecified != "" {
		return resB
	}
	same := len(gA) == len(gB)
	if same {
		for i := range gA {
			if gA[i] != gB[i] {
				same = false
			}
		}
	}
	if !same {
		resA := rw.mergeGatewayGroup(gA, evs)
		if resA.Unspecified != "" {
			return resA
		}
		seen := map[string]bool{}
		for _, o := range resB.Admissible {
			seen[o.canon()] = true
		}
		for _, o := range resA.Admissible {
			if !seen[o.canon()] {
				seen[o.canon()] = true
				resB.Admissible = append(resB.Admissible, o)
			}
		}
		if len(resB.Admissible) > 1 && resB.Weak == "" {
			resB.Weak = "server host narrows VirtualService hosts of different specificity to one domain (merge vs most-specific undocumented)"
		}
	}
	return resB
}

// mergeGatewayGroup: VirtualServices sharing the effective domain are merged (operations guide,
// "split large virtual services"): rule order inside each is kept, the order across resources is
// undefined, catch-all rules are moved to the end.
func (rw *refWorld) mergeGatewayGroup(vss []*vsDef, evs map[*vsDef]vsEval) refResult {
	res := refResult{}
	var nonCA, plainCA, ambCA []vsEval
	var names []string
	first := true
	for _, v := range vss {
		ev := evs[v]
		if !ev.applies {
			return refResult{Unspecified: "VirtualService has no rule for this port (port is a match condition; effect on other ports undocumented)"}
		}
		if !ev.matched {
			continue
		}
		if ev.unspecified != "" {
			return refResult{Unspecified: ev.unspecified}
		}
		names = append(names, v.NS+"/"+v.Name)
		if first {
			res.VS, res.Rule, res.Block, res.MatchedBy = v.NS+"/"+v.Name, ev.rule, ev.block, ev.features
			first = false
		}
		switch ev.class {
		case classNonCA:
			nonCA = append(nonCA, ev)
		case classPlainCA:
			plainCA = append(plainCA, ev)
		default:
			ambCA = append(ambCA, ev)
		}
	}
	res.Cands = names
	res.Merged = len(vss)
	seen := map[string]bool{}
	add := func(evs []vsEval) {
		for _, ev := range evs {
			if !seen[ev.act.canon()] {
				seen[ev.act.canon()] = true
				res.Admissible = append(res.Admissible, ev.act)
			}
		}
	}
	if len(nonCA)+len(plainCA)+len(ambCA) == 0 {
		res.Admissible = []outcome{{Kind: "noroute"}}
	} else {
		// every interpretation of the ambiguous ones: as non-catch-all they compete with nonCA, as catch-all with plainCA
		add(nonCA)
		add(ambCA)
		if len(nonCA) == 0 {
			add(plainCA)
		}
	}
	if len(res.Admissible) > 1 {
		res.Weak = "several VirtualServices merged on a gateway host: cross-resource rule order is undefined"
	}
	return res
}

func (rw *refWorld) eval(p *proxyDef, r *request) refResult {
	if p.Kind == "gateway" {
		return rw.evalGateway(p, r)
	}
	return rw.evalSidecar(p, r)
}
