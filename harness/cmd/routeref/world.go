package main

// World generator for C12: services (ServiceEntries), DestinationRule subsets, Gateways and
// VirtualServices drawn from the grammar stated in the property. Everything random comes from
// the *rand.Rand handed in; no map iteration influences a draw.

import (
	"fmt"
	"math/rand"
	"sort"
	"strings"
	"time"

	"google.golang.org/protobuf/proto"
	"google.golang.org/protobuf/types/known/durationpb"

	networking "istio.io/api/networking/v1alpha3"
	"istio.io/istio/pkg/config"
	"istio.io/istio/pkg/config/schema/gvk"
)

const (
	domainSuffix = "cluster.local"
	gwNamespace  = "istio-system"
)

var namespaces = []string{"ns1", "ns2", "ns3"}

type svcDef struct {
	Host    string   `json:"host"`
	NS      string   `json:"ns"`
	Ports   []int    `json:"ports"`
	K8s     bool     `json:"k8s"`
	Subsets []string `json:"subsets,omitempty"`
}

func (s *svcDef) hasPort(p int) bool {
	for _, q := range s.Ports {
		if q == p {
			return true
		}
	}
	return false
}

type gwServer struct {
	Port  int      `json:"port"`
	Hosts []string `json:"hosts"`
}

type gwDef struct {
	NS       string            `json:"ns"`
	Name     string            `json:"name"`
	Selector map[string]string `json:"selector"`
	Servers  []gwServer        `json:"servers"`
}

func (g *gwDef) fullName() string { return g.NS + "/" + g.Name }

type proxyDef struct {
	Kind   string            `json:"kind"` // sidecar | gateway
	NS     string            `json:"ns"`
	Labels map[string]string `json:"labels"`
}

func (p *proxyDef) String() string {
	keys := make([]string, 0, len(p.Labels))
	for k := range p.Labels {
		keys = append(keys, k)
	}
	sort.Strings(keys)
	var sb strings.Builder
	for _, k := range keys {
		fmt.Fprintf(&sb, "%s=%s,", k, p.Labels[k])
	}
	return fmt.Sprintf("%s/%s{%s}", p.Kind, p.NS, strings.TrimSuffix(sb.String(), ","))
}

// vsDef is one generated VirtualService that passed validation.
type vsDef struct {
	Name string
	NS   string
	Seq  int // creation order (older = smaller)
	Spec *networking.VirtualService
}

type world struct {
	Services []*svcDef
	Gateways []*gwDef
	VS       []*vsDef
	Proxies  []*proxyDef

	Generated int
	Rejected  int
	RejectWhy []string
}

var baseTime = time.Date(2024, 1, 1, 0, 0, 0, 0, time.UTC)

func pick[T any](r *rand.Rand, xs []T) T { return xs[r.Intn(len(xs))] }

func chance(r *rand.Rand, pct int) bool { return r.Intn(100) < pct }

// ---------------------------------------------------------------------------------------
// literal pools

var (
	pathPool = []string{"/", "/api", "/api/", "/api/v1", "/api/v1/users", "/api/v2", "/static", "/static/img", "/Admin", "/admin/panel", "/health", "/a", "/a/b", "/v1"}
	// regex -> nothing else needed here; samples for requests live in requests.go
	uriRegexPool = []string{"/api/v[0-9]+", "/api/v[0-9]+/.*", "/user/[a-z]+/profile", ".*", "/.*", "/a|/b", "(?i)/mixed/case", "/static/.+\\.png", "/v1/(foo|bar)", "^/anch/ored$", "/[A-Z]+"}
	headerNames  = []string{"x-user", "x-env", "x-canary", "end-user", "x-b3"}
	headerValues = []string{"alice", "bob", "prod", "staging", "true", "1", ""}
	valRegexPool = []string{"a.*", "(alice|bob)", "[0-9]+", "pro.", "(?i)PROD", ".*", "\\d+$", "^t", "v[12]"}
	queryNames   = []string{"q", "page", "debug", "ver"}
	queryValues  = []string{"1", "true", "abc", "abx", "123", ""}
	methodPool   = []string{"GET", "POST", "PUT", "DELETE", "HEAD"}
	methodRegex  = []string{"GET|HEAD", "P.*", "(?i)get"}
	labelSets    = []map[string]string{{"app": "a"}, {"app": "a", "version": "v1"}, {"app": "b"}, {"version": "v2"}, {"app": "a", "version": "v2"}}
	gwHostPool   = []string{"shop.example.org", "api.example.org", "www.example.org", "pay.shop.example.org"}
	gwWildPool   = []string{"*.example.org", "*.shop.example.org", "*"}
	bodyPool     = []string{"", "ok", "unknown error", "{\"error\": \"x\"}"}
)

// ---------------------------------------------------------------------------------------

func genWorld(r *rand.Rand) *world {
	w := &world{}

	// services
	nsvc := 3 + r.Intn(4)
	seen := map[string]bool{}
	names := []string{"a", "b", "c", "d", "e", "f"}
	for len(w.Services) < nsvc {
		s := &svcDef{}
		n := pick(r, names)
		switch r.Intn(5) {
		case 0, 1:
			s.K8s = true
			s.NS = pick(r, namespaces)
			s.Host = fmt.Sprintf("%s.%s.svc.%s", n, s.NS, domainSuffix)
		case 2, 3:
			s.NS = pick(r, namespaces)
			s.Host = n + ".example.com"
		default:
			s.NS = pick(r, namespaces)
			s.Host = n + ".corp.example.com"
		}
		if seen[s.Host] {
			continue
		}
		seen[s.Host] = true
		ports := []int{80, 8080, 9090}
		r.Shuffle(len(ports), func(i, j int) { ports[i], ports[j] = ports[j], ports[i] })
		np := 1
		if chance(r, 40) {
			np = 2
		}
		s.Ports = append(s.Ports, ports[:np]...)
		sort.Ints(s.Ports)
		if chance(r, 60) {
			s.Subsets = []string{"v1", "v2"}
			if chance(r, 30) {
				s.Subsets = []string{"v1"}
			}
		}
		w.Services = append(w.Services, s)
	}

	// a namespace whose NAME merely starts with another namespace's name ("ns1" / "ns10", as "prod" / "prod-canary"):
	// a same-named Kubernetes service there must not be taken for a service of the shorter namespace when short
	// names are resolved
	if chance(r, 35) {
		for _, s := range w.Services {
			if s.K8s && s.NS == "ns1" {
				n := strings.SplitN(s.Host, ".", 2)[0]
				h := fmt.Sprintf("%s.ns10.svc.%s", n, domainSuffix)
				if !seen[h] {
					seen[h] = true
					c := *s
					c.NS, c.Host = "ns10", h
					c.Ports = append([]int{}, s.Ports...)
					c.Subsets = nil
					w.Services = append(w.Services, &c)
				}
				break
			}
		}
	}

	// gateways
	ingressSel := map[string]string{"istio": "ingressgateway"}
	ngw := 1 + r.Intn(2)
	for i := 0; i < ngw; i++ {
		g := &gwDef{NS: gwNamespace, Name: fmt.Sprintf("gw-%c", 'a'+i), Selector: ingressSel}
		nsrv := 1 + r.Intn(2)
		for j := 0; j < nsrv; j++ {
			g.Servers = append(g.Servers, gwServer{Port: pick(r, []int{80, 8080}), Hosts: genServerHosts(r, w)})
		}
		w.Gateways = append(w.Gateways, g)
	}
	if chance(r, 30) {
		// a gateway that does not select the proxy under test; VirtualServices bound only to it have no effect
		w.Gateways = append(w.Gateways, &gwDef{NS: gwNamespace, Name: "gw-x", Selector: map[string]string{"istio": "other"},
			Servers: []gwServer{{Port: 80, Hosts: []string{"*"}}}})
	}

	// proxies
	w.Proxies = []*proxyDef{
		{Kind: "sidecar", NS: "ns1", Labels: map[string]string{"app": "a", "version": "v1"}},
		{Kind: "sidecar", NS: pick(r, []string{"ns2", "ns3"}), Labels: pick(r, []map[string]string{{"app": "b"}, {"app": "a", "version": "v2"}, {}})},
		{Kind: "gateway", NS: gwNamespace, Labels: map[string]string{"istio": "ingressgateway"}},
	}
	return w
}

func genServerHosts(r *rand.Rand, w *world) []string {
	n := 1 + r.Intn(2)
	var out []string
	for len(out) < n {
		var h string
		switch r.Intn(8) {
		case 0, 1:
			h = "*"
		case 2:
			h = pick(r, gwWildPool)
		case 3, 4:
			h = pick(r, gwHostPool)
		case 5:
			h = "*.example.com"
		default:
			h = pick(r, w.Services).Host
		}
		if chance(r, 25) {
			h = pick(r, []string{"ns1", "ns2", "*", "."}) + "/" + h
		}
		if h == "*/*" {
			// "*/*" together with a later "./x" or "*/x" host crashes mergeGateways in the pinned tree
			// (sanitizeServerHostNamespace, index out of range) - not this property's subject; keep it alone.
			return []string{h}
		}
		dup := false
		for _, o := range out {
			if o == h {
				dup = true
			}
		}
		if !dup {
			out = append(out, h)
		}
	}
	return out
}

// boundServerHosts lists the host patterns (namespace prefix stripped) of the servers of the gateways a
// VirtualService in namespace ns binds to.
func boundServerHosts(w *world, gateways []string, ns string) []string {
	var out []string
	for _, g := range w.Gateways {
		bound := false
		for _, n := range gateways {
			if n == g.NS+"/"+g.Name || (n == g.Name && ns == g.NS) {
				bound = true
			}
		}
		if !bound {
			continue
		}
		for _, s := range g.Servers {
			for _, h := range s.Hosts {
				if i := strings.Index(h, "/"); i >= 0 {
					h = h[i+1:]
				}
				out = append(out, h)
			}
		}
	}
	return out
}

// ---------------------------------------------------------------------------------------
// VirtualService generator

type vsCtx struct {
	w        *world
	ns       string
	gateways []string // as written in the spec (may be short names)
	meshOnly bool     // applies to sidecars only (no gateways or [mesh])
	hasMesh  bool
	hosts    []string // as written
}

func genVirtualService(r *rand.Rand, w *world) (string, *networking.VirtualService) {
	ns := pick(r, append(append([]string{}, namespaces...), gwNamespace))
	if chance(r, 70) {
		ns = pick(r, namespaces)
	}
	cx := &vsCtx{w: w, ns: ns}
	vs := &networking.VirtualService{}

	// binding
	realGws := []*gwDef{}
	for _, g := range w.Gateways {
		realGws = append(realGws, g)
	}
	gwRef := func(g *gwDef) string {
		if g.NS == ns && chance(r, 50) {
			return g.Name // short form = same namespace as the VirtualService
		}
		return g.NS + "/" + g.Name
	}
	switch k := r.Intn(10); {
	case k < 4: // mesh, implicit
		cx.meshOnly, cx.hasMesh = true, true
	case k < 5:
		vs.Gateways = []string{"mesh"}
		cx.meshOnly, cx.hasMesh = true, true
	case k < 8:
		vs.Gateways = []string{gwRef(pick(r, realGws))}
		if len(realGws) > 1 && chance(r, 25) {
			g2 := gwRef(pick(r, realGws))
			if g2 != vs.Gateways[0] {
				vs.Gateways = append(vs.Gateways, g2)
			}
		}
	default:
		vs.Gateways = []string{gwRef(pick(r, realGws)), "mesh"}
		if chance(r, 50) {
			vs.Gateways[0], vs.Gateways[1] = vs.Gateways[1], vs.Gateways[0]
		}
		cx.hasMesh = true
	}
	cx.gateways = vs.Gateways

	// hosts
	nh := 1
	if chance(r, 30) {
		nh = 2
	}
	for len(vs.Hosts) < nh {
		var h string
		k := r.Intn(10)
		if cx.meshOnly {
			switch {
			case k < 7:
				s := pick(r, w.Services)
				h = s.Host
				if s.K8s && s.NS == ns && chance(r, 40) {
					h = strings.SplitN(s.Host, ".", 2)[0] // short name, resolved against the rule's namespace
				}
			case k < 9:
				h = pick(r, []string{"*.example.com", "*.corp.example.com", "*.ns3.svc.cluster.local", "*.ns1.svc.cluster.local", "*.ns2.svc.cluster.local"})
				if chance(r, 12) {
					h = pick(r, []string{"*.com", "*.local", "*.svc.cluster.local"})
				}
			default:
				h = "ghost.example.com"
				if chance(r, 30) {
					h = "*" // must be rejected for mesh
				}
			}
		} else if sh := boundServerHosts(w, vs.Gateways, ns); len(sh) > 0 && chance(r, 65) {
			// derive the host from a server host of a bound gateway so that they intersect
			pat := pick(r, sh)
			switch {
			case pat == "*":
				h = pick(r, append(append([]string{}, gwHostPool...), pick(r, w.Services).Host, "*.example.org", "*"))
			case strings.HasPrefix(pat, "*"):
				switch {
				case k < 6:
					h = concretiseHost(r, w, pat, ns)
				case k < 8:
					h = pat
				case k < 9:
					h = "*"
				default:
					h = "*.sub" + pat[1:]
				}
			default:
				h = pat
				if k >= 8 {
					if i := strings.Index(pat, "."); i > 0 {
						h = "*" + pat[i:]
					}
				}
			}
		} else {
			switch {
			case k < 4:
				h = pick(r, gwHostPool)
			case k < 6:
				h = pick(r, gwWildPool)
			case k < 9:
				h = pick(r, w.Services).Host
			default:
				h = pick(r, []string{"*.example.com", "*.corp.example.com"})
			}
		}
		dup := false
		for _, o := range vs.Hosts {
			if o == h {
				dup = true
			}
		}
		if !dup {
			vs.Hosts = append(vs.Hosts, h)
		}
	}
	cx.hosts = vs.Hosts

	// rules
	nr := 1 + r.Intn(4)
	for i := 0; i < nr; i++ {
		last := i == nr-1
		vs.Http = append(vs.Http, genRule(r, cx, i, last))
	}
	return ns, vs
}

func genRule(r *rand.Rand, cx *vsCtx, i int, last bool) *networking.HTTPRoute {
	h := &networking.HTTPRoute{Name: fmt.Sprintf("r%d", i)}
	nm := 1
	switch k := r.Intn(10); {
	case last && k < 5, !last && k < 1:
		nm = 0
	case k < 8:
		nm = 1
	default:
		nm = 2 + r.Intn(2)
	}
	for j := 0; j < nm; j++ {
		m := genMatch(r, cx)
		if chance(r, 30) {
			m.Name = fmt.Sprintf("m%d", j)
		}
		h.Match = append(h.Match, m)
	}
	// action
	switch k := r.Intn(10); {
	case k < 6:
		h.Route = genDestinations(r, cx)
		if chance(r, 15) {
			h.Rewrite = &networking.HTTPRewrite{Uri: pick(r, []string{"/", "/new", "/v2/"})}
		}
		if chance(r, 15) {
			h.Timeout = durationpb.New(time.Duration(1+r.Intn(5)) * time.Second)
		}
		if chance(r, 10) {
			h.Headers = &networking.Headers{Request: &networking.Headers_HeaderOperations{Set: map[string]string{"x-added": "1"}}}
		}
	case k < 8:
		h.Redirect = genRedirect(r, h.Match)
	default:
		h.DirectResponse = genDirect(r)
	}
	if chance(r, 1) {
		// invalid on purpose: both route and redirect (rejected by validation)
		h.Redirect = &networking.HTTPRedirect{Uri: "/both"}
		h.Route = genDestinations(r, cx)
	}
	return h
}

func genStringMatch(r *rand.Rand, exact []string, regex []string, allowEmptyPrefix bool) *networking.StringMatch {
	switch k := r.Intn(10); {
	case k < 4:
		return &networking.StringMatch{MatchType: &networking.StringMatch_Exact{Exact: pick(r, exact)}}
	case k < 7:
		v := pick(r, exact)
		if v == "" && !allowEmptyPrefix && chance(r, 93) {
			v = "a"
		}
		if len(v) > 2 && chance(r, 50) {
			v = v[:1+r.Intn(len(v)-1)]
		}
		return &networking.StringMatch{MatchType: &networking.StringMatch_Prefix{Prefix: v}}
	default:
		return &networking.StringMatch{MatchType: &networking.StringMatch_Regex{Regex: pick(r, regex)}}
	}
}

func genMatch(r *rand.Rand, cx *vsCtx) *networking.HTTPMatchRequest {
	m := &networking.HTTPMatchRequest{}
	// uri
	if chance(r, 70) {
		switch k := r.Intn(10); {
		case k < 3:
			m.Uri = &networking.StringMatch{MatchType: &networking.StringMatch_Exact{Exact: pick(r, pathPool)}}
		case k < 7:
			p := pick(r, pathPool)
			if chance(r, 3) {
				p = ""
			}
			m.Uri = &networking.StringMatch{MatchType: &networking.StringMatch_Prefix{Prefix: p}}
		default:
			re := pick(r, uriRegexPool)
			if chance(r, 2) {
				re = pick(r, []string{"/api/(v1", "*", ""}) // invalid regexes: rejected by validation
			}
			m.Uri = &networking.StringMatch{MatchType: &networking.StringMatch_Regex{Regex: re}}
		}
		if chance(r, 30) {
			m.IgnoreUriCase = true
		}
	}
	// headers
	if chance(r, 30) {
		m.Headers = map[string]*networking.StringMatch{}
		n := 1 + r.Intn(2)
		for i := 0; i < n; i++ {
			name := pick(r, headerNames)
			if chance(r, 25) {
				m.Headers[name] = &networking.StringMatch{} // presence
			} else {
				m.Headers[name] = genStringMatch(r, headerValues, valRegexPool, false)
			}
		}
	}
	if chance(r, 20) {
		m.WithoutHeaders = map[string]*networking.StringMatch{}
		name := pick(r, headerNames)
		if chance(r, 30) {
			m.WithoutHeaders[name] = &networking.StringMatch{}
		} else {
			sm := genStringMatch(r, headerValues, valRegexPool, false)
			for k := 0; k < 3 && matchesEmpty(sm) && chance(r, 85); k++ {
				sm = genStringMatch(r, headerValues, valRegexPool, false)
			}
			m.WithoutHeaders[name] = sm
		}
	}
	if chance(r, 25) {
		m.QueryParams = map[string]*networking.StringMatch{}
		n := 1 + r.Intn(2)
		for i := 0; i < n; i++ {
			m.QueryParams[pick(r, queryNames)] = genStringMatch(r, queryValues, valRegexPool, false)
		}
	}
	if chance(r, 15) {
		if chance(r, 75) {
			m.Method = &networking.StringMatch{MatchType: &networking.StringMatch_Exact{Exact: pick(r, methodPool)}}
		} else if chance(r, 50) {
			m.Method = &networking.StringMatch{MatchType: &networking.StringMatch_Regex{Regex: pick(r, methodRegex)}}
		} else {
			m.Method = &networking.StringMatch{MatchType: &networking.StringMatch_Prefix{Prefix: pick(r, []string{"P", "GE", "D"})}}
		}
	}
	if chance(r, 12) {
		m.Authority = genAuthorityMatch(r, cx)
	}
	if chance(r, 8) {
		m.Scheme = &networking.StringMatch{MatchType: &networking.StringMatch_Exact{Exact: pick(r, []string{"http", "https"})}}
		if chance(r, 20) {
			m.Scheme = &networking.StringMatch{MatchType: &networking.StringMatch_Prefix{Prefix: "http"}}
		}
	}
	if chance(r, 15) {
		m.Port = uint32(pick(r, []int{80, 8080, 9090}))
	}
	// source scoping: only where the API reference defines it (mesh-only VirtualService, no match-level gateways)
	if cx.meshOnly {
		if chance(r, 20) {
			m.SourceLabels = pick(r, labelSets)
		}
		if chance(r, 15) {
			m.SourceNamespace = pick(r, namespaces)
		}
	}
	// match-level gateways: a non-empty subset of the effective top-level binding
	if len(m.SourceLabels) == 0 && m.SourceNamespace == "" && chance(r, 15) {
		eff := cx.gateways
		if len(eff) == 0 {
			eff = []string{"mesh"}
		}
		g := pick(r, eff)
		m.Gateways = []string{g}
		if len(eff) > 1 && chance(r, 20) {
			m.Gateways = append([]string{}, eff...)
		}
	}
	if isEmptyMatch(m) {
		// HTTPMatchRequest cannot be empty per the reference; give it a uri
		m.Uri = &networking.StringMatch{MatchType: &networking.StringMatch_Prefix{Prefix: pick(r, pathPool)}}
	}
	return m
}

// matchesEmpty: does the pattern accept the empty string (used only to balance the generator).
func matchesEmpty(sm *networking.StringMatch) bool {
	switch m := sm.GetMatchType().(type) {
	case *networking.StringMatch_Exact:
		return m.Exact == ""
	case *networking.StringMatch_Prefix:
		return m.Prefix == ""
	case *networking.StringMatch_Regex:
		for _, x := range []string{".*", "[0-9]*", "a*"} {
			if m.Regex == x {
				return true
			}
		}
	}
	return false
}

func isEmptyMatch(m *networking.HTTPMatchRequest) bool {
	return m.Uri == nil && len(m.Headers) == 0 && len(m.WithoutHeaders) == 0 && len(m.QueryParams) == 0 && m.Method == nil &&
		m.Authority == nil && m.Scheme == nil && m.Port == 0 && len(m.SourceLabels) == 0 && m.SourceNamespace == "" && len(m.Gateways) == 0
}

func genAuthorityMatch(r *rand.Rand, cx *vsCtx) *networking.StringMatch {
	// literals derived from the hosts of this VirtualService so that witnesses exist
	h := pick(r, cx.hosts)
	conc := concretiseHost(r, cx.w, h, cx.ns)
	switch k := r.Intn(10); {
	case k < 4:
		return &networking.StringMatch{MatchType: &networking.StringMatch_Exact{Exact: conc}}
	case k < 6:
		return &networking.StringMatch{MatchType: &networking.StringMatch_Exact{Exact: fmt.Sprintf("%s:%d", conc, pick(r, []int{80, 8080, 9090}))}}
	case k < 8:
		return &networking.StringMatch{MatchType: &networking.StringMatch_Prefix{Prefix: conc[:1+r.Intn(len(conc))]}}
	default:
		return &networking.StringMatch{MatchType: &networking.StringMatch_Regex{Regex: strings.ReplaceAll(conc, ".", "\\.") + "(:[0-9]+)?"}}
	}
}

// concretiseHost turns a VirtualService host (possibly wildcard or short) into one concrete DNS name.
func concretiseHost(r *rand.Rand, w *world, h, ns string) string {
	if !strings.Contains(h, ".") && h != "*" {
		return h + "." + ns + ".svc." + domainSuffix
	}
	if !strings.HasPrefix(h, "*") {
		return h
	}
	// prefer a registry service matched by the wildcard
	var m []string
	for _, s := range w.Services {
		if hostMatches(h, s.Host) {
			m = append(m, s.Host)
		}
	}
	for _, g := range gwHostPool {
		if hostMatches(h, g) {
			m = append(m, g)
		}
	}
	if len(m) > 0 && chance(r, 85) {
		return pick(r, m)
	}
	if h == "*" {
		return "any.example.net"
	}
	return "zz" + h[1:]
}

func genDestinations(r *rand.Rand, cx *vsCtx) []*networking.HTTPRouteDestination {
	n := 1
	if chance(r, 40) {
		n = 2 + r.Intn(2)
	}
	var out []*networking.HTTPRouteDestination
	for i := 0; i < n; i++ {
		s := pick(r, cx.w.Services)
		d := &networking.Destination{Host: s.Host}
		if s.K8s && s.NS == cx.ns && chance(r, 30) {
			d.Host = strings.SplitN(s.Host, ".", 2)[0]
		}
		if len(s.Subsets) > 0 && chance(r, 60) {
			d.Subset = pick(r, s.Subsets)
		}
		if len(s.Ports) > 1 || chance(r, 75) {
			// the reference requires an explicit port for multi-port services
			d.Port = &networking.PortSelector{Number: uint32(pick(r, s.Ports))}
		}
		out = append(out, &networking.HTTPRouteDestination{Destination: d})
	}
	if n == 1 {
		switch r.Intn(4) {
		case 0:
			out[0].Weight = 100
		case 1:
			out[0].Weight = int32(r.Intn(50))
		}
		return out
	}
	switch r.Intn(4) {
	case 0: // sums to 100
		rem := 100
		for i := 0; i < n-1; i++ {
			x := r.Intn(rem + 1)
			out[i].Weight = int32(x)
			rem -= x
		}
		out[n-1].Weight = int32(rem)
	case 1: // arbitrary relative weights
		for i := range out {
			out[i].Weight = int32(1 + r.Intn(9))
		}
	case 2: // some zero
		for i := range out {
			out[i].Weight = int32(r.Intn(3) * 25)
		}
	default: // all unset: rejected by validation (total weight 0)
		if chance(r, 90) {
			for i := range out {
				out[i].Weight = int32(10 * (i + 1))
			}
		}
	}
	return out
}

func genRedirect(r *rand.Rand, matches []*networking.HTTPMatchRequest) *networking.HTTPRedirect {
	rd := &networking.HTTPRedirect{}
	allPrefix := true
	for _, m := range matches {
		if m.Uri != nil {
			if _, ok := m.Uri.MatchType.(*networking.StringMatch_Prefix); !ok {
				allPrefix = false
			}
		}
	}
	switch k := r.Intn(10); {
	case k < 4:
		rd.Uri = pick(r, []string{"/moved", "/v2/new", "/"})
	case k < 6 && (allPrefix || chance(r, 5)):
		rd.PrefixRewrite = pick(r, []string{"/", "/bar", "/new/"})
	}
	if chance(r, 50) {
		rd.Authority = pick(r, []string{"new.example.com", "other.example.org:8443", "b.example.com"})
	}
	if chance(r, 30) {
		rd.Scheme = pick(r, []string{"http", "https"})
		if chance(r, 3) {
			rd.Scheme = "ftp" // rejected
		}
	}
	switch r.Intn(6) {
	case 0:
		rd.RedirectPort = &networking.HTTPRedirect_Port{Port: uint32(pick(r, []int{80, 443, 8080, 8443}))}
	case 1:
		rd.RedirectPort = &networking.HTTPRedirect_DerivePort{DerivePort: networking.HTTPRedirect_FROM_REQUEST_PORT}
	case 2:
		rd.RedirectPort = &networking.HTTPRedirect_DerivePort{DerivePort: networking.HTTPRedirect_FROM_PROTOCOL_DEFAULT}
	}
	if chance(r, 50) {
		rd.RedirectCode = uint32(pick(r, []int{301, 302, 303, 307, 308}))
		if chance(r, 4) {
			rd.RedirectCode = 200 // rejected
		}
	}
	return rd
}

func genDirect(r *rand.Rand) *networking.HTTPDirectResponse {
	d := &networking.HTTPDirectResponse{Status: uint32(pick(r, []int{200, 204, 401, 403, 404, 429, 500, 503}))}
	if chance(r, 3) {
		d.Status = 99 // rejected
	}
	switch r.Intn(3) {
	case 0:
		d.Body = &networking.HTTPBody{Specifier: &networking.HTTPBody_String_{String_: pick(r, bodyPool)}}
	case 1:
		d.Body = &networking.HTTPBody{Specifier: &networking.HTTPBody_Bytes{Bytes: []byte(pick(r, bodyPool))}}
	}
	return d
}

// ---------------------------------------------------------------------------------------
// config objects

func vsConfig(v *vsDef) config.Config {
	return config.Config{
		Meta: config.Meta{
			GroupVersionKind:  gvk.VirtualService,
			Name:              v.Name,
			Namespace:         v.NS,
			Domain:            domainSuffix,
			CreationTimestamp: baseTime.Add(time.Duration(v.Seq) * time.Minute),
		},
		Spec: proto.Clone(v.Spec),
	}
}

func (w *world) baseConfigs() []config.Config {
	var out []config.Config
	for i, s := range w.Services {
		se := &networking.ServiceEntry{
			Hosts:      []string{s.Host},
			Location:   networking.ServiceEntry_MESH_INTERNAL,
			Resolution: networking.ServiceEntry_STATIC,
			Endpoints:  []*networking.WorkloadEntry{{Address: fmt.Sprintf("10.1.%d.1", i+1), Labels: map[string]string{"version": "v1"}}},
		}
		for j, p := range s.Ports {
			proto := []string{"HTTP", "HTTP2", "GRPC"}[(i+j)%3]
			se.Ports = append(se.Ports, &networking.ServicePort{Number: uint32(p), Name: fmt.Sprintf("%s-%d", strings.ToLower(proto), p), Protocol: proto})
		}
		out = append(out, config.Config{
			Meta: config.Meta{GroupVersionKind: gvk.ServiceEntry, Name: fmt.Sprintf("se-%d", i), Namespace: s.NS, Domain: domainSuffix,
				CreationTimestamp: baseTime.Add(-time.Hour + time.Duration(i)*time.Minute)},
			Spec: se,
		})
		if len(s.Subsets) > 0 {
			dr := &networking.DestinationRule{Host: s.Host}
			for _, ss := range s.Subsets {
				dr.Subsets = append(dr.Subsets, &networking.Subset{Name: ss, Labels: map[string]string{"version": ss}})
			}
			out = append(out, config.Config{
				Meta: config.Meta{GroupVersionKind: gvk.DestinationRule, Name: fmt.Sprintf("dr-%d", i), Namespace: s.NS, Domain: domainSuffix,
					CreationTimestamp: baseTime.Add(-time.Hour + time.Duration(i)*time.Minute)},
				Spec: dr,
			})
		}
	}
	for i, g := range w.Gateways {
		gw := &networking.Gateway{Selector: g.Selector}
		for j, s := range g.Servers {
			gw.Servers = append(gw.Servers, &networking.Server{
				Port:  &networking.Port{Number: uint32(s.Port), Name: fmt.Sprintf("http-%d-%d", s.Port, j), Protocol: "HTTP"},
				Hosts: append([]string{}, s.Hosts...),
			})
		}
		out = append(out, config.Config{
			Meta: config.Meta{GroupVersionKind: gvk.Gateway, Name: g.Name, Namespace: g.NS, Domain: domainSuffix,
				CreationTimestamp: baseTime.Add(-time.Hour + time.Duration(i)*time.Minute)},
			Spec: gw,
		})
	}
	return out
}

func (w *world) allConfigs() []config.Config {
	out := w.baseConfigs()
	for _, v := range w.VS {
		out = append(out, vsConfig(v))
	}
	return out
}

// ---------------------------------------------------------------------------------------
// "pile" stratum: many rules in one virtual host. Two or three VirtualServices with the SAME host
// bound to the SAME gateway (the operations guide's "split large virtual services": they are
// merged into one virtual host), or one big mesh VirtualService; 5-9 rules each, most of them
// plain uri prefix/exact matches from a small nested pool so that several rules of one
// VirtualService match the same request and only their ORDER decides; a rule without match
// (catch-all) usually closes the older VirtualServices, so that it sits in the middle of the
// merged list.

var pilePathPool = []string{"/api", "/api/v1", "/api/v1/orders", "/api/v1/orders/item", "/api/v1/users", "/api/v2", "/static", "/static/img", "/static/img/large",
	"/a", "/a/b", "/a/b/c", "/health", "/admin", "/admin/panel"}

func genPile(r *rand.Rand, w *world) []*vsDef {
	var out []*vsDef
	ns := pick(r, namespaces)
	cx := &vsCtx{w: w, ns: ns}
	var hosts, gateways []string
	if chance(r, 75) {
		g := w.Gateways[0]
		gateways = []string{g.NS + "/" + g.Name}
		sh := boundServerHosts(w, gateways, ns)
		h := "shop.example.org"
		if len(sh) > 0 {
			h = pick(r, sh)
			if strings.HasPrefix(h, "*") {
				h = concretiseHost(r, w, h, ns)
			}
		}
		hosts = []string{h}
	} else {
		cx.meshOnly, cx.hasMesh = true, true
		hosts = []string{pick(r, w.Services).Host}
	}
	cx.gateways, cx.hosts = gateways, hosts
	nvs := 2 + r.Intn(2)
	if cx.meshOnly {
		nvs = 1
	}
	for k := 0; k < nvs; k++ {
		vs := &networking.VirtualService{Hosts: hosts, Gateways: gateways}
		nr := 5 + r.Intn(5)
		if cx.meshOnly {
			nr = 9 + r.Intn(8)
		}
		for i := 0; i < nr; i++ {
			h := genRule(r, cx, i, false)
			if chance(r, 75) {
				// plain nested path match: order among the rules of this VirtualService decides
				p := pick(r, pilePathPool)
				sm := &networking.StringMatch{MatchType: &networking.StringMatch_Prefix{Prefix: p}}
				if chance(r, 25) {
					sm = &networking.StringMatch{MatchType: &networking.StringMatch_Exact{Exact: p}}
				}
				h.Match = []*networking.HTTPMatchRequest{{Uri: sm}}
				if chance(r, 20) {
					h.Match[0].Headers = map[string]*networking.StringMatch{pick(r, headerNames): genStringMatch(r, headerValues, valRegexPool, false)}
				}
			}
			if i == nr-1 && chance(r, 70) {
				h.Match = nil // closing catch-all
			}
			vs.Http = append(vs.Http, h)
		}
		out = append(out, &vsDef{Name: fmt.Sprintf("pile-%d", k), NS: ns, Seq: k, Spec: vs})
	}
	return out
}

// ---------------------------------------------------------------------------------------
// "multigw" stratum: ONE VirtualService bound to TWO Gateways that the same workload serves on the
// same port (one route configuration, e.g. http.80) under different hosts, with rules scoped to one
// of the two by match-level gateways. Which Gateway a request came through is decided by its
// authority, so for every request exactly the rules bound to that Gateway (or to both) may apply.

func genMultiGW(r *rand.Rand, w *world) []*vsDef {
	sel := map[string]string{"istio": "ingressgateway"}
	port := pick(r, []int{80, 8080})
	hosts := append([]string{}, gwHostPool...)
	r.Shuffle(len(hosts), func(i, j int) { hosts[i], hosts[j] = hosts[j], hosts[i] })
	hA, hB := hosts[0], hosts[1]
	gA := &gwDef{NS: gwNamespace, Name: "gw-a", Selector: sel, Servers: []gwServer{{Port: port, Hosts: []string{hA}}}}
	gB := &gwDef{NS: gwNamespace, Name: "gw-b", Selector: sel, Servers: []gwServer{{Port: port, Hosts: []string{hB}}}}
	if chance(r, 30) {
		// a third host served by both: there the documentation does not say which rules apply (counted as unspecified)
		gA.Servers[0].Hosts = append(gA.Servers[0].Hosts, hosts[2])
		gB.Servers[0].Hosts = append(gB.Servers[0].Hosts, hosts[2])
	}
	w.Gateways = []*gwDef{gA, gB}
	ns := pick(r, namespaces)
	names := []string{gA.fullName(), gB.fullName()}
	var out []*vsDef
	nvs := 1 + r.Intn(2)
	for k := 0; k < nvs; k++ {
		cx := &vsCtx{w: w, ns: ns, gateways: names}
		vs := &networking.VirtualService{Gateways: names}
		switch r.Intn(3) {
		case 0:
			vs.Hosts = []string{hA, hB}
		case 1:
			vs.Hosts = []string{"*.example.org"}
		default:
			vs.Hosts = []string{"*"}
		}
		if k == 1 {
			// the second one is bound to one of the two only
			vs.Gateways = []string{pick(r, names)}
			cx.gateways = vs.Gateways
		}
		cx.hosts = vs.Hosts
		nr := 3 + r.Intn(4)
		for i := 0; i < nr; i++ {
			h := genRule(r, cx, i, i == nr-1)
			for _, m := range h.Match {
				m.Gateways = nil
				m.SourceLabels, m.SourceNamespace = nil, ""
				if len(vs.Gateways) > 1 && chance(r, 60) {
					m.Gateways = []string{pick(r, names)}
				}
			}
			if len(h.Match) == 0 && len(vs.Gateways) > 1 && chance(r, 50) {
				// a rule for everything that came through one Gateway
				h.Match = []*networking.HTTPMatchRequest{{Gateways: []string{pick(r, names)}, Uri: &networking.StringMatch{MatchType: &networking.StringMatch_Prefix{Prefix: "/"}}}}
			}
			vs.Http = append(vs.Http, h)
		}
		out = append(out, &vsDef{Name: fmt.Sprintf("mgw-%d", k), NS: ns, Seq: k, Spec: vs})
	}
	return out
}
